#!/bin/bash
# developer helper: statement/branch coverage of /repo/qclib reached by the quick checks (hermetic copies under /tmp/vc)
S=/tmp/vc; rm -rf $S/verif; git -C /repo worktree remove --force $S/repo 2>/dev/null; mkdir -p $S
git -C /repo worktree add -q --detach $S/repo HEAD || exit 2
rsync -a --exclude .work --exclude replays --exclude .git /verif/ $S/verif/
export VERIF_HOME=$S/verif VERIF_REPO=$S/repo PYTHONPATH=$S/repo:$S/verif PYTHONHASHSEED=0 QCLIB_VERIF=1 PYTHONWARNINGS=ignore
export OMP_NUM_THREADS=2 OPENBLAS_NUM_THREADS=2 MKL_NUM_THREADS=2 COVERAGE_FILE=$S/.coverage
cd $S/verif && ./check --setup > $S/log 2>&1
ids=$(python3 -c "import json; print(' '.join(c['property_id'] for c in json.load(open('MANIFEST.json'))['checks']))")
echo $ids | tr ' ' '\n' | xargs -P ${1:-4} -I{} bash -c "/venv/bin/python -m coverage run --branch --source=$S/repo/qclib --parallel-mode -m harness.runner {} --tier quick > $S/{}.log 2>&1; echo {} \$? >> $S/log"
cd $S && /venv/bin/python -m coverage combine >> $S/log 2>&1; /venv/bin/python -m coverage report -m --skip-covered > $S/report.txt 2>&1
echo "DONE $(date)" >> $S/log
