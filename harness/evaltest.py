"""Developer driver: run only the direct evaluation of one property module.
   /venv/bin/python -m harness.evaltest C05 [--deep] [--seed N]      (PYTHONPATH=/repo:/verif)"""
import argparse, importlib, json, os, sys, time
from harness import core

def main():
    ap = argparse.ArgumentParser(); ap.add_argument("prop"); ap.add_argument("--deep", action="store_true")
    ap.add_argument("--seed", type=int, default=0)
    a = ap.parse_args()
    prop = a.prop.upper()
    ctx = core.Ctx(prop, "thorough" if a.deep else "quick", a.seed)
    # developer mode: also read the fragment file
    frag = f"/verif/known_findings.d/{prop}.json"
    if os.path.exists(frag):
        ctx.known = [k for k in json.load(open(frag)).get("findings", []) if k["property"] == prop]
    mod = importlib.import_module(f"harness.props.{prop.lower()}_eval")
    t0 = time.time()
    mod.evaluate(ctx, a.deep)
    print(f"{prop}: evaluations={ctx.evaluations} distinct={len(ctx.distinct)} violations={len(ctx.violations)} "
          f"mismatches={len(ctx.mismatches)} known_hits={ctx.known_hits} wall={time.time()-t0:.1f}s")
    print("histogram:", json.dumps(ctx.hist))
    for p, w in ctx.violations[:10]: print("VIOLATION:", w, p)
    for p, w in ctx.mismatches[:10]: print("MISMATCH:", w, p)
    ctx.cleanup()
    sys.exit(1 if ctx.violations or ctx.mismatches else 0)

if __name__ == "__main__":
    main()
