"""./check entry point.  See DESIGN.md section 2.6 for the protocol."""
import argparse
import importlib
import json
import os
import sys
import time
import traceback

from harness import core, coqtool


def setup():
    from harness import translate
    t0 = time.time()
    fails = translate.regenerate()
    for k, v in fails.items():
        print(f"translator: {k}: {v}")
    with coqtool.Lock():
        ok, out = coqtool.make(None)
    if not ok:
        print(out[-3000:])
        print("setup: Coq build FAILED")
        return 1
    bad = coqtool.scan_forbidden()
    if bad:
        print("\n".join(bad))
        return 1
    print(f"setup: Coq development built in {time.time()-t0:.0f}s")
    return 0


def run_check(prop, tier, seed, replay=None):
    from harness import translate
    mod = importlib.import_module(f"harness.props.{prop.lower()}")
    ctx = core.Ctx(prop, tier, seed, replay_mode=replay is not None)
    rc = 0
    t_start = time.time()
    try:
        if replay is not None:
            with open(replay) as f:
                data = json.load(f)
            if data.get("kind") != "input":
                print(f"replay file records a broken {data.get('kind')}: {data.get('what')}")
                print(json.dumps(data.get("detail"), indent=1)[:2000])
                # re-run the check itself: the obligation / correspondence is re-evaluated
            else:
                ok = mod.replay(ctx, data["case"])
                if ok:
                    print(f"replay: property {prop} holds on this case now")
                    return 0
                for path, what in ctx.violations[:3]:
                    print(f"# {what}")
                if not ctx.violations and ctx.known_hits:
                    # the case still fails, and it is one of the recorded findings
                    for k in ctx.known:
                        if k["id"] in ctx.known_hits:
                            print(f"KNOWN-FINDING: property={prop} {k['what']}")
                    print(f"replay: the case still fails as recorded in known_findings.json ({', '.join(ctx.known_hits)})")
                    return 0
                print(f"VIOLATION property={prop} replay={replay}")
                return 1

        # 1. regenerate translated definitions from /repo, rebuild, collect obligations
        tfails = translate.regenerate()
        for gen in getattr(mod, "GEN_FILES", []):
            if gen in tfails:
                ctx.obligation_failed(f"translator:{gen}", tfails[gen])
        coq = coqtool.check_obligations(ctx, getattr(mod, 'PROPS_FILES', None) or mod.PROPS_FILE, getattr(mod, 'COQ_TARGETS', ()))
        coq["rule"] = getattr(mod, "RULE", "")
        coq["assumptions"] = getattr(mod, "ASSUMPTIONS", [])
        coq["trusted_base"] = coq["trusted_base"] + getattr(mod, "TRUSTED", [])

        # 2. correspondence + direct evaluation on the implementation
        try:
            mod.run(ctx)
        except Exception:  # harness failure is not a property violation; fail closed
            traceback.print_exc()
            ctx.mismatch("harness exception", {"traceback": traceback.format_exc()[-2000:]})

        # 3. widen the search when a tie or a proof broke and no failing input is known yet
        if (ctx.mismatches or ctx.obligation_failures) and not ctx.violations and ctx.tier == "quick" \
                and hasattr(mod, "search"):
            # the quick tier stays a check one runs on every change: the widened search gets what is left of eight minutes
            # (at least two), then the broken tie / obligation is reported without a failing input
            budget = max(120.0, 480.0 - (time.time() - t_start))
            try:
                ctx.note(f"tie or obligation broken: widened search run (budget {budget:.0f} s)")
                ctx.deadline = time.time() + budget
                mod.search(ctx)
            except core.BudgetExhausted:
                ctx.note("widened search stopped at its time budget")
            except Exception:
                traceback.print_exc()
            finally:
                ctx.deadline = None

        for kid, n in ctx.known_hits.items():
            k = next(k for k in ctx.known if k["id"] == kid)
            print(f"KNOWN-FINDING: property={prop} {k['what']} [{kid}; {n} case(s) in this run]")

        ev = core.write_evidence(ctx, coq, extra=getattr(mod, "extra_evidence", lambda c: None)(ctx))
        if ctx.violations:
            seen = set()
            for path, what in ctx.violations:
                if path in seen or len(seen) >= 5:
                    continue
                seen.add(path)
                print(f"# {what}")
                print(f"VIOLATION property={prop} replay={path}")
            rc = 1
        elif ctx.obligation_failures or ctx.mismatches:
            path, what = (ctx.obligation_failures + ctx.mismatches)[0]
            for p, w in ctx.obligation_failures + ctx.mismatches:
                print(f"# broken: {w} ({p})")
            print(f"VIOLATION property={prop} replay={path} no-failing-input-found")
            rc = 1
        else:
            print(f"OK property={prop} tier={tier} obligations={coq['discharged']}/{coq['obligations']} "
                  f"evaluations={ctx.evaluations} distinct={len(ctx.distinct)} wall={ev['wall_s']}s")
            if coq["discharged"] != coq["obligations"]:
                print(f"VIOLATION property={prop} replay={core.VERIF}/evidence/{prop}.json no-failing-input-found")
                rc = 1
    finally:
        ctx.cleanup()
    return rc


def main():
    ap = argparse.ArgumentParser()
    ap.add_argument("prop", nargs="?")
    ap.add_argument("--tier", default=os.environ.get("VERIF_TIER", "quick"), choices=["quick", "thorough"])
    ap.add_argument("--replay")
    ap.add_argument("--setup", action="store_true")
    a = ap.parse_args()
    if a.setup:
        sys.exit(setup())
    seed = int(os.environ.get("VERIF_SEED", "0") or 0)
    sys.exit(run_check(a.prop.upper(), a.tier, seed, a.replay))


if __name__ == "__main__":
    main()
