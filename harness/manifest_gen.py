"""Writes MANIFEST.json from the table below (single source of truth for claimed checks)."""
import json, os, importlib

BASE_NOTE = ("Trusted: Coq 8.16.1 kernel/coqc with vm_compute (no native_compute); the axioms printed by Print Assumptions "
             "under each theorem (subset of: ClassicalDedekindReals.sig_forall_dec, sig_not_dec, "
             "FunctionalExtensionality.functional_extensionality_dep, Classical_Prop.classic - all declared by the standard library); "
             "the Python harness (flattener, generators, numpy/Qiskit reference evaluation); Qiskit library gates and numpy/scipy numerics "
             "are modelled as ideal/contracts, not verified. ")

CHECKS = {}   # filled by register()

def register(pid, text, note, technique, design_ref):
    CHECKS[pid] = dict(text=text, note=note, technique=technique, design_ref=design_ref)

ALL = [f"C{i:02d}" for i in range(1, 21)]
# properties whose complete check (proof obligations + ties + direct evaluation) is in place and green on the unchanged tree
READY = set(open('/verif/harness/READY').read().split()) if __import__('os').path.exists('/verif/harness/READY') else set(ALL)

def build():
    props = {}
    for line in open('/verif/properties.jsonl'):
        d = json.loads(line); props[d['id']] = d
    for pid in ALL:
        try:
            m = importlib.import_module(f"harness.props.{pid.lower()}")
        except ModuleNotFoundError as ex:
            if ex.name != f"harness.props.{pid.lower()}":
                raise              # a missing dependency (wrong interpreter) must not silently drop a claimed check
            continue
        if hasattr(m, "MANIFEST") and pid in READY:
            register(pid, **m.MANIFEST)
    checks = []
    for pid in ALL:
        if pid not in CHECKS:
            continue
        c = CHECKS[pid]
        checks.append({
            "property_id": pid,
            "quick_cmd": f"./check {pid} --tier quick",
            "thorough_cmd": f"./check {pid} --tier thorough",
            "evidence_file": f"evidence/{pid}.json",
            "replay_cmd_template": f"./check {pid} --replay {{path}}",
            "engine": "coq-proof+correspondence",
            "level_claimed": {"category": "proof", "text": c["text"], "design_ref": c["design_ref"]},
            "level_note": BASE_NOTE + c["note"],
            "technique": c["technique"],
        })
    na = [{"property_id": pid, "reason": "check not built yet in this revision of /verif (planned: see DESIGN.md section 4); not claimed"}
          for pid in ALL if pid not in CHECKS]
    man = {
        "version": 1,
        "setup_cmd": "./check --setup",
        "hooks": {"guard": "QCLIB_VERIF", "enable": "no source hooks are needed: monitors are applied by monkey-patching from the harness process; ./check exports QCLIB_VERIF=1",
                  "baseline_off_cmd": "cd /repo && /venv/bin/python -m pytest -ra -q -p no:cacheprovider --timeout=900 --continue-on-collection-errors",
                  "source_commits": [], "add_only": True},
        "engines": [{"name": "coq-proof+correspondence", "path": "coq/ + harness/",
                     "serves_properties": [c["property_id"] for c in checks],
                     "kind_free_text": "Coq 8.16 theorems about Gallina models of the circuit generators; models tied to /repo by a fail-closed ast translator (regenerated every run), by gate-list correspondence evaluated inside Coq (vm_compute), and by runtime contract monitors; numpy/Qiskit direct evaluation supplies concrete replays"}],
        "checks": checks,
        "not_applicable": na,
        "notes": "See DESIGN.md. known_findings.json lists recorded defects and fix: commits.",
    }
    with open('/verif/MANIFEST.json', 'w') as f:
        json.dump(man, f, indent=1)
    return man

if __name__ == "__main__":
    m = build()
    print(len(m["checks"]), "checks;", len(m["not_applicable"]), "not applicable")
