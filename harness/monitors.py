"""Runtime contract monitors: wrap numerical oracles used by qclib and check, on the actual arguments and results of
every call made during a run, the contract that the Coq theorems take as a premise."""
import contextlib
import numpy as np


@contextlib.contextmanager
def patched(obj, name, wrapper_factory):
    orig = getattr(obj, name)
    raw = obj.__dict__.get(name) if isinstance(obj, type) else None   # keeps staticmethod / classmethod descriptors intact
    setattr(obj, name, wrapper_factory(orig))
    try:
        yield
    finally:
        setattr(obj, name, raw if raw is not None else orig)


def schur_monitor(ctx, log):
    """scipy.linalg.schur(A, output='complex') on a normal matrix: Z unitary, T diagonal, A = Z T Z^dagger"""
    def factory(orig):
        def wrapped(a, *args, **kw):
            t, z = orig(a, *args, **kw)
            a = np.asarray(a)
            n = a.shape[0]
            err_u = float(np.abs(z.conj().T @ z - np.eye(n)).max())
            err_d = float(np.abs(t - np.diag(np.diag(t))).max())
            err_r = float(np.abs(z @ t @ z.conj().T - a).max())
            ctx.monitor("schur_contract")
            log.append((err_u, err_d, err_r))
            return t, z
        return wrapped
    return factory


def compute_gates_monitor(ctx, log):
    """qclib.unitary._compute_gates(U1, U2) -> (d, V, W): premises of the demultiplexing theorem (Demux.demux):
    V unitary, |d_i| = 1, U1 U2^dagger = V D^2 V^dagger, W = D V^dagger U2"""
    def factory(orig):
        def wrapped(g1, g2):
            d, v, w = orig(g1, g2)
            n = g1.shape[0]
            D = np.diag(d)
            e_v = float(np.abs(v.conj().T @ v - np.eye(n)).max())
            e_d = float(np.abs(np.abs(d) - 1).max())
            e_eig = float(np.abs(g1 @ g2.conj().T - v @ D @ D @ v.conj().T).max())
            e_w = float(np.abs(w - D @ v.conj().T @ g2).max())
            ctx.monitor("compute_gates_contract")
            log.append((e_v, e_d, e_eig, e_w))
            return d, v, w
        return wrapped
    return factory


def cossin_monitor(ctx, log):
    """scipy.linalg.cossin(U, p, q, separate=True) -> (u1,u2), theta, (v1h,v2h) with
    U = diag(u1,u2) [[C,-S],[S,C]] diag(v1h,v2h), all factors unitary"""
    def factory(orig):
        def wrapped(x, *args, **kw):
            res = orig(x, *args, **kw)
            if kw.get("separate"):
                (u1, u2), theta, (v1, v2) = res
                m = u1.shape[0]
                c, s = np.diag(np.cos(theta)), np.diag(np.sin(theta))
                z = np.zeros((m, m))
                rec = np.block([[u1, z], [z, u2]]) @ np.block([[c, -s], [s, c]]) @ np.block([[v1, z], [z, v2]])
                err = float(np.abs(rec - np.asarray(x)).max())
                eu = max(float(np.abs(a.conj().T @ a - np.eye(m)).max()) for a in (u1, u2, v1, v2))
                ctx.monitor("cossin_contract")
                log.append((err, eu))
            return res
        return wrapped
    return factory


import contextlib as _contextlib
import signal as _signal


class InstanceTimeout(Exception):
    """the implementation did not return within the (generous) per-instance limit"""


@_contextlib.contextmanager
def time_limit(seconds):
    """per-instance watchdog (main thread, SIGALRM): a construction that normally takes well under a second and now runs for minutes
    has stopped terminating; the check reports that instance instead of hanging"""
    def handler(signum, frame):
        raise InstanceTimeout(f"no result after {seconds} s")
    old = _signal.signal(_signal.SIGALRM, handler)
    _signal.alarm(int(seconds))
    try:
        yield
    finally:
        _signal.alarm(0)
        _signal.signal(_signal.SIGALRM, old)
