"""Flatten a Qiskit circuit produced by qclib down to the primitive alphabet of the Coq IR.
Recursion stops at Qiskit's own library gates (STD_STOP); everything defined by qclib is opened."""
from fractions import Fraction
import numpy as np
from qiskit.circuit import ControlledGate

STD_STOP = {
    'x', 'h', 'cx', 'cz', 'ccx', 'mcx', 'c3x', 'c4x', 'u', 'ry', 'rz', 'rx', 'p', 'cp', 'crx', 'cu', 'swap',
    'cswap', 'unitary', 'rccx', 'mcphase', 'reset', 'barrier', 'multiplexer', 'diagonal', 'ucry', 'ucrz', 'ucrx',
    'id', 'z', 'y', 's', 'sdg', 't', 'tdg', 'u1', 'u2', 'u3', 'cry', 'crz', 'mcx_gray', 'initialize', 'isometry',
    'state_preparation', 'global_phase', 'sx', 'ch', 'cy', 'mcx_recursive', 'mcx_vchain', 'c3sx', 'rc3x', 'mcp',
    'measure', 'cu1', 'cu3', 'mcu1',
}


def flatten(circ, qmap=None, out=None, phase=None, stop=None):
    """returns (list of (name, qubits tuple, operation), accumulated global phase); stop(op) -> name keeps op unopened"""
    if out is None:
        out = []
    if qmap is None:
        qmap = list(range(circ.num_qubits))
    if phase is None:
        phase = [0.0]
    phase[0] += float(circ.global_phase)
    for inst in circ.data:
        op = inst.operation
        qs = [qmap[circ.find_bit(q).index] for q in inst.qubits]
        name = op.name
        kept = stop(op) if stop is not None else None
        if kept:
            out.append((kept, tuple(qs), op))
        elif name in STD_STOP or op.definition is None:
            out.append((name, tuple(qs), op))
        elif isinstance(op, ControlledGate) and getattr(op, 'base_gate', None) is not None \
                and op.base_gate.name in ('unitary',):
            out.append(('cunitary', tuple(qs), op))
        elif isinstance(op, ControlledGate) and name.startswith('c') and name[1:] in STD_STOP:
            out.append((name, tuple(qs), op))
        else:
            flatten(op.definition, qs, out, phase, stop)
    return out, phase[0]


def frac(x):
    """exact rational value of a binary64 (every finite float is a dyadic rational)"""
    return Fraction(float(x))


def coq_q(x):
    """Coq Q literal of a Fraction / float"""
    f = x if isinstance(x, Fraction) else Fraction(float(x))
    n, d = f.numerator, f.denominator
    return f"(({n})#{d})" if n < 0 else f"({n}#{d})"


def coq_list(items):
    return "[" + "; ".join(items) + "]"


def coq_bool(b):
    return "true" if b else "false"


def ctrl_state_of(op):
    """control pattern of a Qiskit ControlledGate as a little-endian tuple of bits (bit i belongs to control i)"""
    if isinstance(op, ControlledGate):
        n = op.num_ctrl_qubits
        return tuple((op.ctrl_state >> i) & 1 for i in range(n))
    return ()
