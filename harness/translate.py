"""Fail-closed Python-ast -> Gallina translator for the pure integer / list / threshold functions of qclib.

Every run of ./check regenerates coq/theories/Gen_*.v from /repo's working tree.  The theorems in P_*.v are
stated about these generated definitions, so an edit of a Python formula re-states the theorem.  Anything the
translator does not understand raises Unsupported with the source line: the tie is then reported as broken.

Supported subset (types: Z, bool, list Z, 'binary string' = (value, width) produced by f"{k:0{n}b}"):
  statements  : docstring, x = e, x += e, x -= e, if/elif/else, return e, for v in range(..)/list, x.append(e),
                x.extend(range(a, b))
  expressions : int constants, names, + - * // % ** & | >> <<, unary -, comparisons, and/or/not, a if c else b,
                int(e), int(ceil(q)), int(np.ceil(q)) (q a rational expression with / ), int(np.floor(np.log2(e))),
                int(log2(e)), len(l), sum(e for v in l), sum(<bool> for v in l), binomial(a, b), list(range(..)),
                [..], l1 + l2, s[q] == "1", calls of other translated functions (mutual recursion through fuel),
                min/max, abs
"""
import ast
import os
import textwrap

REPO = os.environ.get("VERIF_REPO", "/repo")
THEORIES = os.path.join(os.environ.get("VERIF_HOME", "/verif"), "coq/theories")


class Unsupported(Exception):
    pass


Z, B, L, S = "Z", "bool", "list", "bstr"


class Fn:
    def __init__(self, tr, node, cfg):
        self.tr = tr
        self.node = node
        self.cfg = cfg
        self.types = dict(cfg.get("param_types", {}))
        self.counter = 0

    def fail(self, node, why):
        raise Unsupported(f"{self.tr.relpath}:{getattr(node, 'lineno', '?')}: {why}: {ast.unparse(node)[:100] if isinstance(node, ast.AST) else node}")

    def fresh(self, base):
        self.counter += 1
        return f"{base}_{self.counter}"

    # ------------------------------------------------------------------ expressions
    def expr(self, e, want=None):
        """returns (gallina, type)"""
        g, t = self._expr(e)
        if want is not None and t != want:
            if want == Z and t == B:
                return f"(Z.b2z {g})", Z
            if want == B and t == Z:
                return f"(negb ({g} =? 0))", B
            self.fail(e, f"type {t}, expected {want}")
        return g, t

    def _expr(self, e):
        if isinstance(e, ast.Constant):
            if isinstance(e.value, bool):
                return ("true" if e.value else "false"), B
            if isinstance(e.value, int):
                return f"({e.value})", Z
            if isinstance(e.value, str) and e.value in self.tr.enums:
                return f"({self.tr.enums[e.value]})", Z
            if e.value is None and "None" in self.tr.enums:
                return f"({self.tr.enums['None']})", Z
            self.fail(e, "constant")
        if isinstance(e, ast.Name):
            if e.id in self.tr.consts:
                return f"({self.tr.consts[e.id]})", Z
            if e.id not in self.types:
                self.fail(e, "unknown variable")
            return e.id, self.types[e.id]
        if isinstance(e, ast.Attribute) and isinstance(e.value, ast.Name) and e.value.id == "self" \
                and ("self_" + e.attr) in self.types:
            return "self_" + e.attr, self.types["self_" + e.attr]
        if isinstance(e, ast.UnaryOp):
            if isinstance(e.op, ast.USub):
                a, _ = self.expr(e.operand, Z)
                return f"(- {a})", Z
            if isinstance(e.op, ast.Not):
                a, _ = self.expr(e.operand, B)
                return f"(negb {a})", B
            self.fail(e, "unary operator")
        if isinstance(e, ast.BinOp):
            if isinstance(e.op, ast.Add):
                a, ta = self._expr(e.left)
                b, tb = self._expr(e.right)
                if ta == L and tb == L:
                    return f"({a} ++ {b})", L
            a, _ = self.expr(e.left, Z)
            b, _ = self.expr(e.right, Z)
            ops = {ast.Add: "+", ast.Sub: "-", ast.Mult: "*", ast.FloorDiv: "/", ast.Mod: "mod", ast.Pow: "^"}
            if type(e.op) in ops:
                return f"({a} {ops[type(e.op)]} {b})", Z
            fns = {ast.BitAnd: "Z.land", ast.BitOr: "Z.lor", ast.BitXor: "Z.lxor", ast.RShift: "Z.shiftr", ast.LShift: "Z.shiftl"}
            if type(e.op) in fns:
                return f"({fns[type(e.op)]} {a} {b})", Z
            self.fail(e, "binary operator")
        if isinstance(e, ast.Compare):
            if len(e.ops) != 1:
                self.fail(e, "chained comparison")
            # s[q] == "1"
            l, r = e.left, e.comparators[0]
            if isinstance(l, ast.Subscript) and isinstance(r, ast.Constant) and r.value in ("0", "1"):
                s, ts = self._expr(l.value)
                if ts != S:
                    self.fail(e, "subscript of non binary-string")
                q, _ = self.expr(l.slice, Z)
                t = f"(bstr_bit {s} {q})"
                neg = (r.value == "0") != isinstance(e.ops[0], ast.NotEq)
                if not isinstance(e.ops[0], (ast.Eq, ast.NotEq)):
                    self.fail(e, "comparison of a character")
                return (f"(negb {t})" if neg else t), B
            a, ta = self._expr(l)
            b, tb = self._expr(r)
            if ta == B and tb == Z:
                a = f"(Z.b2z {a})"
            elif ta == Z and tb == B:
                b = f"(Z.b2z {b})"
            elif ta == B and tb == B:
                if isinstance(e.ops[0], ast.Eq):
                    return f"(Bool.eqb {a} {b})", B
                if isinstance(e.ops[0], ast.NotEq):
                    return f"(negb (Bool.eqb {a} {b}))", B
                self.fail(e, "ordering of booleans")
            elif ta != Z or tb != Z:
                self.fail(e, "comparison of non-integers")
            op = {ast.Eq: "=?", ast.Lt: "<?", ast.LtE: "<=?", ast.Gt: ">?", ast.GtE: ">=?"}.get(type(e.ops[0]))
            if op:
                return f"({a} {op} {b})", B
            if isinstance(e.ops[0], ast.NotEq):
                return f"(negb ({a} =? {b}))", B
            self.fail(e, "comparison operator")
        if isinstance(e, ast.BoolOp):
            parts = [self.expr(v, B)[0] for v in e.values]
            j = " && " if isinstance(e.op, ast.And) else " || "
            return "(" + j.join(parts) + ")", B
        if isinstance(e, ast.IfExp):
            c, _ = self.expr(e.test, B)
            a, ta = self._expr(e.body)
            b, tb = self._expr(e.orelse)
            if ta != tb:
                self.fail(e, "branches of different types")
            return f"(if {c} then {a} else {b})", ta
        if isinstance(e, ast.List):
            items = [self.expr(v, Z)[0] for v in e.elts]
            return "[" + "; ".join(items) + "]", L
        if isinstance(e, ast.JoinedStr):
            # f"{k:0{n}b}"
            if len(e.values) == 1 and isinstance(e.values[0], ast.FormattedValue):
                fv = e.values[0]
                spec = fv.format_spec
                if (isinstance(spec, ast.JoinedStr) and len(spec.values) == 3
                        and isinstance(spec.values[0], ast.Constant) and spec.values[0].value == "0"
                        and isinstance(spec.values[1], ast.FormattedValue)
                        and isinstance(spec.values[2], ast.Constant) and spec.values[2].value == "b"):
                    k, _ = self.expr(fv.value, Z)
                    n, _ = self.expr(spec.values[1].value, Z)
                    return f"(mk_bstr {k} {n})", S
            self.fail(e, "f-string")
        if isinstance(e, ast.Call):
            return self.call(e)
        self.fail(e, "expression")

    def fname(self, f):
        if isinstance(f, ast.Name):
            return f.id
        if isinstance(f, ast.Attribute) and isinstance(f.value, ast.Name):
            return f.value.id + "." + f.attr
        return None

    def range_args(self, call):
        args = call.args
        if len(args) == 1:
            return "0", self.expr(args[0], Z)[0]
        if len(args) == 2:
            return self.expr(args[0], Z)[0], self.expr(args[1], Z)[0]
        self.fail(call, "range with step")

    def iterable(self, it):
        """gallina list Z for an iterable expression"""
        if isinstance(it, ast.Call) and self.fname(it.func) == "range":
            a, b = self.range_args(it)
            return f"(zrange {a} {b})"
        g, t = self._expr(it)
        if t != L:
            self.fail(it, "iterable is not a list")
        return g

    def call(self, e):
        f = self.fname(e.func)
        if f == "int" and len(e.args) == 1:
            inner = e.args[0]
            fi = self.fname(inner.func) if isinstance(inner, ast.Call) else None
            if fi in ("ceil", "np.ceil", "math.ceil"):
                n, d = self.rat(inner.args[0])
                return f"(ceil_div {n} {d})", Z
            if fi in ("floor", "np.floor", "math.floor"):
                i2 = inner.args[0]
                if isinstance(i2, ast.Call) and self.fname(i2.func) in ("log2", "np.log2", "math.log2"):
                    return f"(Z.log2 {self.expr(i2.args[0], Z)[0]})", Z
                n, d = self.rat(i2)
                return f"({n} / {d})", Z
            if fi in ("log2", "np.log2", "math.log2"):
                return f"(Z.log2 {self.expr(inner.args[0], Z)[0]})", Z
            g, t = self._expr(inner)
            if t == B:
                return f"(Z.b2z {g})", Z
            if t == Z:
                return g, Z
            self.fail(e, "int() of non-integer")
        if f == "len" and len(e.args) == 1:
            g, t = self._expr(e.args[0])
            if t != L:
                self.fail(e, "len of non-list")
            return f"(zlen {g})", Z
        if f in ("binomial", "comb", "math.comb") and len(e.args) == 2:
            return f"(binomZ {self.expr(e.args[0], Z)[0]} {self.expr(e.args[1], Z)[0]})", Z
        if f in ("min", "max") and len(e.args) == 2:
            return f"(Z.{f} {self.expr(e.args[0], Z)[0]} {self.expr(e.args[1], Z)[0]})", Z
        if f == "abs" and len(e.args) == 1:
            return f"(Z.abs {self.expr(e.args[0], Z)[0]})", Z
        if f == "list" and len(e.args) == 1:
            return self.iterable(e.args[0]), L
        if f == "range":
            return self.iterable(e), L
        if f == "sorted" and len(e.args) == 1:
            return f"(zsort {self.iterable(e.args[0])})", L
        if f == "sum" and len(e.args) == 1 and isinstance(e.args[0], ast.GeneratorExp):
            gen = e.args[0]
            if len(gen.generators) != 1 or gen.generators[0].ifs or not isinstance(gen.generators[0].target, ast.Name):
                self.fail(e, "generator shape")
            v = gen.generators[0].target.id
            lst = self.iterable(gen.generators[0].iter)
            saved = self.types.get(v)
            self.types[v] = Z
            body, _ = self.expr(gen.elt, Z)
            if saved is None:
                del self.types[v]
            else:
                self.types[v] = saved
            return f"(zsum (map (fun {v} => {body}) {lst}))", Z
        if f in self.tr.group_names(self.cfg):
            ccfg = self.tr.cfg_by_name[f]
            cparams = ccfg.get("params") or [a.arg for a in self.tr.funcs[f].args.args]
            if e.keywords or len(e.args) != len(cparams):
                self.fail(e, "call of a translated function must pass every argument positionally")
            args = " ".join(self.expr(a, ccfg.get("param_types", {}).get(p, Z))[0] for a, p in zip(e.args, cparams))
            fuel = ""
            if self.tr.is_recursive(f):
                fuel = "fuel " if self.cfg.get("recursive") else self.cfg["fuel_expr"] + " "
            return f"({ccfg.get('rename', f)} {fuel}{args})", ccfg.get("ret_type", Z)
        if f in self.tr.known_funcs:
            args = " ".join(self.expr(a, Z)[0] for a in e.args)
            return f"({self.tr.known_funcs[f]} {args})", Z
        self.fail(e, "call")

    def rat(self, e):
        """rational expression -> (num, den) gallina Z terms, den > 0 provided literal denominators are positive"""
        if isinstance(e, ast.Constant) and isinstance(e.value, int):
            return f"({e.value})", "1"
        if isinstance(e, ast.BinOp):
            if isinstance(e.op, ast.Div):
                (a, b), (c, d) = self.rat(e.left), self.rat(e.right)
                return f"({a} * {d})", f"({b} * {c})"
            if isinstance(e.op, ast.Mult):
                (a, b), (c, d) = self.rat(e.left), self.rat(e.right)
                return f"({a} * {c})", f"({b} * {d})"
            if isinstance(e.op, (ast.Add, ast.Sub)):
                (a, b), (c, d) = self.rat(e.left), self.rat(e.right)
                s = "+" if isinstance(e.op, ast.Add) else "-"
                return f"({a} * {d} {s} {c} * {b})", f"({b} * {d})"
        g, _ = self.expr(e, Z)
        return g, "1"

    # ------------------------------------------------------------------ statements
    def assigned(self, stmts):
        out = []
        for s in stmts:
            for n in ast.walk(s):
                if isinstance(n, (ast.Assign, ast.AugAssign)):
                    tg = n.targets[0] if isinstance(n, ast.Assign) else n.target
                    if isinstance(tg, ast.Name) and tg.id not in out:
                        out.append(tg.id)
                if isinstance(n, ast.Expr) and isinstance(n.value, ast.Call) and isinstance(n.value.func, ast.Attribute) \
                        and n.value.func.attr in ("append", "extend") and isinstance(n.value.func.value, ast.Name):
                    if n.value.func.value.id not in out:
                        out.append(n.value.func.value.id)
        return out

    def has_return(self, stmts):
        return any(isinstance(n, ast.Return) for s in stmts for n in ast.walk(s))

    def always_returns(self, stmts):
        if not stmts:
            return False
        s = stmts[-1]
        if isinstance(s, ast.Return):
            return True
        if isinstance(s, ast.If):
            return self.always_returns(s.body) and self.always_returns(s.orelse)
        return False

    def block(self, stmts, k):
        """k: continuation producing the gallina term after these statements (None = must return)"""
        if not stmts:
            if k is None:
                raise Unsupported(f"{self.tr.relpath}: function {self.node.name} can fall off its end")
            return k()
        s, rest = stmts[0], stmts[1:]
        stop = self.cfg.get("stop_before")
        if stop and ast.unparse(s).startswith(stop):
            ret = self.cfg["return_var"]
            return self.expr(ast.Name(id=ret, ctx=ast.Load()))[0]
        if isinstance(s, ast.Expr) and isinstance(s.value, ast.Constant):
            return self.block(rest, k)
        if isinstance(s, ast.Assert) and self.cfg.get("allow_assert"):
            return self.block(rest, k)           # preconditions are stated in the theorems, not in the definition
        if isinstance(s, ast.Return):
            if s.value is None:
                self.fail(s, "bare return")
            if isinstance(s.value, ast.Tuple):
                if "tuple_elem" not in self.cfg:
                    self.fail(s, "tuple return")
                s = ast.Return(value=s.value.elts[self.cfg["tuple_elem"]])
            g, t = self._expr(s.value)
            want = self.cfg.get("ret_type", Z)
            if t != want:
                g, t = self.expr(s.value, want)
            return g
        if isinstance(s, ast.Assign):
            if len(s.targets) != 1 or not isinstance(s.targets[0], ast.Name):
                self.fail(s, "assignment target")
            x = s.targets[0].id
            g, t = self._expr(s.value)
            if x in self.types and self.types[x] != t:
                if self.types[x] == Z and t == B:
                    g, t = f"(Z.b2z {g})", Z
                else:
                    self.fail(s, f"variable changes type {self.types[x]} -> {t}")
            self.types[x] = t
            return f"let {x} := {g} in\n{self.block(rest, k)}"
        if isinstance(s, ast.AugAssign):
            if not isinstance(s.target, ast.Name):
                self.fail(s, "augmented target")
            new = ast.Assign(targets=[ast.Name(id=s.target.id, ctx=ast.Store())],
                             value=ast.BinOp(left=ast.Name(id=s.target.id, ctx=ast.Load()), op=s.op, right=s.value))
            ast.copy_location(new, s)
            ast.fix_missing_locations(new)
            return self.block([new] + rest, k)
        if isinstance(s, ast.Expr) and isinstance(s.value, ast.Call) and isinstance(s.value.func, ast.Attribute) \
                and isinstance(s.value.func.value, ast.Name):
            x = s.value.func.value.id
            if self.types.get(x) != L:
                self.fail(s, "method call on non-list")
            if s.value.func.attr == "append" and len(s.value.args) == 1:
                g, _ = self.expr(s.value.args[0], Z)
                return f"let {x} := {x} ++ [{g}] in\n{self.block(rest, k)}"
            if s.value.func.attr == "extend" and len(s.value.args) == 1:
                g = self.iterable(s.value.args[0])
                return f"let {x} := {x} ++ {g} in\n{self.block(rest, k)}"
            self.fail(s, "list method")
        if isinstance(s, ast.If):
            c, _ = self.expr(s.test, B)
            types0 = dict(self.types)
            if self.always_returns(s.body) and (not s.orelse or self.always_returns(s.orelse) or True):
                # if c: <returns>  [else: ...]; rest
                if self.always_returns(s.body):
                    then = self.block(s.body, None)
                    self.types = dict(types0)
                    els = self.block((s.orelse or []) + rest, k)
                    return f"if {c} then\n{textwrap.indent(then, '  ')}\nelse\n{textwrap.indent(els, '  ')}"
            if self.has_return(s.body) or self.has_return(s.orelse or []):
                # returns somewhere inside but not on all paths: duplicate the rest into both branches
                then = self.block(s.body + rest, k)
                self.types = dict(types0)
                els = self.block((s.orelse or []) + rest, k)
                return f"if {c} then\n{textwrap.indent(then, '  ')}\nelse\n{textwrap.indent(els, '  ')}"
            # no return inside: the if only updates variables
            a_then, a_else = self.assigned(s.body), self.assigned(s.orelse or [])
            mod = []
            for v in a_then + a_else:
                if v not in mod and (v in types0 or (v in a_then and v in a_else)):
                    mod.append(v)
            if not mod:
                self.fail(s, "if without effect")
            tup = self.tuple_of(mod)
            then = self.block(s.body, lambda: tup)
            t_then = dict(self.types)
            self.types = dict(types0)
            els = self.block(s.orelse or [], lambda: tup)
            t_else = dict(self.types)
            for v in mod:
                if t_then.get(v) != t_else.get(v):
                    self.fail(s, f"variable {v} has different types in the branches")
            self.types = dict(types0)
            for v in mod:
                self.types[v] = t_then[v]
            return (f"let {self.pat_of(mod)} := (if {c} then\n{textwrap.indent(then, '  ')}\nelse\n{textwrap.indent(els, '  ')}) in\n"
                    f"{self.block(rest, k)}")
        if isinstance(s, ast.For):
            if s.orelse or not isinstance(s.target, ast.Name):
                self.fail(s, "for loop shape")
            if self.has_return(s.body):
                self.fail(s, "return inside a loop")
            v = s.target.id
            lst = self.iterable(s.iter)
            types0 = dict(self.types)
            mod = [x for x in self.assigned(s.body) if x in types0 and x != v]
            local = [x for x in self.assigned(s.body) if x not in types0 and x != v]
            for n in rest:
                for nm in ast.walk(n):
                    if isinstance(nm, ast.Name) and isinstance(nm.ctx, ast.Load) and nm.id in local + [v]:
                        # allowed only if re-assigned before use; be strict
                        if nm.id not in self.assigned(rest):
                            self.fail(s, f"loop-local variable {nm.id} is read after the loop")
            self.types[v] = Z
            tup = self.tuple_of(mod)
            body = self.block(s.body, lambda: tup)
            for x in mod:
                if self.types[x] != types0[x]:
                    self.fail(s, f"loop changes the type of {x}")
            self.types = dict(types0)
            if not mod:
                self.fail(s, "loop without effect on earlier variables")
            return (f"let {self.pat_of(mod)} := fold_left (fun {self.pat_of(mod, lam=True)} {v} =>\n{textwrap.indent(body, '  ')})\n"
                    f"  {lst} {tup} in\n{self.block(rest, k)}")
        self.fail(s, "statement")

    def tuple_of(self, vs):
        return vs[0] if len(vs) == 1 else "(" + ", ".join(vs) + ")"

    def pat_of(self, vs, lam=False):
        if len(vs) == 1:
            return vs[0]
        return "'(" + ", ".join(vs) + ")"

    def translate(self, first, recursive):
        f = self.node
        params = self.cfg.get("params") or [a.arg for a in f.args.args]
        for p in params:
            self.types.setdefault(p, Z)
        body = f.body
        tymap = {Z: "Z", B: "bool", L: "list Z"}
        ps = " ".join(f"({p} : {tymap[self.types[p]]})" for p in params)
        ret = tymap[self.cfg.get("ret_type", Z)]
        name = self.cfg.get("rename", f.name)
        term = self.block(body, None)
        if recursive:
            kw = "Fixpoint" if first else "with"
            default = {"Z": "0", "bool": "false", "list Z": "[]"}[ret]
            return (f"{kw} {name} (fuel : nat) {ps} {{struct fuel}} : {ret} :=\n  match fuel with O => {default} | S fuel =>\n"
                    + textwrap.indent(term, "  ") + "\n  end")
        return f"Definition {name} {ps} : {ret} :=\n" + textwrap.indent(term, "  ") + "."


class Translator:
    def __init__(self, relpath, enums=None, consts=None, known_funcs=None):
        self.relpath = relpath
        with open(os.path.join(REPO, relpath), newline="") as fh:
            self.src = fh.read().replace("\r\n", "\n")
        self.tree = ast.parse(self.src)
        self.funcs = {}
        for n in ast.walk(self.tree):
            if isinstance(n, ast.FunctionDef):
                self.funcs.setdefault(n.name, n)
        self.enums = enums or {}
        self.consts = consts or {}
        self.known_funcs = known_funcs or {}
        self.groups = []

    def group_names(self, cfg):
        for g in self.groups:
            if cfg["name"] in [c["name"] for c in g]:
                return [c["name"] for c in g] + list(self.done)
        return list(self.done)

    def is_recursive(self, fname):
        return fname in self.recursive

    def run(self, groups):
        """groups: list of lists of cfg dicts (a list with several entries = mutually recursive group)"""
        self.groups = groups
        self.cfg_by_name = {c["name"]: c for g in groups for c in g}
        self.done = []
        self.recursive = set()
        out = []
        for g in groups:
            rec = g[0].get("recursive", False)
            if rec:
                self.recursive.update(c["name"] for c in g)
            parts = []
            for i, cfg in enumerate(g):
                if cfg["name"] not in self.funcs:
                    raise Unsupported(f"{self.relpath}: function {cfg['name']} not found")
                parts.append(Fn(self, self.funcs[cfg["name"]], cfg).translate(i == 0, rec))
            out.append("\n".join(parts) + ("." if rec else ""))
            self.done.extend(c["name"] for c in g)
        return "\n\n".join(out)


HEADER = ("(* GENERATED by harness/translate.py from /repo/{src} - do not edit; regenerated on every ./check run *)\n"
          "From Coq Require Import ZArith List Bool.\nFrom QV Require Import GenLib.\nImport ListNotations.\nOpen Scope Z_scope.\n\n")

# name of generated file -> (source file, translator kwargs, groups)
SPECS = {
    "Gen_majority": ("qclib/gates/majority.py", {}, [[
        {"name": "operate", "rename": "majority_degrees", "params": ["size_controls"], "ret_type": L,
         "stop_before": "for k in n_controls", "return_var": "n_controls", "skip_first": 1}]]),
    "Gen_unitary_counts": ("qclib/unitary.py", {"enums": {"qsd": 0, "csd": 1, "qr": 2}}, [
        [{"name": "_cnot_count_iso", "recursive": True, "param_types": {"apply_a2": B}},
         {"name": "_cnot_count_iso_qsd", "recursive": True, "param_types": {"apply_a2": B}}],
        [{"name": "_cnot_count_estimate", "params": ["n_qubits", "decomposition", "iso", "apply_a2"],
          "param_types": {"apply_a2": B}, "skip_first": 1, "fuel_expr": "(Z.to_nat (2 * n_qubits + 2))"}]]),
    "Gen_iota": ("qclib/entanglement.py", {}, [
        [{"name": "_get_iota", "rename": "iota_delta", "tuple_elem": 0, "ret_type": B, "allow_assert": True}],
        [{"name": "_get_iota", "rename": "iota_index", "tuple_elem": 1, "allow_assert": True}]]),
    "Gen_isometry_counts": ("qclib/isometry.py", {}, [
        [{"name": "_k_s"}], [{"name": "_a"}], [{"name": "_b"}],
        [{"name": "_cnot_count_estimate_ccd"}]]),
}


# ------------------------------------------------------------------------------------------------------
# validation predicates (C16, C14): special-purpose, shape-checked extraction.  The statements must have exactly the
# expected shape (compared after ast.unparse with the numeric tolerances replaced by holes); the tolerances found in
# the source become exact rational constants of the generated file.
from fractions import Fraction


def _kw_tolerances(call, fail):
    """rel_tol / abs_tol keywords of a math.isclose call as exact decimal rationals (defaults 1e-9 / 0)"""
    tol = {"rel_tol": Fraction(1, 10 ** 9), "abs_tol": Fraction(0)}
    for kw in call.keywords:
        if kw.arg not in tol or not isinstance(kw.value, ast.Constant) or not isinstance(kw.value.value, (int, float)):
            fail(f"unexpected keyword in isclose: {ast.unparse(kw)}")
        tol[kw.arg] = Fraction(repr(kw.value.value))
    return tol


def _q(fr):
    return f"(({fr.numerator}) # {fr.denominator})" if fr.numerator < 0 else f"({fr.numerator} # {fr.denominator})"


def _find_func(tree, cls, name, relpath):
    for n in ast.walk(tree):
        if isinstance(n, ast.ClassDef) and n.name == cls:
            for m in n.body:
                if isinstance(m, ast.FunctionDef) and m.name == name:
                    return m
    if cls is None:
        for n in tree.body:
            if isinstance(n, ast.FunctionDef) and n.name == name:
                return n
    raise Unsupported(f"{relpath}: {cls}.{name} not found")


def _body(fn):
    return [b for b in fn.body if not (isinstance(b, ast.Expr) and isinstance(b.value, ast.Constant))]


def _raises(stmts):
    return len(stmts) == 1 and isinstance(stmts[0], ast.Raise) and stmts[0].exc is not None


def gen_validate():
    out = [HEADER.format(src="qclib/gates/initialize.py, qclib/isometry.py, qclib/state_preparation/mixed.py, qclib/gates/util.py")
           .replace("From QV Require Import GenLib.", "From Coq Require Import QArith.\nFrom QV Require Import GenLib ValidateLib.")]

    def load(rel):
        with open(os.path.join(REPO, rel), newline="") as fh:
            return ast.parse(fh.read().replace("\r\n", "\n"))

    # ---- Initialize._get_num_qubits
    rel = "qclib/gates/initialize.py"
    def fail(msg):
        raise Unsupported(f"{rel}: Initialize._get_num_qubits no longer has the expected shape: {msg}")
    b = _body(_find_func(load(rel), "Initialize", "_get_num_qubits", rel))
    if len(b) != 4:
        fail(f"{len(b)} statements instead of 4")
    if ast.unparse(b[0]) != "self.num_qubits = log2(len(params))":
        fail(ast.unparse(b[0]))
    if not (isinstance(b[1], ast.If) and ast.unparse(b[1].test) == "self.num_qubits == 0 or not self.num_qubits.is_integer()"
            and _raises(b[1].body) and not b[1].orelse):
        fail(ast.unparse(b[1])[:120])
    t = b[2]
    if not (isinstance(t, ast.If) and isinstance(t.test, ast.UnaryOp) and isinstance(t.test.op, ast.Not)
            and isinstance(t.test.operand, ast.Call) and ast.unparse(t.test.operand.func) == "isclose"
            and [ast.unparse(a) for a in t.test.operand.args] == ["sum(np.absolute(params) ** 2)", "1.0"]
            and _raises(t.body) and not t.orelse):
        fail(ast.unparse(t)[:160])
    tol = _kw_tolerances(t.test.operand, fail)
    if ast.unparse(b[3]) != "self.num_qubits = int(self.num_qubits)":
        fail(ast.unparse(b[3]))
    out.append(f"(* Initialize._get_num_qubits: accepted iff len is a power of two >= 2 and isclose(sum |a|^2, 1, rel, abs) *)\n"
               f"Definition init_rel_tol : Q := {_q(tol['rel_tol'])}.\nDefinition init_abs_tol : Q := {_q(tol['abs_tol'])}.\n"
               f"Definition init_accept (len : N) (s : Q) : bool := len_ok len && qisclose s 1 init_rel_tol init_abs_tol.\n")

    # ---- isometry._check_isometry (shape part)
    rel = "qclib/isometry.py"
    def fail2(msg):
        raise Unsupported(f"{rel}: decompose/_check_isometry no longer has the expected shape: {msg}")
    tree = load(rel)
    dec = [ast.unparse(x) for x in _body(_find_func(tree, None, "decompose", rel))]
    need = ["lines = iso.shape[0]", "cols = iso.shape[1]", "log_lines = log2(lines)", "log_cols = log2(cols)",
            "_check_isometry(iso, log_lines, log_cols)"]
    pos = [dec.index(x) if x in dec else -1 for x in need]
    if -1 in pos or pos != sorted(pos):
        fail2(f"decompose preamble {dec[:9]}")
    cb = _body(_find_func(tree, None, "_check_isometry", rel))
    tests = [ast.unparse(x.test) if isinstance(x, ast.If) and _raises(x.body) and not x.orelse else None for x in cb]
    if tests != ["not log_lines.is_integer() or log_lines < 0", "not log_cols.is_integer() or log_cols < 0",
                 "log_cols > log_lines", "not _is_isometry(iso, log_cols)"]:
        fail2(f"_check_isometry tests {tests}")
    out.append("(* isometry.decompose/_check_isometry, shape part: rows and cols are powers of two (log2 integral, >= 0) and\n"
               "   log cols <= log rows; orthonormality is the numerical contract np.allclose(V^dagger V, I) *)\n"
               "Definition iso_shape_accept (rows cols : N) : bool := pow2_ok rows && pow2_ok cols && (N.log2 cols <=? N.log2 rows)%N.\n")

    # ---- MixedInitialize probability checks
    rel = "qclib/state_preparation/mixed.py"
    def fail3(msg):
        raise Unsupported(f"{rel}: MixedInitialize.__init__ probability checks no longer have the expected shape: {msg}")
    init = _find_func(load(rel), "MixedInitialize", "__init__", rel)
    chain = None
    for st in _body(init):
        if isinstance(st, ast.If) and ast.unparse(st.test) == "probabilities is None":
            chain = st
    if chain is None:
        fail3("if probabilities is None not found")
    tests = []
    node = chain
    while True:
        if len(node.orelse) == 1 and isinstance(node.orelse[0], ast.If):
            node = node.orelse[0]
            if not _raises(node.body):
                fail3(ast.unparse(node)[:100])
            tests.append(node.test)
        else:
            if node.orelse:
                fail3("unexpected else branch")
            break
    ts = [ast.unparse(x) for x in tests]
    if ts[:2] != ["any((i < 0.0 for i in probabilities))", "any((i > 1.0 for i in probabilities))"] or len(ts) != 3:
        fail3(str(ts))
    t3 = tests[2]
    if not (isinstance(t3, ast.UnaryOp) and isinstance(t3.op, ast.Not) and isinstance(t3.operand, ast.Call)
            and ast.unparse(t3.operand.func) == "isclose"
            and [ast.unparse(a) for a in t3.operand.args] == ["sum(probabilities)", "1.0"]):
        fail3(ts[2])
    tol = _kw_tolerances(t3.operand, fail3)
    out.append(f"(* MixedInitialize: probabilities accepted iff all in [0,1] and isclose(sum, 1, rel, abs) *)\n"
               f"Definition mixed_rel_tol : Q := {_q(tol['rel_tol'])}.\nDefinition mixed_abs_tol : Q := {_q(tol['abs_tol'])}.\n"
               f"Definition probs_accept (p : list Q) : bool :=\n  forallb (fun x => Qle_bool 0 x) p && forallb (fun x => Qle_bool x 1) p\n"
               f"  && qisclose (qsum p) 1 mixed_rel_tol mixed_abs_tol.\n")

    # ---- gates/util.check_u2 (shape part)
    rel = "qclib/gates/util.py"
    cb = _body(_find_func(load(rel), None, "check_u2", rel))
    tests = [ast.unparse(x.test) if isinstance(x, ast.If) and _raises(x.body) and not x.orelse else None for x in cb]
    if tests != ["matrix.shape != (2, 2)", "not np.allclose(matrix @ np.conj(matrix.T), [[1.0, 0.0], [0.0, 1.0]])"]:
        raise Unsupported(f"{rel}: check_u2 no longer has the expected shape: {tests}")
    out.append("(* gates/util.check_u2: shape must be (2,2); unitarity is the numerical contract np.allclose(M M^dagger, I) *)\n"
               "Definition u2_shape_accept (rows cols : N) : bool := (rows =? 2)%N && (cols =? 2)%N.\n")
    return "\n".join(out)


def gen_rank():
    """entanglement.low_rank_approximation / _effective_rank (C07, C09): shape-checked extraction"""
    rel = "qclib/entanglement.py"
    with open(os.path.join(REPO, rel), newline="") as fh:
        tree = ast.parse(fh.read().replace("\r\n", "\n"))
    def fail(msg):
        raise Unsupported(f"{rel}: low_rank_approximation/_effective_rank no longer has the expected shape: {msg}")
    b = [ast.unparse(x) for x in _body(_find_func(tree, None, "low_rank_approximation", rel))]
    exp = ["effective_rank = _effective_rank(singular_values)",
           "if 0 < low_rank < effective_rank:\n    effective_rank = low_rank",
           "rank = int(2 ** ceil(log2(effective_rank)))",
           "return (rank, svd_u[:, :rank], singular_values[:rank], svd_v[:rank, :])"]
    if b != exp:
        fail(str(b))
    e = _body(_find_func(tree, None, "_effective_rank", rel))
    if len(e) != 1 or not isinstance(e[0], ast.Return):
        fail("_effective_rank body")
    call = e[0].value
    ok = (isinstance(call, ast.Call) and ast.unparse(call.func) == "sum" and isinstance(call.args[0], ast.GeneratorExp)
          and isinstance(call.args[0].elt, ast.Compare) and ast.unparse(call.args[0].elt.left) == "j"
          and isinstance(call.args[0].elt.ops[0], ast.Gt) and ast.unparse(call.args[0].generators[0].iter) == "singular_values")
    if not ok:
        fail(ast.unparse(e[0]))
    thr = call.args[0].elt.comparators[0]
    if not (isinstance(thr, ast.BinOp) and isinstance(thr.op, ast.Pow) and isinstance(thr.left, ast.Constant)
            and isinstance(thr.right, ast.UnaryOp) and isinstance(thr.right.op, ast.USub) and isinstance(thr.right.operand, ast.Constant)):
        fail("threshold " + ast.unparse(thr))
    q = Fraction(1, int(thr.left.value) ** int(thr.right.operand.value))
    hdr = HEADER.format(src=rel).replace("From QV Require Import GenLib.", "From Coq Require Import QArith NArith.\nFrom QV Require Import GenLib.")
    return (hdr + f"Definition rank_threshold : Q := {_q(q)}.\n"
            "Definition effective_rank (s : list Q) : N := N.of_nat (length (filter (fun x => negb (Qle_bool x rank_threshold)) s)).\n"
            "(* rank = 2 ** ceil(log2(min-like cap)) *)\n"
            "Definition rank_of (low_rank eff : N) : N :=\n"
            "  let e := if ((0 <? low_rank)%N && (low_rank <? eff)%N)%bool then low_rank else eff in (2 ^ N.log2_up e)%N.\n")


def gen_width():
    """declared widths of BdspInitialize / DcspInitialize and the qubit count of tree_register.add_register (C11)"""
    out = [HEADER.format(src="qclib/state_preparation/bdsp.py, dcsp.py, util/tree_register.py")]

    def load(rel):
        with open(os.path.join(REPO, rel), newline="") as fh:
            return ast.parse(fh.read().replace("\r\n", "\n"))

    def expr_of(rel, tree, cls, fname, target, types, subst=None):
        fn = _find_func(tree, cls, fname, rel)
        hits = [st for st in ast.walk(fn) if isinstance(st, ast.Assign) and ast.unparse(st.targets[0]) == target]
        if len(hits) != 1:
            raise Unsupported(f"{rel}: expected exactly one assignment to {target} in {fname}, found {len(hits)}")
        tr = Translator(rel)
        f = Fn(tr, fn, {"name": fname})
        tr.groups, tr.done, tr.recursive, tr.cfg_by_name = [], [], set(), {}
        f.types.update(types)
        val = hits[0].value
        if subst:
            class Sub(ast.NodeTransformer):
                def generic_visit(self2, node):
                    src = ast.unparse(node) if isinstance(node, ast.expr) else None
                    if src in subst:
                        return ast.Name(id=subst[src], ctx=ast.Load())
                    return super().generic_visit(node)
            val = Sub().visit(val)
        return f.expr(val, Z)[0]

    rel = "qclib/state_preparation/bdsp.py"
    t = load(rel)
    e = expr_of(rel, t, "BdspInitialize", "_get_num_qubits", "self.num_qubits", {"n_qubits": Z, "self_split": Z})
    out.append(f"Definition bdsp_width (n_qubits self_split : Z) : Z := {e}.")
    fn = _find_func(t, "BdspInitialize", "__init__", rel)
    hits = {ast.unparse(st.value) for st in ast.walk(fn) if isinstance(st, ast.Assign) and ast.unparse(st.targets[0]) == "self.split"}
    if hits != {"int(ceil(log2(len(params)) / 2))", "opt_params.get('split')"}:
        raise Unsupported(f"{rel}: default split expression changed: {hits}")
    out.append("Definition bdsp_default_split (n_qubits : Z) : Z := ceil_div n_qubits 2.")
    fn = _find_func(t, "BdspInitialize", "_define_initialize", rel)
    calls = [ast.unparse(st.value) for st in fn.body if isinstance(st, ast.Expr) and isinstance(st.value, ast.Call)]
    if calls != ["add_register(circuit, angle_tree, n_qubits - self.split)", "top_down(angle_tree, circuit, n_qubits - self.split)",
                 "bottom_up(angle_tree, circuit, n_qubits - self.split)"]:
        raise Unsupported(f"{rel}: _define_initialize calls changed: {calls}")
    out.append("Definition bdsp_start_level (n_qubits self_split : Z) : Z := n_qubits - self_split.")
    rel = "qclib/state_preparation/dcsp.py"
    t = load(rel)
    e = expr_of(rel, t, "DcspInitialize", "_get_num_qubits", "self.num_qubits", {"len_params": Z}, {"len(params)": "len_params"})
    out.append(f"Definition dcsp_width (len_params : Z) : Z := {e}.")
    fn = _find_func(t, "DcspInitialize", "_define_initialize", rel)
    calls = [ast.unparse(st.value) for st in fn.body if isinstance(st, ast.Expr) and isinstance(st.value, ast.Call)]
    if calls != ["add_register(circuit, angle_tree, n_qubits - 1)", "bottom_up(angle_tree, circuit, n_qubits)"]:
        raise Unsupported(f"{rel}: _define_initialize calls changed: {calls}")
    out.append("Definition dcsp_start_level (n_qubits : Z) : Z := n_qubits - 1.")
    rel = "qclib/state_preparation/util/tree_register.py"
    t = load(rel)
    fn = _find_func(t, None, "add_register", rel)
    src = [ast.unparse(st) for st in fn.body]
    need = ["noutput = level", "nqubits = sum(level_nodes[:start_level])",
            "nqubits += level_nodes[start_level] * (noutput - start_level)", "nancilla = nqubits - noutput"]
    pos = [src.index(x) if x in src else -1 for x in need]
    if -1 in pos or pos != sorted(pos):
        raise Unsupported(f"{rel}: add_register counting statements changed: {src}")
    out.append("(* add_register on a complete tree of depth n: level l has 2^l nodes, noutput = n *)\n"
               "Definition alloc_width (n start_level : Z) : Z :=\n"
               "  let nqubits := zsum (map (fun l => 2 ^ l) (zrange 0 start_level)) in\n"
               "  let nqubits := nqubits + 2 ^ start_level * (n - start_level) in nqubits.")
    return "\n".join(out) + "\n"


SPECIAL = {"Gen_validate": gen_validate, "Gen_rank": gen_rank, "Gen_width": gen_width}


def generate(name):
    if name in SPECIAL:
        return SPECIAL[name]()
    src, kw, groups = SPECS[name]
    tr = Translator(src, **kw)
    # drop leading statements that only bind parameters we pass explicitly (e.g. n = len(x))
    for g in groups:
        for cfg in g:
            n = cfg.get("skip_first", 0)
            if n:
                node = tr.funcs[cfg["name"]]
                body = [b for b in node.body if not (isinstance(b, ast.Expr) and isinstance(b.value, ast.Constant))]
                skipped, node.body = body[:n], body[n:]
                cfg["skipped_src"] = [ast.unparse(s) for s in skipped]
                exp = cfg.get("skipped_expect") or EXPECT_SKIPPED.get((name, cfg["name"]))
                if exp is not None and cfg["skipped_src"] != exp:
                    raise Unsupported(f"{src}: leading statement(s) of {cfg['name']} changed: {cfg['skipped_src']} (expected {exp})")
    body = tr.run(groups)
    return HEADER.format(src=src) + body + "\n"


EXPECT_SKIPPED = {
    ("Gen_majority", "operate"): ["size_controls = len(controls)"],
    ("Gen_unitary_counts", "_cnot_count_estimate"): ["n_qubits = int(log2(gate.shape[0]))"],
}


def regenerate(names=None):
    """regenerate all Gen files; returns {name: error message} for those that could not be translated.
    A file that cannot be translated is replaced by a stub that does not compile dependents silently:
    it defines nothing, so every theorem about it breaks."""
    from harness.coqtool import write_if_changed
    fails = {}
    for name in (names or list(SPECS) + list(SPECIAL)):
        path = os.path.join(THEORIES, name + ".v")
        try:
            text = generate(name)
        except Unsupported as ex:
            fails[name] = str(ex)
            text = f"(* translation failed: {str(ex)!r} *)\n"
        except Exception as ex:  # fail closed on anything unexpected
            fails[name] = f"translator crashed: {type(ex).__name__}: {ex}"
            text = f"(* translation failed: {fails[name]!r} *)\n"
        write_if_changed(path, text)
    return fails


if __name__ == "__main__":
    import sys
    for n in (sys.argv[1:] or list(SPECS) + list(SPECIAL)):
        try:
            print(generate(n))
        except Unsupported as ex:
            print("UNSUPPORTED", n, ex)


def python_prefix_eval(relpath, fname, stop_before, return_var, local_env, global_env=None):
    """Execute, in CPython, the statements of function `fname` up to (not including) the first statement whose
    source starts with `stop_before`, with the given local variables; returns the value of `return_var`.
    Used for translation validation of functions the translator cuts at the same statement."""
    import importlib
    with open(os.path.join(REPO, relpath), newline="") as fh:
        src = fh.read().replace("\r\n", "\n")
    tree = ast.parse(src)
    fn = next(n for n in ast.walk(tree) if isinstance(n, ast.FunctionDef) and n.name == fname)
    body = []
    for s in fn.body:
        if ast.unparse(s).startswith(stop_before):
            break
        body.append(s)
    mod = ast.Module(body=body, type_ignores=[])
    ast.fix_missing_locations(mod)
    modname = relpath[:-3].replace("/", ".")
    g = dict(vars(importlib.import_module(modname)))
    if global_env:
        g.update(global_env)
    g.update(local_env)      # one namespace: comprehensions inside the prefix must see the locals
    exec(compile(mod, relpath, "exec"), g)
    return g[return_var]
