"""placeholder; replaced below"""
def regenerate():
    return {}
