"""Shared run context: counting, replay files, known findings, evidence."""
import json
import os
import time
import hashlib
import shutil
import numpy as np

VERIF = os.environ.get("VERIF_HOME", "/verif")
REPO = os.environ.get("VERIF_REPO", "/repo")


def jsonable(x):
    """Convert numpy / complex data to JSON-serialisable structures (floats kept via repr + hex)."""
    if isinstance(x, dict):
        return {str(k): jsonable(v) for k, v in x.items()}
    if isinstance(x, (list, tuple)):
        return [jsonable(v) for v in x]
    if isinstance(x, np.ndarray):
        return jsonable(x.tolist())
    if isinstance(x, (np.integer,)):
        return int(x)
    if isinstance(x, (np.floating,)):
        return float(x)
    if isinstance(x, (complex, np.complexfloating)):
        return {"re": float(x.real), "im": float(x.imag)}
    if isinstance(x, (np.bool_,)):
        return bool(x)
    if isinstance(x, float):
        return x
    if isinstance(x, (int, str, bool)) or x is None:
        return x
    return repr(x)


def unjson_array(x):
    """Inverse of jsonable for (nested lists of) numbers / complex dicts."""
    def conv(v):
        if isinstance(v, dict) and set(v) == {"re", "im"}:
            return complex(v["re"], v["im"])
        if isinstance(v, list):
            return [conv(u) for u in v]
        return v
    return np.array(conv(x))


class BudgetExhausted(BaseException):
    """the widened search of the quick tier has used its wall-clock budget (raised between two evaluated cases)"""


class Ctx:
    def __init__(self, prop, tier, seed, replay_mode=False):
        self.prop = prop
        self.tier = tier
        self.seed = seed
        self.rng = np.random.default_rng([seed, int(prop[1:])])
        self.t0 = time.time()
        self.workdir = os.path.join(VERIF, ".work", f"{prop}-{os.getpid()}")
        os.makedirs(self.workdir, exist_ok=True)
        self.replay_dir = os.path.join(VERIF, "replays")
        os.makedirs(self.replay_dir, exist_ok=True)
        self.evaluations = 0
        self.distinct = set()
        self.hist = {}
        self.samples = []
        self.violations = []          # (replay_path, summary)
        self.known_hits = {}          # finding id -> count
        self.mismatches = []          # correspondence / contract mismatches without a failing input
        self.obligation_failures = []  # broken proof obligations
        self.monitor_calls = {}
        self.max_struct_qubits = 0
        self.notes = []
        self.known = load_known_findings(prop)
        self.deadline = None      # wall-clock limit of the widened search (quick tier only)
        self.replay_mode = replay_mode
        self.quick = tier == "quick"
        self.skip_eval = bool(os.environ.get("VERIF_DEV_NO_EVAL"))   # developer switch only

    # ----- counting ---------------------------------------------------------------
    def count(self, family, key=None, nontrivial=True, sample=None):
        """one evaluated case.  key: hashable identity of the case (for distinct counting)."""
        if self.deadline is not None and time.time() > self.deadline:
            raise BudgetExhausted()
        self.evaluations += 1
        self.hist[family] = self.hist.get(family, 0) + 1
        if nontrivial and key is not None:
            h = hashlib.sha1(repr(key).encode()).hexdigest()[:16]
            self.distinct.add(h)
        if sample is not None and len(self.samples) < 12 and all(s.get("family") != family for s in self.samples):
            s = {"family": family}
            s.update(jsonable(sample))
            self.samples.append(s)

    def monitor(self, name, n=1):
        self.monitor_calls[name] = self.monitor_calls.get(name, 0) + n

    def note(self, msg):
        if msg not in self.notes:
            self.notes.append(msg)

    # ----- reporting --------------------------------------------------------------
    def _write_replay(self, data):
        data = jsonable(data)
        data["property"] = self.prop
        data["seed"] = self.seed
        data["tier"] = self.tier
        data.setdefault("how_to_run", f"./check {self.prop} --replay <this file>")
        blob = json.dumps(data, sort_keys=True)
        name = f"{self.prop}-{data.get('kind','input')}-{hashlib.sha1(blob.encode()).hexdigest()[:12]}.json"
        path = os.path.join(self.replay_dir, name)
        with open(path, "w") as f:
            json.dump(data, f, indent=1, sort_keys=True)
        return path

    def violation(self, what, case, **extra):
        """A concrete input on which the property fails on the implementation.
        `case` must carry every field the known-finding predicates look at."""
        rec = {"kind": "input", "what": what, "case": case}
        rec.update(extra)
        kf = match_known(self.known, what, case)
        if kf is not None:
            self.known_hits[kf["id"]] = self.known_hits.get(kf["id"], 0) + 1
            return False
        if len(self.violations) < 20:
            path = self._write_replay(rec)
            self.violations.append((path, what))
        else:
            self.violations.append((self.violations[0][0], what))
        return True

    def mismatch(self, what, detail):
        """model/implementation correspondence (or oracle contract) differs; not by itself a violation."""
        rec = {"kind": "correspondence", "what": what, "detail": detail}
        kf = match_known(self.known, what, detail if isinstance(detail, dict) else {})
        if kf is not None:
            self.known_hits[kf["id"]] = self.known_hits.get(kf["id"], 0) + 1
            return
        if len(self.mismatches) < 20:
            self.mismatches.append((self._write_replay(rec), what))

    def obligation_failed(self, theorem, reason):
        rec = {"kind": "obligation", "what": f"proof obligation {theorem} no longer checks", "theorem": theorem,
               "detail": reason}
        self.obligation_failures.append((self._write_replay(rec), theorem))

    def cleanup(self):
        shutil.rmtree(self.workdir, ignore_errors=True)


def load_known_findings(prop):
    path = os.path.join(VERIF, "known_findings.json")
    if not os.path.exists(path):
        return []
    with open(path) as f:
        data = json.load(f)
    return [k for k in data.get("findings", []) if k["property"] == prop]


def match_known(known, what, case):
    """A known finding matches when every key of its `match` dict equals the case's value
    (values may be lists = any-of) and, if given, `what_contains` is a substring of `what`."""
    for k in known:
        wc = k.get("what_contains")
        if wc and wc not in what:
            continue
        ok = True
        for key, val in k.get("match", {}).items():
            cv = case.get(key) if isinstance(case, dict) else None
            if isinstance(val, list):
                if cv not in val:
                    ok = False
                    break
            elif isinstance(val, dict) and "min" in val:
                if not (isinstance(cv, (int, float)) and cv >= val["min"] and cv <= val.get("max", float("inf"))):
                    ok = False
                    break
            elif cv != val:
                ok = False
                break
        if ok:
            return k
    return None


def write_evidence(ctx, coq, level="proof", extra=None):
    cov = {
        "obligations": coq["obligations"],
        "discharged": coq["discharged"],
        "checker_cmd": coq["checker_cmd"],
        "trusted_base": coq["trusted_base"],
        "theorems": coq["theorems"],
        "evaluations": ctx.evaluations,
        "distinct_nontrivial": len(ctx.distinct),
        "rule": coq.get("rule", ""),
        "samples": ctx.samples if ctx.samples else [{"note": "no case generated"}],
        "family_histogram": ctx.hist,
        "monitor_calls": ctx.monitor_calls,
        "max_qubits_compared_structurally": ctx.max_struct_qubits,
        "known_finding_hits": ctx.known_hits,
        "correspondence_mismatches": len(ctx.mismatches),
        "notes": ctx.notes,
    }
    if extra:
        cov.update(extra)
    ev = {
        "property_id": ctx.prop,
        "tier": ctx.tier,
        "seed": ctx.seed,
        "level": level,
        "coverage": jsonable(cov),
        "assumptions": coq.get("assumptions", []),
        "wall_s": round(time.time() - ctx.t0, 2),
        "violations": len(ctx.violations) + (1 if (ctx.mismatches or ctx.obligation_failures) and not ctx.violations else 0),
    }
    os.makedirs(os.path.join(VERIF, "evidence"), exist_ok=True)
    with open(os.path.join(VERIF, "evidence", f"{ctx.prop}.json"), "w") as f:
        json.dump(ev, f, indent=1, sort_keys=True)
    return ev
