"""Coq side of a check: regenerate Gen_*.v, build, collect obligations and their assumptions,
evaluate generated case files with vm_compute."""
import fcntl
import glob
import os
import re
import subprocess
import time

VERIF = os.environ.get("VERIF_HOME", "/verif")
COQDIR = os.path.join(VERIF, "coq")
THEORIES = os.path.join(COQDIR, "theories")

ALLOWED_AXIOMS = {
    "ClassicalDedekindReals.sig_forall_dec",
    "ClassicalDedekindReals.sig_not_dec",
    "FunctionalExtensionality.functional_extensionality_dep",
    "functional_extensionality_dep",
    "Classical_Prop.classic",
    "classic",
    "sig_forall_dec",
    "sig_not_dec",
}
# primitives of the standard library's machine floats / ints (not axioms of ours; reported by Print Assumptions)
ALLOWED_PREFIXES = ("PrimFloat.", "Uint63.", "PrimInt63.", "FloatAxioms.", "FloatOps.", "SpecFloat.", "Sint63.",
                    "Uint63Axioms.", "CarryType.", "PrimInt63", "PrimFloat")

FORBIDDEN = re.compile(
    r"\b(Admitted|admit|Axiom|Axioms|Parameter|Parameters|Conjecture|Conjectures)\b|Unset\s+Guard|Unset\s+Positivity|"
    r"Unset\s+Universe\s+Checking|bypass_check|Admit\s+Obligations|type-in-type|impredicative-set")


class Lock:
    def __enter__(self):
        os.makedirs(COQDIR, exist_ok=True)
        self.f = open(os.path.join(COQDIR, ".lock"), "w")
        fcntl.flock(self.f, fcntl.LOCK_EX)
        return self

    def __exit__(self, *a):
        fcntl.flock(self.f, fcntl.LOCK_UN)
        self.f.close()


def strip_comments(src):
    out, depth, i = [], 0, 0
    while i < len(src):
        if src.startswith("(*", i):
            depth += 1
            i += 2
        elif src.startswith("*)", i) and depth > 0:
            depth -= 1
            i += 2
        else:
            if depth == 0:
                out.append(src[i])
            i += 1
    return "".join(out)


def scan_forbidden():
    """fail-closed scan of every .v file of the development"""
    bad = []
    for f in sorted(glob.glob(os.path.join(THEORIES, "*.v"))):
        src = strip_comments(open(f).read())
        for m in FORBIDDEN.finditer(src):
            bad.append(f"{os.path.basename(f)}: forbidden token {m.group(0)!r}")
        depth = 0
        for line in src.splitlines():
            s = line.strip()
            if re.match(r"^(Section|Module)\s", s):
                depth += 1
            elif re.match(r"^End\s", s):
                depth = max(0, depth - 1)
            elif depth == 0 and re.match(r"^(Variable|Variables|Hypothesis|Hypotheses|Context)\b", s):
                bad.append(f"{os.path.basename(f)}: {s.split()[0]} outside a section")
    return bad


def ensure_makefile():
    files = sorted(glob.glob(os.path.join(THEORIES, "*.v")))
    proj = "-Q theories QV\n-arg -w -arg -all\n" + "".join("theories/" + os.path.basename(f) + "\n" for f in files)
    p = os.path.join(COQDIR, "_CoqProject")
    old = open(p).read() if os.path.exists(p) else ""
    if old != proj or not os.path.exists(os.path.join(COQDIR, "Makefile")):
        with open(p, "w") as f:
            f.write(proj)
        subprocess.run(["coq_makefile", "-f", "_CoqProject", "-o", "Makefile"], cwd=COQDIR, check=True,
                       stdout=subprocess.DEVNULL, stderr=subprocess.DEVNULL)


def write_if_changed(path, text):
    if os.path.exists(path) and open(path).read() == text:
        return False
    with open(path, "w") as f:
        f.write(text)
    return True


def make(targets=None, timeout=3000):
    """full .vo build (never -vos).  returns (ok, output)"""
    ensure_makefile()
    cmd = ["timeout", str(timeout), "make", "-j16"]
    if targets:
        cmd += [f"theories/{t}.vo" for t in targets]
    r = subprocess.run(cmd, cwd=COQDIR, stdout=subprocess.PIPE, stderr=subprocess.STDOUT, text=True)
    return r.returncode == 0, r.stdout


def theorems_of(props_file):
    src = strip_comments(open(os.path.join(THEORIES, props_file + ".v")).read())
    return re.findall(r"^\s*(?:Theorem|Lemma|Example)\s+([A-Za-z0-9_']+)", src, flags=re.M)


def parse_assumptions(output):
    """returns list of (axiom-name-list) per Print Assumptions block, in order"""
    blocks = []
    lines = output.splitlines()
    i = 0
    while i < len(lines):
        ln = lines[i]
        if ln.startswith("Closed under the global context"):
            blocks.append([])
        elif ln.startswith("Axioms:"):
            names = []
            i += 1
            while i < len(lines) and not lines[i].startswith("Closed under") and not lines[i].startswith("Axioms:"):
                m = re.match(r"^([A-Za-z_][A-Za-z0-9_.']*)\s*(:|$)", lines[i])
                if m and not lines[i].startswith(" "):
                    names.append(m.group(1))
                i += 1
            blocks.append(names)
            continue
        i += 1
    return blocks


def axiom_allowed(a):
    return a in ALLOWED_AXIOMS or a.startswith(ALLOWED_PREFIXES)


def check_obligations(ctx, props_files, extra=()):
    """props_files: one name or a list of names (e.g. a stdlib-style and a mathcomp-style file)"""
    if isinstance(props_files, str):
        props_files = [props_files]
    agg = None
    for i, pf in enumerate(props_files):
        r = check_obligations_one(ctx, pf, extra if i == 0 else ())
        if agg is None:
            agg = r
        else:
            agg["obligations"] += r["obligations"]
            agg["discharged"] += r["discharged"]
            agg["theorems"].update(r["theorems"])
            agg["checker_cmd"] += " ; " + r["checker_cmd"]
            agg["trusted_base"] = agg["trusted_base"] + [t for t in r["trusted_base"] if t not in agg["trusted_base"]]
            agg["coq_wall_s"] = agg.get("coq_wall_s", 0) + r.get("coq_wall_s", 0)
            if "build_error" in r:
                agg["build_error"] = r["build_error"]
    return agg


def check_obligations_one(ctx, props_file, extra=()):
    """compile theories/<props_file>.v (after its dependencies) and read Print Assumptions.
    returns dict for the evidence file; records failures in ctx."""
    t0 = time.time()
    thms = theorems_of(props_file)
    res = {"obligations": len(thms), "discharged": 0, "theorems": {},
           "checker_cmd": f"cd {VERIF}/coq && make -j16 theories/{props_file}.vo && coqc -Q theories QV theories/{props_file}.v"
                          "   (full .vo build; Print Assumptions under every theorem)",
           "trusted_base": []}
    bad = scan_forbidden()
    if bad:
        for b in bad:
            ctx.obligation_failed("development-scan", b)
        return res
    with Lock():
        ok, out = make([props_file] + list(extra))
        if not ok:
            # which file / line failed?
            m = re.search(r'File "\./theories/([A-Za-z0-9_]+)\.v", line (\d+)[^\n]*\n((?:.*\n){0,12})', out)
            where = f"{m.group(1)}.v line {m.group(2)}: {m.group(3).strip()[:600]}" if m else out[-800:]
            failed_thm = None
            if m and m.group(1) == props_file:
                # find the theorem enclosing that line
                src = open(os.path.join(THEORIES, props_file + ".v")).read().splitlines()
                for ln in range(int(m.group(2)) - 1, -1, -1):
                    mm = re.match(r"^\s*(?:Theorem|Lemma|Example)\s+([A-Za-z0-9_']+)", src[ln])
                    if mm:
                        failed_thm = mm.group(1)
                        break
            ctx.obligation_failed(failed_thm or f"{props_file} (dependency {m.group(1) if m else '?'})", where)
            for t in thms:
                res["theorems"][t] = "not checked (build failed)"
            res["build_error"] = where
            return res
        r = subprocess.run(["timeout", "1800", "coqc", "-Q", "theories", "QV", "-w", "-all",
                            "-o", os.path.join(ctx.workdir, props_file + ".vo"),
                            f"theories/{props_file}.v"], cwd=COQDIR, stdout=subprocess.PIPE,
                           stderr=subprocess.STDOUT, text=True)
    if r.returncode != 0:
        ctx.obligation_failed(props_file, r.stdout[-800:])
        return res
    blocks = parse_assumptions(r.stdout)
    n_print = len(re.findall(r"Print\s+Assumptions", strip_comments(open(os.path.join(THEORIES, props_file + ".v")).read())))
    if len(blocks) != n_print or n_print < len([t for t in thms if not t.startswith("ex_")]):
        ctx.obligation_failed(props_file, f"Print Assumptions blocks {len(blocks)} != expected {n_print}")
        return res
    # Print Assumptions appear in the same order as the non-example theorems
    main = [t for t in thms if not t.startswith("ex_")]
    axioms_used = set()
    for t, ax in zip(main, blocks):
        notallowed = [a for a in ax if not axiom_allowed(a)]
        if notallowed:
            ctx.obligation_failed(t, f"depends on axioms outside the trusted base: {notallowed}")
            res["theorems"][t] = {"status": "rejected", "axioms": ax}
        else:
            res["theorems"][t] = {"status": "proved", "axioms": ax}
            res["discharged"] += 1
            axioms_used.update(ax)
    for t in thms:
        if t.startswith("ex_"):
            res["theorems"][t] = {"status": "proved", "axioms": "non-vacuity example (covered by the file's compilation)"}
            res["discharged"] += 1
    res["trusted_base"] = [
        "Coq 8.16.1 kernel (coqc, full .vo build, vm_compute; no native_compute)",
        "axioms reported by Print Assumptions: " + (", ".join(sorted(axioms_used)) if axioms_used else "none (closed under the global context)"),
    ]
    res["coq_wall_s"] = round(time.time() - t0, 1)
    return res


def coq_eval(ctx, name, source, timeout=900):
    """evaluate a generated .v file (vm_compute) in the work directory; returns (ok, stdout)"""
    path = os.path.join(ctx.workdir, name + ".v")
    with open(path, "w") as f:
        f.write(source)
    cmd = ["coqc", "-Q", THEORIES, "QV", "-w", "-all", name + ".v"]
    r = subprocess.run(["timeout", str(timeout)] + cmd, cwd=ctx.workdir, stdout=subprocess.PIPE, stderr=subprocess.STDOUT, text=True)
    if r.returncode == 124:
        # the wall-clock limit was hit (a loaded machine): one more attempt with three times the limit, then give up
        r = subprocess.run(["timeout", str(3 * timeout)] + cmd, cwd=ctx.workdir, stdout=subprocess.PIPE, stderr=subprocess.STDOUT,
                           text=True)
    return r.returncode == 0, r.stdout


def coq_eval_many(ctx, items, timeout=900, jobs=8):
    """items: list of (name, source); run in parallel; returns dict name -> (ok, stdout)"""
    from concurrent.futures import ThreadPoolExecutor
    with ThreadPoolExecutor(max_workers=jobs) as ex:
        futs = {name: ex.submit(coq_eval, ctx, name, src, timeout) for name, src in items}
        return {name: f.result() for name, f in futs.items()}
