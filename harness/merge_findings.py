"""Merge known_findings.d/*.json fragments into the committed known_findings.json (run by hand, never at check time)."""
import glob, json
base = json.load(open('/verif/known_findings.json'))
found = []
for f in sorted(glob.glob('/verif/known_findings.d/*.json')):
    d = json.load(open(f))
    found += d.get("findings", [])
ids = [k["id"] for k in found]
assert len(ids) == len(set(ids)), "duplicate finding ids"
base["findings"] = found
json.dump(base, open('/verif/known_findings.json', 'w'), indent=1)
print(len(found), "findings;", len(base["fixed"]), "fixed")
