"""Evaluate generated boolean case lists inside Coq (vm_compute) and report the failing indices."""
import re
from harness import coqtool


def run_bool_cases(ctx, prefix, header, lines, cases, on_fail, shard=40, timeout=900):
    """lines[i] is a Coq term of type bool that must evaluate to true for cases[i]."""
    items = []
    for s in range(0, len(lines), shard):
        src = (header + "Definition results : list bool := [\n" + ";\n".join(lines[s:s + shard]) + "].\n"
               "Eval vm_compute in (failing results).\n")
        items.append((f"{prefix}_{s // shard}", src))
    res = coqtool.coq_eval_many(ctx, items, timeout=timeout)
    nfail = 0
    for si, (name, _) in enumerate(items):
        ok, out = res[name]
        m = re.search(r"=\s*\[([^\]]*)\]\s*:\s*list nat", out.replace("\n", " "))
        if not ok or not m:
            ctx.mismatch(f"{ctx.prop} correspondence: case file did not evaluate", {"file": name, "output": out[-1500:]})
            nfail += 1
            continue
        for i in [int(x) for x in re.findall(r"\d+", m.group(1))]:
            on_fail(cases[si * shard + i])
            nfail += 1
    return nfail


def zlit(v):
    return f"({int(v)})%Z"


def zlist(vs):
    return "[" + "; ".join(zlit(v) for v in vs) + "]"
