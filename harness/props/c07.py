"""C07 - low-rank preparation = optimal rank-r' truncation."""
from fractions import Fraction
import numpy as np
from harness.coqcases import run_bool_cases
from harness.flatten import coq_q
from harness.props._common import run_eval, replay_eval

PROPS_FILES = ["P_C07", "P_C07mx", "P_C07r", "P_C07f"]
PROPS_FILE = "P_C07"
GEN_FILES = ["Gen_rank"]
COQ_TARGETS = ["CaseLib"]
RULE = ("translation validation: rank logic regenerated from entanglement.low_rank_approximation/_effective_rank and compared "
        "with the implementation's returned rank for singular-value lists (values a factor 1e3 away from the 1e-7 cut, zeros, "
        "degenerate) and every requested rank; direct evaluation (harness/props/c07_eval.py): prepared state vs independently "
        "built Schmidt truncation, fidelity vs sum of top squared coefficients, every bipartition and rank. "
        "distinct = distinct (singular values, rank) / (state, partition, rank); non-trivial = at least 2 singular values")
ASSUMPTIONS = ["np.linalg.svd returns orthonormal factors and non-increasing singular values (contract, checked numerically in the direct evaluation)",
               "optimality among all states of that Schmidt rank is proved given the SVD contract (C07_optimal_truncation: Cauchy-Schwarz, Bessel, top-k bound); that numpy's factors are a singular value decomposition is a numerical contract; the direct evaluation checks the fidelity value"]
TRUSTED = ["harness/translate.py gen_rank(): shape-checked extraction"]
HEADER = ("From Coq Require Import List Bool ZArith NArith QArith.\nFrom QV Require Import GenLib Gen_rank CaseLib.\nImport ListNotations.\n")


def tv(ctx):
    from qclib.entanglement import low_rank_approximation
    rng = ctx.rng
    cases, lines = [], []
    lists = []
    for m in (1, 2, 3, 4, 5, 8, 16):
        for _ in range(3 if ctx.quick else 8):
            s = sorted([float(x) for x in rng.random(m)], reverse=True)
            nz = int(rng.integers(1, m + 1))
            for i in range(nz, m):
                s[i] = 0.0 if rng.random() < 0.5 else float(rng.choice([1e-10, 1e-12, 9e-11]))
            lists.append(s)
        lists.append([1.0] + [0.0] * (m - 1))
        lists.append([1e-3] * m)
        lists.append([2e-4] + [1e-10] * (m - 1))
    for s in lists:
        if any(abs(x - 1e-7) < 1e-9 for x in s):
            continue
        m = len(s)
        for low in range(0, m + 2):
            u = np.zeros((max(m, 2), max(m, 2)))
            try:
                rank = int(low_rank_approximation(low, u, u, np.array(s))[0])
            except Exception as ex:     # log2(0) for an all-below-threshold list: not a valid state
                continue
            cases.append((tuple(x.hex() for x in s), low, rank))
            ctx.count("tv:low_rank_approximation", key=(tuple(s), low), nontrivial=m >= 2,
                      sample={"singular_values": s, "low_rank": low, "rank": rank} if m == 5 and low == 3 else None)
            ql = "[" + "; ".join(coq_q(Fraction(x)) for x in s) + "]"
            lines.append(f"(N.eqb (rank_of {low}%N (effective_rank {ql})) {rank}%N)")

    def on_fail(c):
        ctx.mismatch("C07 translation validation: rank returned by low_rank_approximation differs from the regenerated rank logic",
                     {"singular_values": list(c[0]), "low_rank": c[1], "python_rank": c[2]})
    run_bool_cases(ctx, "c07_rank", HEADER, lines, cases, on_fail, shard=400)


def structure_monitor(ctx):
    """shape of LowRankInitialize's definition behind C07_lowrank_assembly / C07_fan_copies: one block on the e low qubits of
    register b (singular values), then exactly e CNOTs cx(b_j, a_j) pairing the low qubits of the two registers (controls and
    targets pairwise distinct), then one block on all of register b and one on all of register a; e = log2(rank)."""
    from qclib.state_preparation import LowRankInitialize
    from qclib.entanglement import schmidt_decomposition
    rng = ctx.rng
    for n in (range(2, 6) if ctx.quick else range(2, 8)):
        for rep in range(3):
            size = int(rng.integers(1, n))
            part = sorted(int(q) for q in rng.choice(n, size=size, replace=False))
            lr = int(rng.integers(0, 5))
            v = rng.normal(size=2 ** n) + 1j * rng.normal(size=2 ** n)
            v /= np.linalg.norm(v)
            g = LowRankInitialize(v, opt_params={"lr": lr, "partition": part})
            circ = g.definition
            rank = schmidt_decomposition(v, part, rank=lr)[0]
            e = int(round(np.log2(rank)))
            reg_a = part[::-1]
            reg_b = sorted(set(range(n)) - set(part))[::-1]
            mirror = lambda q: n - 1 - q                       # the definition is circuit.reverse_bits()
            ops = [(i.operation.name, [circ.find_bit(q).index for q in i.qubits]) for i in circ.data]
            mb, ma = set(mirror(q) for q in reg_b), set(mirror(q) for q in reg_a)
            want = [[mirror(reg_b[j]), mirror(reg_a[j])] for j in range(e)]
            if e > 0:
                head, fanops, tail = ops[0], ops[1:1 + e], ops[1 + e:]
                ok = sorted(head[1]) == sorted(mirror(q) for q in reg_b[:e]) and head[0] != "cx" \
                    and [o[1] for o in fanops] == want and all(o[0] == "cx" for o in fanops) \
                    and len(set(q for p in want for q in p)) == 2 * e
            else:
                tail, ok = ops, True
            # the rest: operations inside register b, then operations inside register a
            side = ["b" if set(o[1]) <= mb else "a" if set(o[1]) <= ma else "?" for o in tail]
            ok = ok and "?" not in side and side == sorted(side, reverse=True)
            cxs = want
            ctx.monitor("lowrank_structure")
            ctx.count("monitor:lowrank_structure", key=("lrs", n, tuple(part), lr, v.tobytes()[:64]), nontrivial=True,
                      sample={"n": n, "partition": part, "lr": lr, "e_bits": e, "cx": cxs} if n == 4 and rep == 0 else None)
            if not ok:
                ctx.mismatch("C07 contract: LowRankInitialize's definition is not [singular values on the low qubits of b ; cx(b_j, a_j), j < e ; "
                             "block on register b ; block on register a]", {"n": n, "partition": part, "lr": lr, "ops": ops[:12]})


def run(ctx):
    tv(ctx)
    structure_monitor(ctx)
    run_eval(ctx, "C07")


def search(ctx):
    run_eval(ctx, "C07", deep=True)


def replay(ctx, case):
    return replay_eval(ctx, "C07", case)


MANIFEST = dict(
    text='Proof: the rank used by low-rank preparation (rank logic regenerated from the source every run) is the least power of two >= min(r, effective rank) (C07_rank_spec); the overlap of a state with its Schmidt truncation is the sum of the kept squared coefficients for orthonormal factors (C07_overlap_truncated, any field). Tie: translator + execution against low_rank_approximation; direct evaluation of prepared state and fidelity for every bipartition and rank. Optimality clause proved in full: any unit state of Schmidt rank <= k has squared overlap with psi at most the sum of the k largest squared Schmidt coefficients (C07_optimal_truncation, via C07_cauchy_schwarz, C07_bessel, C07_topk_bound). Assembly of the circuit: C07_lowrank_assembly, C07_fan_copies / C07_fan_superposition, with a structure monitor on the definition.',
    note='Modelled, not verified: np.linalg.svd contract (orthonormal factors, sorted non-negative values); the isometry blocks of the circuit (C03).',
    technique='Coq proof (N.log2_up; mathcomp trace algebra; finite-dimensional Cauchy-Schwarz / Bessel over Coquelicot complex numbers; sparse simulation of the CNOT fan) + translator-regenerated rank logic + numpy evaluation',
    design_ref='DESIGN.md section 4, C07')
