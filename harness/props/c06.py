"""C06 - sparse state preparation (merge, pivot, CVO-QRAM)."""
import numpy as np
from harness.coqcases import run_bool_cases
from harness.flatten import coq_list, coq_bool
from harness.props._common import run_eval, replay_eval

PROPS_FILE = "P_C06"
COQ_TARGETS = ["CaseLib", "CvoModel", "CvoGates", "CvoAux", "PivotCert", "SparseSim"]
RULE = ("correspondence: the instruction list of CvoqramInitialize(...).definition (with/without auxiliaries, every mcg_method) is "
        "compared inside Coq with CvoModel.cvo_gates for Hamming-sorted dictionaries, n = 2..6/9, together with the executable order premise "
        "ordered_b of C06_cvo_gates / C06_cvo_gates_aux; contract: the 2x2 matrices of the "
        "emitted rotations satisfy the amplitude recurrence x_j = U_j[0,1] g_j, g_(j+1) = U_j[1,1] g_j, g_m = 0 that instantiates "
        "C06_cvo_step; PivotInitialize with and without auxiliaries, n = 2..14/22: the instructions after the dense preparation are read as X / CX / "
        "multi-controlled X (Qiskit mcx_vchain as ideal; small Mcg blocks checked numerically to be the ideal MCX) or, with auxiliaries, blocks "
        "rccx ladder ; CX ; reversed ladder (Qiskit's rccx matrix compared with the model's), the side conditions of "
        "C06_pivot_cert / C06_pivot_aux_cert are evaluated in Coq, and the dense vector handed to LowRankInitialize must carry each key's amplitude at the index "
        "scls (rev Q) key computed in Coq from the emitted gates; MergeInitialize, n = 2..12/18: the instruction list is simulated symbolically "
        "inside Coq (SparseSim.ssim) and must reach the basis states through the matrix entries the harness lists, whose products are "
        "compared with the dictionary; direct evaluation (harness/props/c06_eval.py): full state incl. auxiliaries for merge, pivot and CVO-QRAM. "
        "distinct = distinct (dictionary, options); non-trivial = m >= 2")
ASSUMPTIONS = ["without auxiliary qubits the multi-controlled U is C04's gate (Mcg / LdMcSpecialUnitary / Qiskit control): modelled as ideal, "
               "evaluated in the direct evaluation; with auxiliary qubits the rccx ladder of _mcuvchain is part of the proved gate list "
               "(Qiskit's rccx matrix is compared with CvoGates.rccx on every rccx met)",
               "pivot: the dense low-rank preparation is C07's; Qiskit's mcx_vchain is taken as the ideal MCX restoring its dirty ancillas; "
               "merge: the multi-controlled U gates (Ldmcu) are taken as ideal (C04_ldmcu; blocks of up to 6 qubits are checked numerically); "
               "the finitely many products of 2x2 matrix entries along the simulated paths are compared numerically (1e-9) with the dictionary"]
TRUSTED = ["top-level instruction list of the definition (no flattening needed)"]
HEADER = ("From Coq Require Import List Bool Arith.\nFrom QV Require Import CvoModel CvoGates CvoAux CaseLib.\nImport ListNotations.\n"
          "Definition cgate_eqb (g h : cgate) : bool := match g, h with\n"
          " | CX0 a, CX0 b => Nat.eqb a b | CCX a b, CCX c d => Nat.eqb a c && Nat.eqb b d\n"
          " | CRCCX a b c, CRCCX a' b' c' => Nat.eqb a a' && Nat.eqb b b' && Nat.eqb c c'\n"
          " | CU j cs t, CU j' cs' t' => Nat.eqb j j' && list_eqb Nat.eqb cs cs' && Nat.eqb t t' | _, _ => false end.\n")


def _rccx_ref():
    """CvoGates.rccx: |a b t> -> phase |a b (t xor ab)>, phase i on |110>, -i on |111>, -1 on |101> (a = first control); index a + 2b + 4t"""
    M = np.zeros((8, 8), dtype=complex)
    for a in (0, 1):
        for b in (0, 1):
            for t in (0, 1):
                ph = (1j if t == 0 else -1j) if (a and b) else (-1 if (a and not b and t) else 1)
                M[a + 2 * b + 4 * (t ^ (a & b)), a + 2 * b + 4 * t] = ph
    return M


RCCX_REF = _rccx_ref()


def umat(theta, phi, lam):
    c, s = np.cos(theta / 2), np.sin(theta / 2)
    return np.array([[c, -np.exp(1j * lam) * s], [np.exp(1j * phi) * s, np.exp(1j * (phi + lam)) * c]])


def random_dict(rng, n, m, kind):
    keys = rng.choice(2 ** n, size=m, replace=False)
    keys = sorted((format(int(k), f"0{n}b") for k in keys), key=lambda s: (s.count("1"), s))
    if kind == "complex":
        a = rng.normal(size=m) + 1j * rng.normal(size=m)
    elif kind == "real":
        a = rng.normal(size=m).astype(complex)
    else:
        a = -np.abs(rng.normal(size=m)).astype(complex)
    a = a / np.linalg.norm(a)
    return {k: complex(v) for k, v in zip(keys, a)}


def correspondence(ctx):
    from qclib.state_preparation import CvoqramInitialize
    nmax = 6 if ctx.quick else 9
    cases, lines = [], []
    for n in range(2, nmax + 1):
        for m in sorted({1, 2, 3, min(5, 2 ** n), min(2 ** n, 9)}):
            for kind in ("complex", "real", "negative"):
                d = random_dict(ctx.rng, n, m, kind)
                for aux in (True, False):
                    for method in (("linear", "qiskit", "barenco") if not aux else ("linear",)):
                        g = CvoqramInitialize(d, opt_params={"with_aux": aux, "mcg_method": method})
                        circ = g.definition
                        items, mats, j = [], [], 0
                        for inst in circ.data:
                            op = inst.operation
                            qs = [circ.find_bit(q).index for q in inst.qubits]
                            if op.name == "x":
                                items.append(f"CX0 {qs[0]}")
                            elif op.name == "cx":
                                items.append(f"CCX {qs[0]} {qs[1]}")
                            elif op.name == "rccx":
                                items.append(f"CRCCX {qs[0]} {qs[1]} {qs[2]}")
                                ctx.monitor("qiskit_rccx_matrix")
                                if np.abs(np.asarray(op.to_matrix()) - RCCX_REF).max() > 1e-12:
                                    ctx.mismatch("C06 contract: Qiskit's rccx is not the monomial gate CvoGates.rccx of the theorem", {"gate": "rccx"})
                            elif op.name in ("u", "cu") or op.name in ("mcg", "ldmc_su2") or (op.name.endswith("u") and op.name.startswith("c")):
                                items.append(f"CU {j} {coq_list([str(q) for q in qs[:-1]])} {qs[-1]}")
                                if op.name in ("u", "cu"):
                                    th, ph, la = [float(p) for p in op.params[:3]]
                                    ok_extra = op.name == "u" or float(op.params[3]) == 0.0
                                    mats.append(umat(th, ph, la) if ok_extra else None)
                                elif op.name in ("mcg", "ldmc_su2"):
                                    mats.append(np.array(op.unitary, dtype=complex))
                                else:
                                    bp = [float(p) for p in op.base_gate.params]
                                    mats.append(umat(*bp[:3]))
                                    if op.ctrl_state != 2 ** op.num_ctrl_qubits - 1:
                                        mats[-1] = None
                                j += 1
                            else:
                                items.append("CX0 99999")
                        pats = [[c == "1" for c in key[::-1]] for key in d]
                        ctx.max_struct_qubits = max(ctx.max_struct_qubits, circ.num_qubits)
                        case = {"n": n, "m": m, "with_aux": aux, "mcg_method": method, "keys": list(d.keys()), "kind": kind}
                        cases.append(case)
                        ctx.count(f"corr:cvoqram:aux={aux}:{method}", key=(tuple(d.items()), aux, method), nontrivial=m >= 2,
                                  sample=dict(case, gates=len(items)) if n == 3 and m == 3 else None)
                        plist = coq_list([coq_list([coq_bool(b) for b in p]) for p in pats])
                        premise = f" && ordered_b (map ({'ctl_ofa' if aux else 'ctl_of'} {n}) {plist})"
                        lines.append(f"(list_eqb cgate_eqb (cvo_gates {n} {coq_bool(aux)} {plist}) {coq_list(items)}{premise})")
                        # amplitude recurrence (premise/instantiation of C06_cvo_step)
                        gcur = 1.0 + 0j
                        ok = len(mats) == len(d) and all(x is not None for x in mats)
                        if ok:
                            for (key, amp), U in zip(d.items(), mats):
                                if abs(U[0, 1] * gcur - amp) > 1e-9:
                                    ok = False
                                gcur = U[1, 1] * gcur
                            if abs(gcur) > 1e-7:
                                ok = False
                        ctx.monitor("cvo_amplitude_recurrence")
                        if not ok:
                            ctx.mismatch("C06 contract: the rotation matrices of CvoqramInitialize do not satisfy the amplitude recurrence "
                                         "x_j = U_j[0,1] g_j, g_(j+1) = U_j[1,1] g_j, g_m = 0", case)

    def on_fail(c):
        ctx.mismatch("C06 correspondence: instruction list of CvoqramInitialize differs from the Coq model CvoModel.cvo_gates", c)
    run_bool_cases(ctx, "c06_cvo", HEADER, lines, cases, on_fail, shard=80)


PHEADER = ("From Coq Require Import List Bool Arith NArith.\nFrom QV Require Import McxModel PivotCert CaseLib.\nImport ListNotations.\n"
           "Definition keys_ok (Q : list pgate) (ks : list (N * list N)) : bool :=\n"
           "  forallb (fun kc => existsb (N.eqb (pcls (rev Q) (fst kc))) (snd kc)) ks.\n"
           "Definition unps (g : pgate) : list sgate := match g with PS s => [s] | _ => [] end.\n"
           "(* without blocks the circuit is a list of sgates: the side conditions of C06_pivot_cert are those of C06_pivot_aux_cert *)\n"
           "Definition plain_ok (Q : list pgate) : bool := forallb sokb (flat_map unps Q) && Nat.eqb (length (flat_map unps Q)) (length Q).\n")


def pivot_correspondence(ctx):
    """PivotInitialize with and without auxiliary qubits: the instructions after the dense preparation are X / CX / multi-controlled X
    gates or - with auxiliaries - blocks rccx ladder ; CX ; reversed ladder (side conditions of C06_pivot_cert / C06_pivot_aux_cert
    evaluated in Coq), and the dense vector the code hands to LowRankInitialize carries the amplitude of every key at the index
    pcls (rev Q) key computed inside Coq from the emitted gates (ancilla bits 0 on both sides)."""
    from qiskit.quantum_info import Operator
    from qclib.state_preparation import PivotInitialize
    from qclib.state_preparation.lowrank import LowRankInitialize
    from harness import monitors
    from harness.props.c06_eval import enc, layout, effective
    nmax = 14 if ctx.quick else 22
    cases, lines = [], []
    captured = []

    def init_factory(orig):
        def wrapped(q_circuit, state, *a, **kw):
            captured.append(np.array(state, dtype=complex))
            return orig(q_circuit, state, *a, **kw)
        return wrapped

    def mcx_ideal(op):
        k = op.num_qubits - 1
        M = np.asarray(Operator(op).data)
        ref = np.eye(2 ** (k + 1), dtype=complex)
        i0, i1 = 2 ** k - 1, 2 ** (k + 1) - 1            # controls = qubits 0..k-1 all one, target = qubit k
        ref[np.ix_([i0, i1], [i0, i1])] = np.array([[0, 1], [1, 0]])
        return np.abs(M - ref).max() < 1e-9
    sizes = [(n, m) for n in range(2, nmax + 1) for m in sorted({2, 3, 4, 5, min(2 ** n, 7), min(2 ** n, 9), min(2 ** n, 17)}) if m <= 2 ** n]
    timed_out = False
    for n, m in sizes:
        if timed_out:
            break
        for aux in (False, True):
            if aux and m < 3:
                continue
            for rep in range(2 if n <= 6 else 1):
                keys = [int(k) for k in ctx.rng.choice(2 ** n, size=m, replace=False)]
                if rep == 1 and m - 1 < 2 ** n - 1:              # keys crowding the low block, one in the far corner
                    keys = list(range(m - 1)) + [2 ** n - 1]
                a = ctx.rng.normal(size=m) + 1j * ctx.rng.normal(size=m)
                a = a / np.linalg.norm(a)
                d = {format(k, f"0{n}b"): complex(v) for k, v in zip(keys, a)}
                opt = {"aux": aux}
                case = {"class": "PivotInitialize", "opt_params": opt, "aux": aux, "mcg_method": None, "n": n, "m": m,
                        "keys": list(d.keys()), "amps": enc(list(d.values())), "types": "complex", "family": "pivot_correspondence"}
                captured.clear()
                try:
                    with monitors.patched(LowRankInitialize, "initialize", lambda o: staticmethod(init_factory(o))), monitors.time_limit(300):
                        g = PivotInitialize(d, opt_params=opt)
                        circ = g.definition
                except monitors.InstanceTimeout:
                    ctx.violation(f"PivotInitialize(aux={aux}) on n={n}, m={m}: the pivoting loop did not terminate within 300 s "
                                  "(instances of this size take well under a second)", dict(case, clause="termination"))
                    timed_out = True
                    break
                except Exception as ex:
                    ctx.note(f"PivotInitialize raised {type(ex).__name__} on n={n} m={m} aux={aux}")
                    continue
                ctx.count("corr:pivot:" + ("aux" if aux else "noaux"), key=("pivot", n, m, aux, tuple(sorted(d.items()))), nontrivial=m >= 2,
                          sample={"n": n, "m": m, "aux": aux, "instructions": len(circ.data)} if (n, m) == (6, 5) else None)
                ctx.max_struct_qubits = max(getattr(ctx, "max_struct_qubits", 0), circ.num_qubits)
                cases.append(case)
                data = [i for i in circ.data if i.operation.name != "barrier"]
                width, index_of = layout("PivotInitialize", effective("PivotInitialize", opt), n, m)
                if len(captured) != 1 or not data or data[0].operation.name != "low_rank" or circ.num_qubits != width:
                    ctx.mismatch("C06 correspondence: PivotInitialize definition does not start with one dense low-rank preparation "
                                 "on a register of the documented width", case)
                    lines.append("true")
                    continue
                dense = captured[0]
                dq = [circ.find_bit(q).index for q in data[0].qubits]          # dense index bit j lives on qubit dq[j]
                items = []
                insts = [(i.operation, [circ.find_bit(q).index for q in i.qubits]) for i in data[1:]]
                pos = 0
                while pos < len(insts):
                    op, qs = insts[pos]
                    if op.name == "rccx":
                        lad = []
                        while pos < len(insts) and insts[pos][0].name == "rccx":
                            ctx.monitor("rccx_matrix_is_the_model's")
                            if np.abs(np.asarray(Operator(insts[pos][0]).data) - RCCX_REF).max() > 1e-12:
                                lad = None
                                break
                            lad.append(tuple(insts[pos][1]))
                            pos += 1
                        ok_block = lad is not None and pos < len(insts) and insts[pos][0].name == "cx" and \
                            getattr(insts[pos][0], "ctrl_state", 1) == 1 and \
                            [tuple(q) for _, q in insts[pos + 1: pos + 1 + len(lad)]] == lad[::-1] and \
                            all(o.name == "rccx" for o, _ in insts[pos + 1: pos + 1 + len(lad)])
                        if not ok_block:
                            items.append("PS (SU true 0)")
                            pos += 1
                            continue
                        top, u = insts[pos][1]
                        items.append("PB " + coq_list([f"({x}, {y}, {z})" for x, y, z in lad]) + f" {top} {u}")
                        pos += 1 + len(lad)
                        continue
                    if op.name == "x":
                        items.append(f"PS (SX {qs[0]})")
                    elif op.name == "cx" and getattr(op, "ctrl_state", 1) == 1:
                        items.append(f"PS (SCX {qs[0]} {qs[1]})")
                    elif op.name == "mcx_vchain" and op.ctrl_state == 2 ** op.num_ctrl_qubits - 1:
                        k = op.num_ctrl_qubits
                        items.append(f"PS (SMCX {coq_list([str(q) for q in qs[:k]])} {qs[k]})")   # dirty ancillas qs[k+1:] restored (Qiskit gate)
                    elif op.num_qubits <= 7:
                        ctx.monitor("pivot_mcx_block_is_ideal")
                        if mcx_ideal(op):
                            items.append(f"PS (SMCX {coq_list([str(q) for q in qs[:-1]])} {qs[-1]})" if len(qs) > 2 else f"PS (SCX {qs[0]} {qs[1]})")
                        else:
                            items.append("PS (SU true 0)")
                    else:
                        items.append("PS (SU true 0)")
                    pos += 1
                nz = [i for i in range(len(dense)) if dense[i] != 0]

                def place(i):
                    return sum(((i >> j) & 1) << dq[j] for j in range(len(dq)))
                pairs = []
                for key, amp in d.items():
                    cands = [place(i) for i in nz if dense[i] == amp]
                    pairs.append(f"({index_of(key)}%N, {coq_list([str(i) + '%N' for i in cands])})")
                if len(nz) != len(d):
                    ctx.mismatch("C06 correspondence: the dense vector of PivotInitialize does not carry exactly the listed amplitudes", case)
                Q = coq_list(items)
                side = "forallb pokb Q" if aux else "forallb pokb Q && plain_ok Q"
                lines.append(f"(let Q := {Q} in {side} && keys_ok Q {coq_list(pairs)})")

    def on_fail(c):
        ctx.mismatch("C06 correspondence: PivotInitialize's gates do not permute the basis states as required or do not carry the keys to "
                     "the dense indices (premises of C06_pivot_cert / C06_pivot_aux_cert)", c)
    run_bool_cases(ctx, "c06_pivot", PHEADER, lines, cases, on_fail, shard=20)


SHEADER = ("From Coq Require Import List Bool Arith NArith.\nFrom QV Require Import SparseSim CaseLib.\nImport ListNotations.\n"
           "Definition step_eqb (a b : step) : bool := let '(i, r, c) := a in let '(j, r', c') := b in Nat.eqb i j && Bool.eqb r r' && Bool.eqb c c'.\n"
           "Definition sentry_eqb (a b : sentry) : bool := list_eqb step_eqb (fst a) (fst b) && N.eqb (snd a) (snd b).\n"
           "Definition sim_is (gates : list mg) (expected : list sentry) : bool :=\n"
           "  forallb mwfb gates && list_eqb sentry_eqb (ssim gates [([], 0%N)]) expected.\n")


def merge_correspondence(ctx):
    """MergeInitialize: the instruction list (X, CX, one-qubit U, multi-controlled U = Ldmcu) is simulated symbolically inside Coq from
    |0..0> (SparseSim.ssim, sound by C06_sparse_sim): the basis states reached and the matrix entries multiplied along each path must be
    the ones the harness lists; the harness then multiplies those 2x2 entries numerically and compares with the dictionary."""
    from qiskit.quantum_info import Operator
    from qclib.state_preparation import MergeInitialize
    from harness import monitors
    from harness.props.c06_eval import enc, layout, effective
    nmax = 12 if ctx.quick else 18
    cases, lines = [], []
    timed_out = False
    for n in range(2, nmax + 1):
        if timed_out:
            break
        for m in sorted({2, 3, 5, min(2 ** n, 8), min(2 ** n, 13)}):
            if m > 2 ** n:
                continue
            for rep in range(2 if n <= 6 else 1):
                keys = [int(k_) for k_ in ctx.rng.choice(2 ** n, size=m, replace=False)]
                kind = ["complex", "real", "negative"][int(ctx.rng.integers(3))]
                a = ctx.rng.normal(size=m) + (1j * ctx.rng.normal(size=m) if kind == "complex" else 0)
                if kind == "negative":
                    a = -np.abs(a)
                a = a / np.linalg.norm(a)
                d = {format(k_, f"0{n}b"): (complex(v) if kind == "complex" else float(np.real(v))) for k_, v in zip(keys, a)}
                case = {"class": "MergeInitialize", "opt_params": None, "aux": False, "mcg_method": None, "n": n, "m": m,
                        "keys": list(d.keys()), "amps": enc([complex(v) for v in d.values()]), "types": "complex" if kind == "complex" else "float",
                        "family": "merge_correspondence"}
                try:
                    with monitors.time_limit(300):
                        circ = MergeInitialize(d).definition
                except monitors.InstanceTimeout:
                    ctx.violation(f"MergeInitialize on n={n}, m={m}: the construction did not terminate within 300 s", dict(case, clause="termination"))
                    timed_out = True
                    break
                except Exception as ex:
                    ctx.note(f"MergeInitialize raised {type(ex).__name__} on n={n} m={m}")
                    continue
                ctx.count("corr:merge", key=("merge", n, m, tuple(sorted((k_, complex(v)) for k_, v in d.items()))), nontrivial=True,
                          sample={"n": n, "m": m, "instructions": len(circ.data)} if (n, m) == (6, 5) else None)
                ctx.max_struct_qubits = max(getattr(ctx, "max_struct_qubits", 0), n)
                cases.append(case)
                _, index_of = layout("MergeInitialize", effective("MergeInitialize", None), n, m)
                mats, items, gates = [], [], []
                for inst in circ.data:
                    op = inst.operation
                    qs = [circ.find_bit(q).index for q in inst.qubits]
                    if op.name == "x":
                        items.append(f"MGX {qs[0]}")
                        gates.append(("x", qs[0]))
                    elif op.name == "cx" and getattr(op, "ctrl_state", 1) == 1:
                        items.append(f"MGCX {qs[0]} {qs[1]}")
                        gates.append(("cx", qs[0], qs[1]))
                    elif op.name == "u" and len(qs) == 1:
                        mats.append(np.asarray(op.to_matrix()))
                        items.append(f"MGU {len(mats) - 1} [] {qs[0]}")
                        gates.append(("u", len(mats) - 1, [], qs[0]))
                    elif op.name == "Ldmcu" and getattr(op, "ctrl_state", None) is None:
                        U2 = np.asarray(op.unitary, dtype=complex)
                        if len(qs) <= 6:
                            ctx.monitor("merge_ldmcu_block_is_ideal")
                            k_ = len(qs) - 1
                            ref = np.eye(2 ** (k_ + 1), dtype=complex)
                            i0, i1 = 2 ** k_ - 1, 2 ** (k_ + 1) - 1
                            ref[np.ix_([i0, i1], [i0, i1])] = U2
                            if np.abs(np.asarray(Operator(op).data) - ref).max() > 1e-9:
                                ctx.mismatch("C06 contract: an Ldmcu block of MergeInitialize is not the ideal multi-controlled gate", case)
                        mats.append(U2)
                        items.append(f"MGU {len(mats) - 1} {coq_list([str(q) for q in qs[:-1]])} {qs[-1]}")
                        gates.append(("u", len(mats) - 1, qs[:-1], qs[-1]))
                    else:
                        items.append("MGCX 0 0")            # not in the alphabet: fails the side condition
                        gates.append(("bad",))
                # the same symbolic simulation in Python (order of entries as in SparseSim.ssim)
                ents = [((), 0)]
                for g_ in gates:
                    if g_[0] == "x":
                        ents = [(p_, b_ ^ (1 << g_[1])) for p_, b_ in ents]
                    elif g_[0] == "cx":
                        ents = [(p_, b_ ^ (1 << g_[2]) if (b_ >> g_[1]) & 1 else b_) for p_, b_ in ents]
                    elif g_[0] == "u":
                        _, i_, cs_, t_ = g_
                        new = []
                        for p_, b_ in ents:
                            if all((b_ >> c_) & 1 for c_ in cs_):
                                old = (b_ >> t_) & 1
                                new.append((((i_, 0, old),) + p_, b_ & ~(1 << t_)))
                                new.append((((i_, 1, old),) + p_, b_ | (1 << t_)))
                            else:
                                new.append((p_, b_))
                        ents = new
                    if len(ents) > 4096:
                        break
                exp = coq_list(["(" + coq_list([f"({i_}, {coq_bool(bool(r_))}, {coq_bool(bool(c_))})" for i_, r_, c_ in p_]) + f", {b_}%N)"
                                for p_, b_ in ents])
                lines.append(f"(sim_is {coq_list(items)} {exp})")
                # numerical part: products of the 2x2 entries along the paths
                ctx.monitor("merge_path_products")
                amp = {}
                for p_, b_ in ents:
                    v = 1.0 + 0j
                    for i_, r_, c_ in p_:
                        v *= mats[i_][r_, c_]
                    amp[b_] = amp.get(b_, 0.0) + v
                want = {index_of(k_): complex(v) for k_, v in d.items()}
                err = max([abs(amp.get(b_, 0.0) - v) for b_, v in want.items()] + [abs(v) for b_, v in amp.items() if b_ not in want])
                if err > 1e-9:
                    ctx.mismatch(f"C06 contract: the products of matrix entries along the simulated paths of MergeInitialize differ from the "
                                 f"dictionary by {err:.1e}", case)

    def on_fail(c):
        ctx.mismatch("C06 correspondence: the symbolic simulation of MergeInitialize's instruction list inside Coq differs from the harness's "
                     "(or a gate violates the side conditions of C06_sparse_sim)", c)
    run_bool_cases(ctx, "c06_merge", SHEADER, lines, cases, on_fail, shard=10)


def run(ctx):
    correspondence(ctx)
    pivot_correspondence(ctx)
    merge_correspondence(ctx)
    run_eval(ctx, "C06")


def search(ctx):
    run_eval(ctx, "C06", deep=True)


def replay(ctx, case):
    return replay_eval(ctx, "C06", case)


MANIFEST = dict(
    text=("Proof: CVO-QRAM END TO END on the model's gate list, for every n, every number of patterns and every family of rotation "
          "matrices - with auxiliary qubits (the default) including the ladder of relative-phase Toffolis over clean ancillas (C06_cvo_gates_aux), "
          "without them modulo the multi-controlled U being ideal (C06_cvo_gates): from |0..0> the circuit yields sum_j x_j|pattern_j>|flag=0> + g_m|last pattern>|flag=1> with "
          "x_j = U_j[0,1] g_j, g_(j+1) = U_j[1,1] g_j, under the executable order premise implied by the Hamming-weight order (C06_cvo_gates, C06_cvo_loop, C06_cvo_step). "
          "Tie: the instruction list of CvoqramInitialize (aux/no aux, every backend) is compared inside Coq with CvoModel.cvo_gates together with the order premise; the emitted "
          "rotation matrices must satisfy x_j = requested amplitude, g_m = 0; Qiskit's rccx matrix is compared with the theorem's. PIVOT, with and without auxiliaries: for every circuit Q of X, CX, multi-controlled X gates and blocks 'rccx ladder ; CX from the top ancilla ; reversed ladder' (such a block permutes the basis states for EVERY ancilla content: the relative phases cancel, C06_rccx_block) and every finite superposition, a dense state carrying each amplitude at the image of its key under the reversed circuit is turned by Q into exactly the listed amplitudes on the listed basis states, ancillas in 0 (C06_pivot_cert, C06_pivot_aux_cert, C06_classical_moves_basis); tie: side conditions and the index map evaluated inside Coq on the emitted gates against the dense vector the code builds, n to 14/22. MERGE: the instruction list (X, CX, one-qubit and multi-controlled U with arbitrary matrices) is simulated symbolically inside Coq from |0..0> - basis states reached and, per basis state, the matrix entries multiplied - and this sparse simulation is proved sound for every such circuit (C06_sparse_sim, C06_sparse_sim_from_zero), n to 12/18; the products of the entries are then compared with the dictionary numerically. All full-state claims are also evaluated directly; every construction runs under a per-instance watchdog (a pivoting loop that stops terminating is reported, not waited for)."),
    note="Modelled, not verified: the multi-controlled U without auxiliaries (C04 gates / Qiskit control) as ideal; Qiskit's rccx/cu matrices (compared numerically); pivot: which pivots the loop chooses is not modelled (any choice is covered by the theorem; termination is watched at run time); merge: the choice of the strings to merge is not modelled (any instruction list is covered by the simulation theorem).",
    technique="Coq proof (explicit-state loop invariant; flip-flop permutation semantics; basis-permuting circuits incl. phase-cancelling rccx blocks; sound symbolic sparse simulation) + instruction-list correspondence, index-map and path certificates evaluated in Coq and premise evaluation (vm_compute) + amplitude-recurrence contract + state-vector evaluation",
    design_ref="DESIGN.md section 4, C06")
