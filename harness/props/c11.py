"""C11 - ancilla-tree state preparation (BdspInitialize, DcspInitialize)."""
import numpy as np
from harness.coqcases import run_bool_cases, zlit
from harness.props._common import run_eval, replay_eval

PROPS_FILE = "P_C11"
GEN_FILES = ["Gen_width"]
COQ_TARGETS = ["CaseLib", "TopDownModel"]
RULE = ("translation validation: declared widths, default split and the add_register allocation count regenerated from the source "
        "(Gen_width) are evaluated in Coq and compared with gate.num_qubits and gate.definition.num_qubits for every (n, s), "
        "n <= 7/9 (circuits of up to hundreds of qubits are built, not simulated); direct evaluation (harness/props/c11_eval.py): "
        "exact marginals of the output qubits, s = n equality up to global phase. distinct = distinct (class, n, s); non-trivial = n >= 2")
ASSUMPTIONS = ["the marginal-distribution claim for general split levels is evaluated (simulation up to 20/24 qubits), not proved",
               "add_register's tree walk visits a complete binary tree with 2^l nodes on level l (validated by the definition widths)"]
TRUSTED = ["harness/translate.py gen_width(): expression translation of the width formulas, shape check of the counting statements"]
HEADER = ("From Coq Require Import List Bool ZArith.\nFrom QV Require Import GenLib Gen_width CaseLib.\nImport ListNotations.\nOpen Scope Z_scope.\n")


def tv(ctx):
    from qclib.state_preparation import BdspInitialize, DcspInitialize
    nmax = 7 if ctx.quick else 9
    cases, lines = [], []
    rng = ctx.rng
    for n in range(1, nmax + 1):
        v = rng.normal(size=2 ** n) + 1j * rng.normal(size=2 ** n)
        v /= np.linalg.norm(v)
        g = BdspInitialize(v)
        cases.append(("BdspInitialize.default_split", n, None, int(g.split)))
        lines.append(f"(Z.eqb (bdsp_default_split {n}) {zlit(g.split)})")
        for s in range(1, n + 1):
            g = BdspInitialize(v, opt_params={"split": s})
            declared, actual = int(g.num_qubits), int(g.definition.num_qubits)
            ctx.max_struct_qubits = max(ctx.max_struct_qubits, actual)
            cases.append(("BdspInitialize", n, s, (declared, actual)))
            lines.append(f"(Z.eqb (bdsp_width {n} {s}) {zlit(declared)} && Z.eqb (alloc_width {n} (bdsp_start_level {n} {s})) {zlit(actual)})")
            if declared != actual:
                ctx.violation(f"BdspInitialize(n={n}, split={s}): declared width {declared} != circuit width {actual}",
                              {"class": "BdspInitialize", "n": n, "split": s, "check": "declared_vs_definition"})
        g = DcspInitialize(v)
        declared, actual = int(g.num_qubits), int(g.definition.num_qubits)
        ctx.max_struct_qubits = max(ctx.max_struct_qubits, actual)
        cases.append(("DcspInitialize", n, None, (declared, actual)))
        lines.append(f"(Z.eqb (dcsp_width {2 ** n}) {zlit(declared)} && Z.eqb (alloc_width {n} (dcsp_start_level {n})) {zlit(actual)})")
        if declared != actual:
            ctx.violation(f"DcspInitialize(n={n}): declared width {declared} != circuit width {actual}",
                          {"class": "DcspInitialize", "n": n, "check": "declared_vs_definition"})
    for c in cases:
        ctx.count("tv:" + c[0], key=c[:3], nontrivial=c[1] >= 2,
                  sample={"class": c[0], "n": c[1], "split": c[2], "widths": c[3]} if c[1] == 4 and c[2] in (2, None) else None)

    def on_fail(c):
        ctx.mismatch(f"C11 translation validation: widths of {c[0]}(n={c[1]}, split={c[2]}) = {c[3]} differ from the regenerated formulas",
                     {"class": c[0], "n": c[1], "split": c[2], "python": c[3]})
    run_bool_cases(ctx, "c11_width", HEADER, lines, cases, on_fail, shard=200)


def split_n_correspondence(ctx):
    """With split = n the bidirectional circuit must be the top-down circuit (no ancilla, no global phase): its flattened gate
    list is compared, inside Coq, with TopDownModel.topdown_q run on the logged angle tree, so C01's theorems
    (C01_topdown_model / C01_topdown_prepares_state) give 'equals the vector up to a global phase'."""
    from fractions import Fraction
    from qclib.state_preparation import BdspInitialize
    from qclib.state_preparation.util.state_tree_preparation import Amplitude, state_decomposition
    from qclib.state_preparation.util.angle_tree_preparation import create_angles_tree
    from harness.flatten import flatten, coq_q, coq_list
    from harness.props import c01
    nmax = 5 if ctx.quick else 8
    cases, lines = [], []
    for n in range(1, nmax + 1):
        for kind in c01.KINDS:
            v = c01.vector(ctx.rng, n, kind)
            g = BdspInitialize(v, opt_params={"split": n})
            fl, phase = flatten(g.definition)
            at = create_angles_tree(state_decomposition(n, [Amplitude(i, a) for i, a in enumerate(v)]))
            ys, zs = c01.levels_of(at)
            items = []
            for name, qs, op in fl:
                if name in ("ry", "rz"):
                    items.append(f"PRot {'RotY' if name == 'ry' else 'RotZ'} {coq_q(Fraction(float(op.params[0])))} {qs[0]}")
                elif name == "cx":
                    items.append(f"PEnt EntCX {qs[0]} {qs[1]}")
                else:
                    items.append("PEnt EntCZ 99999 99999")
            yq = coq_list([coq_list([coq_q(Fraction(a)) for a in lv]) for lv in ys])
            zq = coq_list([coq_list([coq_q(Fraction(a)) for a in lv]) for lv in zs])
            cases.append({"class": "BdspInitialize", "n": n, "split": n, "family": kind})
            ctx.count("corr:bdsp_split_n:" + kind, key=("bdsp_n", n, kind, v.tobytes()), nontrivial=n >= 2,
                      sample={"n": n, "family": kind, "gates": len(fl)} if n == 3 else None)
            lines.append(f"(list_eqb (pgate_close (1 # 1000000000000)) (topdown_q {n} {yq} {zq}) {coq_list(items)})")
            if g.definition.num_qubits != n or abs(phase) > 1e-12:
                ctx.mismatch("C11: BdspInitialize(split=n) uses ancillas or a global phase", cases[-1])
    run_bool_cases(ctx, "c11_split_n", c01.HEADER, lines, cases,
                   lambda c: ctx.mismatch("C11 correspondence: BdspInitialize(split=n) differs from the top-down model on its own angle tree", c),
                   shard=15)


def run(ctx):
    tv(ctx)
    split_n_correspondence(ctx)
    run_eval(ctx, "C11")


def search(ctx):
    run_eval(ctx, "C11", deep=True)


def replay(ctx, case):
    if case.get("check") == "declared_vs_definition":
        from qclib.state_preparation import BdspInitialize, DcspInitialize
        n = case["n"]
        v = np.ones(2 ** n) / np.sqrt(2 ** n)
        g = DcspInitialize(v) if case["class"] == "DcspInitialize" else BdspInitialize(v, opt_params={"split": case["split"]})
        return int(g.num_qubits) == int(g.definition.num_qubits)
    return replay_eval(ctx, "C11", case)


MANIFEST = dict(
    text='Proof (FULL for widths): declared widths and the add_register allocation count, regenerated from the source, satisfy (s+1)2^(n-s)-1 and 2^n-1 for all n and 1<=s<=n, and s=n uses no ancilla (C11_* theorems). Tie: translator + comparison with gate.num_qubits and definition.num_qubits for every (n,s), n<=7/9. The marginal-distribution claim is evaluated exactly (simulation up to 20/24 qubits).',
    note='Modelled, not verified: the marginal claim for general split levels (evaluated); tree walk of add_register assumed complete (validated by widths).',
    technique='Coq proof (geometric sum over Z) on translator-regenerated formulas + translation validation + exact marginal evaluation',
    design_ref='DESIGN.md section 4, C11')
