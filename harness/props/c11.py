"""C11 - ancilla-tree state preparation (BdspInitialize, DcspInitialize)."""
import numpy as np
from harness.coqcases import run_bool_cases, zlit
from harness.props._common import run_eval, replay_eval

PROPS_FILES = ["P_C11", "P_C11m"]
GEN_FILES = ["Gen_width"]
COQ_TARGETS = ["CaseLib", "TopDownModel", "DcspModel"]
RULE = ("translation validation: declared widths, default split and the add_register allocation count regenerated from the source "
        "(Gen_width) are evaluated in Coq and compared with gate.num_qubits and gate.definition.num_qubits for every (n, s), "
        "n <= 7/9 (circuits of up to hundreds of qubits are built, not simulated); direct evaluation (harness/props/c11_eval.py): "
        "exact marginals of the output qubits, s = n equality up to global phase; gate-list correspondence of DcspInitialize with DcspModel.bottom_up_q on the "
        "captured angle tree, n <= 5/7, with the executable premises of C11_dcsp_marginal and the numerical splitting premise of C11_path_weight. distinct = distinct (class, n, s); non-trivial = n >= 2")
ASSUMPTIONS = ["the marginal-distribution claim is proved for the divide-and-conquer initializer (C11_dcsp_marginal), for split = n (C01) and for the "
               "bidirectional variant with 1 <= s < n (C11_bdsp_marginal) under the numerically checked premises that every sub-register circuit "
               "prepares a normalised state carrying the squared amplitudes of its sub-vector",
               "Qiskit's ry, rz, cswap are the matrices of Dcsp.dapp",
               "add_register's tree walk visits a complete binary tree with 2^l nodes on level l (validated by the definition widths)"]
TRUSTED = ["harness/translate.py gen_width(): expression translation of the width formulas, shape check of the counting statements"]
HEADER = ("From Coq Require Import List Bool ZArith.\nFrom QV Require Import GenLib Gen_width CaseLib.\nImport ListNotations.\nOpen Scope Z_scope.\n")


def tv(ctx):
    from qclib.state_preparation import BdspInitialize, DcspInitialize
    nmax = 7 if ctx.quick else 9
    cases, lines = [], []
    rng = ctx.rng
    for n in range(1, nmax + 1):
        v = rng.normal(size=2 ** n) + 1j * rng.normal(size=2 ** n)
        v /= np.linalg.norm(v)
        g = BdspInitialize(v)
        cases.append(("BdspInitialize.default_split", n, None, int(g.split)))
        lines.append(f"(Z.eqb (bdsp_default_split {n}) {zlit(g.split)})")
        for s in range(1, n + 1):
            g = BdspInitialize(v, opt_params={"split": s})
            declared, actual = int(g.num_qubits), int(g.definition.num_qubits)
            ctx.max_struct_qubits = max(ctx.max_struct_qubits, actual)
            cases.append(("BdspInitialize", n, s, (declared, actual)))
            lines.append(f"(Z.eqb (bdsp_width {n} {s}) {zlit(declared)} && Z.eqb (alloc_width {n} (bdsp_start_level {n} {s})) {zlit(actual)})")
            if declared != actual:
                ctx.violation(f"BdspInitialize(n={n}, split={s}): declared width {declared} != circuit width {actual}",
                              {"class": "BdspInitialize", "n": n, "split": s, "check": "declared_vs_definition"})
        g = DcspInitialize(v)
        declared, actual = int(g.num_qubits), int(g.definition.num_qubits)
        ctx.max_struct_qubits = max(ctx.max_struct_qubits, actual)
        cases.append(("DcspInitialize", n, None, (declared, actual)))
        lines.append(f"(Z.eqb (dcsp_width {2 ** n}) {zlit(declared)} && Z.eqb (alloc_width {n} (dcsp_start_level {n})) {zlit(actual)})")
        if declared != actual:
            ctx.violation(f"DcspInitialize(n={n}): declared width {declared} != circuit width {actual}",
                          {"class": "DcspInitialize", "n": n, "check": "declared_vs_definition"})
    for c in cases:
        ctx.count("tv:" + c[0], key=c[:3], nontrivial=c[1] >= 2,
                  sample={"class": c[0], "n": c[1], "split": c[2], "widths": c[3]} if c[1] == 4 and c[2] in (2, None) else None)

    def on_fail(c):
        ctx.mismatch(f"C11 translation validation: widths of {c[0]}(n={c[1]}, split={c[2]}) = {c[3]} differ from the regenerated formulas",
                     {"class": c[0], "n": c[1], "split": c[2], "python": c[3]})
    run_bool_cases(ctx, "c11_width", HEADER, lines, cases, on_fail, shard=200)


def split_n_correspondence(ctx):
    """With split = n the bidirectional circuit must be the top-down circuit (no ancilla, no global phase): its flattened gate
    list is compared, inside Coq, with TopDownModel.topdown_q run on the logged angle tree, so C01's theorems
    (C01_topdown_model / C01_topdown_prepares_state) give 'equals the vector up to a global phase'."""
    from fractions import Fraction
    from qclib.state_preparation import BdspInitialize
    from qclib.state_preparation.util.state_tree_preparation import Amplitude, state_decomposition
    from qclib.state_preparation.util.angle_tree_preparation import create_angles_tree
    from harness.flatten import flatten, coq_q, coq_list
    from harness.props import c01
    nmax = 5 if ctx.quick else 8
    cases, lines = [], []
    for n in range(1, nmax + 1):
        for kind in c01.KINDS:
            v = c01.vector(ctx.rng, n, kind)
            g = BdspInitialize(v, opt_params={"split": n})
            fl, phase = flatten(g.definition)
            at = create_angles_tree(state_decomposition(n, [Amplitude(i, a) for i, a in enumerate(v)]))
            ys, zs = c01.levels_of(at)
            items = []
            for name, qs, op in fl:
                if name in ("ry", "rz"):
                    items.append(f"PRot {'RotY' if name == 'ry' else 'RotZ'} {coq_q(Fraction(float(op.params[0])))} {qs[0]}")
                elif name == "cx":
                    items.append(f"PEnt EntCX {qs[0]} {qs[1]}")
                else:
                    items.append("PEnt EntCZ 99999 99999")
            yq = coq_list([coq_list([coq_q(Fraction(a)) for a in lv]) for lv in ys])
            zq = coq_list([coq_list([coq_q(Fraction(a)) for a in lv]) for lv in zs])
            cases.append({"class": "BdspInitialize", "n": n, "split": n, "family": kind})
            ctx.count("corr:bdsp_split_n:" + kind, key=("bdsp_n", n, kind, v.tobytes()), nontrivial=n >= 2,
                      sample={"n": n, "family": kind, "gates": len(fl)} if n == 3 else None)
            lines.append(f"(list_eqb (pgate_close (1 # 1000000000000)) (topdown_q {n} {yq} {zq}) {coq_list(items)})")
            if g.definition.num_qubits != n or abs(phase) > 1e-12:
                ctx.mismatch("C11: BdspInitialize(split=n) uses ancillas or a global phase", cases[-1])
    run_bool_cases(ctx, "c11_split_n", c01.HEADER, lines, cases,
                   lambda c: ctx.mismatch("C11 correspondence: BdspInitialize(split=n) differs from the top-down model on its own angle tree", c),
                   shard=15)


DHEADER = ("From Coq Require Import List Bool Arith QArith.\nFrom QV Require Import CaseLib DcspModel.\nImport ListNotations.\n"
           "Definition qgate_eqb (g h : qgate) : bool := match g, h with\n"
           " | QRY a q, QRY b r => Qeq_bool a b && Nat.eqb q r | QRZ a q, QRZ b r => Qeq_bool a b && Nat.eqb q r\n"
           " | QCSWAP c a b, QCSWAP c' a' b' => Nat.eqb c c' && Nat.eqb a a' && Nat.eqb b b'\n"
           " | QEnt e c t, QEnt e' c' t' => (match e, e' with Sem.EntCX, Sem.EntCX | Sem.EntCZ, Sem.EntCZ => true | _, _ => false end) && Nat.eqb c c' && Nat.eqb t t'\n"
           " | _, _ => false end.\n")


def dcsp_correspondence(ctx):
    """DcspInitialize: the angle tree the gate really walks (captured at the call of tree_walk.bottom_up, with the qubits that
    add_register assigned) is handed to Coq as a DcspModel.qtree with exact rational angles; inside Coq the model's gate list
    bottom_up_q must equal the instruction list of the definition, and the executable premises of C11_dcsp_marginal are
    evaluated (balanced, pairwise distinct qubits, output chain = output register n-1..0).  The premise of C11_path_weight
    (every node splits the squared norm of its sub-vector by cos^2 / sin^2 of its angle) is checked numerically at 1e-9."""
    from fractions import Fraction
    import qclib.state_preparation.dcsp as D
    from harness.flatten import coq_q, coq_list
    from harness import monitors
    from harness.props import c01
    nmax = 5 if ctx.quick else 7
    cases, lines = [], []
    for n in range(1, nmax + 1):
        for kind in c01.KINDS:
            v = c01.vector(ctx.rng, n, kind)
            seen = {}

            def factory(orig):
                def wrapped(angle_tree, circuit, start_level):
                    seen["tree"], seen["circuit"], seen["start"] = angle_tree, circuit, start_level
                    return orig(angle_tree, circuit, start_level)
                return wrapped
            with monitors.patched(D, "bottom_up", factory):
                circ = D.DcspInitialize(v).definition
            tree, tc = seen["tree"], seen["circuit"]
            case = {"class": "DcspInitialize", "n": n, "family": kind}
            bad = []

            def lit(t, prefix):
                if t is None:
                    return "QLeaf"
                q = tc.find_bit(t.qubit).index
                # contract: the node splits the squared norm of its sub-vector
                lvl, span = len(prefix), 2 ** (n - len(prefix))
                j = int("".join(prefix), 2) if prefix else 0
                if (t.level, t.index) != (lvl, j):
                    bad.append("angle tree node is not at the (level, index) of its position")
                sub = np.abs(v[j * span:(j + 1) * span]) ** 2
                m, m0, m1 = float(sub.sum()), float(sub[:span // 2].sum()), float(sub[span // 2:].sum())
                w0, w1 = np.cos(t.angle_y / 2) ** 2, np.sin(t.angle_y / 2) ** 2
                if abs(w0 * m - m0) > 1e-9 or abs(w1 * m - m1) > 1e-9:
                    bad.append("a node's cos^2 / sin^2 do not split the squared norm of its sub-vector")
                return (f"(QNode {q} {coq_q(Fraction(float(t.angle_y)))} {coq_q(Fraction(float(t.angle_z)))} "
                        f"{lit(t.left, prefix + ['0'])} {lit(t.right, prefix + ['1'])})")
            T = lit(tree, [])
            ctx.monitor("dcsp_split_contract")
            if seen["start"] != n:
                bad.append("bottom_up is not called with start_level = n")
            items = []
            for inst in circ.data:
                op = inst.operation
                qs = [circ.find_bit(q).index for q in inst.qubits]
                if op.name in ("ry", "rz"):
                    items.append(f"Q{op.name.upper()} {coq_q(Fraction(float(op.params[0])))} {qs[0]}")
                elif op.name == "cswap":
                    items.append(f"QCSWAP {qs[0]} {qs[1]} {qs[2]}")
                else:
                    items.append("QCSWAP 99999 99999 99999")
            ctx.max_struct_qubits = max(ctx.max_struct_qubits, circ.num_qubits)
            cases.append(case)
            ctx.count("corr:dcsp:" + kind, key=("dcsp", n, kind, v.tobytes()), nontrivial=n >= 2,
                      sample=dict(case, gates=len(items), qubits=circ.num_qubits) if n == 3 else None)
            out = coq_list([str(q) for q in range(n - 1, -1, -1)])
            lines.append(f"(list_eqb qgate_eqb (bdsp_gates_q {T}) {coq_list(items)} && qbalanced {n} {T} && nodupb (qqubits {T}) && nosub {T} "
                         f"&& list_eqb Nat.eqb (qchain {T}) {out})")
            if bad:
                ctx.mismatch("C11 contract (dcsp): " + bad[0], case)
    run_bool_cases(ctx, "c11_dcsp", DHEADER, lines, cases,
                   lambda c: ctx.mismatch("C11 correspondence: DcspInitialize differs from DcspModel.bottom_up_q on its own angle tree, or "
                                          "a premise of C11_dcsp_marginal (balanced tree, distinct qubits, output chain) fails", c),
                   shard=10)


def bdsp_correspondence(ctx):
    """BdspInitialize with 1 <= split < n: the angle tree the gate walks (captured at tree_walk.bottom_up) becomes a
    DcspModel.qtree whose leaves are the sub-registers below the split, each with the sub-circuit the definition itself applies
    to it (taken from the flattened definition, not modelled); inside Coq the model's gate list bdsp_gates_q (sub-circuits in
    tree order, then the bottom-up part) must equal the flattened definition, and the executable premises of C11_bdsp_marginal
    (balanced, distinct qubits, sub-circuits local to their registers, output chain = output register) are evaluated.  The
    numerical premises - every node splits the squared norm of its sub-vector, every sub-register state has squared amplitudes
    M(p ++ k) / M(p) and norm one - are checked at 1e-9 by simulating each sub-circuit alone."""
    from fractions import Fraction
    from qiskit import QuantumCircuit
    from qiskit.quantum_info import Statevector
    import qclib.state_preparation.bdsp as B
    from harness.flatten import flatten, coq_q, coq_list
    from harness import monitors
    from harness.props import c01
    nmax = 4 if ctx.quick else 6
    cases, lines = [], []
    for n in range(2, nmax + 1):
        for split in range(1, n):
            for kind in c01.KINDS:
                v = c01.vector(ctx.rng, n, kind)
                seen = {}

                def factory(orig):
                    def wrapped(angle_tree, circuit, start_level):
                        seen["tree"], seen["circuit"], seen["start"] = angle_tree, circuit, start_level
                        return orig(angle_tree, circuit, start_level)
                    return wrapped
                with monitors.patched(B, "bottom_up", factory):
                    circ = B.BdspInitialize(v, opt_params={"split": split}).definition
                tree, tc, start = seen["tree"], seen["circuit"], seen["start"]
                case = {"class": "BdspInitialize", "n": n, "split": split, "family": kind}
                bad = []
                fl, phase = flatten(circ)

                def gate_item(name, qs, op):
                    if name in ("ry", "rz"):
                        return f"Q{name.upper()} {coq_q(Fraction(float(op.params[0])))} {qs[0]}"
                    if name == "cx":
                        return f"QEnt Sem.EntCX {qs[0]} {qs[1]}"
                    if name == "cz":
                        return f"QEnt Sem.EntCZ {qs[0]} {qs[1]}"
                    if name == "cswap":
                        return f"QCSWAP {qs[0]} {qs[1]} {qs[2]}"
                    return "QCSWAP 99999 99999 99999"

                def chain_of(t):
                    out = []
                    while t is not None:
                        out.append(tc.find_bit(t.qubit).index)
                        t = t.left if t.left is not None else t.right
                    return out

                def sub_vector(prefix):
                    span = 2 ** (n - len(prefix))
                    j = int("".join(prefix), 2) if prefix else 0
                    return v[j * span:(j + 1) * span]

                def lit(t, prefix):
                    if t is None:
                        return "QLeaf"
                    sub = np.abs(sub_vector(prefix)) ** 2
                    m = float(sub.sum())
                    if t.level >= start:
                        qs = chain_of(t)
                        gates = [(nm, q, op) for (nm, q, op) in fl if nm != "cswap" and set(q) <= set(qs)]
                        # numerical premises on the sub-register state
                        loc = {q: i for i, q in enumerate(qs)}
                        qc = QuantumCircuit(len(qs))
                        for nm, q, op in gates:
                            qc.append(op, [loc[x] for x in q])
                        sa = np.asarray(Statevector(qc).data)
                        if abs(float(np.sum(np.abs(sa) ** 2)) - 1) > 1e-9:
                            bad.append("a sub-register state is not normalised")
                        for kidx in range(2 ** len(qs)):
                            bits = format(kidx, f"0{len(qs)}b")                  # root qubit (qs[0]) first = most significant
                            li = sum((1 << loc[qs[j]]) for j in range(len(qs)) if bits[j] == "1")
                            if abs(abs(sa[li]) ** 2 * m - float(sub[kidx])) > 1e-9:
                                bad.append("a sub-register state does not carry the squared amplitudes of its sub-vector")
                                break
                        return f"(QSub {coq_list([str(q) for q in qs])} {coq_list([gate_item(*g) for g in gates])})"
                    q = tc.find_bit(t.qubit).index
                    half = len(sub) // 2
                    m0, m1 = float(sub[:half].sum()), float(sub[half:].sum())
                    w0, w1 = np.cos(t.angle_y / 2) ** 2, np.sin(t.angle_y / 2) ** 2
                    if abs(w0 * m - m0) > 1e-9 or abs(w1 * m - m1) > 1e-9:
                        bad.append("a node's cos^2 / sin^2 do not split the squared norm of its sub-vector")
                    return (f"(QNode {q} {coq_q(Fraction(float(t.angle_y)))} {coq_q(Fraction(float(t.angle_z)))} "
                            f"{lit(t.left, prefix + ['0'])} {lit(t.right, prefix + ['1'])})")
                T = lit(tree, [])
                ctx.monitor("bdsp_split_contract")
                if start != n - split:
                    bad.append("bottom_up is not called with start_level = n - split")
                if abs(phase) > 1e-12:
                    bad.append("the definition carries a global phase")
                items = [gate_item(*g) for g in fl]
                ctx.max_struct_qubits = max(ctx.max_struct_qubits, circ.num_qubits)
                cases.append(case)
                ctx.count("corr:bdsp:" + kind, key=("bdsp", n, split, kind, v.tobytes()), nontrivial=True,
                          sample=dict(case, gates=len(items), qubits=circ.num_qubits) if (n, split) == (3, 2) else None)
                out = coq_list([str(q) for q in range(n - 1, -1, -1)])
                lines.append(f"(list_eqb qgate_eqb (bdsp_gates_q {T}) {coq_list(items)} && qbalanced {n} {T} && nodupb (qqubits {T}) "
                             f"&& localb {T} && list_eqb Nat.eqb (qchain {T}) {out})")
                if bad:
                    ctx.mismatch("C11 contract (bdsp): " + bad[0], case)
    run_bool_cases(ctx, "c11_bdsp", DHEADER, lines, cases,
                   lambda c: ctx.mismatch("C11 correspondence: BdspInitialize differs from DcspModel.bdsp_gates_q on its own angle tree, or "
                                          "a premise of C11_bdsp_marginal (balanced tree, distinct qubits, local sub-circuits, output chain) fails", c),
                   shard=10)


def run(ctx):
    tv(ctx)
    split_n_correspondence(ctx)
    dcsp_correspondence(ctx)
    bdsp_correspondence(ctx)
    run_eval(ctx, "C11")


def search(ctx):
    run_eval(ctx, "C11", deep=True)


def replay(ctx, case):
    if case.get("check") == "declared_vs_definition":
        from qclib.state_preparation import BdspInitialize, DcspInitialize
        n = case["n"]
        v = np.ones(2 ** n) / np.sqrt(2 ** n)
        g = DcspInitialize(v) if case["class"] == "DcspInitialize" else BdspInitialize(v, opt_params={"split": case["split"]})
        return int(g.num_qubits) == int(g.definition.num_qubits)
    return replay_eval(ctx, "C11", case)


MANIFEST = dict(
    text=("Proof: (widths) declared widths and the add_register allocation count, regenerated from the source, satisfy (s+1)2^(n-s)-1 and 2^n-1 for all n and "
          "1<=s<=n, and s=n uses no ancilla (C11_bdsp_*, C11_dcsp_declared_allocated, C11_split_n_no_ancilla, C11_default_split; C11_bdsp_width_bounds: n <= width <= 2^n - 1, C11_bdsp_width_step: raising the split never adds qubits); (measurement statistics) for every "
          "balanced angle tree with distinct qubits and any angles, the model's gate list run from |0..0> gives, summed over all ancillas, squared modulus = product of "
          "cos^2/sin^2 along the path on the output qubits - for the divide-and-conquer initializer (C11_dcsp_marginal) and for the bidirectional one with 1<=s<n, where "
          "the leaves are sub-registers prepared by arbitrary circuits local to them and contribute the squared amplitude of their state (C11_bdsp_marginal, premise: "
          "those states have norm one); C11_weights, C11_norm; the product is |a_k|^2 when every node splits the squared norm of its sub-vector and every sub-register "
          "state carries the squared amplitudes of its sub-vector (C11_path_weight). Tie: translator for the widths; the angle tree the gate really walks is compared "
          "inside Coq (flattened definition = DcspModel.bdsp_gates_q, premises balanced / distinct qubits / local sub-circuits / output chain evaluated); the numerical "
          "premises are checked at 1e-9 (sub-circuits simulated alone); split = n is compared with the top-down model (C01)."),
    note="Modelled, not verified: that the top-down sub-circuits of the bidirectional variant prepare the normalised sub-vectors (numerical premise here; the top-down algorithm itself is C01/C13); Qiskit ry/rz/cx/cswap matrices.",
    technique='Coq proof (frame lemmas for local sub-circuits, sums over qubit registers, re-indexing through controlled swaps; geometric sums over Z) + translator-regenerated formulas + gate-list correspondence (vm_compute) + numerical premises + exact marginal evaluation',
    design_ref='DESIGN.md section 4, C11')
