"""C12 - uniformly-controlled-gate preparation from any basis state."""
import numpy as np
from harness.props._common import run_eval, replay_eval
from harness import monitors

PROPS_FILES = ["P_C12mx", "P_C12"]
RULE = ("contract monitors (tie (d)): every list of 2x2 operators returned by UCGInitialize._build_multiplexor while preparing vectors "
        "with zeros / basis states / random data for every target index t (n = 1..4/5) must be unitary and map the normalised child "
        "pair to e_bit (C12_branch0/1, C12_diag0/1), identity where the parent vanishes; every UCGate(mux, up_to_diagonal=True) that "
        "is applied must satisfy diag(_get_diagonal()) * circuit = multiplexer (the ucgate_spec contract: level k f d of C12_level_step "
        "with d = conj(diagonal)); every _apply_diagonal call must return parent * conj(diagonal)[bit::2] (the next children of "
        "C12_levels_target); direct evaluation "
        "(harness/props/c12_eval.py): column t and columns < t of the operator. distinct = distinct (vector, t, preserve); non-trivial = n >= 2")
ASSUMPTIONS = ["the preserve option (the separately applied gate does not commute with the carried diagonal in general) and UCGE's multiplexer "
               "simplification are evaluated, not proved; the returned circuit is Qiskit's inverse() of the proved levels",
               "Qiskit's UCGate synthesis"]
TRUSTED = ["harness/monitors.py"]


def vectors(rng, n):
    N = 2 ** n
    v = rng.normal(size=N) + 1j * rng.normal(size=N)
    yield "complex", v / np.linalg.norm(v)
    v = rng.normal(size=N) + 1j * rng.normal(size=N)
    v[rng.random(N) < 0.5] = 0
    if not v.any():
        v[-1] = 1
    yield "sparse", v / np.linalg.norm(v)
    v = np.zeros(N, complex)
    v[rng.integers(N)] = np.exp(1j * rng.uniform(0, 6))
    yield "basis", v
    v = rng.normal(size=N).astype(complex)
    v[: N // 2] = 0
    if not v.any():
        v[-1] = 1
    yield "upper_half", v / np.linalg.norm(v)


def monitor_run(ctx):
    from qclib.state_preparation.ucg import UCGInitialize
    from qiskit.quantum_info import Operator
    nmax = 4 if ctx.quick else 5
    problems = []

    def bm_factory(orig):
        def wrapped(self, parent, children, str_target):
            gates = orig(self, parent, children, str_target)
            lvl = int(np.log2(len(children)))
            bit = str_target[self.num_qubits - lvl]
            ctx.monitor("build_multiplexor_contract")
            for k, G in enumerate(gates):
                p = parent[k]
                c0, c1 = children[2 * k], children[2 * k + 1]
                G = np.asarray(G, dtype=complex)
                if np.abs(G.conj().T @ G - np.eye(2)).max() > 1e-9:
                    problems.append("operator not unitary")
                if p != 0:
                    out = G @ np.array([c0, c1]) / p
                    want = np.array([1, 0]) if bit == "0" else np.array([0, 1])
                    if np.abs(out - want).max() > 1e-9:
                        problems.append(f"operator does not map the child pair to e_{bit}")
                elif np.abs(G - np.eye(2)).max() > 0:
                    problems.append("operator for a vanishing parent is not the identity")
            return gates
        return wrapped

    def ucg_factory(orig):
        def wrapped(self, mux, mult_controls, target):
            ucg = orig(self, mux, mult_controls, target)
            if 1 < len(mux) <= 16:
                ctx.monitor("ucgate_contract")
                M = Operator(ucg).data
                ref = np.zeros_like(M)
                for k, g in enumerate(mux):
                    ref[2 * k:2 * k + 2, 2 * k:2 * k + 2] = g
                d = ucg._get_diagonal()
                if np.abs(np.diag(d) @ M - ref).max() > 1e-9:
                    problems.append("UCGate(up_to_diagonal) violates diag(_get_diagonal()) * circuit = multiplexer")
            return ucg
        return wrapped

    def ad_factory(orig):
        def wrapped(bit_target, parent, ucg):
            out = orig(bit_target, parent, ucg)
            ctx.monitor("apply_diagonal_contract")
            d = np.conj(np.asarray(ucg._get_diagonal()))
            want = np.asarray(parent) * (d[1::2] if bit_target == "1" else d[::2])
            if np.shape(out) != np.shape(want) or np.abs(np.asarray(out) - want).max() > 0:
                problems.append("_apply_diagonal does not return parent * conj(diagonal)[bit::2]")
            return out
        return staticmethod(wrapped)

    for n in range(1, nmax + 1):
        for fam, v in vectors(ctx.rng, n):
            ts = range(2 ** n) if n <= 3 else [int(t) for t in ctx.rng.choice(2 ** n, 4, replace=False)]
            for t in ts:
                for preserve in (False, True):
                    problems.clear()
                    with monitors.patched(UCGInitialize, "_build_multiplexor", bm_factory), \
                            monitors.patched(UCGInitialize, "_apply_ucg", ucg_factory), \
                            monitors.patched(UCGInitialize, "_apply_diagonal", ad_factory):
                        try:
                            g = UCGInitialize(v, opt_params={"target_state": t, "preserve_previous": preserve})
                            _ = g.definition
                        except Exception as ex:
                            ctx.note(f"UCGInitialize raised ({type(ex).__name__}) on {fam} n={n} t={t} preserve={preserve}")
                    ctx.count(f"monitor:{fam}", key=(n, fam, t, preserve, v.tobytes()), nontrivial=n >= 2,
                              sample={"n": n, "family": fam, "target_state": t, "preserve_previous": preserve} if n == 3 and t == 5 else None)
                    if problems:
                        ctx.mismatch("C12 contract: " + problems[0],
                                     {"n": n, "family": fam, "target_state": t, "preserve_previous": preserve})


def run(ctx):
    monitor_run(ctx)
    run_eval(ctx, "C12")


def search(ctx):
    run_eval(ctx, "C12", deep=True)


def replay(ctx, case):
    return replay_eval(ctx, "C12", case)


MANIFEST = dict(
    text='Proof (MODULAR/PARTIAL): the 2x2 operators chosen by _build_multiplexor map the normalised child pair to e_bit for both target bits and for the vanishing-|0>-child case, and are unitary (C12_branch0/1, C12_diag0/1, C12_G0_unitary; any field with involution); induction over the levels with the carried diagonal: if the operators of every level disentangle their child pairs and the next children are diagonal * parent, the n levels map the vector to (last child)|t> for every n, t and vector (C12_level_step, C12_levels_target). Tie: every operator list built during a run is checked against these statements, every UCGate against the contract diag(_get_diagonal())*circuit = multiplexer, every _apply_diagonal result against diagonal * parent. Column t, preserve option and UCGE are evaluated.',
    note="Modelled, not verified: Qiskit UCGate synthesis and inverse(); preserve option; UCGE simplification.",
    technique='Coq/mathcomp proof + runtime contract monitors + operator-column evaluation',
    design_ref='DESIGN.md section 4, C12')
