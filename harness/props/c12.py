"""C12 - uniformly-controlled-gate preparation from any basis state."""
import numpy as np
from harness.props._common import run_eval, replay_eval
from harness import monitors

PROPS_FILES = ["P_C12mx", "P_C12"]
RULE = ("contract monitors (tie (d)): every list of 2x2 operators returned by UCGInitialize._build_multiplexor while preparing vectors "
        "with zeros / basis states / random data for every target index t (n = 1..4/5) must be unitary and map the normalised child "
        "pair to e_bit (C12_branch0/1, C12_diag0/1), identity where the parent vanishes; every UCGate(mux, up_to_diagonal=True) that "
        "is applied must satisfy diag(_get_diagonal()) * circuit = multiplexer (the ucgate_spec contract: level k f d of C12_level_step "
        "with d = conj(diagonal)); every _apply_diagonal call must return parent * conj(diagonal)[bit::2] (the next children of "
        "C12_levels_target); direct evaluation "
        "(harness/props/c12_eval.py): column t and columns < t of the operator. distinct = distinct (vector, t, preserve); non-trivial = n >= 2")
ASSUMPTIONS = ["the preserve clause is proved from two premises on the matrices of the run (identity where the upper qubits spell a number below the "
               "target's, diagonal pulled-out gate where the target bit is 1), which the preserve monitor checks on every run; UCGE's multiplexer "
               "simplification is evaluated, not proved (inputs with nearly repeated blocks included); the returned circuit is Qiskit's inverse() of the proved levels",
               "Qiskit's UCGate synthesis (it does not implement its own gate list on nearly equal gates: two known findings, diagnosed by re-running the "
               "construction with ideal multiplexers)"]
TRUSTED = ["harness/monitors.py"]


def vectors(rng, n):
    N = 2 ** n
    v = rng.normal(size=N) + 1j * rng.normal(size=N)
    yield "complex", v / np.linalg.norm(v)
    v = rng.normal(size=N) + 1j * rng.normal(size=N)
    v[rng.random(N) < 0.5] = 0
    if not v.any():
        v[-1] = 1
    yield "sparse", v / np.linalg.norm(v)
    v = np.zeros(N, complex)
    v[rng.integers(N)] = np.exp(1j * rng.uniform(0, 6))
    yield "basis", v
    v = rng.normal(size=N).astype(complex)
    v[: N // 2] = 0
    if not v.any():
        v[-1] = 1
    yield "upper_half", v / np.linalg.norm(v)


def monitor_run(ctx):
    from qclib.state_preparation.ucg import UCGInitialize
    from qiskit.quantum_info import Operator
    nmax = 4 if ctx.quick else 5
    problems = []

    def bm_factory(orig):
        def wrapped(self, parent, children, str_target):
            gates = orig(self, parent, children, str_target)
            lvl = int(np.log2(len(children)))
            bit = str_target[self.num_qubits - lvl]
            ctx.monitor("build_multiplexor_contract")
            for k, G in enumerate(gates):
                p = parent[k]
                c0, c1 = children[2 * k], children[2 * k + 1]
                G = np.asarray(G, dtype=complex)
                if np.abs(G.conj().T @ G - np.eye(2)).max() > 1e-9:
                    problems.append("operator not unitary")
                if p != 0:
                    out = G @ np.array([c0, c1]) / p
                    want = np.array([1, 0]) if bit == "0" else np.array([0, 1])
                    if np.abs(out - want).max() > 1e-9:
                        problems.append(f"operator does not map the child pair to e_{bit}")
                elif np.abs(G - np.eye(2)).max() > 0:
                    problems.append("operator for a vanishing parent is not the identity")
            return gates
        return wrapped

    def ucg_factory(orig):
        def wrapped(self, mux, mult_controls, target):
            ucg = orig(self, mux, mult_controls, target)
            if 1 < len(mux) <= 16:
                ctx.monitor("ucgate_contract")
                M = Operator(ucg).data
                ref = np.zeros_like(M)
                for k, g in enumerate(mux):
                    ref[2 * k:2 * k + 2, 2 * k:2 * k + 2] = g
                d = ucg._get_diagonal()
                if np.abs(np.diag(d) @ M - ref).max() > 1e-9:
                    problems.append("UCGate(up_to_diagonal) violates diag(_get_diagonal()) * circuit = multiplexer")
            return ucg
        return wrapped

    def ad_factory(orig):
        def wrapped(bit_target, parent, ucg):
            out = orig(bit_target, parent, ucg)
            ctx.monitor("apply_diagonal_contract")
            d = np.conj(np.asarray(ucg._get_diagonal()))
            want = np.asarray(parent) * (d[1::2] if bit_target == "1" else d[::2])
            if np.shape(out) != np.shape(want) or np.abs(np.asarray(out) - want).max() > 0:
                problems.append("_apply_diagonal does not return parent * conj(diagonal)[bit::2]")
            return out
        return staticmethod(wrapped)

    for n in range(1, nmax + 1):
        for fam, v in vectors(ctx.rng, n):
            ts = range(2 ** n) if n <= 3 else [int(t) for t in ctx.rng.choice(2 ** n, 4, replace=False)]
            for t in ts:
                for preserve in (False, True):
                    problems.clear()
                    with monitors.patched(UCGInitialize, "_build_multiplexor", bm_factory), \
                            monitors.patched(UCGInitialize, "_apply_ucg", ucg_factory), \
                            monitors.patched(UCGInitialize, "_apply_diagonal", ad_factory):
                        try:
                            g = UCGInitialize(v, opt_params={"target_state": t, "preserve_previous": preserve})
                            _ = g.definition
                        except Exception as ex:
                            ctx.note(f"UCGInitialize raised ({type(ex).__name__}) on {fam} n={n} t={t} preserve={preserve}")
                    ctx.count(f"monitor:{fam}", key=(n, fam, t, preserve, v.tobytes()), nontrivial=n >= 2,
                              sample={"n": n, "family": fam, "target_state": t, "preserve_previous": preserve} if n == 3 and t == 5 else None)
                    if problems:
                        ctx.mismatch("C12 contract: " + problems[0],
                                     {"n": n, "family": fam, "target_state": t, "preserve_previous": preserve})


def preserve_monitor(ctx):
    """hypotheses of C12_preserve_below_target on every preserve-mode run with a vector vanishing below the target index: (a) every
    multiplexer entry whose index lies below the target's is exactly the identity, (b) the pulled-out gate sends |0> to a multiple of
    |0> whenever target bit k is 1, and the pulled-out gate is controlled on every other qubit holding its target bit"""
    from qiskit.circuit import ControlledGate
    from qclib.state_preparation.ucg import UCGInitialize
    from harness import monitors
    nmax = 5 if ctx.quick else 6
    for n in range(2, nmax + 1):
        N = 2 ** n
        for t in sorted({1, N // 2, N - 1} | {int(x) for x in ctx.rng.integers(1, N, 4)}):
            v = ctx.rng.normal(size=N) + 1j * ctx.rng.normal(size=N)
            v[:t] = 0
            if ctx.rng.random() < 0.3 and t + 1 < N:
                v[t + 1 + int(ctx.rng.integers(0, N - t - 1))] = 0          # extra zeros inside the support
            if not v.any():
                v[t] = 1
            v = v / np.linalg.norm(v)
            log = []

            def pp_factory(orig):
                def wrapped(self, mux, mult_controls, r_gate, target):
                    out = np.array(mux[r_gate], dtype=complex)
                    res = orig(self, mux, mult_controls, r_gate, target)
                    log.append((int(target), int(r_gate), out, [np.array(m, dtype=complex) for m in mux]))
                    return res
                return wrapped
            case = {"class": "UCGInitialize", "n": n, "t": t, "preserve": True, "family": "preserve_monitor",
                    "vector": [[float(np.real(z)), float(np.imag(z))] for z in v]}
            with monitors.patched(UCGInitialize, "_preserve_previous", pp_factory):
                gate = UCGInitialize(v, opt_params={"target_state": t, "preserve_previous": True})
                circ = gate.definition
            ctx.count("preserve:premises", key=("pres", n, t, v.tobytes()), nontrivial=True, sample=None)
            ctx.monitor("preserve_premises")
            bad = None
            if len(log) != n:
                bad = f"_preserve_previous called {len(log)} times for {n} levels"
            for (k, r_gate, out, mux) in log:
                if r_gate != t >> (k + 1):
                    bad = bad or "the pulled-out entry is not the one on the target's path"
                for idx in range(min(r_gate, len(mux))):
                    if not np.array_equal(mux[idx], np.eye(2)):
                        bad = bad or f"(a) fails: level {k}, multiplexer entry {idx} below the path is not the identity"
                if r_gate < len(mux) and not np.array_equal(mux[r_gate], np.eye(2)):
                    bad = bad or "the pulled-out entry was not replaced by the identity"
                if (t >> k) & 1 and out[1, 0] != 0:
                    bad = bad or f"(b) fails: level {k}, the pulled-out gate does not send |0> to a multiple of |0>"
                if (t >> k) & 1 and abs(abs(out[0, 0]) - 1) > 1e-12:
                    bad = bad or f"level {k}: the pulled-out gate scales |0> by a factor of modulus {abs(out[0, 0])!r} (premise of C12_preserve_factor_unit)"
            # the pulled-out gates are controlled on every other qubit holding its target bit
            for inst in circ.data:
                op = inst.operation
                if isinstance(op, ControlledGate) and op.num_ctrl_qubits == n - 1 and n >= 2:
                    qs = [circ.find_bit(q).index for q in inst.qubits]
                    for j, q in enumerate(qs[:-1]):
                        if ((op.ctrl_state >> j) & 1) != ((t >> q) & 1):
                            bad = bad or "a pulled-out gate is not controlled on the target bits of the other qubits"
            if bad:
                ctx.mismatch("C12 contract (preserve): " + bad, case)


def run(ctx):
    monitor_run(ctx)
    preserve_monitor(ctx)
    run_eval(ctx, "C12")


def search(ctx):
    run_eval(ctx, "C12", deep=True)


def replay(ctx, case):
    return replay_eval(ctx, "C12", case)


MANIFEST = dict(
    text='Proof (MODULAR/PARTIAL): the 2x2 operators chosen by _build_multiplexor map the normalised child pair to e_bit for both target bits and for the vanishing-|0>-child case, and are unitary (C12_branch0/1, C12_diag0/1, C12_G0_unitary; any field with involution); induction over the levels with the carried diagonal: if the operators of every level disentangle their child pairs and the next children are diagonal * parent, the n levels map the vector to (last child)|t> for every n, t and vector (C12_level_step, C12_levels_target). Tie: every operator list built during a run is checked against these statements, every UCGate against the contract diag(_get_diagonal())*circuit = multiplexer, every _apply_diagonal result against diagonal * parent. The preserve option: in preserve mode the pulled-out entry makes level k apply gp k only when every other qubit holds its target bit; if the multiplexer entries below the path are identities and gp k keeps |0> when target bit k is 1 (both checked exactly on every preserve-mode run with a vector vanishing below the target index, together with the control pattern of the pulled-out gates), every basis state below the target index is mapped to itself times a product of phases, for every n (C12_preserve_below_target, C12_levels_keep_basis), and that product has modulus one when the factors have (C12_preserve_factor_unit). Column t, the preserve clause and UCGE are also evaluated directly.',
    note="Modelled, not verified: Qiskit UCGate synthesis and inverse(); preserve option; UCGE simplification.",
    technique='Coq/mathcomp proof + runtime contract monitors + operator-column evaluation',
    design_ref='DESIGN.md section 4, C12')
