"""C19 - BlackBoxInitialize (Grover's black-box state preparation by amplitude amplification).

Direct evaluation: Statevector(gate.definition) reshaped to (2^n, 2) (qubit 0 is the flag, qubits 1..n the data
register); the flag=0 column must equal sin((2r+1)*theta) * v with theta = asin(1/sqrt(N)), r = floor(pi*sqrt(N)/4),
and the flag=1 column must carry the remaining norm.  Reference is the closed form only (numpy)."""
import warnings
import numpy as np
from qiskit.quantum_info import Statevector

warnings.filterwarnings("ignore")

TOL_AMP = 1e-6
TOL_PROB = 1e-7

FAMILIES = ["complex", "real", "negative", "positive", "uniform_phases", "uniform", "basis_phase", "basis_exact",
            "sparse2", "sparse_half", "product", "ghz_phase", "one_large", "tiny_tail", "zeros_block"]


# ----------------------------------------------------------------------------------------------- encoding
def enc(v):
    return [[float(np.real(x)).hex(), float(np.imag(x)).hex()] for x in v]


def dec(l):
    return np.array([complex(float.fromhex(a), float.fromhex(b)) for a, b in l], dtype=complex)


# ----------------------------------------------------------------------------------------------- generators
def normalise(v):
    v = np.asarray(v, dtype=complex)
    return v / np.linalg.norm(v)


def gen(rng, n, fam):
    N = 2 ** n
    if fam == "complex":
        v = rng.normal(size=N) + 1j * rng.normal(size=N)
    elif fam == "real":
        v = rng.normal(size=N)
    elif fam == "negative":
        v = -np.abs(rng.normal(size=N)) - 0.01
    elif fam == "positive":
        v = np.abs(rng.normal(size=N)) + 0.01
    elif fam == "uniform_phases":
        v = np.exp(1j * rng.uniform(-np.pi, np.pi, N))
    elif fam == "uniform":
        v = np.ones(N) * [1, -1, 1j, -1j][int(rng.integers(4))]
    elif fam == "basis_phase":          # one amplitude of modulus one with an arbitrary phase
        v = np.zeros(N, dtype=complex)
        v[int(rng.integers(N))] = np.exp(1j * rng.uniform(-np.pi, np.pi))
    elif fam == "basis_exact":
        v = np.zeros(N, dtype=complex)
        v[int(rng.integers(N))] = [1, -1, 1j, -1j, (1 + 1j) / np.sqrt(2), (-1 - 1j) / np.sqrt(2), (1 - 1j) / np.sqrt(2)][int(rng.integers(7))]
    elif fam == "sparse2":
        v = np.zeros(N, dtype=complex)
        idx = rng.choice(N, size=min(2, N), replace=False)
        v[idx] = rng.uniform(0.2, 1.0, len(idx)) * np.exp(1j * rng.uniform(-np.pi, np.pi, len(idx)))
    elif fam == "sparse_half":
        v = (rng.normal(size=N) + 1j * rng.normal(size=N))
        mask = rng.random(N) < 0.5
        v[mask] = 0
        if not np.any(v):
            v[int(rng.integers(N))] = np.exp(1j * rng.uniform(-np.pi, np.pi))
    elif fam == "product":
        v = np.array([1.0 + 0j])
        for _ in range(n):
            v = np.kron(v, rng.normal(size=2) + 1j * rng.normal(size=2))
    elif fam == "ghz_phase":
        v = np.zeros(N, dtype=complex)
        v[0] = 1
        v[-1] = np.exp(1j * rng.uniform(-np.pi, np.pi))
    elif fam == "one_large":            # modulus close to (but not at) one
        v = (rng.normal(size=N) + 1j * rng.normal(size=N)) * 1e-3
        v[int(rng.integers(N))] = np.exp(1j * rng.uniform(-np.pi, np.pi))
    elif fam == "tiny_tail":            # many exact zeros plus a few tiny amplitudes (kept well above 1e-8 cut-offs)
        v = np.zeros(N, dtype=complex)
        v[int(rng.integers(N))] = np.exp(1j * rng.uniform(-np.pi, np.pi))
        j = int(rng.integers(N))
        v[j] += 1e-4 * np.exp(1j * rng.uniform(-np.pi, np.pi))
    elif fam == "zeros_block":          # upper or lower half zero
        v = rng.normal(size=N) + 1j * rng.normal(size=N)
        if rng.random() < 0.5:
            v[: N // 2] = 0
        else:
            v[N // 2:] = 0
    else:
        raise ValueError(fam)
    return normalise(v)


# ----------------------------------------------------------------------------------------------- evaluation
def closed_form(v):
    N = len(v)
    theta = np.arcsin(1.0 / np.sqrt(N))
    r = int(np.floor(np.pi * np.sqrt(N) / 4.0))
    return np.sin((2 * r + 1) * theta), r


def eval_case(ctx, v, fam):
    """True iff C19 holds for the unit vector v"""
    from qclib.state_preparation.blackbox import BlackBoxInitialize
    v = np.asarray(v, dtype=complex)
    N = len(v)
    n = int(np.log2(N))
    case = {"class": "BlackBoxInitialize", "n": n, "family": fam, "vector": enc(v)}
    try:
        gate = BlackBoxInitialize(v)
        definition = gate.definition
        width = definition.num_qubits
        sv = np.asarray(Statevector(definition).data)
    except Exception as exc:  # the property quantifies over every unit vector
        ctx.violation(f"BlackBoxInitialize raised {type(exc).__name__}: {str(exc)[:120]}", case)
        return False
    if width != n + 1:
        ctx.violation(f"BlackBoxInitialize definition has {width} qubits, expected n+1 = {n + 1}", case)
        return False
    if not np.all(np.isfinite(sv)):
        ctx.violation("BlackBoxInitialize state vector contains NaN/inf", case)
        return False
    w, r = closed_form(v)
    branches = sv.reshape(N, 2)          # index = data * 2 + flag  (flag = qubit 0)
    err = float(np.abs(branches[:, 0] - w * v).max())
    rest = float(np.sum(np.abs(branches[:, 1]) ** 2))
    err_rest = abs(rest - (1.0 - w * w))
    ok = True
    if err >= TOL_AMP:
        case2 = dict(case, err=err, r=r)
        ctx.violation(f"BlackBoxInitialize: flag=0 branch differs from sin((2r+1)theta)*vector by {err:.3g}", case2)
        ok = False
    elif err_rest >= TOL_PROB:
        case2 = dict(case, err=err_rest, r=r)
        ctx.violation(f"BlackBoxInitialize: weight of the flag=1 branch off by {err_rest:.3g}", case2)
        ok = False
    return ok


def one(ctx, n, fam):
    v = gen(ctx.rng, n, fam)
    ctx.count(f"{fam}", key=(n, fam, v.tobytes()), nontrivial=True,
              sample={"n": n, "vector": [complex(x) for x in v[:8]]} if n == 2 else None)
    eval_case(ctx, v, fam)



def _limit_blas_threads(n_threads=2):
    """OpenBLAS threading does not speed these small tensor contractions up but occupies every core; cap it (best
    effort, silently skipped when the bundled library or symbol is not found)."""
    try:
        import ctypes
        import glob
        import os
        libdir = os.path.join(os.path.dirname(os.path.dirname(np.__file__)), "numpy.libs")
        for path in glob.glob(os.path.join(libdir, "*openblas*")):
            lib = ctypes.CDLL(path)
            for name in ("scipy_openblas_set_num_threads64_", "openblas_set_num_threads64_",
                         "scipy_openblas_set_num_threads", "openblas_set_num_threads"):
                if hasattr(lib, name):
                    getattr(lib, name)(int(n_threads))
                    break
    except Exception:
        pass


def evaluate(ctx, deep):
    _limit_blas_threads()
    nmax = 7 if deep else 5
    for n in range(1, nmax + 1):
        # all families
        reps = {1: 8, 2: 8, 3: 6, 4: 5, 5: 4, 6: 3, 7: 2}[n] if deep else {1: 8, 2: 8, 3: 6, 4: 4, 5: 2}[n]
        for fam in FAMILIES:
            for _ in range(reps):
                one(ctx, n, fam)
        # every basis state with a few exact phases, for small n
        if n <= (4 if deep else 3):
            for k in range(2 ** n):
                for ph in (1, -1, 1j, -1j):
                    v = np.zeros(2 ** n, dtype=complex)
                    v[k] = ph
                    ctx.count("basis_all", key=(n, k, complex(ph)), nontrivial=True, sample=None)
                    eval_case(ctx, v, "basis_all")
        # modulus-one amplitudes with many random phases: after v/||v|| the computed modulus is 1+1ulp for ~22 % of them
        nph = {1: 400, 2: 300, 3: 250, 4: 200, 5: 200, 6: 120, 7: 40}[n] if deep else {1: 250, 2: 220, 3: 200, 4: 200, 5: 60}[n]
        for _ in range(nph):
            one(ctx, n, "basis_phase")
        for _ in range(nph // 4):
            one(ctx, n, "sparse2")
            one(ctx, n, "one_large")
    if not deep:
        # one pass over the larger sizes, where the zero reflection has 6 and 7 controls
        for n in (6, 7):
            for fam in FAMILIES[:2]:
                one(ctx, n, fam)
            one(ctx, n, "basis_phase")


def replay(ctx, case):
    return eval_case(ctx, dec(case["vector"]), case.get("family", "replay"))
