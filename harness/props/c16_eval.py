"""C16 - invalid inputs are rejected with an exception before any circuit is returned.

Every case is one malformed input handed to one entry point; the property holds on the case iff the call raises.
Objects that build lazily are forced (`.definition`; for static `initialize`/`mcg`/... entry points every appended
instruction's definition).  Entry points:

  * dense initializers on exactly n qubits (TopDown, LowRank, SVD, UCG, UCGE, Isometry, BaaLowRank; several
    opt_params each) and BlackBoxInitialize - constructor and static `initialize(circuit, state)`:
    wrong lengths (0, 1, 3, 5, 6, 7, 9, ...; the vector itself has unit norm), sum of squares 1 +- delta for
    delta >= 5e-10 (the property's bound is 1e-10; the band (1e-10, 5e-10) is left as margin), all-zero, NaN, inf;
  * qclib.unitary.unitary (qsd/csd/qr, apply_a2 on/off, 2x2 .. 16x16 (32x32 deep)): scaled, perturbed,
    rank-deficient, zero, NaN, non-square;
  * qclib.isometry.decompose (ccd/knill/csd): non-orthonormal columns, wide, non-power-of-two shapes whose columns
    ARE orthonormal (so only the shape test can reject them);
  * the one-qubit controlled gates that call check_u2 (Mcg, Ldmcu, Qdmcu, MCU) and the two SU(2) gates (Ldmcsu,
    LdMcSpecialUnitary), constructor and static entry point, 0..4 controls, with/without ctrl_state: scaled /
    singular / non-orthogonal / determinant-one-but-not-unitary / wrong-shape matrices.
BdspInitialize / DcspInitialize (ancilla trees, not n-qubit gates) are outside the property's scope.
"""
import warnings
import numpy as np

warnings.filterwarnings("ignore")


# ----------------------------------------------------------------------------- encoding
def enc(a):
    a = np.asarray(a)
    if a.size == 0:
        return {"dtype": "float", "shape": list(a.shape), "data": []}
    if np.iscomplexobj(a):
        return {"dtype": "complex", "shape": list(a.shape),
                "data": [[float(x.real).hex(), float(x.imag).hex()] for x in a.reshape(-1)]}
    return {"dtype": "float", "shape": list(a.shape), "data": [float(x).hex() for x in a.reshape(-1)]}


def dec(d):
    if d["dtype"] == "complex":
        a = np.array([complex(float.fromhex(r), float.fromhex(i)) for r, i in d["data"]], dtype=complex)
    else:
        a = np.array([float.fromhex(r) for r in d["data"]], dtype=float)
    return a.reshape(d["shape"])


# ----------------------------------------------------------------------------- entry points
DENSE = {
    "TopDownInitialize": [None, {"global_phase": True}, {"lib": "qiskit"}],
    "LowRankInitialize": [None, {"lr": 1}, {"unitary_scheme": "csd", "iso_scheme": "knill"}, {"partition": [0]}],
    "SVDInitialize": ["-"],                     # no opt_params argument
    "UCGInitialize": [None, {"target_state": 1, "preserve_previous": False}],
    "UCGEInitialize": [None],
    "IsometryInitialize": [None, {"scheme": "knill"}, {"scheme": "csd"}],
    "BaaLowRankInitialize": [None, {"max_fidelity_loss": 0.1, "strategy": "brute_force"}, {"use_low_rank": True}],
    "BlackBoxInitialize": ["-"],
}


def _get_class(name):
    if name == "BlackBoxInitialize":
        from qclib.state_preparation.blackbox import BlackBoxInitialize
        return BlackBoxInitialize
    import qclib.state_preparation as sp
    return getattr(sp, name)


def _force(circ):
    _ = circ.num_qubits
    for inst in circ.data:
        d = inst.operation.definition
        if d is not None:
            _ = d.num_qubits


def call_entry(e, data):
    """Runs the entry point described by e on `data`; returns normally iff the input was accepted."""
    from qiskit import QuantumCircuit
    kind = e["kind"]
    if kind == "dense":
        cls = _get_class(e["class"])
        arg = [complex(x) for x in data] if e.get("as_list") else np.array(data)
        kw = {} if e["opt_params"] == "-" else {"opt_params": (None if e["opt_params"] is None else dict(e["opt_params"]))}
        if e["via"] == "constructor":
            gate = cls(arg, **kw)
            d = gate.definition
            _ = d.num_qubits
            return
        width = max(1, int(np.ceil(np.log2(max(len(data), 2))))) + (1 if e["class"] == "BlackBoxInitialize" else 0)
        qc = QuantumCircuit(width)
        if e.get("explicit_qubits"):
            cls.initialize(qc, arg, list(range(width)), **kw) if kw else cls.initialize(qc, arg, list(range(width)))
        else:
            cls.initialize(qc, arg, **kw)
        _force(qc)
        return
    if kind == "unitary":
        from qclib.unitary import unitary
        c = unitary(np.array(data), e["decomposition"], apply_a2=e["apply_a2"])
        _force(c)
        return
    if kind == "isometry":
        from qclib.isometry import decompose
        c = decompose(np.array(data), scheme=e["scheme"])
        _force(c)
        return
    if kind == "u2gate":
        from qclib.gates.mcg import Mcg
        from qclib.gates.ldmcu import Ldmcu
        from qclib.gates.qdmcu import Qdmcu
        from qclib.gates.mcu import MCU
        m = np.array(data)
        k = e["num_controls"]
        cs = e["ctrl_state"]
        name = e["class"]
        if e["via"] == "constructor":
            if name == "Mcg":
                g = Mcg(m, k, ctrl_state=cs, up_to_diagonal=e.get("up_to_diagonal", False))
            elif name == "Ldmcu":
                g = Ldmcu(m, k, ctrl_state=cs)
            elif name == "Qdmcu":
                g = Qdmcu(m, k, ctrl_state=cs)
            elif name == "Ldmcsu":
                from qclib.gates.ldmcsu import Ldmcsu
                g = Ldmcsu(m, k, ctrl_state=cs)
            elif name == "LdMcSpecialUnitary":
                from qclib.gates.ldmcsu import LdMcSpecialUnitary
                g = LdMcSpecialUnitary(m, k, ctrl_state=cs)
            else:
                g = MCU(m, k, e["error"], ctrl_state=cs)
            _ = g.definition.num_qubits
            return
        qc = QuantumCircuit(k + 1)
        ctr, tgt = list(range(k)), k
        if name == "Mcg":
            Mcg.mcg(qc, m, ctr, tgt, ctrl_state=cs)
        elif name == "Ldmcu":
            Ldmcu.ldmcu(qc, m, ctr, tgt, ctrl_state=cs)
        elif name == "Qdmcu":
            Qdmcu.qdmcu(qc, m, ctr, tgt, ctrl_state=cs)
        elif name == "Ldmcsu":
            from qclib.gates.ldmcsu import Ldmcsu
            Ldmcsu.ldmcsu(qc, m, ctr, tgt, ctrl_state=cs)
        elif name == "LdMcSpecialUnitary":
            from qclib.gates.ldmcsu import LdMcSpecialUnitary
            LdMcSpecialUnitary.ldmcsu(qc, m, ctr, tgt, ctrl_state=cs)
        else:
            MCU.mcu(qc, m, ctr, tgt, e["error"], ctrl_state=cs)
        _force(qc)
        return
    raise ValueError(kind)


def describe(e):
    if e["kind"] == "dense":
        return f"{e['class']}({'' if e['opt_params'] in (None, '-') else 'opt_params=' + str(e['opt_params']) + ', '}via {e['via']})"
    if e["kind"] == "unitary":
        return f"qclib.unitary.unitary(decomposition={e['decomposition']!r}, apply_a2={e['apply_a2']})"
    if e["kind"] == "isometry":
        return f"qclib.isometry.decompose(scheme={e['scheme']!r})"
    return f"{e['class']}(num_controls={e['num_controls']}, ctrl_state={e['ctrl_state']!r}, via {e['via']})"


import contextlib
import os
import sys


@contextlib.contextmanager
def quiet_stderr():
    """Rust panics print to the process's stderr (fd 2) before they become Python exceptions: keep the run silent"""
    try:
        sys.stderr.flush()
        saved = os.dup(2)
        devnull = os.open(os.devnull, os.O_WRONLY)
    except OSError:
        yield
        return
    try:
        os.dup2(devnull, 2)
        yield
    finally:
        os.dup2(saved, 2)
        os.close(saved)
        os.close(devnull)


def eval_case(ctx, e, data, fam, detail):
    """True iff the malformed input is rejected by an exception."""
    try:
        with quiet_stderr():
            call_entry(e, data)
    except Exception:  # noqa: BLE001  (any exception is a rejection)
        return True
    except (KeyboardInterrupt, SystemExit):
        raise
    except BaseException as ex:  # noqa: BLE001
        # pyo3 PanicException (derives from BaseException): the input passed every Python-side validator and made
        # Qiskit's Rust code panic.  No circuit is returned and an exception does propagate, which is what the
        # property text asks for; it is recorded in the evidence because `except Exception` does not catch it.
        ctx.monitor("rejected_only_by_rust_panic")
        ctx.note(f"{e.get('class') or e['kind']}: {fam} ({detail}) is rejected only by a Rust panic ({type(ex).__name__})")
        return True
    case = dict(e)
    case["family"] = fam
    case["detail"] = detail
    case["data"] = enc(data)
    case["function"] = describe(e)
    ctx.violation(f"{describe(e)} accepted a malformed input without raising: {fam} ({detail})", case)
    return False


# ----------------------------------------------------------------------------- generators: vectors
def unit(v):
    return v / np.linalg.norm(v)


def good_vector(rng, length, kind):
    if kind == "complex":
        return unit(rng.normal(size=length) + 1j * rng.normal(size=length))
    if kind == "real":
        return unit(rng.normal(size=length))
    if kind == "basis":
        v = np.zeros(length, dtype=complex)
        v[int(rng.integers(length))] = 1.0
        return v
    if kind == "uniform":
        return np.full(length, 1 / np.sqrt(length))
    if kind == "sparse":
        v = rng.normal(size=length) + 1j * rng.normal(size=length)
        v[rng.random(length) < 0.5] = 0
        if not v.any():
            v[0] = 1
        return unit(v)
    raise ValueError(kind)


VEC_KINDS = ["complex", "real", "basis", "uniform", "sparse"]
DELTAS = [5e-10, 1e-9, 3e-9, 1e-8, 1e-7, 1e-6, 1e-4, 1e-2, 0.5, 1.0, 3.0, 1e6]   # |sum of squares - 1|, both signs where possible


def rescale_to(v, s):
    """vector proportional to v whose sum of squared moduli is s (to ~1e-16)"""
    v = np.asarray(v)
    w = v * np.sqrt(s / float(np.sum(np.abs(v) ** 2)))
    # one correction step so that the float sum really is s within an ulp or two
    cur = float(np.sum(np.abs(w) ** 2))
    return w * np.sqrt(s / cur)


def bad_vectors(rng, n, deep):
    """yields (family, detail, vector) - all must be rejected by an n-qubit dense initializer"""
    N = 2 ** n
    # wrong lengths (unit norm, so only the length is wrong)
    lengths = sorted({0, 1, 3, 5, 6, 7, 9, 10, 12, 15, N - 1, N + 1, 3 * N // 2 if N >= 2 else 3} - {2, 4, 8, 16, 32, 64})
    for L in lengths:
        if L > 2 * N + 2 and L > 16:
            continue
        kind = VEC_KINDS[int(rng.integers(len(VEC_KINDS)))] if L > 0 else "complex"
        v = good_vector(rng, L, kind) if L > 0 else np.array([], dtype=float)
        yield f"length_{'0' if L == 0 else '1' if L == 1 else 'non_pow2'}", f"length {L}, {kind}, unit norm", v
    # wrong norm
    for delta in DELTAS:
        for sign in (+1, -1):
            s = 1 + sign * delta
            if s <= 0:
                continue
            kinds = VEC_KINDS if (deep or delta <= 1e-8) else [VEC_KINDS[int(rng.integers(len(VEC_KINDS)))]]
            for kind in kinds:
                v = rescale_to(good_vector(rng, N, kind), s)
                got = float(np.sum(np.abs(v) ** 2))
                if abs(got - 1) < 4e-10:           # keep the margin whatever rounding did
                    continue
                yield (f"norm_off_{delta:g}", f"sum of squares = 1{'+' if sign > 0 else '-'}{delta:g} ({kind})", v)
    yield "all_zero", "zero vector", np.zeros(N)
    yield "all_zero", "complex zero vector", np.zeros(N, dtype=complex)
    v = good_vector(rng, N, "complex")
    v[int(rng.integers(N))] = np.nan
    yield "nan", "one NaN amplitude", v
    yield "nan", "all NaN", np.full(N, np.nan)
    v = good_vector(rng, N, "real").astype(complex)
    v[int(rng.integers(N))] = complex(0, np.nan)
    yield "nan", "one amplitude with NaN imaginary part", v
    v = good_vector(rng, N, "real").astype(float)
    v[int(rng.integers(N))] = np.inf
    yield "inf", "one infinite amplitude", v
    # unit 2-norm replaced by unit 1-norm (probabilities instead of amplitudes), a frequent user error
    if N >= 2:
        p = rng.random(N) + 0.1
        yield "probabilities_not_amplitudes", "entries sum to one, squares do not", p / p.sum()


# ----------------------------------------------------------------------------- generators: matrices
def haar(rng, n):
    m = rng.normal(size=(n, n)) + 1j * rng.normal(size=(n, n))
    q, r = np.linalg.qr(m)
    d = np.diag(r)
    return q * (d / np.abs(d))


def good_unitary(rng, N, kind):
    if kind == "haar":
        return haar(rng, N)
    if kind == "identity":
        return np.eye(N, dtype=complex)
    if kind == "diagonal":
        return np.diag(np.exp(1j * rng.uniform(0, 2 * np.pi, N)))
    if kind == "permutation":
        return np.eye(N, dtype=complex)[rng.permutation(N)]
    if kind == "orthogonal":
        q, r = np.linalg.qr(rng.normal(size=(N, N)))
        return (q * np.sign(np.diag(r))).astype(complex)
    if kind == "hadamard":
        h = np.array([[1.0]])
        while h.shape[0] < N:
            h = np.kron(h, np.array([[1, 1], [1, -1]]) / np.sqrt(2))
        return h.astype(complex)
    raise ValueError(kind)


U_KINDS = ["haar", "identity", "diagonal", "permutation", "orthogonal", "hadamard"]


def bad_square(rng, N, kind):
    """yields (family, detail, matrix): N x N, not unitary"""
    u = good_unitary(rng, N, kind)
    for s in (2.0, 0.5, 1.001, 0.999, 1.0 + 1e-4, 1j * 1.5):
        yield "scaled", f"{s} * {kind} unitary", u * s
    yield "zero_matrix", "all zeros", np.zeros((N, N), dtype=complex)
    m = u.copy()
    i, j = int(rng.integers(N)), int(rng.integers(N))
    m[i, j] += 0.05
    yield "entry_perturbed", f"{kind} unitary with entry ({i},{j}) + 0.05", m
    if N >= 2:
        m = u.copy()
        m[:, 1] = m[:, 0]
        yield "duplicate_column", f"{kind} unitary, column 1 := column 0 (rank deficient)", m
        m = u.copy()
        m[int(rng.integers(N)), :] = 0
        yield "zero_row", f"{kind} unitary with one row zeroed", m
        d = np.ones(N)
        d[int(rng.integers(N))] = 1.01
        yield "column_scaled", f"{kind} unitary times diag(1,..,1.01,..)", u * d
        p = np.zeros((N, N), dtype=complex)
        p[0, 0] = 1
        yield "projector", "rank-one projector", p
        t = np.triu(np.ones((N, N))).astype(complex)
        yield "triangular", "upper triangular ones (invertible, not unitary)", t
    m = u.copy()
    m[int(rng.integers(N)), int(rng.integers(N))] = np.nan
    yield "nan", f"{kind} unitary with one NaN entry", m


def non_square(rng, N):
    u = haar(rng, N)
    if N >= 2:
        yield "non_square", f"{N}x{N // 2} (isometry)", u[:, : N // 2].copy()
        yield "non_square", f"{N // 2}x{N} (wide)", u[: N // 2, :].copy()
        yield "non_square", f"{N}x{N - 1}", u[:, : N - 1].copy()
    yield "non_square", f"1-D vector of length {N}", u[:, 0].copy()
    yield "non_square", f"{N}x{2 * N} (wide, orthonormal rows)", haar(rng, 2 * N)[:N, :].copy()


def bad_isometries(rng, n, m):
    """rows 2^n, columns 2^m (m <= n): non-orthonormal columns"""
    R, C = 2 ** n, 2 ** m
    v = haar(rng, R)[:, :C]
    for s in (2.0, 0.5, 1.001, 0.999):
        yield "scaled", f"{s} * ({R}x{C} isometry)", v * s
    yield "zero_matrix", f"{R}x{C} zeros", np.zeros((R, C), dtype=complex)
    w = v.copy()
    w[:, C - 1] *= 1.01
    yield "column_scaled", f"{R}x{C} isometry with the last column * 1.01", w
    if C >= 2:
        w = v.copy()
        w[:, 1] = w[:, 0]
        yield "duplicate_column", f"{R}x{C}, column 1 := column 0", w
        w = v.copy()
        w[:, 1] = unit(w[:, 1] + 0.1 * w[:, 0])
        yield "non_orthogonal", f"{R}x{C}, unit columns with overlap 0.1", w
        w = v.copy()
        w[:, int(rng.integers(C))] = 0
        yield "zero_column", f"{R}x{C} with one zero column", w
    w = v.copy()
    w[int(rng.integers(R)), int(rng.integers(C))] = np.nan
    yield "nan", f"{R}x{C} isometry with one NaN entry", w
    # structured: basis columns, one of them repeated / scaled
    e = np.eye(R, dtype=complex)[:, :C].copy()
    e[0, 0] = 1.5
    yield "scaled_basis_column", f"{R}x{C} identity columns, first entry 1.5", e
    if C == 1:
        yield "non_unit_vector_1d", f"1-D vector of length {R}, norm 2", 2 * v[:, 0]
        yield "zero_vector_1d", f"1-D zero vector of length {R}", np.zeros(R, dtype=complex)


def bad_shapes(rng):
    """matrices with ORTHONORMAL columns (or rows) whose shape alone is invalid"""
    # wide: more columns than rows (orthonormal rows)
    for r, c in ((1, 2), (2, 4), (4, 8), (2, 8), (1, 4)):
        yield "wide", f"{r}x{c} with orthonormal rows", haar(rng, c)[:r, :].copy()
    # rows not a power of two, orthonormal columns
    for r, c in ((3, 1), (3, 2), (5, 1), (6, 2), (6, 4), (7, 1), (12, 4), (5, 4), (3, 3), (6, 6)):
        yield "rows_not_pow2", f"{r}x{c} with orthonormal columns", haar(rng, r)[:, :c].copy()
    # columns not a power of two, orthonormal columns
    for r, c in ((4, 3), (8, 3), (8, 5), (8, 6), (8, 7), (16, 3)):
        yield "cols_not_pow2", f"{r}x{c} with orthonormal columns", haar(rng, r)[:, :c].copy()
    for L in (3, 5, 6, 7):
        yield "vector_not_pow2", f"1-D unit vector of length {L}", unit(rng.normal(size=L) + 1j * rng.normal(size=L))


RX03 = np.array([[np.cos(0.15), -1j * np.sin(0.15)], [-1j * np.sin(0.15), np.cos(0.15)]], dtype=complex)
PAULI_X = np.array([[0, 1], [1, 0]], dtype=complex)
# MCU derives its base size from the eigenphases and raises for most unitaries at most (num_controls, error);
# these (base unitary, error, control counts) are configurations on which the VALID base unitary is accepted, so
# that a rejection of the malformed variants is due to the 2x2-unitary check
MCU_CONFIGS = [("rx0.3", RX03, 0.1, (2, 3, 4, 5, 6)), ("x", PAULI_X, 0.5, (4, 5, 6))]


def bad_u2(rng, base=None):
    u = haar(rng, 2) if base is None else np.array(base, dtype=complex)
    for s in (2.0, 0.5, 1.001, 0.999, 1 + 1e-4):
        yield "scaled", f"{s} * U(2)", u * s
    yield "scaled", "2 * identity", 2 * np.eye(2, dtype=complex)
    yield "scaled", "0.5 * X", 0.5 * np.array([[0, 1], [1, 0]], dtype=complex)
    yield "zero_matrix", "zeros", np.zeros((2, 2), dtype=complex)
    yield "singular", "projector |0><0|", np.array([[1, 0], [0, 0]], dtype=complex)
    yield "singular", "all ones / 2", np.ones((2, 2), dtype=complex) / 2
    # determinant one, not unitary (a test of the determinant alone cannot reject these)
    yield "det1_not_unitary", "shear [[1,1],[0,1]]", np.array([[1, 1], [0, 1]], dtype=complex)
    yield "det1_not_unitary", "diag(2, 1/2)", np.diag([2.0, 0.5]).astype(complex)
    t = float(rng.uniform(1.2, 3.0))
    d = np.linalg.det(u)
    yield "det1_not_unitary", "SU(2)-normalised unitary times diag(t, 1/t)", (u / np.sqrt(d)) @ np.diag([t, 1 / t]).astype(complex)
    g = rng.normal(size=(2, 2)) + 1j * rng.normal(size=(2, 2))
    yield "det1_not_unitary", "random SL(2,C) matrix", g / np.sqrt(np.linalg.det(g))
    w = u.copy()
    w[:, 1] = unit(w[:, 1] + 0.1 * w[:, 0])
    yield "non_orthogonal", "unit columns with overlap 0.1", w
    w = u.copy()
    w[0, 1] += 0.05
    yield "entry_perturbed", "U(2) with one entry + 0.05", w
    w = u.copy()
    w[1, 0] = np.nan
    yield "nan", "one NaN entry", w
    yield "wrong_shape", "4x4 unitary", haar(rng, 4)
    for _ in range(6):          # acceptance of an oversized unitary depends on which entries a branch happens to read
        yield "wrong_shape", "3x3 unitary", haar(rng, 3)
    w3 = haar(rng, 3)
    yield "wrong_shape", "3x3 unitary with determinant 1", w3 / np.linalg.det(w3) ** (1 / 3)
    yield "wrong_shape", "3x3 block diag(SU(2), 1)", np.block([[u / np.sqrt(np.linalg.det(u)), np.zeros((2, 1))], [np.zeros((1, 2)), np.ones((1, 1))]])
    yield "wrong_shape", "3x3 real rotation", np.linalg.qr(rng.normal(size=(3, 3)))[0].astype(complex)
    yield "wrong_shape", "1x1 [[1]]", np.array([[1.0 + 0j]])
    yield "wrong_shape", "2x1 column", u[:, :1].copy()
    yield "wrong_shape", "1x2 row", u[:1, :].copy()
    yield "wrong_shape", "2x3", haar(rng, 3)[:2, :].copy()
    yield "wrong_shape", "1-D length 2", u[:, 0].copy()
    yield "wrong_shape", "1-D length 4 (flattened unitary)", u.reshape(-1).copy()
    yield "wrong_shape", "2x2x1 tensor", u.reshape(2, 2, 1).copy()


# ----------------------------------------------------------------------------- driver
def evaluate(ctx, deep):
    rng = ctx.rng
    sanity(ctx)
    # ---- dense initializers ---------------------------------------------------------------
    nmax = 6 if deep else 4
    for cname, opts in DENSE.items():
        for n in range(1, nmax + 1):
            for oi, opt in enumerate(opts):
                if isinstance(opt, dict) and "partition" in opt and n < 2:
                    continue
                for via in ("constructor", "static"):
                    for fam, detail, v in bad_vectors(rng, n, deep or oi == 0):
                        e = {"kind": "dense", "class": cname, "opt_params": opt, "via": via, "n": n,
                             "as_list": bool(rng.random() < 0.3), "explicit_qubits": bool(rng.random() < 0.5)}
                        ctx.count(f"{cname}:{fam}", key=("d", cname, repr(opt), via, n, fam, detail, np.asarray(v).tobytes()),
                                  nontrivial=True,
                                  sample={"class": cname, "n": n, "detail": detail, "vector": [complex(x) for x in np.asarray(v)[:4]]}
                                  if (n == 2 and fam == "norm_off_1e-09" and via == "constructor") else None)
                        eval_case(ctx, e, v, fam, detail)
    # ---- unitary() ------------------------------------------------------------------------------
    sizes = [2, 4, 8, 16] + ([32] if deep else [])
    for N in sizes:
        for dec_name in ("qsd", "csd", "qr"):
            for a2 in (True, False):
                if not a2 and dec_name != "qsd":
                    continue
                kinds = U_KINDS
                for kind in kinds:
                    for fam, detail, m in bad_square(rng, N, kind):
                        e = {"kind": "unitary", "decomposition": dec_name, "apply_a2": a2, "n": int(np.log2(N))}
                        ctx.count(f"unitary:{fam}", key=("u", N, dec_name, a2, kind, fam, m.tobytes()), nontrivial=True,
                                  sample={"size": N, "decomposition": dec_name, "detail": detail} if N == 8 and fam == "scaled" else None)
                        eval_case(ctx, e, m, fam, detail)
                for fam, detail, m in non_square(rng, N):
                    e = {"kind": "unitary", "decomposition": dec_name, "apply_a2": a2, "n": int(np.log2(N))}
                    ctx.count(f"unitary:{fam}", key=("u", N, dec_name, a2, fam, m.tobytes()), nontrivial=True)
                    eval_case(ctx, e, m, fam, detail)
    # ---- isometry.decompose ------------------------------------------------------------------------
    for scheme in ("ccd", "knill", "csd"):
        for n in range(1, (5 if deep else 4) + 1):
            for m_ in range(0, n + 1):
                for _ in range(4 if deep else 2):
                    for fam, detail, a in bad_isometries(rng, n, m_):
                        e = {"kind": "isometry", "scheme": scheme, "n": n, "m": m_}
                        ctx.count(f"isometry:{fam}", key=("i", scheme, n, m_, fam, a.tobytes()), nontrivial=True,
                                  sample={"scheme": scheme, "detail": detail} if (n == 2 and m_ == 1 and fam == "non_orthogonal") else None)
                        eval_case(ctx, e, a, fam, detail)
        for _ in range(6 if deep else 2):
            for fam, detail, a in bad_shapes(rng):
                e = {"kind": "isometry", "scheme": scheme, "n": None, "m": None}
                ctx.count(f"isometry:{fam}", key=("is", scheme, fam, a.tobytes()), nontrivial=True)
                eval_case(ctx, e, a, fam, detail)
    # ---- one-qubit controlled gates (check_u2 callers, and the two SU(2) gates) -------------------------------
    for cname in ("Mcg", "Ldmcu", "Qdmcu", "MCU", "Ldmcsu", "LdMcSpecialUnitary"):
        if cname in ("Ldmcsu", "LdMcSpecialUnitary"):
            # base matrix in SU(2), so that the valid base itself is accepted
            plans = []
            for k in range(1, (6 if deep else 4) + 1):
                b = haar(rng, 2)
                plans.append((k, "su2", b / np.sqrt(np.linalg.det(b)), None))
        elif cname == "MCU":
            plans = [(k, bname, base, err) for (bname, base, err, ks) in MCU_CONFIGS for k in ks if deep or k <= 5]
        else:
            plans = [(k, "haar", None, None) for k in range(0, (6 if deep else 4) + 1) if not (cname == "Qdmcu" and k == 0)]
        for (k, bname, base, err) in plans:
            patterns = [None]
            if k >= 1:
                patterns += ["0" * k, "".join(str(int(b)) for b in rng.integers(0, 2, k))]
            for cs in patterns:
                for via in ("constructor", "static"):
                    for _ in range(4 if deep else 2):
                        for fam, detail, m in bad_u2(rng, base):
                            e = {"kind": "u2gate", "class": cname, "num_controls": k, "ctrl_state": cs, "via": via,
                                 "error": err, "base": bname,
                                 "up_to_diagonal": bool(rng.integers(2)) if cname == "Mcg" else False}
                            ctx.count(f"{cname}:{fam}", key=("g", cname, k, cs, via, fam, m.tobytes()), nontrivial=True,
                                      sample={"class": cname, "num_controls": k, "detail": detail} if (k == 2 and fam == "det1_not_unitary" and cs is None) else None)
                            eval_case(ctx, e, m, fam, detail)


def sanity(ctx):
    """valid inputs are accepted by the same harness path (otherwise 'rejected' above would be vacuous);
    failures here are notes, not violations (acceptance of valid inputs is the subject of C01-C04)."""
    rng = np.random.default_rng(12345)
    checks = []
    for cname, opts in DENSE.items():
        for opt in opts:
            for via in ("constructor", "static"):
                for n in (2, 3):
                    for as_list in (False, True):
                        checks.append(({"kind": "dense", "class": cname, "opt_params": opt, "via": via, "n": n,
                                        "as_list": as_list, "explicit_qubits": not as_list},
                                       good_vector(rng, 2 ** n, "complex")))
    for d, a2 in (("qsd", True), ("qsd", False), ("csd", True), ("qr", True)):
        for N in (2, 4, 8):
            checks.append(({"kind": "unitary", "decomposition": d, "apply_a2": a2, "n": int(np.log2(N))}, haar(rng, N)))
    for sc in ("ccd", "knill", "csd"):
        for (n, m_) in ((2, 0), (2, 1), (3, 1), (3, 3)):
            checks.append(({"kind": "isometry", "scheme": sc, "n": n, "m": m_}, haar(rng, 2 ** n)[:, :2 ** m_].copy()))
    for cname in ("Mcg", "Ldmcu", "Qdmcu"):
        for via in ("constructor", "static"):
            for k, cs in ((1, None), (2, None), (3, "010")):
                checks.append(({"kind": "u2gate", "class": cname, "num_controls": k, "ctrl_state": cs, "via": via,
                                "error": None, "up_to_diagonal": False}, haar(rng, 2)))
    for cname in ("Ldmcsu", "LdMcSpecialUnitary"):
        for via in ("constructor", "static"):
            for k, cs in ((1, None), (2, None), (3, "010")):
                b = haar(rng, 2)
                checks.append(({"kind": "u2gate", "class": cname, "num_controls": k, "ctrl_state": cs, "via": via,
                                "error": None, "up_to_diagonal": False}, b / np.sqrt(np.linalg.det(b))))
    for (bname, base, err, ks) in MCU_CONFIGS:
        for k in ks:
            for via in ("constructor", "static"):
                checks.append(({"kind": "u2gate", "class": "MCU", "num_controls": k, "ctrl_state": None, "via": via,
                                "error": err, "up_to_diagonal": False}, base))
    for e, data in checks:
        try:
            call_entry(e, data)
            ctx.monitor("valid_input_accepted")
        except Exception as ex:  # noqa: BLE001
            ctx.note(f"sanity: {describe(e)} rejected a VALID input: {type(ex).__name__}: {str(ex)[:120]}")


def replay(ctx, case):
    e = {k: v for k, v in case.items() if k not in ("family", "detail", "data", "function")}
    return eval_case(ctx, e, dec(case["data"]), case.get("family", "replay"), case.get("detail", ""))
