"""C17 - probabilistic quantum memory (qclib.memory.pqm.initialize).

Direct evaluation: the retrieval circuit is built on registers placed in several layouts (memory / auxiliary /
pattern in different orders, memory qubits given as a register or as a shuffled list of qubits), the memory is
loaded by handing the simulator an explicit initial state vector (no qclib state preparation involved), and the
exact probabilities of the final state are compared with
    P(aux = 0) = sum_k |a_k|^2 cos^2(pi d(k, p) / (2 n)),
    marginal of the memory register = |a_k|^2,   marginal of the pattern register = delta_p   (quantum variant)."""
import warnings
import numpy as np
from qiskit import QuantumCircuit, QuantumRegister
from qiskit.quantum_info import Statevector

warnings.filterwarnings("ignore")

TOL_PROB = 1e-7

LAYOUTS_C = ["mem_aux", "aux_mem", "mem_shuffled"]
LAYOUTS_Q = ["pat_mem_aux", "mem_aux_pat", "aux_pat_mem", "interleaved", "shuffled"]
FAMILIES = ["basis", "uniform", "complex", "real", "negative", "sparse", "pair_complement", "product", "ghz_phase",
            "neighbours", "tiny_tail"]


def enc(v):
    return [[float(np.real(x)).hex(), float(np.imag(x)).hex()] for x in v]


def dec(l):
    return np.array([complex(float.fromhex(a), float.fromhex(b)) for a, b in l], dtype=complex)


def gen_memory(rng, n, fam):
    N = 2 ** n
    if fam == "basis":
        v = np.zeros(N, dtype=complex)
        v[int(rng.integers(N))] = np.exp(1j * rng.uniform(-np.pi, np.pi))
    elif fam == "uniform":
        v = np.ones(N, dtype=complex)
    elif fam == "complex":
        v = rng.normal(size=N) + 1j * rng.normal(size=N)
    elif fam == "real":
        v = rng.normal(size=N) + 0j
    elif fam == "negative":
        v = -np.abs(rng.normal(size=N)) - 0.01 + 0j
    elif fam == "sparse":
        v = np.zeros(N, dtype=complex)
        m = int(rng.integers(1, max(2, N // 2) + 1))
        idx = rng.choice(N, size=min(m, N), replace=False)
        v[idx] = rng.normal(size=len(idx)) + 1j * rng.normal(size=len(idx))
    elif fam == "pair_complement":      # k and its bitwise complement: distances d and n-d
        v = np.zeros(N, dtype=complex)
        k = int(rng.integers(N))
        v[k] = rng.uniform(0.2, 1)
        v[(N - 1) ^ k] += rng.uniform(0.2, 1) * np.exp(1j * rng.uniform(-np.pi, np.pi))
    elif fam == "product":
        v = np.array([1.0 + 0j])
        for _ in range(n):
            v = np.kron(v, rng.normal(size=2) + 1j * rng.normal(size=2))
    elif fam == "ghz_phase":
        v = np.zeros(N, dtype=complex)
        v[0] = 1
        v[-1] += np.exp(1j * rng.uniform(-np.pi, np.pi))
    elif fam == "neighbours":           # one stored pattern and all patterns at distance one
        v = np.zeros(N, dtype=complex)
        k = int(rng.integers(N))
        v[k] = 1
        for j in range(n):
            v[k ^ (1 << j)] = rng.uniform(0.3, 1) * np.exp(1j * rng.uniform(-np.pi, np.pi))
    elif fam == "tiny_tail":
        v = (rng.normal(size=N) + 1j * rng.normal(size=N)) * 1e-4
        v[int(rng.integers(N))] = 1
    else:
        raise ValueError(fam)
    return v / np.linalg.norm(v)


def positions(layout, n, perm):
    """(total qubits, memory positions, aux position, pattern positions or None); memory position j holds memory bit j"""
    if layout == "mem_aux":
        return n + 1, list(range(n)), n, None
    if layout == "aux_mem":
        return n + 1, list(range(1, n + 1)), 0, None
    if layout == "mem_shuffled":
        return n + 1, [int(p) for p in perm[:n]], int(perm[n]), None
    if layout == "pat_mem_aux":
        return 2 * n + 1, list(range(n, 2 * n)), 2 * n, list(range(n))
    if layout == "mem_aux_pat":
        return 2 * n + 1, list(range(n)), n, list(range(n + 1, 2 * n + 1))
    if layout == "aux_pat_mem":
        return 2 * n + 1, list(range(n + 1, 2 * n + 1)), 0, list(range(1, n + 1))
    if layout == "interleaved":
        return 2 * n + 1, [2 * j + 1 for j in range(n)], 2 * n, [2 * j for j in range(n)]
    if layout == "shuffled":
        return 2 * n + 1, [int(p) for p in perm[:n]], int(perm[2 * n]), [int(p) for p in perm[n:2 * n]]
    raise ValueError(layout)


def build(layout, n, pattern, perm, classical):
    from qclib.memory.pqm import initialize as pqm
    total, mem_pos, aux_pos, pat_pos = positions(layout, n, perm)
    if layout in ("mem_shuffled", "shuffled", "interleaved"):
        circ = QuantumCircuit(total)
        q_mem = [circ.qubits[p] for p in mem_pos]
        q_aux = circ.qubits[aux_pos]
        q_pat = [circ.qubits[p] for p in pat_pos] if pat_pos is not None else None
    else:
        regs = {}
        order = layout.split("_")
        for name in order:
            regs[name] = QuantumRegister(1 if name == "aux" else n, name)
        circ = QuantumCircuit(*[regs[name] for name in order])
        q_mem, q_aux, q_pat = regs["mem"], regs["aux"], regs.get("pat")
    if classical:
        pqm(circ, list(pattern), q_mem, q_aux, is_classical_pattern=True)
    else:
        pqm(circ, q_pat, q_mem, q_aux, is_classical_pattern=False)
    return circ, total, mem_pos, aux_pos, pat_pos


def eval_case(ctx, n, a, pattern, layout, perm, classical, fam):
    """True iff C17 holds: a = memory amplitudes (index bit j = memory qubit j), pattern = list of n bits"""
    a = np.asarray(a, dtype=complex)
    case = {"function": "pqm.initialize", "n": n, "family": fam, "classical": bool(classical), "layout": layout,
            "pattern": [int(b) for b in pattern], "perm": [int(p) for p in perm], "memory": enc(a)}
    try:
        circ, total, mem_pos, aux_pos, pat_pos = build(layout, n, pattern, perm, classical)
        idx = np.arange(2 ** total)
        mem_val = np.zeros_like(idx)
        for j, p in enumerate(mem_pos):
            mem_val |= ((idx >> p) & 1) << j
        aux_val = (idx >> aux_pos) & 1
        pat_val = np.zeros_like(idx)
        pint = sum(int(b) << j for j, b in enumerate(pattern))
        if pat_pos is not None:
            for j, p in enumerate(pat_pos):
                pat_val |= ((idx >> p) & 1) << j
        init = np.where((aux_val == 0) & ((pat_val == pint) if pat_pos is not None else True), a[mem_val], 0)
        out = np.asarray(Statevector(init).evolve(circ).data)
    except Exception as exc:
        ctx.violation(f"pqm.initialize raised {type(exc).__name__}: {str(exc)[:120]}", case)
        return False
    if not np.all(np.isfinite(out)):
        ctx.violation("pqm: final state contains NaN/inf", case)
        return False
    prob = np.abs(out) ** 2
    k = np.arange(2 ** n)
    d = np.array([bin(int(x) ^ pint).count("1") for x in k])
    pa = np.abs(a) ** 2
    want_p0 = float(np.sum(pa * np.cos(np.pi * d / (2 * n)) ** 2))
    got_p0 = float(prob[aux_val == 0].sum())
    mem_marg = np.bincount(mem_val, weights=prob, minlength=2 ** n)
    ok = True
    e0 = abs(got_p0 - want_p0)
    if e0 >= TOL_PROB:
        ctx.violation(f"pqm: P(aux=0) = {got_p0:.9f}, cosine law gives {want_p0:.9f} (diff {e0:.3g})", dict(case, err=e0))
        ok = False
    em = float(np.abs(mem_marg - pa).max())
    if ok and em >= TOL_PROB:
        ctx.violation(f"pqm: measurement distribution of the memory register changed by {em:.3g}", dict(case, err=em))
        ok = False
    if ok and pat_pos is not None:
        pat_marg = np.bincount(pat_val, weights=prob, minlength=2 ** n)
        ref = np.zeros(2 ** n)
        ref[pint] = 1.0
        ep = float(np.abs(pat_marg - ref).max())
        if ep >= TOL_PROB:
            ctx.violation(f"pqm: measurement distribution of the pattern register changed by {ep:.3g}", dict(case, err=ep))
            ok = False
    return ok


def run_one(ctx, n, fam, pattern, layout, classical, sample=False):
    a = gen_memory(ctx.rng, n, fam)
    total = (n + 1) if classical else (2 * n + 1)
    perm = ctx.rng.permutation(total)
    ctx.count(f"{'classical' if classical else 'quantum'}:{fam}",
              key=(n, classical, layout, tuple(pattern), tuple(int(p) for p in perm), a.tobytes()),
              nontrivial=True,
              sample={"n": n, "pattern": list(pattern), "memory": [complex(x) for x in a[:8]]} if sample else None)
    eval_case(ctx, n, a, pattern, layout, perm, classical, fam)



def _limit_blas_threads(n_threads=2):
    """OpenBLAS threading does not speed these small tensor contractions up but occupies every core; cap it (best
    effort, silently skipped when the bundled library or symbol is not found)."""
    try:
        import ctypes
        import glob
        import os
        libdir = os.path.join(os.path.dirname(os.path.dirname(np.__file__)), "numpy.libs")
        for path in glob.glob(os.path.join(libdir, "*openblas*")):
            lib = ctypes.CDLL(path)
            for name in ("scipy_openblas_set_num_threads64_", "openblas_set_num_threads64_",
                         "scipy_openblas_set_num_threads", "openblas_set_num_threads"):
                if hasattr(lib, name):
                    getattr(lib, name)(int(n_threads))
                    break
    except Exception:
        pass


def evaluate(ctx, deep):
    _limit_blas_threads()
    rng = ctx.rng
    nmax = 8 if deep else 7
    all_pat_max = 6 if deep else 5
    for n in range(1, nmax + 1):
        N = 2 ** n
        if n <= all_pat_max:
            pats = list(range(N))
        else:
            extra = (4 if n >= 8 else 24) if deep else 12
            pats = sorted(set([0, N - 1, 1, N >> 1] + [int(x) for x in rng.integers(0, N, extra)]))
        for pint in pats:
            pattern = [(pint >> j) & 1 for j in range(n)]
            for classical in (True, False):
                layouts = LAYOUTS_C if classical else LAYOUTS_Q
                # every family once per pattern with a rotating layout; every layout at least with a complex memory
                for fi, fam in enumerate(FAMILIES):
                    layout = layouts[(fi + pint) % len(layouts)]
                    run_one(ctx, n, fam, pattern, layout, classical, sample=(n == 3 and pint == 5))
                for layout in layouts:
                    run_one(ctx, n, "complex", pattern, layout, classical)
        # every basis-state memory against every pattern (the full distance table), small n
        if n <= (4 if deep else 3):
            for kk in range(N):
                for pint in range(N):
                    pattern = [(pint >> j) & 1 for j in range(n)]
                    a = np.zeros(N, dtype=complex)
                    a[kk] = 1
                    for classical in (True, False):
                        layout = (LAYOUTS_C if classical else LAYOUTS_Q)[(kk + pint) % (3 if classical else 5)]
                        perm = rng.permutation(n + 1 if classical else 2 * n + 1)
                        ctx.count(f"{'classical' if classical else 'quantum'}:distance_table",
                                  key=(n, classical, layout, pint, kk, tuple(int(p) for p in perm)), nontrivial=True)
                        eval_case(ctx, n, a, pattern, layout, perm, classical, "distance_table")


    # mid-size classical patterns (n + 1 qubits): pattern bits beyond the first byte, every input form of the pattern
    for n in ((9, 10, 11) if deep else (9, 10)):
        N = 2 ** n
        for pint in sorted(set([N - 1, N >> 1, (N >> 1) | 1] + [int(x) for x in rng.integers(N >> 2, N, 2)])):
            pattern = [(pint >> j) & 1 for j in range(n)]
            for fam in ("complex", "sparse") if "sparse" in FAMILIES else ("complex",):
                run_one(ctx, n, fam, pattern, LAYOUTS_C[(pint + n) % len(LAYOUTS_C)], True)


def replay(ctx, case):
    return eval_case(ctx, case["n"], dec(case["memory"]), case["pattern"], case["layout"], case["perm"],
                     case["classical"], case.get("family", "replay"))
