"""C02 - unitary synthesis (QSD, CSD, QR)."""
import numpy as np
import scipy.linalg
from harness.props._common import run_eval, replay_eval
from harness import monitors

PROPS_FILE = "P_C02mx"
RULE = ("contract monitors: on every call of unitary._compute_gates and scipy.linalg.cossin made while synthesising structured "
        "(identity, diagonal, permutation, tensor, block-diagonal, real orthogonal, Hadamard, -I) and Haar unitaries, n = 2..4/5, "
        "the premises of the demultiplexing theorem (V unitary, |d| = 1, U1 U2^dagger = V D^2 V^dagger, W = D V^dagger U2) and the "
        "cosine-sine factorisation are checked numerically at 1e-8; direct evaluation (harness/props/c02_eval.py): operator vs matrix "
        "for every decomposition, apply_a2 and iso. distinct = distinct (family, n, options); non-trivial = n >= 2")
ASSUMPTIONS = ["the recursive wiring of build_unitary/_qsd/_csd (which block goes on which qubits) is evaluated, not proved; the multiplexed "
               "rotations are C13's theorems (RY with CZ, trailing CZ absorbed by the sign flip A.1)",
               "Qiskit's _apply_a2, UCRZGate, UCRYGate, UCGate, UnitaryGate synthesis are outside the repository: contracts only",
               "QR decomposition: evaluated only"]
TRUSTED = ["harness/monitors.py"]


def families(rng, n):
    N = 2 ** n
    q, _ = np.linalg.qr(rng.normal(size=(N, N)) + 1j * rng.normal(size=(N, N)))
    yield "haar", q
    yield "identity", np.eye(N, dtype=complex)
    yield "diagonal", np.diag(np.exp(1j * rng.uniform(0, 6, N)))
    yield "permutation", np.eye(N, dtype=complex)[rng.permutation(N)]
    a, _ = np.linalg.qr(rng.normal(size=(2, 2)) + 1j * rng.normal(size=(2, 2)))
    b, _ = np.linalg.qr(rng.normal(size=(N // 2, N // 2)) + 1j * rng.normal(size=(N // 2, N // 2)))
    yield "tensor", np.kron(a, b)
    yield "tensor_rev", np.kron(b, a)
    yield "block", scipy.linalg.block_diag(b, b.conj().T @ np.diag(np.exp(1j * rng.uniform(0, 6, N // 2)))).astype(complex)
    o, _ = np.linalg.qr(rng.normal(size=(N, N)))
    yield "orthogonal", o.astype(complex)
    H = np.array([[1.0]])
    for _ in range(n):
        H = np.kron(H, np.array([[1, 1], [1, -1]]) / np.sqrt(2))
    yield "hadamard", H.astype(complex)
    yield "minus_identity", -np.eye(N, dtype=complex)
    if N >= 4:
        # degenerate demultiplexing spectrum in a generic eigenbasis (eigenvalue -1 twice: branch cut of np.angle)
        h = N // 2
        for theta in (np.pi, 0.7):
            qq, _ = np.linalg.qr(rng.normal(size=(h, h)) + 1j * rng.normal(size=(h, h)))
            dq = qq @ np.diag(np.exp(1j * np.array([theta, theta] + list(np.linspace(-2.5, 2.5, h - 2))))) @ qq.conj().T
            yield f"block_degenerate_{theta:.2f}", scipy.linalg.block_diag(b, dq @ b).astype(complex)


def contract_monitors(ctx):
    from qclib import unitary as U
    nmax = 4 if ctx.quick else 5
    for n in range(2, nmax + 1):
        for fam, M in families(ctx.rng, n):
            for dec in ("qsd", "csd"):
                log_g, log_c = [], []
                with monitors.patched(U, "_compute_gates", monitors.compute_gates_monitor(ctx, log_g)), \
                        monitors.patched(scipy.linalg, "cossin", monitors.cossin_monitor(ctx, log_c)):
                    try:
                        U.build_unitary(M, dec, 0)
                    except Exception as ex:
                        ctx.note(f"build_unitary raised on {fam} n={n} {dec}: {type(ex).__name__}")
                ctx.count(f"monitor:{dec}:{fam}", key=(dec, fam, n, M.tobytes()[:64]), nontrivial=True,
                          sample={"n": n, "family": fam, "decomposition": dec, "compute_gates_calls": len(log_g),
                                  "cossin_calls": len(log_c)} if n == 3 else None)
                bad = [x for x in log_g if max(x) > 1e-8]
                if bad:
                    ctx.mismatch("C02 contract: _compute_gates violates a premise of the demultiplexing theorem "
                                 f"(V unitary {bad[0][0]:.1e}, |d|=1 {bad[0][1]:.1e}, eigen-equation {bad[0][2]:.1e}, W {bad[0][3]:.1e})",
                                 {"n": n, "family": fam, "decomposition": dec})
                badc = [x for x in log_c if max(x) > 1e-8]
                if badc:
                    ctx.mismatch(f"C02 contract: scipy.linalg.cossin factorisation off by {badc[0][0]:.1e}",
                                 {"n": n, "family": fam, "decomposition": dec})


def run(ctx):
    contract_monitors(ctx)
    run_eval(ctx, "C02")


def search(ctx):
    run_eval(ctx, "C02", deep=True)


def replay(ctx, case):
    return replay_eval(ctx, "C02", case)


MANIFEST = dict(
    text="Proof (MODULAR/PARTIAL): the demultiplexing identity U1(+)U2 = (V(+)V)(D(+)D^-1)(W(+)W) under the premises V unitary, U1 U2^-1 = V D^2 V^-1, W = D V^-1 U2 (C02_demux, any field, any dimension); the multiplexed rotations used by the synthesis are C13's theorems. Tie: on every _compute_gates and scipy cossin call made while synthesising structured (identity, diagonal, permutation, tensor, block, orthogonal, Hadamard, -I) and Haar unitaries the premises are checked numerically at 1e-8. The recursive wiring, A.1/A.2, isometry mode and QR are evaluated: operator vs matrix for every option, n<=4/6.",
    note="Modelled, not verified: scipy cossin / numpy eig, Qiskit's _apply_a2, UCRZGate, UCGate, UnitaryGate synthesis; wiring of build_unitary is evaluated only.",
    technique='Coq/mathcomp proof (block matrices over any field) + runtime contract monitors + numpy operator comparison',
    design_ref='DESIGN.md section 4, C02')
