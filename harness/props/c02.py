"""C02 - unitary synthesis (QSD, CSD, QR)."""
import numpy as np
import scipy.linalg
from harness.props._common import run_eval, replay_eval
from harness import monitors
from harness.coqcases import run_bool_cases
from harness.flatten import coq_list

PROPS_FILE = "P_C02mx"
PROPS_FILES = ["P_C02mx", "P_C02qr"]
COQ_TARGETS = ["TwoLevel"]
QHEADER = ("From Coq Require Import List Bool Arith NArith.\nFrom QV Require Import Sem SparseSim TwoLevel CaseLib.\nImport ListNotations.\n"
           "Definition mg_eqb (g h : mg) : bool := match g, h with\n"
           " | MGX a, MGX b => Nat.eqb a b | MGCX a b, MGCX c d => Nat.eqb a c && Nat.eqb b d\n"
           " | MGU i cs t, MGU j ds u => Nat.eqb i j && list_eqb Nat.eqb cs ds && Nat.eqb t u | _, _ => false end.\n")
RULE = ("QR scheme: every block of the circuits built for dense unitaries (n = 2..4/5) must equal TwoLevel.qr_block n col row inside Coq (and blockg with a path accepted by path_ok), the whole gate list must equal qr_circuit for n <= 3, every Givens sequence must satisfy the premises of C02_qr_telescoping (1e-12 / 1e-10) and the product of the two-level matrices must equal the input (1e-7); contract monitors: on every call of unitary._compute_gates and scipy.linalg.cossin made while synthesising structured "
        "(identity, diagonal, permutation, tensor, block-diagonal, real orthogonal, Hadamard, -I) and Haar unitaries, n = 2..4/5, "
        "the premises of the demultiplexing theorem (V unitary, |d| = 1, U1 U2^dagger = V D^2 V^dagger, W = D V^dagger U2) and the "
        "cosine-sine factorisation are checked numerically at 1e-8; direct evaluation (harness/props/c02_eval.py): operator vs matrix "
        "for every decomposition, apply_a2 and iso. distinct = distinct (family, n, options); non-trivial = n >= 2")
ASSUMPTIONS = ["the recursive wiring of build_unitary/_qsd/_csd (which block goes on which qubits) is evaluated, not proved; the multiplexed "
               "rotations are C13's theorems (RY with CZ, trailing CZ absorbed by the sign flip A.1)",
               "Qiskit's _apply_a2, UCRZGate, UCRYGate, UCGate, UnitaryGate synthesis are outside the repository: contracts only",
               "QR scheme: the blocks are proved two-level operators (C02_qr_block) on the path the code took (checked inside Coq); that the Givens "
               "factors multiply to the input matrix is a numpy product compared at 1e-9, not a theorem; Qiskit's MCMT / MCX gates are taken as the "
               "ideal fully controlled gates (the mcmt operator is compared with the controlled 2x2 gate numerically)"]
TRUSTED = ["harness/monitors.py"]


def families(rng, n):
    N = 2 ** n
    q, _ = np.linalg.qr(rng.normal(size=(N, N)) + 1j * rng.normal(size=(N, N)))
    yield "haar", q
    yield "identity", np.eye(N, dtype=complex)
    yield "diagonal", np.diag(np.exp(1j * rng.uniform(0, 6, N)))
    yield "permutation", np.eye(N, dtype=complex)[rng.permutation(N)]
    a, _ = np.linalg.qr(rng.normal(size=(2, 2)) + 1j * rng.normal(size=(2, 2)))
    b, _ = np.linalg.qr(rng.normal(size=(N // 2, N // 2)) + 1j * rng.normal(size=(N // 2, N // 2)))
    yield "tensor", np.kron(a, b)
    yield "tensor_rev", np.kron(b, a)
    yield "block", scipy.linalg.block_diag(b, b.conj().T @ np.diag(np.exp(1j * rng.uniform(0, 6, N // 2)))).astype(complex)
    o, _ = np.linalg.qr(rng.normal(size=(N, N)))
    yield "orthogonal", o.astype(complex)
    H = np.array([[1.0]])
    for _ in range(n):
        H = np.kron(H, np.array([[1, 1], [1, -1]]) / np.sqrt(2))
    yield "hadamard", H.astype(complex)
    yield "minus_identity", -np.eye(N, dtype=complex)
    if N >= 4:
        # degenerate demultiplexing spectrum in a generic eigenbasis (eigenvalue -1 twice: branch cut of np.angle)
        h = N // 2
        for theta in (np.pi, 0.7):
            qq, _ = np.linalg.qr(rng.normal(size=(h, h)) + 1j * rng.normal(size=(h, h)))
            dq = qq @ np.diag(np.exp(1j * np.array([theta, theta] + list(np.linspace(-2.5, 2.5, h - 2))))) @ qq.conj().T
            yield f"block_degenerate_{theta:.2f}", scipy.linalg.block_diag(b, dq @ b).astype(complex)


def contract_monitors(ctx):
    from qclib import unitary as U
    nmax = 4 if ctx.quick else 5
    for n in range(2, nmax + 1):
        for fam, M in families(ctx.rng, n):
            for dec in ("qsd", "csd"):
                log_g, log_c = [], []
                with monitors.patched(U, "_compute_gates", monitors.compute_gates_monitor(ctx, log_g)), \
                        monitors.patched(scipy.linalg, "cossin", monitors.cossin_monitor(ctx, log_c)):
                    try:
                        U.build_unitary(M, dec, 0)
                    except Exception as ex:
                        ctx.note(f"build_unitary raised on {fam} n={n} {dec}: {type(ex).__name__}")
                ctx.count(f"monitor:{dec}:{fam}", key=(dec, fam, n, M.tobytes()[:64]), nontrivial=True,
                          sample={"n": n, "family": fam, "decomposition": dec, "compute_gates_calls": len(log_g),
                                  "cossin_calls": len(log_c)} if n == 3 else None)
                bad = [x for x in log_g if max(x) > 1e-8]
                if bad:
                    ctx.mismatch("C02 contract: _compute_gates violates a premise of the demultiplexing theorem "
                                 f"(V unitary {bad[0][0]:.1e}, |d|=1 {bad[0][1]:.1e}, eigen-equation {bad[0][2]:.1e}, W {bad[0][3]:.1e})",
                                 {"n": n, "family": fam, "decomposition": dec})
                badc = [x for x in log_c if max(x) > 1e-8]
                if badc:
                    ctx.mismatch(f"C02 contract: scipy.linalg.cossin factorisation off by {badc[0][0]:.1e}",
                                 {"n": n, "family": fam, "decomposition": dec})


def _tau(n, m, p, b):
    """python mirror of TwoLevel.tau (only used to propose col/row; Coq's path_ok decides)"""
    mask = ((1 << n) - 1) & ~(1 << m)
    return b ^ (1 << m) if (b & mask) == (p & mask) else b


def qr_blocks(ctx):
    """QR scheme: every block of the circuit (moves ; fully controlled 2x2 gate ; moves undone) is compared inside Coq with
    TwoLevel.blockg and its path is checked by TwoLevel.path_ok, so that C02_qr_block makes it the two-level operator on (col, row);
    the product of the two-level matrices is then compared with the input matrix."""
    from qclib.unitary import unitary
    from qiskit.quantum_info import Operator
    from harness.flatten import flatten
    sizes = [(2, 4), (3, 3), (4, 1)] if ctx.quick else [(2, 8), (3, 6), (4, 3), (5, 1)]
    lines, cases = [], []
    for n, reps in sizes:
        fams = [f for f in families(ctx.rng, n) if not np.any(np.abs(f[1]) < 1e-9)]
        if n <= 3:   # a reflection whose elimination meets vanishing pivots: diagonal and permutation-like factors
            fams.insert(1, ("reflection_uniform", (np.eye(2 ** n) - 2 * np.ones((2 ** n, 2 ** n)) / 2 ** n).astype(complex)))
        for rep in range(reps):
            if rep < len(fams):
                fam, U = fams[rep]
            else:
                N_ = 2 ** n
                fam, U = "haar", np.linalg.qr(ctx.rng.normal(size=(N_, N_)) + 1j * ctx.rng.normal(size=(N_, N_)))[0]
            case0 = {"decomposition": "qr", "n": n, "family": fam,
                     "matrix": [[[float(z.real).hex(), float(z.imag).hex()] for z in r] for r in np.asarray(U, complex)]}
            seqlog = []

            def sfactory(orig):
                def swrapped(gate, n_qubits):
                    g0 = np.array(gate, dtype=complex, copy=True)
                    out = orig(gate, n_qubits)
                    seqlog.append((g0, np.array(out, dtype=complex, copy=True)))
                    return out
                return swrapped
            import qclib.unitary as QU
            try:
                with monitors.patched(QU, "_build_qr_gate_sequence", sfactory):
                    c = unitary(U, "qr")
            except Exception as ex:
                ctx.note(f"unitary(qr) raised {type(ex).__name__} on {fam} n={n}")
                continue
            # premises of C02_qr_telescoping on the sequence the code built: [G, R_k^-1, .., R_1^-1] with every recorded inverse a
            # left inverse of its factor (R_i = conjugate transpose) and G the matrix after eliminating with R_1 .. R_k in turn
            for g0, sq in seqlog:
                ctx.monitor("qr_givens_contract")
                invs = list(sq[1:])[::-1]                      # R_1^-1 .. R_k^-1
                acc, worst = g0, 0.0
                for Ri_inv in invs:
                    Ri = Ri_inv.conj().T
                    worst = max(worst, float(np.abs(Ri_inv @ Ri - np.eye(len(g0))).max()))
                    acc = Ri @ acc
                if worst > 1e-12 or float(np.abs(acc - sq[0]).max()) > 1e-10:
                    ctx.mismatch(f"C02 QR contract: the Givens sequence violates the premises of C02_qr_telescoping (left inverses off by {worst:.1e}, "
                                 f"remainder off by {np.abs(acc - sq[0]).max():.1e})", case0)
            ctx.count("corr:qr:" + fam, key=("qrb", n, np.asarray(U).tobytes()[:96]), nontrivial=True,
                      sample={"n": n, "family": fam, "instructions": len(c.data)} if n == 3 and rep == 0 else None)
            total = np.eye(2 ** n, dtype=complex)
            all_gates, all_pairs = [], []
            block, seen_mcmt, bad = [], False, None
            blocks = []
            for inst in c.data:
                block.append(inst)
                if inst.operation.name == "mcmt":
                    seen_mcmt = True
                elif seen_mcmt and inst.operation.name != "x":
                    blocks.append(block)
                    block, seen_mcmt = [], False
            if block:
                bad = "instructions left over after the last block"
            for bi, blk in enumerate(blocks):
                if bad:
                    break
                L, zeros_cu, d, M, gates, phase = [], set(), None, None, [], "prep"
                for inst in blk:
                    op = inst.operation
                    qs = [c.find_bit(q).index for q in inst.qubits]
                    if op.name == "x":
                        gates.append(f"MGX {qs[0]}")
                        if phase == "prep":
                            zeros_cu.add(qs[0])
                    elif op.name == "mcmt":
                        phase = "after"
                        d = qs[-1]
                        W = Operator(op).data
                        h = 2 ** (n - 1)
                        M = np.array([[W[h - 1 + r * h, h - 1 + cc * h] for cc in (0, 1)] for r in (0, 1)])
                        ref = np.eye(2 ** n, dtype=complex)
                        for r in (0, 1):
                            for cc in (0, 1):
                                ref[h - 1 + r * h, h - 1 + cc * h] = M[r, cc]
                        if not np.allclose(W, ref, atol=1e-7):   # Qiskit synthesises the controlled gate to about 4e-9 from 4 qubits on
                            bad = "the mcmt instruction is not a fully controlled one-qubit gate"
                        gates.append(f"MGU 1 {coq_list([str(q) for q in qs[:-1]])} {qs[-1]}")
                    else:
                        fl, _ = flatten(op.definition, qs)
                        zs, tgt = set(), None
                        for name, q2, o2 in fl:
                            if name == "x":
                                gates.append(f"MGX {q2[0]}")
                                if tgt is None:
                                    zs.add(q2[0])
                            elif name in ("cx", "ccx", "mcx") and getattr(o2, "ctrl_state", (1 << (len(q2) - 1)) - 1) == (1 << (len(q2) - 1)) - 1:
                                if tgt is not None and phase == "prep":
                                    bad = "a move holds more than one controlled X"
                                gates.append(f"MGU 0 {coq_list([str(q) for q in q2[:-1]])} {q2[-1]}")
                                if phase == "prep":
                                    tgt = q2[-1]
                            else:
                                bad = f"unexpected gate {name} inside a move"
                        if phase == "prep":
                            if tgt is None:
                                if fl:
                                    bad = "a move without a controlled X"
                                continue
                            pm = sum(1 << q for q in range(n) if q != tgt and q not in zs)
                            L.append((tgt, pm))
                if bad or d is None:
                    bad = bad or "block without a controlled gate"
                    break
                p = sum(1 << q for q in range(n) if q != d and q not in zeros_cu)
                col, row = p, p | (1 << d)
                for m_, p_ in reversed(L):
                    col, row = _tau(n, m_, p_, col), _tau(n, m_, p_, row)
                Lc = coq_list([f"({m_}, {p_}%N)" for m_, p_ in L])
                lines.append(f"(list_eqb mg_eqb (qr_block {n} {col}%N {row}%N) {coq_list(gates)}) && qr_pre {n} {col}%N {row}%N "
                             f"&& (list_eqb mg_eqb (blockg {n} {Lc} {d} {p}%N) {coq_list(gates)}) && path_ok {n} {Lc} {d} {p}%N {col}%N {row}%N")
                cases.append(dict(case0, block=bi, col=col, row=row))
                all_gates += [g.replace("MGU 1 ", f"MGU {bi + 1} ", 1) if g.startswith("MGU 1 ") else g for g in gates]
                all_pairs.append(f"({col}%N, {row}%N)")
                T = np.eye(2 ** n, dtype=complex)
                T[col, col], T[col, row], T[row, col], T[row, row] = M[0, 0], M[0, 1], M[1, 0], M[1, 1]
                total = T @ total
            ctx.monitor("qr_two_level_product")
            if not bad and n <= 3:
                # the whole gate list against the model generated from the list of (col, row) pairs (C02_qr_circuit)
                lines.append(f"(list_eqb mg_eqb (qr_circuit {n} 0 {coq_list(all_pairs)}) {coq_list(all_gates)}) "
                             f"&& forallb (fun cr => qr_pre {n} (fst cr) (snd cr)) {coq_list(all_pairs)}")
                cases.append(dict(case0, block="all"))
            if bad:
                ctx.mismatch("C02 QR correspondence: " + bad, case0)
            elif np.abs(total - np.asarray(U, complex)).max() > 1e-7:
                ctx.mismatch(f"C02 QR tie: the product of the two-level operators of the blocks differs from the matrix by {np.abs(total - U).max():.2e}", case0)

    def on_fail(cs):
        ctx.mismatch("C02 QR correspondence: a block of the circuit differs from TwoLevel.blockg, or its path fails TwoLevel.path_ok", cs)
    ctx.monitor("qr_blocks_checked_in_coq", len(lines))
    run_bool_cases(ctx, "c02_qr", QHEADER, lines, cases, on_fail, shard=60)


def run(ctx):
    contract_monitors(ctx)
    qr_blocks(ctx)
    run_eval(ctx, "C02")


def search(ctx):
    run_eval(ctx, "C02", deep=True)


def replay(ctx, case):
    return replay_eval(ctx, "C02", case)


MANIFEST = dict(
    text="Proof (MODULAR/PARTIAL): the demultiplexing identity U1(+)U2 = (V(+)V)(D(+)D^-1)(W(+)W) under the premises V unitary, U1 U2^-1 = V D^2 V^-1, W = D V^-1 U2 (C02_demux, any field, any dimension); the multiplexed rotations used by the synthesis are C13's theorems. Tie: on every _compute_gates and scipy cossin call made while synthesising structured (identity, diagonal, permutation, tensor, block, orthogonal, Hadamard, -I) and Haar unitaries the premises are checked numerically at 1e-8. QR scheme: every block of the circuit (Gray-code moves = fully controlled X gates with zero-controls, the fully controlled 2x2 gate, the moves undone) is the two-level operator on its two basis states for every register width, every path accepted by the checker path_ok and every matrix (C02_qr_block; C02_qr_move: a move is a transposition of basis states), and the path the code takes - lowest differing qubit first - is accepted for every pair of basis states (C02_qr_gray_path), so the block generated from (n, col, row) alone is the two-level operator (C02_qr_block_all) and the circuit generated from the list of pairs is the composition of these operators (C02_qr_circuit); the Givens sequence gives the matrix back when every recorded inverse is a left inverse of its factor (C02_qr_telescoping, any ring and dimension; premises checked on every sequence the code builds; C02_qr_givens_pair is the 2x2 zeroing core); tie: each block of the circuits built for dense unitaries (n = 2..4/5) is compared inside Coq with TwoLevel.qr_block n col row, and the product of the resulting two-level matrices is compared with the input. The recursive wiring, A.1/A.2 and isometry mode are evaluated: operator vs matrix for every option, n<=4/6.",
    note="Modelled, not verified: scipy cossin / numpy eig, Qiskit's _apply_a2, UCRZGate, UCGate, UnitaryGate synthesis; wiring of build_unitary is evaluated only.",
    technique='Coq/mathcomp proof (block matrices over any field) + Coq proof of the QR blocks (conjugated two-level operators, checker-validated paths) + gate-list correspondence (vm_compute) + runtime contract monitors + numpy operator comparison',
    design_ref='DESIGN.md section 4, C02')
