"""C02 - unitary synthesis (qclib.unitary.unitary): Operator of the circuit equals the matrix.

Direct evaluation only: for every decomposition (qsd with/without A.2, csd, qr), every iso in 0..n-1 and a set of
structured / degenerate matrix families, Operator(unitary(U, ...)) is compared entry by entry with U (leading
2^(n-iso) columns in isometry mode), tolerance 1e-6, global phase included.  QR is only demanded on unitaries
without zero entries (property text)."""
import warnings
import numpy as np
from qiskit.quantum_info import Operator

from harness.core import jsonable, unjson_array

warnings.filterwarnings("ignore")

TOL = 1e-6
H1 = np.array([[1, 1], [1, -1]], dtype=complex) / np.sqrt(2)
X1 = np.array([[0, 1], [1, 0]], dtype=complex)


# ----------------------------------------------------------------------------------------------- random pieces
def haar(rng, N):
    """Haar unitary from ctx.rng (QR of a Ginibre matrix with phase correction)."""
    z = (rng.normal(size=(N, N)) + 1j * rng.normal(size=(N, N))) / np.sqrt(2)
    q, r = np.linalg.qr(z)
    d = np.diagonal(r)
    return q * (d / np.abs(d))


def orth(rng, N):
    z = rng.normal(size=(N, N))
    q, r = np.linalg.qr(z)
    return (q * np.sign(np.diagonal(r))).astype(complex)


def phases(rng, N):
    return np.exp(1j * rng.uniform(0.2, 6.0, N))


def kron_all(ms):
    out = np.array([[1.0 + 0j]])
    for m in ms:
        out = np.kron(out, m)
    return out


def blockdiag(a, b):
    n, m = len(a), len(b)
    out = np.zeros((n + m, n + m), dtype=complex)
    out[:n, :n] = a
    out[n:, n:] = b
    return out


def near(rng, U, eps):
    """U . exp(i eps K), K random Hermitian with spectral norm 1"""
    N = len(U)
    k = rng.normal(size=(N, N)) + 1j * rng.normal(size=(N, N))
    k = k + k.conj().T
    w, v = np.linalg.eigh(k)
    w = w / np.abs(w).max()
    return U @ ((v * np.exp(1j * eps * w)) @ v.conj().T)


A2_INSTANCE = ['-0x1.64adc33b7515ap-2', '0x1.b505e2062f9f0p-1', '0x1.2bd67291cf61ep-3', '-0x1.6f520475ffd71p-2',
               '0x1.b612f902a8580p-1', '0x1.6a05651590228p-2', '-0x1.6a0e67abfd7f4p-2', '-0x1.1232f979c7574p-3',
               '-0x1.4594d71ccd388p-3', '0x1.6a0565159018ap-2', '-0x1.6a0e67abfd76ep-2', '0x1.b3dec2d471aecp-1',
               '0x1.64adc33b750bap-2', '0x1.2c01f3c27e20dp-3', '0x1.b50404507159dp-1', '0x1.6f520475ffceap-2']


def qft(N):
    w = np.exp(2j * np.pi / N)
    j, k = np.meshgrid(np.arange(N), np.arange(N))
    return (w ** (j * k)) / np.sqrt(N)


# ----------------------------------------------------------------------------------------------- families
def make(fam, n, rng):
    """matrix of family `fam` on n qubits (None when the family does not exist at this size)"""
    N = 2 ** n
    if fam == "haar":
        return haar(rng, N)
    if fam == "identity":
        return np.eye(N, dtype=complex)
    if fam == "minus_identity":
        return -np.eye(N, dtype=complex)
    if fam == "phase_identity":
        return np.exp(1j * rng.uniform(0.3, 6.0)) * np.eye(N, dtype=complex)
    if fam == "diagonal":
        return np.diag(phases(rng, N))
    if fam == "diagonal_pm1":
        d = rng.choice([-1.0, 1.0], N)
        return np.diag(d).astype(complex)
    if fam == "diagonal_repeated":      # two distinct phases only
        p = phases(rng, 2)
        return np.diag(p[rng.integers(0, 2, N)])
    if fam == "permutation":
        return np.eye(N, dtype=complex)[rng.permutation(N)]
    if fam == "signed_permutation":
        return np.eye(N, dtype=complex)[rng.permutation(N)] * rng.choice([-1.0, 1.0], N)
    if fam == "phased_permutation":
        return np.eye(N, dtype=complex)[rng.permutation(N)] * phases(rng, N)
    if fam == "reversal":               # X on every qubit
        return np.eye(N, dtype=complex)[::-1].copy()
    if fam == "hadamard":
        return kron_all([H1] * n)
    if fam == "orthogonal":
        return orth(rng, N)
    if fam == "haar_times_phase_real":  # real orthogonal times a global phase
        return np.exp(1j * rng.uniform(0.3, 6.0)) * orth(rng, N)
    if fam == "qft":
        return qft(N)
    if fam == "reflection":             # I - 2 v v^dagger : spectrum {1 (N-1 times), -1}
        v = rng.normal(size=N) + 1j * rng.normal(size=N)
        v /= np.linalg.norm(v)
        return np.eye(N, dtype=complex) - 2 * np.outer(v, v.conj())
    if fam == "repeated_spectrum":      # V diag(two phases) V^dagger
        v = haar(rng, N)
        p = phases(rng, 2)
        d = p[np.arange(N) % 2]
        return (v * d) @ v.conj().T
    if fam == "near_identity":          # exp(i eps K), eps = 1e-4: within Qiskit's 1-1e-9 specialisation fidelity of I
        return near(rng, np.eye(N, dtype=complex), 1e-4)
    if fam == "near_identity_1e-2":
        return near(rng, np.eye(N, dtype=complex), 1e-2)
    if n < 2:
        return None
    h = N // 2
    if fam == "near_tensor":            # (product of one-qubit gates) . exp(i 1e-4 K)
        return near(rng, kron_all([haar(rng, 2) for _ in range(n)]), 1e-4)
    if fam == "near_cx_chain":
        return near(rng, make("cx_chain", n, rng), 1e-4)
    if fam == "a2_regression":          # design-phase instance: real orthogonal 4x4 on which Qiskit's A.2 loses 4e-5
        m = np.array([float.fromhex(x) for x in A2_INSTANCE]).reshape(4, 4).astype(complex)
        return kron_all([np.eye(2 ** (n - 2)), m])
    if fam == "tensor_1_rest":          # (one-qubit) (x) (n-1 qubits): most significant qubit separate
        return np.kron(haar(rng, 2), haar(rng, h))
    if fam == "tensor_rest_1":
        return np.kron(haar(rng, h), haar(rng, 2))
    if fam == "tensor_all":             # product of n one-qubit unitaries
        return kron_all([haar(rng, 2) for _ in range(n)])
    if fam == "tensor_same":            # u (x) u (x) ... (x) u
        u = haar(rng, 2)
        return kron_all([u] * n)
    if fam == "tensor_id_rest":         # I (x) W  = block diagonal with EQUAL blocks (U1 U2^dagger = I)
        return np.kron(np.eye(2), haar(rng, h))
    if fam == "tensor_rest_id":
        return np.kron(haar(rng, h), np.eye(2))
    if fam == "block_diagonal":
        return blockdiag(haar(rng, h), haar(rng, h))
    if fam == "block_w_minus_w":        # W (+) -W   (U1 U2^dagger = -I)
        w = haar(rng, h)
        return blockdiag(w, -w)
    if fam == "block_id_w":             # controlled-W
        return blockdiag(np.eye(h), haar(rng, h))
    if fam == "block_w_id":
        return blockdiag(haar(rng, h), np.eye(h))
    if fam == "block_antidiagonal":     # [[0, A], [B, 0]] : all CS angles pi/2
        out = np.zeros((N, N), dtype=complex)
        out[:h, h:] = haar(rng, h)
        out[h:, :h] = haar(rng, h)
        return out
    if fam == "block_orthogonal":
        return blockdiag(orth(rng, h), orth(rng, h))
    if fam == "cs_equal_angles":        # (L0+L1) [[cI,-sI],[sI,cI]] (R0+R1): every CS angle equal
        t = rng.uniform(0.3, 1.2)
        mid = np.kron(np.array([[np.cos(t), -np.sin(t)], [np.sin(t), np.cos(t)]]), np.eye(h))
        return blockdiag(haar(rng, h), haar(rng, h)) @ mid @ blockdiag(haar(rng, h), haar(rng, h))
    if fam == "cx_chain":               # permutation built from CNOTs (a linear reversible map)
        idx = np.arange(N)
        for q in range(n - 1):
            idx = idx ^ (((idx >> q) & 1) << (q + 1))
        return np.eye(N, dtype=complex)[idx]
    if fam == "hadamard_one_qubit":     # H on one qubit, identity elsewhere
        q = int(rng.integers(n))
        return kron_all([H1 if (n - 1 - j) == q else np.eye(2) for j in range(n)])
    if fam in ("block_degenerate_pi", "block_degenerate_any", "ctrl_degenerate_pi"):
        # U1 U2^dagger has a doubly (h >= 4: sometimes triply) degenerate eigenvalue in a Haar eigenbasis, the rest distinct:
        # the eigenvectors numpy returns inside the degenerate eigenspace are not orthogonal (demultiplexing must repair them);
        # eigenvalue -1 sits on the branch cut of np.angle
        if h < 2:
            return None
        mult = 2 if h < 4 or rng.random() < 0.6 else 3
        theta = np.pi if fam != "block_degenerate_any" else float(rng.choice([0.0, np.pi / 2, -np.pi / 2, np.pi, rng.uniform(-3, 3)]))
        phs = [theta] * mult + list(np.linspace(-2.5, 2.5, h - mult) + rng.uniform(-0.1, 0.1))
        q = haar(rng, h)
        dq = q @ np.diag(np.exp(1j * np.asarray(phs))) @ q.conj().T
        if fam == "ctrl_degenerate_pi":
            return blockdiag(np.eye(h), dq)
        w = haar(rng, h)
        return blockdiag(w, dq @ w)
    if fam == "leading_basis_columns":  # first half of the columns are basis vectors (isometry-mode degenerate)
        out = np.zeros((N, N), dtype=complex)
        p = rng.permutation(N)
        out[p[:h], np.arange(h)] = 1.0
        w = haar(rng, h)
        out[np.ix_(np.sort(p[h:]), np.arange(h, N))] = w
        return out
    raise ValueError(fam)


FAMILIES = ["haar", "identity", "minus_identity", "phase_identity", "diagonal", "diagonal_pm1", "diagonal_repeated",
            "permutation", "signed_permutation", "phased_permutation", "reversal", "hadamard", "orthogonal",
            "haar_times_phase_real", "qft", "reflection", "repeated_spectrum", "tensor_1_rest", "tensor_rest_1",
            "tensor_all", "tensor_same", "tensor_id_rest", "tensor_rest_id", "block_diagonal", "block_w_minus_w",
            "block_id_w", "block_w_id", "block_antidiagonal", "block_orthogonal", "cs_equal_angles", "cx_chain",
            "hadamard_one_qubit", "leading_basis_columns", "block_degenerate_pi", "block_degenerate_any", "ctrl_degenerate_pi", "near_identity", "near_identity_1e-2", "near_tensor",
            "near_cx_chain", "a2_regression"]

CONFIGS = [("qsd", True), ("qsd", False), ("csd", False), ("csd", True)]   # apply_a2 is ignored for csd (both passed)


def no_zero_entries(U):
    return bool(np.abs(U).min() > 1e-3)


# ----------------------------------------------------------------------------------------------- evaluation
def pre_a2_diagnosis(U, iso):
    """for the known-finding predicate: is the circuit exact BEFORE Qiskit's _apply_a2 rewrites it?"""
    from qclib.unitary import unitary
    n = int(np.log2(len(U)))
    cols = 2 ** (n - iso)
    try:
        pre = Operator(unitary(np.array(U, dtype=complex), "qsd", iso, False)).data
        pre_err = float(np.abs(pre[:, :cols] - np.asarray(U)[:, :cols]).max())
    except Exception:  # noqa: BLE001
        pre_err = float("inf")
    return {"pre_a2_err": pre_err, "a2_loss": bool(pre_err < 1e-9)}


def ucgate_diagnosis(circ, U, cols):
    """for the known-finding predicate (csd): does every Qiskit UCGate ('multiplexer') instruction of the returned
    circuit implement its own list of 2x2 gates, and is the circuit exact once the wrong ones are replaced by their
    exact block-diagonal matrices?"""
    from qiskit.circuit.library import UnitaryGate
    try:
        fixed = circ.copy_empty_like()
        wrong = 0
        for inst in circ.data:
            op = inst.operation
            if op.name == "multiplexer":
                gates = [np.asarray(g, dtype=complex) for g in op.params]
                ref = np.zeros((2 * len(gates), 2 * len(gates)), dtype=complex)
                for i, g in enumerate(gates):
                    ref[2 * i:2 * i + 2, 2 * i:2 * i + 2] = g
                if float(np.abs(Operator(op).data - ref).max()) > TOL:
                    wrong += 1
                    fixed.append(UnitaryGate(ref), inst.qubits)
                    continue
            fixed.append(op, inst.qubits)
        err = float(np.abs(Operator(fixed).data[:, :cols] - np.asarray(U)[:, :cols]).max())
    except Exception:  # noqa: BLE001
        return {"explained_by_qiskit_ucgate": False}
    return {"qiskit_ucgates_wrong": wrong, "err_with_exact_multiplexers": err,
            "explained_by_qiskit_ucgate": bool(wrong > 0 and err < TOL)}


def eval_case(ctx, U, dec, a2, iso, fam, dtype="complex"):
    """C02 on the implementation for one input; True when it holds.  dtype = 'real': a real-valued matrix handed over as a
    float64 array (what scipy's ortho_group or a permutation matrix built with numpy naturally is)"""
    from qclib.unitary import unitary
    n = int(np.log2(len(U)))
    case = {"function": "unitary", "decomposition": dec, "apply_a2": bool(a2), "iso": int(iso), "n": n, "family": fam,
            "matrix": jsonable(np.asarray(U, dtype=complex)), "dtype": dtype}
    try:
        Uin = np.array(np.real(U), dtype=float) if dtype == "real" else np.array(U, dtype=complex)
        circ = unitary(Uin, dec, iso, a2)
        op = Operator(circ).data
    except Exception as exc:  # noqa: BLE001 - any exception on a valid unitary is a failure of the property
        case["exception"] = f"{type(exc).__name__}: {str(exc)[:200]}"
        case["exception_type"] = type(exc).__name__
        case["raised_in_weyl_decomposition"] = "TwoQubitWeylDecomposition" in str(exc)
        if dec == "qsd" and a2:
            case.update(pre_a2_diagnosis(U, iso))
        ctx.violation(f"unitary(U, '{dec}', iso={iso}, apply_a2={a2}) raised {type(exc).__name__} on a valid "
                      f"{len(U)}x{len(U)} unitary ({fam})", case)
        return False
    if circ.num_qubits != n:
        ctx.violation(f"unitary(U, '{dec}') returned a circuit on {circ.num_qubits} qubits for a {n}-qubit matrix", case)
        return False
    cols = 2 ** (n - iso) if dec != "qr" else 2 ** n
    err = float(np.abs(op[:, :cols] - np.asarray(U)[:, :cols]).max())
    if not err < TOL:
        case["err"] = err
        if dec == "qsd" and a2:
            case.update(pre_a2_diagnosis(U, iso))
        if dec == "csd":
            case.update(ucgate_diagnosis(circ, U, cols))
        ctx.violation(f"unitary(U, '{dec}', iso={iso}, apply_a2={a2}): operator differs from the matrix by {err:.3g} "
                      f"on the leading {cols} columns ({fam}, n={n})", case)
        return False
    return True


def isos(n, dec):
    if dec == "qr":
        return [0]
    return list(range(0, max(n, 1)))     # 0..n-1


def run_matrix(ctx, U, fam, n, with_qr, iso_list=None):
    key_m = tuple(np.round(U, 12).ravel().tolist())
    for dec, a2 in CONFIGS:
        for iso in isos(n, dec):
            if iso_list is not None and iso not in iso_list:
                continue
            if dec == "csd" and a2 and iso not in (0, n - 1):
                continue                 # apply_a2 is documented to matter only for qsd: spot check two iso values
            ctx.count(f"{dec}{'+a2' if a2 else ''}:{fam}", key=(dec, a2, iso, key_m), nontrivial=n >= 2,
                      sample={"decomposition": dec, "apply_a2": a2, "iso": iso, "n": n, "row0": jsonable(U[0][:4])}
                      if n == 3 and iso == 1 else None)
            eval_case(ctx, U, dec, a2, iso, fam)
            if iso in (0, 1) and float(np.abs(np.imag(U)).max()) == 0.0:
                ctx.count(f"{dec}{'+a2' if a2 else ''}:{fam}:real_dtype", key=(dec, a2, iso, key_m, "real"), nontrivial=n >= 2, sample=None)
                eval_case(ctx, U, dec, a2, iso, fam, dtype="real")
    if with_qr and no_zero_entries(U):
        ctx.count(f"qr:{fam}", key=("qr", key_m), nontrivial=n >= 2,
                  sample={"decomposition": "qr", "n": n, "row0": jsonable(U[0][:4])} if n == 2 else None)
        eval_case(ctx, U, "qr", False, 0, fam)


LARGE_FAMILIES = ["haar", "identity", "diagonal_repeated", "phased_permutation", "hadamard", "orthogonal",
                  "repeated_spectrum", "tensor_id_rest", "block_w_minus_w", "cs_equal_angles", "leading_basis_columns",
                  "near_tensor", "block_degenerate_pi"]


def evaluate(ctx, deep):
    nmax = 4
    qr_max = 3                           # QR through run_matrix (every dense family); n = 4 in the dedicated loop below
    for n in range(1, nmax + 1):
        if deep:
            reps = {1: 4, 2: 6, 3: 5, 4: 2}[n]
        else:
            reps = {1: 3, 2: 5, 3: 3, 4: 1}[n]
        for fam in FAMILIES:
            for _ in range(reps):
                U = make(fam, n, ctx.rng)
                if U is None:
                    break
                run_matrix(ctx, U, fam, n, with_qr=n <= qr_max)
    # larger sizes: n = 5 (quick: a few families, three iso values; deep: every family, every iso), n = 6 (deep only)
    for fam in (FAMILIES if deep else LARGE_FAMILIES[:6]):
        U = make(fam, 5, ctx.rng)
        run_matrix(ctx, U, fam, 5, with_qr=False, iso_list=None if deep else (0, 2, 4))
    if deep:
        for fam in LARGE_FAMILIES:
            U = make(fam, 6, ctx.rng)
            run_matrix(ctx, U, fam, 6, with_qr=False, iso_list=(0, 1, 5))
    # exhaustive small structured sets: all 24 permutations and all sign patterns of 4x4, all 2x2 Clifford-like
    import itertools
    perms = list(itertools.permutations(range(4)))
    for p in perms:
        U = np.eye(4, dtype=complex)[list(p)]
        run_matrix(ctx, U, "all_perm4", 2, with_qr=False)
    for signs in itertools.product([1.0, -1.0], repeat=4):
        run_matrix(ctx, np.diag(signs).astype(complex), "all_sign4", 2, with_qr=False)
    for p in (perms if deep else perms[::3]):   # permutation of the 4 blocks of an 8x8 = (4x4 perm) (x) I2 and I2 (x) perm
        P = np.eye(4, dtype=complex)[list(p)]
        run_matrix(ctx, np.kron(P, np.eye(2)), "perm4_x_id", 3, with_qr=False)
        run_matrix(ctx, np.kron(np.eye(2), P), "id_x_perm4", 3, with_qr=False)
    # one-qubit gates
    s = np.diag([1, 1j]).astype(complex)
    for name, g in (("x", X1), ("h", H1), ("s", s), ("z", np.diag([1, -1]).astype(complex)), ("y", np.array([[0, -1j], [1j, 0]]))):
        run_matrix(ctx, g, "one_qubit_" + name, 1, with_qr=True)
    # QR on more dense inputs (no zero entries): every dense family at n = 2..qr_max, extra repetitions
    for n in range(2, (4 if deep else 3) + 1):
        for fam in ("haar", "orthogonal", "haar_times_phase_real", "qft", "hadamard", "tensor_all", "tensor_same",
                    "reflection", "repeated_spectrum"):
            for _ in range((3 if n < 4 else 1) if deep else (2 if n < 3 else 1)):
                U = make(fam, n, ctx.rng)
                if no_zero_entries(U):
                    ctx.count(f"qr:{fam}", key=("qr", tuple(np.round(U, 12).ravel().tolist())), nontrivial=True)
                    eval_case(ctx, U, "qr", False, 0, fam)

    # QR on reflections I - 2 v v^T with a uniform (and a random real) v: no zero entries, but a pivot of the elimination
    # vanishes exactly / an eliminated entry has modulus one (rotations that are permutations or diagonal)
    for n in range(2, (4 if deep else 3) + 1):
        N = 2 ** n
        for fam, v in (("reflection_uniform", np.ones(N) / np.sqrt(N)), ("reflection_real", None)):
            if v is None:
                v = ctx.rng.normal(size=N)
                v /= np.linalg.norm(v)
            U = (np.eye(N) - 2 * np.outer(v, v)).astype(complex)
            if no_zero_entries(U):
                for dt in ("real", "complex"):
                    ctx.count(f"qr:{fam}:{dt}", key=("qr", fam, n, dt, tuple(np.round(U[0], 12).tolist())), nontrivial=True)
                    eval_case(ctx, U, "qr", False, 0, fam, dtype=dt)

    # QR beyond the sweep above: one Haar matrix at n = 4 (quick) / n = 4, 5 (deep) - sizes where the row / column bit patterns
    # differ in up to four, five positions
    for n in ((4, 5) if deep else (4,)):
        U = make("haar", n, ctx.rng)
        if no_zero_entries(U):
            ctx.count("qr:haar", key=("qr", n, tuple(np.round(U[0], 12).tolist())), nontrivial=True)
            eval_case(ctx, U, "qr", False, 0, "haar")


def replay(ctx, case):
    U = unjson_array(case["matrix"]).astype(complex)
    return eval_case(ctx, U, case["decomposition"], case["apply_a2"], case["iso"], case.get("family", "replay"),
                     dtype=case.get("dtype", "complex"))
