"""C08 - BaaLowRankInitialize / adaptive_approximation: exact at zero loss (incl. states separable across interleaved
qubit groups), circuit state == plan state, accounted loss <= l, true loss <= l for n <= 3, never more CNOTs than exact
LowRankInitialize of the same state.

Direct evaluation: Statevector of gate.definition against (a) the input, (b) an independent numpy tensor product of
gate.node.vectors placed on gate.node.qubits (qubit label q = q-th most significant bit of the amplitude index),
(c) the budget l; CNOT counts after transpile(basis_gates=['u','cx'], optimization_level=0)."""
import warnings
from itertools import combinations
import numpy as np
from qiskit import transpile
from qiskit.quantum_info import Statevector

from harness.core import jsonable, unjson_array

warnings.filterwarnings("ignore")

ATOL = 1e-6     # amplitudes
PTOL = 1e-7     # probabilities / fidelities
STRATEGIES = ("greedy", "brute_force", "split", "canonical")


# ------------------------------------------------------------------------------------------------ implementation
def baa_gate(vec, l, strategy, mcs, use_low_rank, how="full"):
    from qclib.state_preparation.baa_lowrank import BaaLowRankInitialize
    if how == "none":       # no opt_params at all: l = 0, greedy
        return BaaLowRankInitialize(vec)
    if how == "only_l":     # every other option left to its default
        return BaaLowRankInitialize(vec, opt_params={"max_fidelity_loss": l})
    return BaaLowRankInitialize(vec, opt_params={"max_fidelity_loss": l, "strategy": strategy,
                                                 "max_combination_size": mcs, "use_low_rank": use_low_rank})


def cx_count(circ):
    t = transpile(circ, basis_gates=["u", "cx"], optimization_level=0)
    ops = t.count_ops()
    return int(ops.get("cx", 0))


_EXACT_CACHE = {}


def exact_lowrank_cx(vec):
    """(actual cx count of exact LowRankInitialize(vec), qclib's own estimate for it)"""
    key = vec.tobytes()
    if key not in _EXACT_CACHE:
        from qclib.state_preparation.lowrank import LowRankInitialize, cnot_count
        actual = cx_count(LowRankInitialize(vec).definition)
        try:
            est = int(cnot_count(vec))
        except Exception:   # pylint: disable=broad-except
            est = None
        if len(_EXACT_CACHE) > 4000:
            _EXACT_CACHE.clear()
        _EXACT_CACHE[key] = (actual, est)
    return _EXACT_CACHE[key]


def plan_estimate(node):
    """qclib's estimate of the plan's CNOT cost (only used to key the known finding)"""
    try:
        from qclib.state_preparation.lowrank import cnot_count
        tot = 0
        for v, r, p in zip(node.vectors, node.ranks, node.partitions):
            tot += int(cnot_count(np.asarray(v), low_rank=r, partition=p))
        return tot
    except Exception:   # pylint: disable=broad-except
        return None


# ------------------------------------------------------------------------------------------------ reference
def plan_state(vectors, qubits, n):
    """tensor product of the factors; factor j lives on the qubit labels qubits[j] (label q = q-th most significant bit
    of the full index; inside a factor the first listed label is the most significant bit of the factor's index)"""
    idx = np.arange(2 ** n)
    amp = np.ones(2 ** n, dtype=complex)
    for vec, qs in zip(vectors, qubits):
        vec = np.asarray(vec, dtype=complex).reshape(-1)
        m = len(qs)
        sub = np.zeros(2 ** n, dtype=np.int64)
        for j, q in enumerate(qs):
            sub |= ((idx >> (n - 1 - q)) & 1) << (m - 1 - j)
        amp = amp * vec[sub]
    return amp


def place(factors, groups, n):
    """state whose factor j occupies the qubit labels groups[j] (same convention as plan_state)"""
    return plan_state(factors, groups, n)


# ------------------------------------------------------------------------------------------------ input families
def _cnormal(rng, m):
    v = rng.normal(size=m) + 1j * rng.normal(size=m)
    return v / np.linalg.norm(v)


def _entangled(rng, m):
    """generic unit vector on m qubits (m >= 1)"""
    return _cnormal(rng, 2 ** m)


def _random_groups(rng, n, k):
    """k non-empty groups of qubit labels, randomly interleaved, each sorted"""
    while True:
        lab = rng.integers(0, k, n)
        if len(set(lab.tolist())) == k:
            break
    return [tuple(int(q) for q in range(n) if lab[q] == g) for g in range(k)]


FAMILIES = ["complex", "positive", "real", "product", "sep2_shuffled", "sep2_contig", "sep3_shuffled", "pairs_shuffled",
            "one_qubit_out", "ghz", "w", "basis", "uniform", "sparse", "near_product", "rank2_cut", "bell_pairs"]


def make_vector(rng, n, fam):
    N = 2 ** n
    if fam == "complex":
        v = _cnormal(rng, N)
    elif fam == "positive":
        v = np.abs(_cnormal(rng, N)) + 0.01 + 0j
    elif fam == "real":
        v = rng.normal(size=N) + 0j
    elif fam == "product":
        v = place([_cnormal(rng, 2) for _ in range(n)], [(q,) for q in range(n)], n)
    elif fam == "sep2_shuffled":    # exactly separable across two randomly interleaved groups
        groups = _random_groups(rng, n, 2)
        v = place([_entangled(rng, len(g)) for g in groups], groups, n)
    elif fam == "sep2_contig":
        k = int(rng.integers(1, n))
        groups = [tuple(range(k)), tuple(range(k, n))]
        v = place([_entangled(rng, len(g)) for g in groups], groups, n)
    elif fam == "sep3_shuffled":
        groups = _random_groups(rng, n, min(3, n))
        v = place([_entangled(rng, len(g)) for g in groups], groups, n)
    elif fam == "pairs_shuffled":   # entangled pairs on a random perfect matching (+ one single qubit when n is odd)
        perm = [int(x) for x in rng.permutation(n)]
        groups = [tuple(sorted(perm[i:i + 2])) for i in range(0, n, 2)]
        v = place([_entangled(rng, len(g)) for g in groups], groups, n)
    elif fam == "one_qubit_out":    # a single (random) qubit factors out
        q = int(rng.integers(n))
        groups = [(q,), tuple(x for x in range(n) if x != q)]
        v = place([_entangled(rng, len(g)) for g in groups if g], [g for g in groups if g], n)
    elif fam == "ghz":
        v = np.zeros(N, dtype=complex)
        v[0] = 1
        v[-1] = np.exp(1j * rng.uniform(0, 6)) if rng.random() < 0.5 else -1
    elif fam == "w":
        v = np.zeros(N, dtype=complex)
        for q in range(n):
            v[1 << q] = 1
    elif fam == "basis":
        v = np.zeros(N, dtype=complex)
        v[int(rng.integers(N))] = 1
    elif fam == "uniform":
        v = np.ones(N, dtype=complex)
    elif fam == "sparse":
        v = rng.normal(size=N) + 1j * rng.normal(size=N)
        v[rng.random(N) < 0.5] = 0
        if not v.any():
            v[int(rng.integers(N))] = 1
    elif fam == "near_product":     # product state plus a perturbation of relative size 0.05 .. 0.3
        p = place([_cnormal(rng, 2) for _ in range(n)], [(q,) for q in range(n)], n)
        v = p + float(rng.uniform(0.05, 0.3)) * _cnormal(rng, N)
    elif fam == "rank2_cut":        # Schmidt rank 2 across a random (interleaved) cut, generic inside
        groups = _random_groups(rng, n, 2)
        a = place([_entangled(rng, len(g)) for g in groups], groups, n)
        b = place([_entangled(rng, len(g)) for g in groups], groups, n)
        v = 0.8 * a + 0.6 * b
    elif fam == "bell_pairs":       # maximally entangled pairs on a random matching
        perm = [int(x) for x in rng.permutation(n)]
        groups = [tuple(sorted(perm[i:i + 2])) for i in range(0, n, 2)]
        bell = np.array([1, 0, 0, 1], dtype=complex) / np.sqrt(2)
        v = place([bell if len(g) == 2 else _cnormal(rng, 2) for g in groups], groups, n)
    else:
        raise ValueError(fam)
    v = np.asarray(v, dtype=complex)
    return v / np.linalg.norm(v)


SEPARABLE_FAMS = {"product", "sep2_shuffled", "sep2_contig", "sep3_shuffled", "pairs_shuffled", "one_qubit_out",
                  "basis", "uniform", "bell_pairs"}


def schmidt_losses(vec, n):
    """rank-1 fidelity losses 1 - s_max^2 over all bipartitions (subset sizes 1..n//2): natural thresholds for l"""
    t = vec.reshape([2] * n)
    out = []
    for k in range(1, n // 2 + 1):
        for part in combinations(range(n), k):
            rest = [q for q in range(n) if q not in part]
            m = np.transpose(t, rest + list(part)).reshape(2 ** (n - k), 2 ** k)
            s = np.linalg.svd(m, compute_uv=False)
            out.append(float(1.0 - s[0] ** 2))
    return out


def pick_losses(rng, vec, n):
    """budgets to try for one state: 0, a value from a grid, a value just above / below a natural threshold, 1"""
    ls = [0.0]
    grid = [0.001, 0.01, 0.03, 0.05, 0.1, 0.15, 0.2, 0.3, 0.4, 0.5, 0.7, 0.9]
    ls.append(float(grid[int(rng.integers(len(grid)))]))
    th = [x for x in schmidt_losses(vec, n) if 1e-4 < x < 0.999]
    if th:
        x = float(th[int(rng.integers(len(th)))])
        ls.append(x * (1 + 1e-3) if rng.random() < 0.5 else x * (1 - 1e-3))
    else:
        ls.append(float(rng.uniform(0, 1)))
    if rng.random() < 0.35:
        ls.append(1.0)
    return ls


def _diagnose_state(vec, l, strategy, mcs, use_low_rank, how, plan):
    """narrow attribution of a wrong circuit state (recorded in case["cause"]; known findings are keyed on it):
       qiskit_apply_a2  the circuit is exact (1e-9) when qiskit's private _apply_a2, called by qclib.unitary, is the identity;
       other            otherwise.  Used only to label a failure, never to judge a case."""
    try:
        import qclib.unitary as qu
        orig = qu._apply_a2
        try:
            qu._apply_a2 = lambda circuit: circuit
            gate = baa_gate(vec, l, strategy, mcs, use_low_rank, how)
            psi = np.asarray(Statevector(gate.definition).data)
        finally:
            qu._apply_a2 = orig
        if float(np.abs(psi - plan).max()) < 1e-9:
            return "qiskit_apply_a2"
    except Exception:   # pylint: disable=broad-except
        pass
    return "other"


# ------------------------------------------------------------------------------------------------ one case
def eval_case(ctx, n, vec, l, strategy, mcs, use_low_rank, fam, how="full", check_cx=True):
    """True iff every clause of the property holds for this input/configuration."""
    vec = np.asarray(vec, dtype=complex)
    l = float(l)
    case = {"class": "BaaLowRankInitialize", "n": n, "l": l.hex(), "l_value": l, "strategy": strategy,
            "max_combination_size": mcs, "use_low_rank": bool(use_low_rank), "how": how, "family": fam,
            "check_cx": bool(check_cx), "vector": jsonable(vec)}
    l_eff = 0.0 if how == "none" else l
    cfg = f"l={l_eff:.6g}, strategy={strategy}, max_combination_size={mcs}, use_low_rank={use_low_rank}"
    try:
        gate = baa_gate(vec, l, strategy, mcs, use_low_rank, how)
        circ = gate.definition
        node = gate.node
        psi = np.asarray(Statevector(circ).data)
        vectors = [np.asarray(v, dtype=complex) for v in node.vectors]
        qubits = [tuple(int(q) for q in qs) for qs in node.qubits]
        ranks = [int(r) for r in node.ranks]
        acc = float(node.total_fidelity_loss)
    except Exception as e:   # pylint: disable=broad-except
        ctx.violation(f"BaaLowRankInitialize({cfg}) raised {type(e).__name__}: {str(e)[:120]}", case)
        return False
    ok = True
    case["plan_qubits"] = [list(q) for q in qubits]
    case["plan_ranks"] = ranks
    if gate.num_qubits != n or circ.num_qubits != n:
        ok = False
        ctx.violation(f"BaaLowRankInitialize: width {gate.num_qubits}/{circ.num_qubits} differs from n={n}", case)
        return ok
    # the plan's qubit tuples partition {0..n-1}
    flat = sorted(q for qs in qubits for q in qs)
    if flat != list(range(n)) or any(len(v) != 2 ** len(qs) for v, qs in zip(vectors, qubits)):
        ok = False
        ctx.violation(f"BaaLowRankInitialize({cfg}): plan qubits {qubits} do not partition the register", case)
        return ok
    # (b) circuit state == plan state
    plan = plan_state(vectors, qubits, n)
    perr = float(np.abs(psi - plan).max())
    if not perr < ATOL or (l_eff == 0.0 and not float(np.abs(psi - vec).max()) < ATOL):
        case["cause"] = _diagnose_state(vec, l, strategy, mcs, use_low_rank, how, plan)
    if not perr < ATOL:
        ok = False
        ctx.violation(f"BaaLowRankInitialize({cfg}): circuit state differs from the plan state (node.vectors on node.qubits) "
                      f"by {perr:.3g}", dict(case, err=perr))
    # (c) accounted loss within the budget
    if not acc <= l_eff:                 # exact: every guard of the search compares the accounted loss with the budget exactly
        ok = False
        ctx.violation(f"BaaLowRankInitialize({cfg}): accounted loss node.total_fidelity_loss={acc:.6g} exceeds the budget",
                      dict(case, accounted=acc))
    # (a) zero loss: exact
    if l_eff == 0.0:
        zerr = float(np.abs(psi - vec).max())
        if not zerr < ATOL:
            ok = False
            ctx.violation(f"BaaLowRankInitialize({cfg}): zero allowed loss but the circuit state differs from the input "
                          f"by {zerr:.3g}", dict(case, err=zerr))
    # (d) true loss within the budget where the accounting is exact
    if n <= 3:
        true_loss = float(1.0 - abs(np.vdot(vec, psi)) ** 2)
        if not true_loss <= l_eff + PTOL:
            ok = False
            ctx.violation(f"BaaLowRankInitialize({cfg}): true fidelity loss {true_loss:.6g} exceeds the budget (n={n})",
                          dict(case, true_loss=true_loss))
    # (e) never more CNOTs than exact low-rank preparation of the same state
    if check_cx:
        cb = cx_count(circ)
        ce, est_exact = exact_lowrank_cx(vec)
        if cb > ce:
            ok = False
            est_plan = plan_estimate(node)
            faithful = (est_exact == ce) and (est_plan == cb)
            ctx.violation(f"BaaLowRankInitialize({cfg}): circuit needs more CNOTs ({cb}) than exact LowRankInitialize of the "
                          f"same state ({ce}); qclib's estimates: plan {est_plan}, exact {est_exact}",
                          dict(case, cx_baa=cb, cx_exact=ce, est_plan=est_plan, est_exact=est_exact,
                               estimate_faithful=bool(faithful)))
    return ok


# ------------------------------------------------------------------------------------------------ driver
def _mcs_choices(rng, n):
    valid = list(range(0, n // 2 + 1))          # 0 = default; 1..n//2 valid
    pick = [0, int(valid[int(rng.integers(len(valid)))])]
    if rng.random() < 0.25:
        pick.append(n)                          # out of range: ignored (maximum size is used)
    return sorted(set(pick))


def evaluate(ctx, deep):
    rng = ctx.rng
    nmax = 7 if deep else 5
    for n in range(2, nmax + 1):
        if n <= 3:
            reps = 10 if deep else 3
        elif n == 4:
            reps = 6 if deep else 2
        elif n == 5:
            reps = 4 if deep else 1
        elif n == 6:
            reps = 2
        else:
            reps = 1
        for fam in FAMILIES:
            for _ in range(reps):
                vec = make_vector(rng, n, fam)
                losses = pick_losses(rng, vec, n)
                # defaults (no options / only l): once per vector
                for how, l in (("none", 0.0), ("only_l", losses[1])):
                    ctx.count(f"defaults:{fam}", key=(how, n, l, vec.tobytes()), nontrivial=True, sample=None)
                    eval_case(ctx, n, vec, l, "greedy", 0, False, fam, how=how)
                for strategy in STRATEGIES:
                    if strategy == "brute_force" and n >= 7 and fam not in SEPARABLE_FAMS:
                        mcs_list = [1]          # keep the exponential search small at n = 7
                    else:
                        mcs_list = _mcs_choices(rng, n)
                    for mcs in mcs_list:
                        for use_low_rank in (False, True):
                            for l in losses:
                                kind = "l=0" if l == 0.0 else ("l=1" if l == 1.0 else "0<l<1")
                                ctx.monitor(f"budget:{kind}")
                                ctx.monitor(f"use_low_rank:{use_low_rank}")
                                ctx.monitor(f"max_combination_size:{'default' if mcs == 0 else ('out_of_range' if mcs > n // 2 else 'valid')}")
                                ctx.count(f"{strategy}:{fam}",
                                          key=(n, l, strategy, mcs, use_low_rank, vec.tobytes()), nontrivial=True,
                                          sample={"n": n, "l": l, "strategy": strategy, "max_combination_size": mcs,
                                                  "use_low_rank": use_low_rank,
                                                  "vector": [complex(np.round(x, 3)) for x in vec]}
                                          if (n == 3 and kind == "0<l<1" and fam in ("complex", "sep2_shuffled")) else None)
                                eval_case(ctx, n, vec, l, strategy, mcs, use_low_rank, fam)

    # mid-size registers (blocks of 9 and more qubits: qubit labels beyond 7 inside one low-rank block)
    for n, sep in (((9, False), (10, True), (10, False), (11, True)) if deep else ((9, False), (10, True))):
        if sep:
            lone = int(rng.integers(n))
            rest = [q for q in range(n) if q != lone]
            a = _cnormal(rng, 2); a = a / np.linalg.norm(a)
            b = _cnormal(rng, 2 ** (n - 1)); b = b / np.linalg.norm(b)
            vec = place([a, b], [(lone,), tuple(rest)], n)
            fam = "mid_sep1"
        else:
            vec = _cnormal(rng, 2 ** n); vec = vec / np.linalg.norm(vec)
            fam = "mid_generic"
        for strategy, l in (("greedy", 0.0), ("canonical", 0.02 if sep else 0.0)):
            ctx.monitor("budget:" + ("l=0" if l == 0.0 else "0<l<1"))
            ctx.count(f"{strategy}:{fam}", key=(n, l, strategy, vec.tobytes()[:256]), nontrivial=True, sample=None)
            eval_case(ctx, n, vec, l, strategy, 0, False, fam, check_cx=(n <= 9))


def replay(ctx, case):
    vec = unjson_array(case["vector"]).astype(complex)
    l = float.fromhex(case["l"]) if isinstance(case.get("l"), str) else float(case.get("l_value", 0.0))
    return eval_case(ctx, int(case["n"]), vec, l, case["strategy"], int(case["max_combination_size"]),
                     bool(case["use_low_rank"]), case.get("family", "replay"), how=case.get("how", "full"),
                     check_cx=bool(case.get("check_cx", True)))
