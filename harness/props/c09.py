"""C09 - Schmidt decomposition / composition, reshape to the bipartition matrix and back."""
import itertools
import numpy as np
from harness.coqcases import run_bool_cases

PROPS_FILES = ["P_C09", "P_C09mx"]
PROPS_FILE = "P_C09"
COQ_TARGETS = ["CaseLib", "SepModel"]
RULE = ("correspondence: entanglement._separation_matrix(n, arange(2^n), partition) gives, for every index k, its (row, column); "
        "compared inside Coq with SepModel.sep_index for every non-empty proper subset (and shuffled orders of it), n = 2..5/7; "
        "direct evaluation (harness/props/c09_eval.py): round trips, Gram matrices, ordering, rank counts. "
        "distinct = distinct (n, partition list); non-trivial = n >= 3")
ASSUMPTIONS = ["numpy reshape/moveaxis semantics (tied by the index-map correspondence)", "np.linalg.svd contract (monitored numerically in the direct evaluation)"]
TRUSTED = ["SepModel.sep_index evaluated by vm_compute"]
HEADER = ("From Coq Require Import List Bool Arith NArith.\nFrom QV Require Import Sep SepModel CaseLib.\nImport ListNotations.\n"
          "Definition pair_eqb (a b : N * N) := N.eqb (fst a) (fst b) && N.eqb (snd a) (snd b).\n"
          "Definition idx (n : nat) := map N.of_nat (seq 0 (2 ^ n)).\n")


def correspondence(ctx):
    from qclib.entanglement import _separation_matrix, _undo_separation_matrix
    nmax = 5 if ctx.quick else 7
    cases, lines = [], []
    for n in range(2, nmax + 1):
        subsets = [list(c) for r in range(1, n) for c in itertools.combinations(range(n), r)]
        for sub in subsets:
            orders = [sub]
            if len(sub) > 1:
                p = list(ctx.rng.permutation(sub))
                orders.append([int(x) for x in p])
                orders.append(sub[::-1])
            for part in orders:
                M = _separation_matrix(n, np.arange(2 ** n), part)
                pos = {}
                for r in range(M.shape[0]):
                    for c in range(M.shape[1]):
                        pos[int(M[r, c])] = (r, c)
                exp = "[" + "; ".join(f"({pos[k][0]}%N, {pos[k][1]}%N)" for k in range(2 ** n)) + "]"
                back = _undo_separation_matrix(n, M, part)
                if not np.array_equal(back, np.arange(2 ** n)):
                    ctx.violation("reshape to the bipartition matrix and back is not the identity",
                                  {"function": "_undo_separation_matrix", "n": n, "partition": part})
                cases.append((n, part))
                ctx.count("corr:sep_index", key=(n, tuple(part)), nontrivial=n >= 3,
                          sample={"n": n, "partition": part, "matrix_shape": list(M.shape)} if n == 4 and len(part) == 2 else None)
                lines.append(f"(list_eqb pair_eqb (map (sep_index {n} [{'; '.join(str(x) for x in part)}]) (idx {n})) {exp})")

    def on_fail(c):
        ctx.mismatch("C09 correspondence: index map of _separation_matrix differs from SepModel.sep_index",
                     {"n": c[0], "partition": c[1]})
    run_bool_cases(ctx, "c09_sep", HEADER, lines, cases, on_fail, shard=60)


def run(ctx):
    correspondence(ctx)
    if ctx.skip_eval:
        return
    try:
        from harness.props import c09_eval
    except ModuleNotFoundError:
        ctx.note("direct evaluation module not present")
        return
    c09_eval.evaluate(ctx, not ctx.quick)


def search(ctx):
    from harness.props import c09_eval
    c09_eval.evaluate(ctx, True)


def replay(ctx, case):
    if case.get("function") == "_undo_separation_matrix":
        from qclib.entanglement import _separation_matrix, _undo_separation_matrix
        n, part = case["n"], case["partition"]
        return bool(np.array_equal(_undo_separation_matrix(n, _separation_matrix(n, np.arange(2 ** n), part), part), np.arange(2 ** n)))
    from harness.props import c09_eval
    return c09_eval.replay(ctx, case)


MANIFEST = dict(
    text='Proof (FULL for the reshape): reshaping to the bipartition matrix and back is the identity on digit lists and on amplitude indices, for every n, every list of axes in any order (C09_undo_sep, C09_sep_undo, C09_index_roundtrip); the index map lands inside the declared rows x columns shape and never sends two amplitude indices to the same cell (C09_index_range, C09_index_injective), and composing (row, column) digits into an index and separating again gives them back (C09_index_sep_undo): the index map is a bijection onto the grid. Composition: sum_i s_i u_i (x) v_i equals U diag(s) Vh on the bipartition matrix, so decomposition then composition returns the matrix under the SVD contract M = U diag(s) Vh (C09_schmidt_compose, C09_schmidt_roundtrip; any commutative ring, any rank). Tie: the index map of entanglement._separation_matrix is compared inside Coq with SepModel.sep_index for every subset and shuffled orders (n<=5/7). Orthonormality, ordering and rank count are the SVD contract (evaluated).',
    note='Modelled, not verified: numpy reshape/moveaxis (tied by the index-map correspondence); np.linalg.svd contract.',
    technique='Coq proof (structural induction on masks/digits; mathcomp matrix algebra for the composition) + index-map correspondence (vm_compute) + numpy evaluation',
    design_ref='DESIGN.md section 4, C09')
