"""C05 - multi-controlled X gates (McxVchainDirty, LinearMcx) and the majority gate."""
import re
import numpy as np

from harness.flatten import flatten, coq_list, coq_bool
from harness import coqtool, translate

PROPS_FILE = "P_C05"
GEN_FILES = ["Gen_majority"]
COQ_TARGETS = ["CaseLibMcx", "CaseLib"]
RULE = ("correspondence: flattened definitions of McxVchainDirty(k, nt, ctrl_state, relative_phase, action_only) and "
        "LinearMcx(k, ctrl_state, action_only) compared gate by gate inside Coq with McxModel.vchain / linear_mcx "
        "(no simulation: instances far beyond simulable sizes); majority: degree list of the translated source vs CPython "
        "on the same prefix of operate(), and the emitted mcx list vs MajorityGen.majority_mcxs; direct evaluation: "
        "random-state evolution of the implementation circuits vs the reference permutation (harness/props/c05_eval.py). "
        "distinct = distinct parameter tuples; non-trivial = at least 3 controls")
ASSUMPTIONS = ["Qiskit's x, cx, ccx, c3x, c4x, mcx and u(theta,0,0)=RY(theta) are ideal gates (validated numerically per run)",
               "multi-target chains and the small branches are proved on the model's gate lists (C05_vchain_multi_target, C05_vchain_multi_placed, C05_linear_mcx_all) and tied by correspondence; the single Qiskit gates they use are taken as ideal"]
TRUSTED = ["harness/flatten.py; canonicalisation cx/ccx/c3x/c4x/mcx -> SMCX controls target",
           "harness/translate.py (Gen_majority regenerated from qclib/gates/majority.py on every run)"]


def pat_of(ctrl_state, k):
    """pattern list indexed by control: pat[i] = (ctrl_state[::-1][i] == '1')"""
    if ctrl_state is None:
        return []
    return [c == "1" for c in ctrl_state[::-1]]


def sgates_to_coq(fl):
    items = []
    for name, qs, op in fl:
        if name == "x":
            items.append(f"SX {qs[0]}")
        elif name == "u":
            th, ph, la = [float(p) for p in op.params]
            if ph == 0.0 and la == 0.0 and abs(abs(th) - np.pi / 4) < 1e-15:
                items.append(f"SU {coq_bool(th < 0)} {qs[0]}")
            else:
                items.append("SX 99999")
        elif name == "cx":
            items.append(f"SCX {qs[0]} {qs[1]}")
        elif name in ("ccx", "c3x", "c4x", "mcx"):
            if getattr(op, "ctrl_state", (1 << (len(qs) - 1)) - 1) != (1 << (len(qs) - 1)) - 1:
                items.append("SX 99998")
            else:
                items.append(f"SMCX {coq_list([str(q) for q in qs[:-1]])} {qs[-1]}")
        else:
            items.append("SX 99997")
    return coq_list(items)


def rand_pattern(rng, k):
    return "".join("1" if rng.random() < 0.5 else "0" for _ in range(k))


def vchain_cases(ctx):
    kmax = 16 if ctx.quick else 48
    cases = []
    for k in range(1, kmax + 1):
        if k <= 3:
            pats = [None] + [format(i, f"0{k}b") for i in range(2 ** k)]
        else:
            pats = [None, "0" * k, ("01" * k)[:k], rand_pattern(ctx.rng, k)]
            if not ctx.quick:
                pats.append(rand_pattern(ctx.rng, k))
        for nt in (1, 2, 3):
            for rel in (False, True):
                for ao in (False, True):
                    for p in (pats if (nt == 1 or k <= 6) else pats[:2]):
                        cases.append((k, nt, p, rel, ao))
    return cases


def linear_cases(ctx):
    kmax = 24 if ctx.quick else 64
    cases = []
    for k in range(1, kmax + 1):
        pats = [None, "0" * k, rand_pattern(ctx.rng, k)]
        if k <= 3:
            pats = [None] + [format(i, f"0{k}b") for i in range(2 ** k)]
        for ao in (False, True):
            for p in pats:
                cases.append((k, p, ao))
    return cases


def run_case_files(ctx, prefix, header, lines, cases, describe, shard=40):
    from harness.coqcases import run_bool_cases
    return run_bool_cases(ctx, prefix, header, lines, cases, describe, shard)


HEADER = ("From Coq Require Import List Bool Arith ZArith.\nFrom QV Require Import McxModel CaseLib CaseLibMcx GenLib "
          "Majority Gen_majority MajorityGen.\nImport ListNotations.\nOpen Scope nat_scope.\n")


def correspondence(ctx):
    from qclib.gates.mcx import McxVchainDirty, LinearMcx
    # --- V-chain
    cases = vchain_cases(ctx)
    lines = []
    for (k, nt, p, rel, ao) in cases:
        g = McxVchainDirty(k, nt, p, rel, ao)
        fl, _ = flatten(g.definition)
        ctx.max_struct_qubits = max(ctx.max_struct_qubits, g.definition.num_qubits)
        ctx.count("corr:vchain", key=("vchain", k, nt, p, rel, ao), nontrivial=k >= 3,
                  sample={"k": k, "num_targets": nt, "ctrl_state": p, "relative_phase": rel, "action_only": ao,
                          "gates": len(fl)} if k == 5 and nt == 2 else None)
        lines.append(f"(list_eqb sgate_eqb (vchain {k} {nt} {coq_list([coq_bool(b) for b in pat_of(p, k)])} "
                     f"{coq_bool(rel)} {coq_bool(ao)}) {sgates_to_coq(fl)})")

    def describe_v(c):
        k, nt, p, rel, ao = c
        ctx.mismatch("C05 correspondence: McxVchainDirty definition differs from the Coq model McxModel.vchain",
                     {"class": "McxVchainDirty", "k": k, "num_targets": nt, "ctrl_state": p, "relative_phase": rel,
                      "action_only": ao})
    run_case_files(ctx, "c05_vchain", HEADER, lines, cases, describe_v)
    # --- LinearMcx
    cases = linear_cases(ctx)
    lines = []
    for (k, p, ao) in cases:
        g = LinearMcx(k, p, ao)
        fl, _ = flatten(g.definition)
        ctx.max_struct_qubits = max(ctx.max_struct_qubits, g.definition.num_qubits)
        ctx.count("corr:linear", key=("linear", k, p, ao), nontrivial=k >= 3,
                  sample={"k": k, "ctrl_state": p, "action_only": ao, "gates": len(fl)} if k == 8 else None)
        lines.append(f"(list_eqb sgate_eqb (linear_mcx {k} {coq_list([coq_bool(b) for b in pat_of(p, k)])} "
                     f"{coq_bool(ao)}) {sgates_to_coq(fl)})")

    def describe_l(c):
        k, p, ao = c
        ctx.mismatch("C05 correspondence: LinearMcx definition differs from the Coq model McxModel.linear_mcx",
                     {"class": "LinearMcx", "k": k, "ctrl_state": p, "action_only": ao})
    run_case_files(ctx, "c05_linear", HEADER, lines, cases, describe_l, shard=20)
    # --- majority: translated degree list vs CPython, emitted mcx list vs model
    from qiskit import QuantumCircuit
    from qclib.gates import majority
    nmax = 64 if ctx.quick else 128
    cases = list(range(1, nmax + 1))
    lines = []
    for n in cases:
        try:
            deg = translate.python_prefix_eval("qclib/gates/majority.py", "operate", "for k in n_controls", "n_controls",
                                               {"controls": list(range(n)), "target": n, "circuit": None})
            deg = [int(d) for d in deg]
        except Exception as ex:
            ctx.mismatch("C05 majority: prefix of operate() could not be executed", {"n": n, "error": repr(ex)})
            deg = [-1]
        ctx.count("tv:majority_degrees", key=("deg", n), nontrivial=n >= 3, sample={"n": n, "degrees": deg} if n == 19 else None)
        lines.append(f"(list_eqb Z.eqb (majority_degrees {n}%Z) {coq_list([f'({d})%Z' for d in deg])})")
    run_case_files(ctx, "c05_majdeg", HEADER, lines, cases,
                   lambda n: ctx.mismatch("C05 majority: translated degree list differs from CPython's", {"n": n}), shard=16)
    nmax = 8 if ctx.quick else 11
    cases = list(range(1, nmax + 1))
    lines = []
    for n in cases:
        qc = QuantumCircuit(n + 1)
        majority.operate(qc, list(range(n)), n)
        fl, _ = flatten(qc)
        ok = all(name in ("cx", "ccx", "c3x", "c4x", "mcx", "x") and qs[-1] == n for name, qs, op in fl)
        ctx.count("corr:majority_mcxs", key=("majmcx", n), nontrivial=n >= 3, sample={"n": n, "mcx_gates": len(fl)} if n == 5 else None)
        lst = coq_list([coq_list([str(q) for q in qs[:-1]]) for name, qs, op in fl]) if ok else "[[99999]]"
        lines.append(f"(list_eqb (list_eqb Nat.eqb) (majority_mcxs (seq 0 {n})) {lst})")
    run_case_files(ctx, "c05_majmcx", HEADER, lines, cases,
                   lambda n: ctx.mismatch("C05 majority: emitted mcx list differs from MajorityGen.majority_mcxs", {"n": n}), shard=3)


def primitives(ctx):
    from qiskit.circuit.library import UGate, RYGate, C3XGate, C4XGate, CCXGate
    from qiskit.quantum_info import Operator
    ok = np.allclose(Operator(UGate(-np.pi / 4, 0, 0)).data, Operator(RYGate(-np.pi / 4)).data)
    for G, n in ((CCXGate, 3), (C3XGate, 4), (C4XGate, 5)):
        M = Operator(G()).data
        ref = np.eye(2 ** n)
        a, b = 2 ** (n - 1) - 1, 2 ** n - 1
        ref[[a, b]] = ref[[b, a]]
        ok = ok and np.allclose(M, ref)
    ctx.monitor("qiskit_primitive_matrices", 4)
    if not ok:
        ctx.mismatch("Qiskit primitive matrices differ from the ideal gates of the Coq IR", {})


def run(ctx):
    primitives(ctx)
    correspondence(ctx)
    if ctx.skip_eval:
        return
    try:
        from harness.props import c05_eval
    except ModuleNotFoundError:
        ctx.note("direct evaluation module not present")
        return
    c05_eval.evaluate(ctx, not ctx.quick)


def search(ctx):
    from harness.props import c05_eval
    c05_eval.evaluate(ctx, True)


def replay(ctx, case):
    from harness.props import c05_eval
    return c05_eval.replay(ctx, case)

MANIFEST = dict(
    text=("Proof: (i) McxVchainDirty, general branch, exact mode, one target, k>=4 controls, EVERY control pattern: the Gallina model denotes, for "
          "every state of controls, ancillas and target, 'flip target iff the controls match' - ancillas restored whatever they hold "
          "(C05_vchain_exact, C05_vchain_pattern, and C05_vchain_placed for any pairwise-distinct placement); with any number of targets all of them flip iff the controls are all 1 (C05_vchain_multi_target); relative-phase mode = that permutation "
          "times a +-1 diagonal (C05_vchain_relphase); (ii) LinearMcx with k>=6 controls and every control pattern: the model's four alternating "
          "V-chains on their exact qubit lists are the exact MCX, borrowed ancilla restored for every input state (C05_linear_mcx, via Lemma 9 "
          "C05_lemma9), extended to every k >= 1 including the small-k dispatch on single mcx gates (C05_linear_mcx_all); the action_only variant equals the exact gate up to an invertible circuit on the control qubits only (C05_linear_mcx_action_only); every statement transfers to any placement on distinct qubits by the general placement theorem (C05_placed_any; C05_vchain_multi_placed is the multi-target instance); (iii) majority: the degree list is translated from qclib/gates/majority.py on every run and proved, for all n and all inputs, "
          "to flip the target iff at least half of the controls are 1 (C05_majority, C05_majority_degrees). Tie: gate-by-gate comparison, inside Coq, of the "
          "models with the flattened definitions for k up to 16/48 (vchain: all flags, 1-3 targets, patterns) and 24/64 (LinearMcx) - instances of >100 qubits "
          "that no simulator reaches; translated degree list executed against CPython for n<=64/128. Direct evaluation by random-state evolution supplies replays. "
          "the action_only V-chain on its own is the exact one up to an invertible circuit off the target (C05_vchain_action_only). PARTIAL: the <=3-control branches that are single Qiskit gates are taken as ideal."),
    note="Modelled, not verified: Qiskit's x/cx/ccx/c3x/c4x/mcx/u gates and circuit composition (append of sub-circuits on qubit lists, mirrored by `relabel`).",
    technique="Coq proof (monomial-operator sandwich induction; placement extension; Lemma-9 composition; X-conjugation; Pascal/triangular induction) + translator-regenerated model + gate-list correspondence in Coq (vm_compute) + numpy state evolution",
    design_ref="DESIGN.md section 4, C05")
