"""C15 - gates compose: arbitrary placement, inverse, declared width, inputs untouched, deterministic build.

For every initializer class of qclib.state_preparation (plus BlackBoxInitialize), every gate class of qclib.gates and
the functions qclib.unitary.unitary / qclib.isometry.decompose, with their documented options, one *object case*
(class, options, input data) is evaluated as follows:

  width        gate.num_qubits == gate.definition.num_qubits
  inverse      (reset-free objects) gate.inverse() after gate, and gate after gate.inverse(), are the identity
               (full operator up to 7 qubits, random states above)
  untouched    the caller's vector / dict / matrix / opt_params are byte-identical after constructor, .definition,
               .inverse() and the static entry point
  twice        building twice from equal inputs gives the same operator
  placement    the object is put on an ordered qubit subset of a larger host circuit through its documented entry
               point (static `initialize(circuit, state, qubits[, opt_params])` for initializers; `append` for gate
               objects; `append(to_gate)` / `compose` for the circuit-returning functions).  The host's final state is
               compared (1e-6) with a numpy reference that applies the *standalone* operator of the object (Operator of
               its own definition) to exactly those qubits in that order and nothing to the others; spectators and -
               for reset-free objects - also the target qubits start in random (product / entangled / |+>) states.
               Objects with resets (TopDownInitialize lib='qiskit', MixedInitialize reset=True) start with their own
               qubits in |0> and are compared with (standalone prepared state) (x) (spectator state), density matrices
               for MixedInitialize.

The reference never uses qclib; it uses Qiskit only to simulate circuits (Statevector.evolve / Operator).
The embedding helpers are validated against Qiskit's own UnitaryGate at the start of every run.
"""
import warnings
import numpy as np

warnings.filterwarnings("ignore")

TOL = 1e-6
OP_MAX = 7          # full operators up to this many qubits


# ============================================================================= encoding
def enc_arr(a):
    a = np.asarray(a)
    if np.iscomplexobj(a):
        return {"dtype": "complex", "shape": list(a.shape),
                "data": [[float(x.real).hex(), float(x.imag).hex()] for x in a.reshape(-1)]}
    return {"dtype": "float", "shape": list(a.shape), "data": [float(x).hex() for x in a.reshape(-1)]}


def dec_arr(d):
    if d["dtype"] == "complex":
        a = np.array([complex(float.fromhex(r), float.fromhex(i)) for r, i in d["data"]], dtype=complex)
    else:
        a = np.array([float.fromhex(r) for r in d["data"]], dtype=float)
    return a.reshape(d["shape"])


def enc_data(kind, data):
    if kind in ("dense", "u2", "su2", "matrix"):
        return enc_arr(data)
    if kind == "sparse":
        return [[k, float(np.real(v)).hex(), float(np.imag(v)).hex()] for k, v in data.items()]
    if kind == "fn":
        return [[k, int(v)] for k, v in data.items()]
    if kind == "ensemble":
        return [enc_arr(v) for v in data]
    if kind == "su2list":
        return [enc_arr(v) for v in data]
    if kind == "none":
        return None
    raise ValueError(kind)


def dec_data(kind, enc):
    if kind in ("dense", "u2", "su2", "matrix"):
        return dec_arr(enc)
    if kind == "sparse":
        return {k: complex(float.fromhex(r), float.fromhex(i)) for k, r, i in enc}
    if kind == "fn":
        return {k: int(v) for k, v in enc}
    if kind in ("ensemble", "su2list"):
        return [dec_arr(v) for v in enc]
    if kind == "none":
        return None
    raise ValueError(kind)


# ============================================================================= snapshots (inputs untouched)
def snapshot(x):
    if isinstance(x, np.ndarray):
        return ("nd", x.dtype.str, x.shape, x.tobytes())
    if isinstance(x, dict):
        return ("dict", tuple((k, snapshot(v)) for k, v in x.items()))
    if isinstance(x, (list, tuple)):
        return (type(x).__name__, tuple(snapshot(v) for v in x))
    if isinstance(x, (complex, float, int, np.number)):
        return (type(x).__name__, repr(x))
    return ("obj", repr(x))


def fresh(x):
    """deep copy keeping container kinds"""
    if isinstance(x, np.ndarray):
        return x.copy()
    if isinstance(x, dict):
        return {k: fresh(v) for k, v in x.items()}
    if isinstance(x, list):
        return [fresh(v) for v in x]
    if isinstance(x, tuple):
        return tuple(fresh(v) for v in x)
    return x


# ============================================================================= numpy reference: embedding
def apply_on(state, u, qubits, h):
    """apply the 2^w x 2^w matrix u to `qubits` (qubits[j] = bit j of u's index) of a 2^h state vector"""
    w = len(qubits)
    t = np.asarray(state, dtype=complex).reshape([2] * h)
    axes = [h - 1 - q for q in reversed(qubits)]            # most significant bit of u's index first
    t2 = np.moveaxis(t, axes, list(range(w)))
    shp = t2.shape
    m = u @ t2.reshape(2 ** w, -1)
    return np.moveaxis(m.reshape(shp), list(range(w)), axes).reshape(-1)


def place_vec(psi, phi, qubits, h):
    """|psi> on `qubits` (qubits[j] = bit j of psi's index) times |phi> on the remaining qubits (ascending)"""
    w = len(qubits)
    rest = [q for q in range(h) if q not in qubits]
    order = list(qubits) + rest                              # host qubit of virtual qubit j
    v = np.kron(np.asarray(phi, dtype=complex), np.asarray(psi, dtype=complex)) if len(rest) else np.asarray(psi, dtype=complex)
    t = v.reshape([2] * h)
    src = [h - 1 - j for j in range(h)]
    dst = [h - 1 - order[j] for j in range(h)]
    return np.moveaxis(t, src, dst).reshape(-1)


def place_dm(rho, sigma, qubits, h):
    """rho on `qubits`, sigma on the rest: density-matrix version of place_vec"""
    w = len(qubits)
    rest = [q for q in range(h) if q not in qubits]
    order = list(qubits) + rest
    m = np.kron(sigma, rho) if len(rest) else np.asarray(rho, dtype=complex)
    t = m.reshape([2] * (2 * h))
    src = [h - 1 - j for j in range(h)] + [2 * h - 1 - j for j in range(h)]
    dst = [h - 1 - order[j] for j in range(h)] + [2 * h - 1 - order[j] for j in range(h)]
    return np.moveaxis(t, src, dst).reshape(2 ** h, 2 ** h)


def selfcheck(ctx):
    """the embedding helpers agree with Qiskit's append on a plain UnitaryGate (no qclib involved)"""
    from qiskit import QuantumCircuit
    from qiskit.circuit.library import UnitaryGate
    from qiskit.quantum_info import Statevector, DensityMatrix
    rng = np.random.default_rng(99)
    ok = True
    for (h, qubits) in ((3, [2, 0]), (4, [1, 3, 0]), (4, [3]), (3, [0, 1, 2]), (5, [4, 2, 3, 0])):
        w = len(qubits)
        u = haar(rng, 2 ** w)
        init = rand_state(rng, h)
        qc = QuantumCircuit(h)
        qc.append(UnitaryGate(u), qubits)
        got = Statevector(init).evolve(qc).data
        ok &= bool(np.abs(got - apply_on(init, u, qubits, h)).max() < 1e-12)
        psi = rand_state(rng, w)
        phi = rand_state(rng, h - w) if h > w else np.array([1.0 + 0j])
        init2 = place_vec(np.eye(2 ** w)[0], phi, qubits, h)
        got2 = Statevector(init2).evolve(qc).data
        ok &= bool(np.abs(got2 - place_vec(u[:, 0], phi, qubits, h)).max() < 1e-12)
        rho = np.outer(psi, psi.conj())
        sig = np.outer(phi, phi.conj())
        ok &= bool(np.abs(place_dm(rho, sig, qubits, h) - np.outer(place_vec(psi, phi, qubits, h), place_vec(psi, phi, qubits, h).conj())).max() < 1e-12)
    ctx.monitor("embedding_selfcheck", 5)
    if not ok:
        ctx.mismatch("C15 harness self-check: numpy embedding helpers disagree with Qiskit's append of a UnitaryGate", {})
    return ok


# ============================================================================= generators: data
def unit(v):
    return v / np.linalg.norm(v)


def haar(rng, n):
    m = rng.normal(size=(n, n)) + 1j * rng.normal(size=(n, n))
    q, r = np.linalg.qr(m)
    d = np.diag(r)
    return q * (d / np.abs(d))


def rand_state(rng, n):
    return unit(rng.normal(size=2 ** n) + 1j * rng.normal(size=2 ** n))


def dense_vector(rng, n, fam):
    N = 2 ** n
    if fam == "complex":
        return rand_state(rng, n)
    if fam == "real":
        return unit(rng.normal(size=N))
    if fam == "negative":
        return -unit(np.abs(rng.normal(size=N)) + 0.05)
    if fam == "basis":
        v = np.zeros(N, dtype=complex)
        v[int(rng.integers(N))] = np.exp(1j * rng.uniform(0, 2 * np.pi))
        return v
    if fam == "sparse":
        v = rng.normal(size=N) + 1j * rng.normal(size=N)
        v[rng.random(N) < 0.5] = 0
        if not v.any():
            v[int(rng.integers(N))] = 1
        return unit(v)
    if fam == "product":
        v = np.array([1.0 + 0j])
        for _ in range(n):
            v = np.kron(v, unit(rng.normal(size=2) + 1j * rng.normal(size=2)))
        return v
    if fam == "uniform":
        return np.full(N, 1 / np.sqrt(N)).astype(complex)
    if fam == "ghz":
        v = np.zeros(N, dtype=complex)
        v[0] = 1
        v[N - 1] = 1j
        return unit(v)
    raise ValueError(fam)


DENSE_FAMS = ["complex", "real", "negative", "basis", "sparse", "product", "uniform", "ghz"]


def sparse_dict(rng, n, fam):
    N = 2 ** n
    if fam == "random":
        m = int(rng.integers(2, max(3, min(N, 5) + 1))) if N >= 2 else 1
    elif fam == "two":
        m = min(2, N)
    elif fam == "full":
        m = N
    elif fam == "half":
        m = max(1, N // 2)
    else:
        raise ValueError(fam)
    m = min(m, N)
    idx = sorted(int(i) for i in rng.choice(N, size=m, replace=False))
    a = unit(rng.normal(size=m) + 1j * rng.normal(size=m))
    if fam == "two":
        a = a.real.astype(complex) if np.abs(a.real).min() > 1e-3 else a
        a = unit(a)
    return {format(i, f"0{n}b"): complex(x) for i, x in zip(idx, a)}


SPARSE_FAMS = ["random", "two", "full", "half"]


def fn_dict(rng, n, nout):
    N = 2 ** n
    m = int(rng.integers(1, min(N, 4) + 1))
    idx = sorted(int(i) for i in rng.choice(N, size=m, replace=False))
    return {format(i, f"0{n}b"): int(rng.integers(0, nout)) for i in idx}


X = np.array([[0, 1], [1, 0]], dtype=complex)
Z = np.diag([1, -1]).astype(complex)
HAD = np.array([[1, 1], [1, -1]], dtype=complex) / np.sqrt(2)


def rx(t):
    return np.array([[np.cos(t / 2), -1j * np.sin(t / 2)], [-1j * np.sin(t / 2), np.cos(t / 2)]], dtype=complex)


def ry(t):
    return np.array([[np.cos(t / 2), -np.sin(t / 2)], [np.sin(t / 2), np.cos(t / 2)]], dtype=complex)


def rz(t):
    return np.diag([np.exp(-1j * t / 2), np.exp(1j * t / 2)]).astype(complex)


def u2_matrix(rng, fam):
    if fam == "haar":
        return haar(rng, 2)
    if fam == "x":
        return X.copy()
    if fam == "z":
        return Z.copy()
    if fam == "h":
        return HAD.copy()
    if fam == "phase":
        return np.diag([1, np.exp(1j * rng.uniform(0.2, 3))]).astype(complex)
    if fam == "su2":
        return su2_matrix(rng, "haar")
    raise ValueError(fam)


U2_FAMS = ["haar", "x", "z", "h", "phase", "su2"]


def su2_matrix(rng, fam):
    if fam == "haar":
        u = haar(rng, 2)
        return u / np.sqrt(np.linalg.det(u))
    t = float(rng.uniform(0.3, 2.8))
    if fam == "rx":           # main diagonal real, secondary imaginary
        return rx(t)
    if fam == "ry":           # real
        return ry(t)
    if fam == "rz":           # diagonal
        return rz(t)
    if fam == "minus_i":
        return -np.eye(2, dtype=complex)
    if fam == "iy":           # secondary diagonal real, zero main diagonal
        return np.array([[0, 1], [-1, 0]], dtype=complex)
    raise ValueError(fam)


SU2_FAMS = ["haar", "rx", "ry", "rz", "minus_i", "iy"]


def big_unitary(rng, N, fam):
    if fam == "haar":
        return haar(rng, N)
    if fam == "identity":
        return np.eye(N, dtype=complex)
    if fam == "diagonal":
        return np.diag(np.exp(1j * rng.uniform(0, 2 * np.pi, N)))
    if fam == "permutation":
        return np.eye(N, dtype=complex)[rng.permutation(N)]
    if fam == "tensor":
        if N < 4:
            return haar(rng, N)
        return np.kron(haar(rng, N // 2), haar(rng, 2))
    raise ValueError(fam)


BIGU_FAMS = ["haar", "identity", "diagonal", "permutation", "tensor"]


# ============================================================================= object construction
def _cls(name):
    if name == "BlackBoxInitialize":
        from qclib.state_preparation.blackbox import BlackBoxInitialize
        return BlackBoxInitialize
    import qclib.state_preparation as sp
    if hasattr(sp, name):
        return getattr(sp, name)
    import importlib
    for mod in ("mcx", "toffoli", "ldmcsu", "ldmcu", "mcg", "mcu", "qdmcu", "multitargetmcsu2"):
        m = importlib.import_module(f"qclib.gates.{mod}")
        if hasattr(m, name):
            return getattr(m, name)
    raise ValueError(name)


def build(spec, data):
    """the standalone object: a Gate, or a QuantumCircuit for the two functions"""
    k = spec["kind"]
    name = spec["class"]
    opt = spec.get("opt")
    if k in ("dense", "sparse", "fn"):
        cls = _cls(name)
        if spec.get("no_opt"):
            return cls(data)
        return cls(data, opt_params=opt)
    if k == "mixed":
        cls = _cls(name)
        return cls(data, opt_params=opt, probabilities=spec.get("probabilities"), reset=spec["reset"],
                   classical=spec["classical"])
    if k == "u2gate":
        cls = _cls(name)
        if name == "MCU":
            return cls(data, spec["num_controls"], spec["error"], ctrl_state=spec["ctrl_state"])
        if name == "Mcg":
            return cls(data, spec["num_controls"], ctrl_state=spec["ctrl_state"], up_to_diagonal=spec.get("up_to_diagonal", False))
        return cls(data, spec["num_controls"], ctrl_state=spec["ctrl_state"])
    if k == "su2gate":
        return _cls(name)(data, spec["num_controls"], ctrl_state=spec["ctrl_state"])
    if k == "mtsu2":
        arg = list(data) if spec["mt_form"] != "matrix" else data[0]
        return _cls(name)(arg, spec["num_controls"], num_target=spec["num_target"], ctrl_state=spec["ctrl_state"])
    if k == "mcx":
        if name == "McxVchainDirty":
            return _cls(name)(spec["num_controls"], num_target_qubit=spec["num_target"], ctrl_state=spec["ctrl_state"],
                              relative_phase=spec["relative_phase"], action_only=spec["action_only"])
        return _cls(name)(spec["num_controls"], ctrl_state=spec["ctrl_state"], action_only=spec["action_only"])
    if k == "toffoli":
        return _cls(name)(cancel=spec["cancel"])
    if k == "unitary_fn":
        from qclib.unitary import unitary
        return unitary(data, spec["decomposition"])
    if k == "isometry_fn":
        from qclib.isometry import decompose
        return decompose(data, scheme=spec["scheme"])
    raise ValueError(k)


def definition_of(obj):
    from qiskit import QuantumCircuit
    if isinstance(obj, QuantumCircuit):
        return obj
    d = obj.definition
    if not isinstance(d, QuantumCircuit):
        # MultiTargetMCSU2 with a bare matrix stores a Gate as its definition: look at that gate as a circuit
        qc = QuantumCircuit(d.num_qubits)
        qc.append(d, list(range(d.num_qubits)))
        return qc
    return d


def place(spec, data, host, qubits, how):
    """put the object on `qubits` of `host` through the documented entry point"""
    k = spec["kind"]
    name = spec["class"]
    opt = spec.get("opt")
    if k in ("dense", "sparse", "fn") and how == "static":
        cls = _cls(name)
        if spec.get("no_opt"):
            cls.initialize(host, data, qubits)
        else:
            cls.initialize(host, data, qubits, opt_params=opt)
        return
    if k == "mixed" and how == "static":
        _cls(name).initialize(host, data, qubits, opt_params=opt, probabilities=spec.get("probabilities"))
        return
    obj = build(spec, data)
    if k in ("unitary_fn", "isometry_fn"):
        if how == "compose":
            host.compose(obj, qubits=qubits, inplace=True)
        else:
            host.append(obj.to_instruction(), qubits)
        return
    host.append(obj, qubits)


def has_reset(circ, depth=0):
    for inst in circ.data:
        op = inst.operation
        if op.name in ("reset", "measure", "initialize"):
            return True
        d = getattr(op, "definition", None)
        if d is not None and depth < 12 and has_reset(d, depth + 1):
            return True
    return False


# ============================================================================= the evaluation of one case
def keyfields(spec):
    """flat fields for known-finding predicates"""
    out = {"class": spec["class"], "kind": spec["kind"]}
    opt = spec.get("opt") or {}
    for a, b in opt.items():
        if isinstance(b, (bool, int, str, float)):
            out[a] = b
    for f in ("num_target", "mt_form", "reset", "classical", "n", "num_controls"):
        if f in spec:
            out[f] = spec[f]
    return out


def sim_state(init, circ):
    from qiskit.quantum_info import Statevector
    return Statevector(np.asarray(init, dtype=complex)).evolve(circ).data


def eval_object(ctx, spec, data, placements):
    """All C15 clauses on one object case. placements: list of dicts {h, qubits, how, init | phi}.
    Returns True iff everything holds."""
    from qiskit import QuantumCircuit
    from qiskit.circuit.exceptions import CircuitError
    from qiskit.quantum_info import Operator, DensityMatrix
    name = spec["class"]
    desc = describe(spec)
    base = keyfields(spec)
    base.update({"spec": spec, "data_kind": spec["data_kind"], "data": enc_data(spec["data_kind"], data),
                 "family": spec.get("family", ""), "placements": placements})
    ok = True

    def fail(what, **kw):
        nonlocal ok
        ok = False
        c = dict(base)
        c.update(kw)
        ctx.violation(what, c)

    # ---- standalone build (twice, from separate copies) ---------------------------------
    d1, d2 = fresh(data), fresh(data)
    s1 = fresh(spec)
    snap_data = snapshot(d1)
    snap_opt = snapshot(s1.get("opt"))
    try:
        obj = build(s1, d1)
        circ = definition_of(obj)
        w_def = circ.num_qubits
        obj2 = build(fresh(spec), d2)
        circ2 = definition_of(obj2)
    except (KeyboardInterrupt, SystemExit):
        raise
    except BaseException as ex:  # noqa: BLE001
        # C15 is about objects that build; failures to build valid inputs belong to C01-C06
        ctx.monitor("unbuildable_skipped")
        ctx.note(f"skipped (does not build standalone, not a C15 matter): {histogram_family(spec)}: {type(ex).__name__}: {str(ex)[:80]}")
        return True
    is_gate = not isinstance(obj, QuantumCircuit)
    w_decl = obj.num_qubits
    width_ok = True
    if is_gate and w_decl != w_def:
        width_ok = False
        # the documented entry point then cannot place the gate: confirm and report as one finding
        consequence = ""
        try:
            host = QuantumCircuit(max(w_decl, w_def) + 1)
            place(spec, fresh(data), host, list(range(w_decl)), "static" if spec["kind"] in ("dense", "sparse", "fn", "mixed") else "append")
            _ = [i.operation.definition for i in host.data]
            sim_state(np.eye(2 ** host.num_qubits)[0], host)
            consequence = "; placing it on its declared number of qubits did not raise"
        except (KeyboardInterrupt, SystemExit):
            raise
        except BaseException as ex:  # noqa: BLE001
            consequence = f"; placing it on its declared {w_decl} qubits raises {type(ex).__name__}"
        fail(f"{desc}: declared width {w_decl} != definition width {w_def}{consequence}", declared=w_decl, definition=w_def)
    w = w_def
    resetful = has_reset(circ)
    # ---- operator / prepared state of the standalone object ---------------------------------------
    U = None
    psi0 = None
    rho0 = None
    try:
        if not resetful and w <= OP_MAX:
            U = Operator(circ).data
            psi0 = U[:, 0].copy()
        elif not resetful:
            psi0 = sim_state(np.eye(2 ** w)[0], circ)
        elif spec["kind"] == "mixed":
            rho0 = DensityMatrix.from_label("0" * w).evolve(circ).data
        else:
            psi0 = sim_state(np.eye(2 ** w)[0], circ)      # resets act on |0> qubits only: deterministic
    except (KeyboardInterrupt, SystemExit):
        raise
    except BaseException as ex:  # noqa: BLE001
        fail(f"{desc}: the standalone definition cannot be simulated: {type(ex).__name__}: {str(ex)[:150]}")
        return False
    # ---- twice ---------------------------------------------------------------------------------------
    try:
        if U is not None:
            U2 = Operator(circ2).data
            err = float(np.abs(U - U2).max())
        elif rho0 is not None:
            err = float(np.abs(rho0 - DensityMatrix.from_label("0" * w).evolve(circ2).data).max())
        else:
            err = float(np.abs(psi0 - sim_state(np.eye(2 ** w)[0], circ2)).max())
        if circ2.num_qubits != w or not (err < TOL):
            fail(f"{desc}: building twice from the same input gives different operators (max difference {err:.3g})", err=err)
    except (KeyboardInterrupt, SystemExit):
        raise
    except BaseException as ex:  # noqa: BLE001
        fail(f"{desc}: second build cannot be simulated: {type(ex).__name__}: {str(ex)[:150]}")
    # ---- inverse -----------------------------------------------------------------------------------
    if not resetful:
        try:
            inv = obj.inverse()
            inv_c = definition_of(inv)
            if inv_c.num_qubits != w:
                fail(f"{desc}: inverse() has width {inv_c.num_qubits}, the object has {w}")
            else:
                for order in ("gate_then_inverse", "inverse_then_gate"):
                    qc = QuantumCircuit(w)
                    first, second = (circ, inv_c) if order == "gate_then_inverse" else (inv_c, circ)
                    if is_gate and width_ok:
                        a, b = (obj, inv) if order == "gate_then_inverse" else (inv, obj)
                        qc.append(a, list(range(w)))
                        qc.append(b, list(range(w)))
                    else:
                        qc.compose(first, inplace=True)
                        qc.compose(second, inplace=True)
                    if w <= OP_MAX:
                        err = float(np.abs(Operator(qc).data - np.eye(2 ** w)).max())
                    else:
                        r = np.random.default_rng(7)
                        err = 0.0
                        for _ in range(2):
                            st = rand_state(r, w)
                            err = max(err, float(np.abs(sim_state(st, qc) - st).max()))
                    if not (err < TOL):
                        fail(f"{desc}: {order.replace('_', ' ')} is not the identity (max deviation {err:.3g})", err=err, order=order)
        except (KeyboardInterrupt, SystemExit):
            raise
        except BaseException as ex:  # noqa: BLE001
            fail(f"{desc}: inverse() of a reset-free object raised {type(ex).__name__}: {str(ex)[:150]}")
    # ---- inverse requested BEFORE the object's own definition was ever built; inverse twice ---------------------
    if not resetful and is_gate and width_ok:
        try:
            obj3 = build(fresh(spec), fresh(data))
            inv_a = obj3.inverse()
            ca = definition_of(inv_a)                   # the inverse's definition first
            inv_b = obj3.inverse()
            cb = definition_of(inv_b)
            c3 = definition_of(obj3)                    # the object's own definition last
            if w <= OP_MAX:
                u3, ua, ub = Operator(c3).data, Operator(ca).data, Operator(cb).data
                e_same = float(np.abs(u3 - U).max())
                e_inv = float(np.abs(ua @ u3 - np.eye(2 ** w)).max())
                e_two = float(np.abs(ua - ub).max())
            else:
                st = rand_state(np.random.default_rng(11), w)
                e_same = float(np.abs(sim_state(st, c3) - sim_state(st, circ)).max())
                e_inv = float(np.abs(sim_state(sim_state(st, c3), ca) - st).max())
                e_two = float(np.abs(sim_state(st, ca) - sim_state(st, cb)).max())
            if not (e_same < TOL):
                fail(f"{desc}: after inverse() was requested first, the object's own operator differs from a fresh build by {e_same:.3g}",
                     err=e_same, order="inverse_requested_first")
            if not (e_inv < TOL):
                fail(f"{desc}: gate then inverse is not the identity when inverse() is requested before the definition is built "
                     f"(max deviation {e_inv:.3g})", err=e_inv, order="inverse_requested_first")
            if not (e_two < TOL):
                fail(f"{desc}: two inverse() calls give different operators (max difference {e_two:.3g})", err=e_two,
                     order="inverse_twice")
        except (KeyboardInterrupt, SystemExit):
            raise
        except BaseException as ex:  # noqa: BLE001
            fail(f"{desc}: inverse() before the definition raised {type(ex).__name__}: {str(ex)[:150]}", order="inverse_requested_first")
    # ---- untouched, other memory layouts of the same array input (Fortran order, read-only, non-contiguous view) ----
    if isinstance(data, np.ndarray) and data.ndim >= 1:
        variants = []
        if data.ndim == 2:
            variants.append(("fortran", np.asfortranarray(data.astype(complex))))
            variants.append(("transposed_view", np.ascontiguousarray(data.astype(complex).T).T))
        ro = data.copy()
        ro.setflags(write=False)
        variants.append(("read_only", ro))
        for tag, arr in variants:
            before = arr.tobytes() if arr.flags.c_contiguous else np.ascontiguousarray(arr).tobytes()
            try:
                o4 = build(fresh(spec), arr)
                c4 = definition_of(o4)
                if not resetful and not isinstance(o4, QuantumCircuit):
                    _ = definition_of(o4.inverse())
                after = arr.tobytes() if arr.flags.c_contiguous else np.ascontiguousarray(arr).tobytes()
                if after != before:
                    fail(f"{desc}: building from a {tag} array modified the caller's input data ({spec['data_kind']})", layout=tag)
                elif U is not None and w <= OP_MAX:
                    e4 = float(np.abs(Operator(c4).data - U).max())
                    if not (e4 < TOL):
                        fail(f"{desc}: building from a {tag} array of the same values gives a different operator (max difference {e4:.3g})",
                             err=e4, layout=tag)
            except (KeyboardInterrupt, SystemExit):
                raise
            except ValueError as ex:
                if "read-only" in str(ex):
                    fail(f"{desc}: building from a read-only array tries to write into the caller's input data: {str(ex)[:100]}", layout=tag)
            except BaseException:  # noqa: BLE001
                pass                                # other layouts failing to build is not a C15 matter
    # ---- untouched (constructor, definition, inverse) ---------------------------------------------------
    if snapshot(d1) != snap_data:
        fail(f"{desc}: building the object modified the caller's input data ({spec['data_kind']})")
    if snapshot(s1.get("opt")) != snap_opt:
        fail(f"{desc}: building the object modified the caller's opt_params dictionary")
    if not width_ok:
        return ok
    # ---- placements ----------------------------------------------------------------------------------
    for pl in placements:
        h, qubits, how = pl["h"], list(pl["qubits"]), pl["how"]
        if len(qubits) != w:
            continue
        dd = fresh(data)
        sp2 = fresh(spec)
        snap = snapshot(dd)
        snap_o = snapshot(sp2.get("opt"))
        host = QuantumCircuit(h)
        ptag = f"{desc} placed on qubits {qubits} of a {h}-qubit circuit via {how}"
        try:
            place(sp2, dd, host, qubits if not pl.get("qubits_none") else None, how)
        except (KeyboardInterrupt, SystemExit):
            raise
        except BaseException as ex:  # noqa: BLE001
            fail(f"{ptag}: the entry point raised {type(ex).__name__}: {str(ex)[:150]}", placement=pl)
            continue
        if snapshot(dd) != snap:
            fail(f"{ptag}: the entry point modified the caller's input data ({spec['data_kind']})", placement=pl)
        if snapshot(sp2.get("opt")) != snap_o:
            fail(f"{ptag}: the entry point modified the caller's opt_params dictionary", placement=pl)
        try:
            if rho0 is not None:
                phi = dec_arr(pl["phi"]) if h > w else np.array([1.0 + 0j])
                init = place_vec(np.eye(2 ** w)[0], phi, qubits, h)
                got = DensityMatrix(np.outer(init, init.conj())).evolve(host).data
                exp = place_dm(rho0, np.outer(phi, phi.conj()), qubits, h)
            elif U is not None and not resetful and "init" in pl:
                init = dec_arr(pl["init"])
                got = sim_state(init, host)
                exp = apply_on(init, U, qubits, h)
            else:
                phi = dec_arr(pl["phi"]) if h > w else np.array([1.0 + 0j])
                init = place_vec(np.eye(2 ** w)[0], phi, qubits, h)
                got = sim_state(init, host)
                exp = place_vec(psi0, phi, qubits, h)
        except (KeyboardInterrupt, SystemExit):
            raise
        except BaseException as ex:  # noqa: BLE001
            fail(f"{ptag}: the host circuit cannot be simulated: {type(ex).__name__}: {str(ex)[:150]}", placement=pl)
            continue
        err = float(np.abs(got - exp).max())
        if not (err < TOL):
            fail(f"{ptag}: the host state differs from (standalone operator on exactly those qubits in that order, identity "
                 f"elsewhere) by {err:.3g}", placement=pl, err=err)
    return ok


def describe(spec):
    k = spec["kind"]
    parts = []
    if spec.get("opt"):
        parts.append(f"opt_params={spec['opt']}")
    for f in ("n", "num_controls", "num_target", "mt_form", "ctrl_state", "relative_phase", "action_only", "cancel",
              "up_to_diagonal", "error", "reset", "classical", "decomposition", "scheme", "m"):
        if f in spec and spec[f] not in (None, False) or (f in ("reset", "classical") and f in spec):
            parts.append(f"{f}={spec[f]}")
    return f"{spec['class']}({', '.join(parts)})"


# ============================================================================= placements
def make_placements(rng, spec, w, resetful_hint, count, static_kind):
    """random ordered subsets + structured ones; initial states"""
    out = []
    how_default = "static" if static_kind else "append"
    plans = []
    plans.append(("reversed", 1))
    plans.append(("random", 2))
    plans.append(("natural_none", 0))
    plans.append(("shift", 1))
    plans.append(("random", 1))
    for i in range(count):
        kind, s = plans[i % len(plans)]
        h = w + s
        if h > 12:
            h = w + min(s, 1)
        if kind == "reversed":
            qubits = list(range(w))[::-1]
        elif kind == "shift":
            qubits = [q + (h - w) for q in range(w)]
        elif kind == "natural_none":
            qubits = list(range(w))
        else:
            qubits = [int(q) for q in rng.permutation(h)[:w]]
        pl = {"h": h, "qubits": qubits, "how": how_default}
        if kind == "natural_none" and static_kind:
            pl["qubits_none"] = True                      # initialize(circuit, state) without a qubit list
        if spec["kind"] in ("unitary_fn", "isometry_fn"):
            pl["how"] = "compose" if i % 2 else "to_instruction"
        sfam = ["plus", "random_product", "entangled"][int(rng.integers(3))]
        ns = h - w
        if ns > 0:
            if sfam == "plus":
                phi = np.full(2 ** ns, 1 / np.sqrt(2 ** ns)).astype(complex)
            elif sfam == "random_product":
                phi = np.array([1.0 + 0j])
                for _ in range(ns):
                    phi = np.kron(phi, unit(rng.normal(size=2) + 1j * rng.normal(size=2)))
            else:
                phi = rand_state(rng, ns)
            pl["phi"] = enc_arr(phi)
        pl["spectators"] = sfam
        if not resetful_hint and w <= OP_MAX and h <= 11:
            # reset-free: the object's own qubits also start in an arbitrary state (entangled with the spectators)
            if static_kind and i % 2 == 0 and ns > 0:
                pass                                      # initializers: half of the placements start from |0> (x) spectators
            else:
                pl["init"] = enc_arr(rand_state(rng, h))
        out.append(pl)
    return out


# ============================================================================= case generation
def object_cases(rng, deep):
    """yields (spec, data)"""
    nmax = 4 if deep else 3
    # ---------------- dense initializers
    dense = [
        ("TopDownInitialize", [None, {"global_phase": True}, {"lib": "qiskit"}], 1),
        ("LowRankInitialize", [None, {"unitary_scheme": "csd"}, {"iso_scheme": "knill"}, {"partition": "P"}, {"lr": 1}], 1),
        ("SVDInitialize", ["-"], 2),
        ("UCGInitialize", [None, {"target_state": "T", "preserve_previous": False}, {"target_state": "T", "preserve_previous": True}], 1),
        ("UCGEInitialize", [None], 1),
        ("IsometryInitialize", [None, {"scheme": "knill"}, {"scheme": "csd"}], 1),
        ("BaaLowRankInitialize", [None, {"max_fidelity_loss": 0.1, "strategy": "brute_force"}, {"use_low_rank": True, "max_fidelity_loss": 0.05}], 1),
        ("DcspInitialize", ["-"], 1),
        ("BdspInitialize", [None, {"split": "S"}], 1),
        ("BlackBoxInitialize", ["-"], 1),
    ]
    for name, opts, nmin in dense:
        for n in range(nmin, nmax + 1):
            if name in ("DcspInitialize", "BdspInitialize") and n > 3 and not deep:
                continue
            for oi, o in enumerate(opts):
                fams = DENSE_FAMS if (oi == 0 and n <= 3) else [DENSE_FAMS[int(rng.integers(len(DENSE_FAMS)))] for _ in range(3 if deep else 2)]
                if name == "DcspInitialize" and n == 4:
                    fams = fams[:2]
                for fam in fams:
                    opt = None if o in (None, "-") else dict(o)
                    if opt and opt.get("partition") == "P":
                        if n < 2:
                            continue
                        size = int(rng.integers(1, n // 2 + 1 + (n % 2)))
                        opt["partition"] = [int(q) for q in rng.permutation(n)[:size]]
                    if opt and opt.get("target_state") == "T":
                        opt["target_state"] = int(rng.integers(0, 2 ** n))
                    if opt and opt.get("split") == "S":
                        opt["split"] = int(rng.integers(1, n + 1))
                    if opt and opt.get("scheme") == "knill" and n < 2:
                        continue
                    if opt and opt.get("iso_scheme") == "knill" and n < 3:
                        pass
                    v = dense_vector(rng, n, fam)
                    as_list = bool(rng.random() < 0.2)
                    data = v
                    spec = {"kind": "dense", "class": name, "opt": opt, "no_opt": o == "-", "n": n,
                            "data_kind": "dense", "family": fam, "as_list": as_list}
                    yield spec, data
    # ---------------- sparse initializers
    sparse = [
        ("MergeInitialize", ["-"]),
        ("CvoqramInitialize", [None, {"with_aux": False}, {"with_aux": True, "mcg_method": "barenco"}, {"with_aux": False, "mcg_method": "qiskit"}]),
        ("PivotInitialize", [None, {"aux": True}, {"aux": False}]),
    ]
    for name, opts in sparse:
        for n in range(1, nmax + 1):
            for o in opts:
                for fam in SPARSE_FAMS:
                    if name == "CvoqramInitialize" and n == 4 and fam == "full":
                        continue
                    opt = None if o in (None, "-") else dict(o)
                    spec = {"kind": "sparse", "class": name, "opt": opt, "no_opt": o == "-", "n": n,
                            "data_kind": "sparse", "family": fam}
                    yield spec, sparse_dict(rng, n, fam)
    for n in range(2, nmax + 1):
        for nout in (2, 4):
            for _ in range(2):
                spec = {"kind": "fn", "class": "FnPointsInitialize", "opt": {"n_output_values": nout}, "n": n,
                        "data_kind": "fn", "family": f"N={nout}"}
                yield spec, fn_dict(rng, n, nout)
    # ---------------- MixedInitialize
    for n in (1, 2):
        for k in (2, 3):
            for classical in (True, False):
                if not classical and n < 2:
                    continue
                for reset in (False, True):
                    ens = [rand_state(rng, n) for _ in range(k)]
                    p = rng.random(k) + 0.1
                    spec = {"kind": "mixed", "class": "MixedInitialize", "opt": None, "n": n, "k": k, "reset": reset,
                            "classical": classical, "probabilities": [float(x) for x in p / p.sum()],
                            "data_kind": "ensemble", "family": f"k={k}"}
                    yield spec, ens
    # ---------------- one-qubit controlled gates
    kmax = 5 if deep else 4
    for name in ("Mcg", "Ldmcu", "Qdmcu"):
        for k in range(0, kmax + 1):
            if name == "Qdmcu" and k == 0:
                continue
            for fam in U2_FAMS:
                cs_list = [None] if k == 0 else [None, "".join(str(int(b)) for b in rng.integers(0, 2, k))]
                for cs in cs_list:
                    spec = {"kind": "u2gate", "class": name, "num_controls": k, "ctrl_state": cs,
                            "up_to_diagonal": False, "data_kind": "u2", "family": fam}
                    yield spec, u2_matrix(rng, fam)
                if name == "Mcg" and k >= 2:
                    spec = {"kind": "u2gate", "class": name, "num_controls": k, "ctrl_state": cs_list[-1],
                            "up_to_diagonal": True, "data_kind": "u2", "family": fam}
                    yield spec, u2_matrix(rng, fam)
    for (bname, base, err, ks) in (("rx0.3", rx(0.3), 0.1, (2, 3, 4)), ("x", X, 0.5, (4, 5))):
        for k in ks:
            for cs in (None, "".join(str(int(b)) for b in rng.integers(0, 2, k))):
                spec = {"kind": "u2gate", "class": "MCU", "num_controls": k, "ctrl_state": cs, "error": err,
                        "data_kind": "u2", "family": bname}
                yield spec, np.array(base, dtype=complex)
    for name in ("Ldmcsu", "LdMcSpecialUnitary"):
        for k in range(1, kmax + 1):
            for fam in SU2_FAMS:
                for cs in (None, "".join(str(int(b)) for b in rng.integers(0, 2, k))):
                    spec = {"kind": "su2gate", "class": name, "num_controls": k, "ctrl_state": cs,
                            "data_kind": "su2", "family": fam}
                    yield spec, su2_matrix(rng, fam)
    for k in range(1, kmax + 1):
        for form, nt in (("list_single", 1), ("list_multi", 2), ("list_multi", 3), ("matrix", 1)):
            for _ in range(2):
                mats = [su2_matrix(rng, SU2_FAMS[int(rng.integers(len(SU2_FAMS)))]) for _ in range(nt)]
                spec = {"kind": "mtsu2", "class": "MultiTargetMCSU2", "num_controls": k, "num_target": nt, "mt_form": form,
                        "ctrl_state": None, "data_kind": "su2list", "family": form}
                yield spec, mats
    # ---------------- multi-controlled X
    for k in range(1, (6 if deep else 5) + 1):
        for nt in (1, 2):
            for rel in (False, True):
                for act in (False, True):
                    for cs in (None, "".join(str(int(b)) for b in rng.integers(0, 2, k))):
                        if 2 * k - 1 + nt > 10:
                            continue
                        spec = {"kind": "mcx", "class": "McxVchainDirty", "num_controls": k, "num_target": nt,
                                "ctrl_state": cs, "relative_phase": rel, "action_only": act, "data_kind": "none",
                                "family": f"rel={rel},act={act}"}
                        yield spec, None
    for k in range(1, (8 if deep else 6) + 1):
        for act in (False, True):
            for cs in (None, "".join(str(int(b)) for b in rng.integers(0, 2, k))):
                spec = {"kind": "mcx", "class": "LinearMcx", "num_controls": k, "ctrl_state": cs, "action_only": act,
                        "data_kind": "none", "family": f"act={act}"}
                yield spec, None
    for cancel in (None, "left", "right"):
        yield {"kind": "toffoli", "class": "Toffoli", "cancel": cancel, "data_kind": "none", "family": str(cancel)}, None
    # ---------------- functions
    for n in range(1, (4 if deep else 3) + 1):
        for d in ("qsd", "csd", "qr"):
            for fam in BIGU_FAMS:
                spec = {"kind": "unitary_fn", "class": "qclib.unitary.unitary", "decomposition": d, "n": n,
                        "data_kind": "matrix", "family": fam}
                yield spec, big_unitary(rng, 2 ** n, fam)
    for n in range(1, (4 if deep else 3) + 1):
        for m in range(0, n + 1):
            for scheme in ("ccd", "knill", "csd"):
                if scheme == "knill" and n < 2:
                    continue
                for fam in ("haar", "identity", "permutation"):
                    v = big_unitary(rng, 2 ** n, fam)[:, : 2 ** m].copy()
                    spec = {"kind": "isometry_fn", "class": "qclib.isometry.decompose", "scheme": scheme, "n": n, "m": m,
                            "data_kind": "matrix", "family": fam}
                    yield spec, v


def prepared_data(spec, data):
    """the object actually handed to qclib (lists for a fraction of the dense cases)"""
    if spec["kind"] == "dense" and spec.get("as_list"):
        return [complex(x) for x in data]
    return data


def histogram_family(spec):
    k = spec["kind"]
    o = spec.get("opt") or {}
    tag = ",".join(f"{a}={'*' if a in ('partition', 'target_state', 'split') else b}" for a, b in o.items())
    if k == "mixed":
        tag = f"classical={spec['classical']},reset={spec['reset']}"
    if k == "mtsu2":
        tag = spec["mt_form"]
    if k == "mcx" and spec["class"] == "McxVchainDirty":
        tag = f"targets={spec['num_target']}"
    if k == "unitary_fn":
        tag = spec["decomposition"]
    if k == "isometry_fn":
        tag = spec["scheme"]
    if k == "toffoli":
        tag = f"cancel={spec['cancel']}"
    if k == "u2gate" and spec.get("up_to_diagonal"):
        tag = "up_to_diagonal"
    return f"{spec['class'].split('.')[-1]}" + (f"[{tag}]" if tag else "")


def width_hint(spec, data):
    """definition width (to generate placements) - obtained by building once; None when it does not build"""
    try:
        obj = build(fresh(spec), fresh(prepared_data(spec, data)))
        c = definition_of(obj)
        return c.num_qubits, has_reset(c)
    except (KeyboardInterrupt, SystemExit):
        raise
    except BaseException:  # noqa: BLE001
        return None, False


def evaluate(ctx, deep):
    rng = ctx.rng
    selfcheck(ctx)
    nplace = 6 if deep else 4
    cases = []
    for _ in range(2):                           # independent passes over every class/option with fresh random data
        cases.extend(object_cases(rng, deep))
    for spec, data in cases:
        pdata = prepared_data(spec, data)
        w, resetful = width_hint(spec, data)
        static_kind = spec["kind"] in ("dense", "sparse", "fn", "mixed")
        if w is None:
            placements = []
        else:
            cnt = nplace if w <= 8 else 1
            if spec["kind"] == "mixed" and spec["reset"]:
                cnt = 1
            placements = make_placements(rng, spec, w, resetful, cnt, static_kind)
            if spec["kind"] == "mixed":
                # the static entry point builds the default object (classical purification, reset=True):
                # other configurations are placed with append
                if not (spec["classical"] and spec["reset"]):
                    for pl in placements:
                        pl["how"] = "append"
                        pl.pop("qubits_none", None)
        nontrivial = (w or 0) >= 2
        ctx.count(histogram_family(spec),
                  key=("c15", spec["class"], repr(spec.get("opt")), repr({k: v for k, v in spec.items() if k not in ("opt",)}),
                       repr(snapshot(pdata))[:2000], repr([(p["h"], p["qubits"], p["how"]) for p in placements])),
                  nontrivial=nontrivial,
                  sample={"object": describe(spec), "data_family": spec.get("family"),
                          "placements": [(p["h"], p["qubits"], p["how"], p.get("spectators")) for p in placements]}
                  if (w == 3 and placements) else None)
        eval_object(ctx, spec, pdata, placements)


def replay(ctx, case):
    spec = case["spec"]
    data = dec_data(case["data_kind"], case["data"])
    data = prepared_data(spec, data)
    return eval_object(ctx, spec, data, case.get("placements", []))
