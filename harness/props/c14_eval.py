"""C14 - MixedInitialize: the data register's reduced state is the requested ensemble.

Direct evaluation: the gate's definition is simulated with Qiskit (Statevector when reset=False, DensityMatrix when
reset=True - the reset channel is deterministic on density matrices), the ceil(log2 k) auxiliary qubits (the LOW
qubits of the gate: register 'aux' precedes register 'rho') are traced out with plain numpy reshapes, and the result
is compared entry-wise (1e-6) with sum_i p_i |psi_i><psi_i| computed from the inputs.  Both purification modes,
default and non-default inner initializers / opt_params, k = 1.. incl. non powers of two and k > 2^n, probability
families (omitted, random, zeros, one-hot, skewed, dyadic; list and ndarray), the static `initialize` entry point,
and malformed probability vectors (must raise before a circuit is returned).
"""
import warnings
import numpy as np

warnings.filterwarnings("ignore")

TOL = 1e-6


# ----------------------------------------------------------------------------- encoding
def enc_vec(v):
    return [[float(np.real(x)).hex(), float(np.imag(x)).hex()] for x in np.asarray(v).reshape(-1)]


def dec_vec(d):
    return np.array([complex(float.fromhex(r), float.fromhex(i)) for r, i in d], dtype=complex)


def enc_probs(p):
    return None if p is None else [float(x).hex() for x in p]


def dec_probs(p):
    return None if p is None else [float.fromhex(x) for x in p]


INITIALIZERS = ["LowRankInitialize", "TopDownInitialize", "UCGInitialize", "UCGEInitialize", "IsometryInitialize",
                "BaaLowRankInitialize"]


def get_initializer(name):
    import qclib.state_preparation as sp
    return getattr(sp, name)


# (initializer, opt_params, usable in-circuit from k (aux register >= this many qubits) or None)
def configs(n, k):
    """(name, opt_params, modes) exact (non-approximating) configurations for data width n and k states"""
    na = int(np.ceil(np.log2(k))) if k > 1 else 0
    out = [("LowRankInitialize", None, (True, False)),
           ("LowRankInitialize", {"unitary_scheme": "csd"}, (True, False)),
           ("LowRankInitialize", {"iso_scheme": "knill", "unitary_scheme": "qsd"}, (True, False)),
           ("LowRankInitialize", {"partition": [0]}, (True, False)),
           ("LowRankInitialize", {"svd": "regular"}, (True, False)),
           # the following are exercised where they are defined (the property does not quantify over initializers;
           # TopDownInitialize's definition is not controllable, Knill needs >= 2 qubits)
           ("TopDownInitialize", None, (True,)),
           ("TopDownInitialize", {"global_phase": True}, (True,)),
           ("UCGInitialize", None, (True, False)),
           ("UCGEInitialize", None, (True, False)),
           ("IsometryInitialize", None, (True, False)),
           ("IsometryInitialize", {"scheme": "knill"},
            (() if n + na < 2 else (True,)) if (na < 2 or n < 2) else (True, False)),
           ("BaaLowRankInitialize", None, (True, False)),
           ]
    return out


# ----------------------------------------------------------------------------- reference
def ensemble_rho(ens, probs):
    k = len(ens)
    p = [1.0 / k] * k if probs is None else list(probs)
    d = len(ens[0])
    rho = np.zeros((d, d), dtype=complex)
    for pi, e in zip(p, ens):
        e = np.asarray(e, dtype=complex)
        rho += pi * np.outer(e, e.conj())
    return rho


def reduced_from_vector(psi, n_aux):
    m = np.asarray(psi, dtype=complex).reshape(-1, 2 ** n_aux)     # rows: data (high bits), columns: aux (low bits)
    return m @ m.conj().T, m.conj().T @ m


def reduced_from_dm(dm, n_aux):
    a = 2 ** n_aux
    d = dm.shape[0] // a
    t = np.asarray(dm, dtype=complex).reshape(d, a, d, a)
    return np.einsum("iaja->ij", t), np.einsum("iaib->ab", t)


# ----------------------------------------------------------------------------- generators
def unit(v):
    return v / np.linalg.norm(v)


def ensemble_family(rng, n, k, fam):
    N = 2 ** n
    if fam == "complex":
        return [unit(rng.normal(size=N) + 1j * rng.normal(size=N)) for _ in range(k)]
    if fam == "real":
        return [unit(rng.normal(size=N)).astype(complex) for _ in range(k)]
    if fam == "basis":                   # computational basis states with phases (repeats when k > 2^n)
        out = []
        order = [int(x) for x in rng.permutation(N)]
        for i in range(k):
            v = np.zeros(N, dtype=complex)
            v[order[i % N]] = np.exp(1j * rng.uniform(0, 2 * np.pi))
            out.append(v)
        return out
    if fam == "duplicate":               # the same state k times (rank-one ensemble)
        v = unit(rng.normal(size=N) + 1j * rng.normal(size=N))
        return [v.copy() for _ in range(k)]
    if fam == "orthonormal":             # columns of a Haar unitary (cyclic when k > 2^n)
        m = rng.normal(size=(N, N)) + 1j * rng.normal(size=(N, N))
        q, _ = np.linalg.qr(m)
        return [q[:, i % N].copy() for i in range(k)]
    if fam == "product":
        out = []
        for _ in range(k):
            v = np.array([1.0 + 0j])
            for _ in range(n):
                v = np.kron(v, unit(rng.normal(size=2) + 1j * rng.normal(size=2)))
            out.append(v)
        return out
    if fam == "sparse":
        out = []
        for _ in range(k):
            v = rng.normal(size=N) + 1j * rng.normal(size=N)
            v[rng.random(N) < 0.5] = 0
            if not v.any():
                v[int(rng.integers(N))] = 1
            out.append(unit(v))
        return out
    if fam == "negative":
        return [(-unit(np.abs(rng.normal(size=N)) + 0.05)).astype(complex) for _ in range(k)]
    if fam == "mixed_types":             # a real basis state first, then real, then genuinely complex members
        out = []
        for i in range(k):
            if i == 0:
                v = np.zeros(N, dtype=complex)
                v[int(rng.integers(N))] = 1.0
            elif i % 3 == 1:
                v = unit(rng.normal(size=N) + 1j * rng.normal(size=N))
            else:
                v = unit(rng.normal(size=N)).astype(complex)
            out.append(v)
        return out
    raise ValueError(fam)


ENS_FAMS = ["complex", "real", "basis", "duplicate", "orthonormal", "product", "sparse", "negative"]


def prob_family(rng, k, fam):
    if fam == "omitted":
        return None
    if fam == "random":
        p = rng.random(k) + 0.05
        return [float(x) for x in p / p.sum()]
    if fam == "zeros":                   # some probabilities exactly zero
        p = rng.random(k) + 0.05
        z = rng.random(k) < 0.5
        if z.all():
            z[int(rng.integers(k))] = False
        p[z] = 0.0
        return [float(x) for x in p / p.sum()]
    if fam == "onehot":
        p = [0.0] * k
        p[int(rng.integers(k))] = 1.0
        return p
    if fam == "skewed":                  # smallest weight 1e-3 (sqrt = 0.03, far above the 1e-7 rank cut)
        p = np.full(k, 1e-3)
        p[int(rng.integers(k))] = 1.0 - 1e-3 * (k - 1)
        return [float(x) for x in p]
    if fam == "dyadic":
        w = rng.integers(1, 8, size=k).astype(float)
        tot = w.sum()
        return [float(x / tot) for x in w]
    if fam == "tenths":                  # 0.1-type values whose float sum is not exactly 1
        base = [0.1] * 10
        p = [0.0] * k
        for i, b in enumerate(base):
            p[i % k] += b
        return p
    raise ValueError(fam)


PROB_FAMS = ["omitted", "random", "zeros", "onehot", "skewed", "dyadic", "tenths"]


def bad_prob_family(rng, k, fam):
    """probability vectors of length k that the property says must be rejected"""
    p = rng.random(k) + 0.05
    p = p / p.sum()
    i = int(rng.integers(k))
    j = (i + 1) % k
    if fam == "negative_sum1":           # one negative entry, still sums to one
        if k == 1:
            return [-1.0]
        d = float(p[i]) + float(rng.uniform(0.01, 0.5))
        p[i] -= d
        p[j] += d
        return [float(x) for x in p]
    if fam == "tiny_negative":
        if k == 1:
            return [-1e-9]
        p[i] = -1e-9
        p[j] += 1e-9
        return [float(x) for x in p]
    if fam == "above_one":               # an entry above one (needs a negative one or a wrong sum)
        if k == 1:
            return [1.5]
        p[:] = 0.0
        p[i] = 1.25
        return [float(x) for x in p]
    if fam == "above_one_neg":
        if k == 1:
            return [1.0 + 1e-6]
        p[:] = 0.0
        p[i] = 1.5
        p[j] = -0.5
        return [float(x) for x in p]
    if fam.startswith("sum_plus_") or fam.startswith("sum_minus_"):
        eps = float(fam.split("_")[-1])
        s = 1 + eps if "plus" in fam else 1 - eps
        return [float(x * s) for x in p]
    if fam == "all_zero":
        return [0.0] * k
    if fam == "all_one":
        return [1.0] * k if k > 1 else [2.0]
    if fam == "nan":
        p[i] = np.nan
        return [float(x) for x in p]
    if fam == "unnormalized_counts":
        return [float(x) for x in rng.integers(1, 5, size=k)] if k > 1 else [3.0]
    raise ValueError(fam)


BAD_FAMS = ["negative_sum1", "tiny_negative", "above_one", "above_one_neg", "sum_plus_1e-06", "sum_minus_1e-06",
            "sum_plus_0.001", "sum_minus_0.001", "sum_plus_0.1", "sum_minus_0.3", "all_zero", "all_one", "nan",
            "unnormalized_counts"]


# ----------------------------------------------------------------------------- evaluation
DM_MAX_QUBITS = 5


def strip_trailing_resets(circ):
    """(copy of circ without its trailing reset instructions, qubit indices that were reset); the circuit may be a
    host with a single appended gate (static entry point): then the gate's definition is looked into."""
    from qiskit import QuantumCircuit
    data = list(circ.data)
    if len(data) == 1 and data[0].operation.name != "reset" and data[0].operation.definition is not None \
            and [circ.find_bit(q).index for q in data[0].qubits] == list(range(circ.num_qubits)) \
            and any(i.operation.name == "reset" for i in data[0].operation.definition.data):
        return strip_trailing_resets(data[0].operation.definition)
    resets = []
    while data and data[-1].operation.name == "reset":
        resets.append(circ.find_bit(data[-1].qubits[0]).index)
        data.pop()
    body = QuantumCircuit(circ.num_qubits)
    for inst in data:
        body.append(inst.operation, [circ.find_bit(q).index for q in inst.qubits])
    return body, resets[::-1]


def build(ens, probs, init_name, opt, classical, reset, entry, as_lists, probs_array):
    """returns the circuit whose qubits are [aux..., data...]"""
    from qiskit import QuantumCircuit
    from qclib.state_preparation import MixedInitialize
    if as_lists == "native":
        # every member in the narrowest natural type of its values: integer list, float array, complex array
        e = []
        for v in ens:
            v = np.asarray(v)
            if np.all(v.imag == 0) and np.all(v.real == np.round(v.real)):
                e.append([int(x) for x in v.real])
            elif np.all(v.imag == 0):
                e.append(np.array(v.real, dtype=float))
            else:
                e.append(np.array(v))
    else:
        e = [[complex(x) for x in v] for v in ens] if as_lists else [np.array(v) for v in ens]
    p = None if probs is None else (np.array(probs, dtype=float) if probs_array else list(probs))
    o = None if opt is None else dict(opt)
    k = len(ens)
    n = int(round(np.log2(len(ens[0]))))
    na = int(np.ceil(np.log2(k))) if k > 1 else 0
    if entry == "static":                       # initialize(circuit, ensemble) on all qubits of the circuit
        qc = QuantumCircuit(na + n)
        MixedInitialize.initialize(qc, e, opt_params=o, probabilities=p)
        return qc, None
    if entry == "static_qubits":                # initialize(circuit, ensemble, qubits) with an explicit qubit list
        qc = QuantumCircuit(na + n)
        MixedInitialize.initialize(qc, e, list(range(na + n)), opt_params=o, probabilities=p)
        return qc, None
    gate = MixedInitialize(e, initializer=get_initializer(init_name), opt_params=o, probabilities=p, reset=reset,
                           classical=classical)
    return gate.definition, gate


def eval_case(ctx, c, ens, probs):
    """c: case dict (without data). True iff the property holds"""
    from qiskit.quantum_info import Statevector, DensityMatrix
    n, k = c["n"], c["k"]
    na = int(np.ceil(np.log2(k))) if k > 1 else 0
    case = dict(c)
    case["ensemble"] = [enc_vec(v) for v in ens]
    case["probabilities"] = enc_probs(probs)
    tag = (f"MixedInitialize(n={n}, k={k}, initializer={c['initializer']}, opt_params={c['opt_params']}, "
           f"classical={c['classical']}, reset={c['reset']}, entry={c['entry']})")
    try:
        circ, gate = build(ens, probs, c["initializer"], c["opt_params"], c["classical"], c["reset"], c["entry"],
                           c["as_lists"], c["probs_array"])
    except Exception as ex:  # noqa: BLE001
        ctx.violation(f"{tag}: valid ensemble raised {type(ex).__name__}: {str(ex)[:200]}", case)
        return False
    ok = True
    if circ.num_qubits != na + n:
        ctx.violation(f"{tag}: circuit has {circ.num_qubits} qubits, expected {na}+{n}", case)
        return False
    if gate is not None and gate.num_qubits != circ.num_qubits:
        ctx.violation(f"{tag}: declared width {gate.num_qubits} != definition width {circ.num_qubits}", case)
        ok = False
    try:
        if c["reset"] and circ.num_qubits <= DM_MAX_QUBITS:
            dm = DensityMatrix.from_label("0" * circ.num_qubits).evolve(circ).data
            rho, aux = reduced_from_dm(dm, na)
        elif c["reset"]:
            # density-matrix simulation of nested circuits is slow: peel the trailing resets off (they must be
            # exactly one reset per auxiliary qubit, after everything else) and use that a channel on the
            # auxiliary qubits alone leaves the data qubits' reduced state unchanged and leaves the auxiliaries in |0>
            body, reset_qubits = strip_trailing_resets(circ)
            if sorted(reset_qubits) != list(range(na)):
                ctx.violation(f"{tag}: reset=True but the trailing resets act on qubits {reset_qubits}, expected the "
                              f"auxiliary qubits {list(range(na))}", case)
                return False
            psi = Statevector.from_label("0" * body.num_qubits).evolve(body).data
            rho, _ = reduced_from_vector(psi, na)
            aux = np.zeros((2 ** na, 2 ** na), dtype=complex)
            aux[0, 0] = 1.0
        else:
            psi = Statevector.from_label("0" * circ.num_qubits).evolve(circ).data
            rho, aux = reduced_from_vector(psi, na)
    except Exception as ex:  # noqa: BLE001
        ctx.violation(f"{tag}: circuit could not be simulated: {type(ex).__name__}: {str(ex)[:200]}", case)
        return False
    ref = ensemble_rho(ens, probs)
    err = float(np.abs(rho - ref).max())
    if not np.isfinite(err) or err > TOL:
        case["err"] = err
        suffix = ""
        if np.isfinite(err) and err < 1e-3 and c["initializer"] == "LowRankInitialize":
            # DESIGN section 6 #14: Qiskit's _apply_a2 (used by LowRankInitialize's unitary AND isometry synthesis,
            # whatever unitary_scheme says) loses ~1e-5 on some real orthogonal blocks.  Classify: is the same
            # ensemble exact when the purification is prepared by an initializer that does not use it?
            try:
                circ2, _ = build(ens, probs, "UCGInitialize", None, c["classical"], False, "constructor",
                                 c["as_lists"], c["probs_array"])
                psi2 = Statevector.from_label("0" * circ2.num_qubits).evolve(circ2).data
                rho2, _ = reduced_from_vector(psi2, na)
                if float(np.abs(rho2 - ref).max()) <= TOL:
                    suffix = " [inner LowRankInitialize accuracy: exact with initializer=UCGInitialize]"
            except (KeyboardInterrupt, SystemExit):
                raise
            except BaseException:  # noqa: BLE001
                pass
        elif np.isfinite(err) and err < 1e-3:
            # any other inner initializer that reaches qclib.unitary (IsometryInitialize csd / knill, ...): the same Qiskit defect if the
            # same construction is exact once qiskit's private _apply_a2 is the identity
            import qclib.unitary as qu
            orig = qu._apply_a2
            try:
                qu._apply_a2 = lambda circuit: circuit
                circ2, _ = build(ens, probs, c["initializer"], c.get("opt_params"), c["classical"], False, "constructor",
                                 c["as_lists"], c["probs_array"])
                psi2 = Statevector.from_label("0" * circ2.num_qubits).evolve(circ2).data
                rho2, _ = reduced_from_vector(psi2, na)
                if float(np.abs(rho2 - ref).max()) <= 1e-9:
                    suffix = " [inner initializer accuracy: exact when qiskit's _apply_a2 is the identity]"
                    case["cause"] = "qiskit_apply_a2"
            except (KeyboardInterrupt, SystemExit):
                raise
            except BaseException:  # noqa: BLE001
                pass
            finally:
                qu._apply_a2 = orig
        ctx.violation(f"{tag}: reduced state of the data qubits differs from sum_i p_i|psi_i><psi_i| by {err:.3g}{suffix}", case)
        ok = False
    if c["reset"] and na > 0:
        # documented effect of reset=True: the auxiliary qubits end in |0..0>
        e0 = float(abs(aux[0, 0] - 1))
        if e0 > TOL:
            case["aux_err"] = e0
            ctx.violation(f"{tag}: reset=True but the auxiliary register is not |0..0> (1 - <0|rho_aux|0> = {e0:.3g})", case)
            ok = False
    return ok


def eval_bad(ctx, c, ens, probs):
    """malformed probability vector: an exception must be raised before a circuit is returned"""
    case = dict(c)
    case["ensemble"] = [enc_vec(v) for v in ens]
    case["probabilities"] = enc_probs(probs)
    try:
        circ, gate = build(ens, probs, c["initializer"], c["opt_params"], c["classical"], c["reset"], c["entry"],
                           c["as_lists"], c["probs_array"])
        _ = circ.num_qubits
        if c["entry"].startswith("static"):
            for inst in circ.data:          # force the lazily built definition
                _ = inst.operation.definition
    except Exception:  # noqa: BLE001
        return True
    ctx.violation(f"MixedInitialize accepted the invalid probability vector {[float(x) for x in probs]} "
                  f"(family {c['family']}, k={c['k']}, classical={c['classical']}, entry={c['entry']})", case)
    return False


def evaluate(ctx, deep):
    rng = ctx.rng
    nmax = 4 if deep else 3
    kmax = 9 if deep else 8
    # ---- valid ensembles --------------------------------------------------------------
    for n in range(1, nmax + 1):
        for k in range(1, kmax + 1):
            cfgs = configs(n, k)
            for classical in (True, False):
                if not classical and (n < 2 or k < 2):
                    continue                 # quantifier: in-circuit purification for n >= 2, k >= 2
                heavy = (not classical) and (n + k >= (12 if deep else 10))
                # default configuration: every ensemble family x a rotating probability family
                fams = ENS_FAMS if not heavy else ENS_FAMS[:1] + [ENS_FAMS[1 + int(rng.integers(len(ENS_FAMS) - 1))]]
                for fi, ef in enumerate(fams):
                    pf_list = PROB_FAMS if (deep and not heavy and n <= 3) else [PROB_FAMS[(fi + k + n) % len(PROB_FAMS)],
                                                                                  PROB_FAMS[int(rng.integers(len(PROB_FAMS)))]]
                    if heavy:
                        pf_list = pf_list[:1]
                    for pf in pf_list:
                        ens = ensemble_family(rng, n, k, ef)
                        probs = prob_family(rng, k, pf)
                        reset = bool(rng.integers(2))
                        c = {"class": "MixedInitialize", "n": n, "k": k, "initializer": "LowRankInitialize",
                             "opt_params": None, "classical": classical, "reset": reset, "entry": "constructor",
                             "as_lists": False, "probs_array": bool(rng.random() < 0.3),
                             "family": f"{ef}/{pf}", "check": "valid"}
                        if fi % 2 == 0 and k >= 2 and n <= 3:
                            # the same configuration with a type-heterogeneous ensemble handed over in native Python / numpy types
                            ens_t = ensemble_family(rng, n, k, "mixed_types")
                            ct = dict(c, as_lists="native", family=f"mixed_types/{pf}")
                            ctx.count(f"{'classical' if classical else 'in-circuit'}:default:mixed_types",
                                      key=("vt", n, k, classical, reset, pf, ens_t[1].tobytes()), nontrivial=True)
                            eval_case(ctx, ct, ens_t, probs)
                        ctx.count(f"{'classical' if classical else 'in-circuit'}:default:{ef}",
                                  key=("v", n, k, classical, reset, ef, pf, ens[0].tobytes()), nontrivial=k >= 2,
                                  sample={"n": n, "k": k, "probabilities": probs, "state0": [complex(x) for x in ens[0]]}
                                  if (n == 2 and k == 3 and pf != "omitted") else None)
                        eval_case(ctx, c, ens, probs)
                # every other configuration once (twice in deep) with a random family
                if heavy and not deep:
                    continue
                for (iname, opt, modes) in cfgs[1:]:
                    if classical not in modes:
                        continue
                    if heavy and iname != "LowRankInitialize":
                        continue
                    if opt and "partition" in opt and (n + (int(np.ceil(np.log2(k))) if k > 1 else 0)) < 2 and classical:
                        continue
                    for _ in range(2 if deep and not heavy else 1):
                        ef = ENS_FAMS[int(rng.integers(len(ENS_FAMS)))]
                        pf = PROB_FAMS[int(rng.integers(len(PROB_FAMS)))]
                        ens = ensemble_family(rng, n, k, ef)
                        probs = prob_family(rng, k, pf)
                        c = {"class": "MixedInitialize", "n": n, "k": k, "initializer": iname, "opt_params": opt,
                             "classical": classical, "reset": bool(rng.integers(2)), "entry": "constructor",
                             "as_lists": False, "probs_array": False, "family": f"{ef}/{pf}", "check": "valid"}
                        oname = "" if opt is None else ":" + ",".join(f"{a}={b}" for a, b in opt.items())
                        ctx.count(f"{'classical' if classical else 'in-circuit'}:{iname}{oname}",
                                  key=("o", n, k, classical, iname, repr(opt), ef, pf, ens[0].tobytes()), nontrivial=k >= 2)
                        eval_case(ctx, c, ens, probs)
            # static entry point (classical, reset=True, default initializer)
            for opt, entry in ((None, "static"), ({"unitary_scheme": "csd"}, "static_qubits")):
                ef = ENS_FAMS[int(rng.integers(len(ENS_FAMS)))]
                pf = PROB_FAMS[int(rng.integers(len(PROB_FAMS)))]
                ens = ensemble_family(rng, n, k, ef)
                probs = prob_family(rng, k, pf)
                c = {"class": "MixedInitialize", "n": n, "k": k, "initializer": "LowRankInitialize", "opt_params": opt,
                     "classical": True, "reset": True, "entry": entry, "as_lists": False, "probs_array": False,
                     "family": f"{ef}/{pf}", "check": "valid"}
                ctx.count("static-initialize", key=("s", n, k, repr(opt), ef, pf, ens[0].tobytes()), nontrivial=k >= 2)
                eval_case(ctx, c, ens, probs)
    # ---- ensembles given as plain Python lists of complex (the documented type "list of list of complex") ----
    for n in (1, 2, 3):
        for k in (1, 2, 3, 5):
            for classical in (True, False):
                if not classical and (n < 2 or k < 2):
                    continue
                for pf in ("omitted", "random"):
                    ef = ENS_FAMS[int(rng.integers(len(ENS_FAMS)))]
                    ens = ensemble_family(rng, n, k, ef)
                    probs = prob_family(rng, k, pf)
                    c = {"class": "MixedInitialize", "n": n, "k": k, "initializer": "LowRankInitialize",
                         "opt_params": None, "classical": classical, "reset": False, "entry": "constructor",
                         "as_lists": True, "probs_array": False, "family": f"{ef}/{pf}", "check": "valid"}
                    ctx.count(f"{'classical' if classical else 'in-circuit'}:python-lists",
                              key=("l", n, k, classical, ef, pf, ens[0].tobytes()), nontrivial=k >= 2)
                    eval_case(ctx, c, ens, probs)
    # ---- malformed probability vectors ---------------------------------------------------
    for n in (1, 2) if not deep else (1, 2, 3):
        for k in range(1, (5 if not deep else 7) + 1):
            for bf in BAD_FAMS:
                for classical, entry in ((True, "constructor"), (False, "constructor"), (True, "static"), (True, "static_qubits")):
                    if not classical and (n < 2 or k < 2):
                        continue
                    for _ in range(2 if deep else 1):
                        ens = ensemble_family(rng, n, k, "complex")
                        probs = bad_prob_family(rng, k, bf)
                        c = {"class": "MixedInitialize", "n": n, "k": k, "initializer": "LowRankInitialize",
                             "opt_params": None, "classical": classical, "reset": False, "entry": entry,
                             "as_lists": False, "probs_array": bool(rng.random() < 0.3), "family": bf, "check": "invalid"}
                        ctx.count(f"invalid:{bf}", key=("b", n, k, bf, classical, entry, tuple(probs)), nontrivial=True,
                                  sample={"k": k, "probabilities": probs} if k == 3 and n == 2 else None)
                        eval_bad(ctx, c, ens, probs)


def replay(ctx, case):
    ens = [dec_vec(v) for v in case["ensemble"]]
    probs = dec_probs(case["probabilities"])
    c = {key: case[key] for key in ("class", "n", "k", "initializer", "opt_params", "classical", "reset", "entry",
                                    "as_lists", "probs_array", "family", "check")}
    if case.get("check") == "invalid":
        return eval_bad(ctx, c, ens, probs)
    return eval_case(ctx, c, ens, probs)
