"""shared glue for property modules"""
import importlib


def run_eval(ctx, prop, deep=None):
    if ctx.skip_eval:
        return
    try:
        mod = importlib.import_module(f"harness.props.{prop.lower()}_eval")
    except ModuleNotFoundError:
        ctx.note("direct evaluation module not present")
        return
    mod.evaluate(ctx, (not ctx.quick) if deep is None else deep)


def replay_eval(ctx, prop, case):
    mod = importlib.import_module(f"harness.props.{prop.lower()}_eval")
    return mod.replay(ctx, case)
