"""C03 - isometry decomposition (qclib.isometry.decompose): Operator(circuit)[:, :2^m] equals the isometry.

Direct evaluation: for every scheme (ccd, csd, knill), every n and every m in 0..n, and structured families of
2^n x 2^m isometries (columns of the identity / permutations / diagonal phases / Hadamard / QFT, real and negative
data, zero pivots, sparse and product structure, extensions with repeated eigenvalues, state vectors, full
unitaries) the leading 2^m columns of the circuit operator are compared with V (1e-6, phase included)."""
import itertools
import warnings
import numpy as np
from qiskit.quantum_info import Operator

from harness.core import jsonable, unjson_array
from harness.props.c02_eval import haar, orth, phases, kron_all, qft, H1

warnings.filterwarnings("ignore")

TOL = 1e-6
SCHEMES = ["ccd", "csd", "knill"]


def rand_state(rng, N, real=False):
    v = rng.normal(size=N) + (0 if real else 1j * rng.normal(size=N))
    return (v / np.linalg.norm(v)).astype(complex)


def make(fam, n, m, rng):
    """2^n x 2^m isometry of family `fam`, or None when the family does not exist for (n, m)."""
    N, M = 2 ** n, 2 ** m
    if fam == "haar":
        return haar(rng, N)[:, :M]
    if fam == "identity_columns":
        return np.eye(N, dtype=complex)[:, :M]
    if fam == "minus_identity_columns":
        return -np.eye(N, dtype=complex)[:, :M]
    if fam == "last_identity_columns":       # e_{N-M}, ..., e_{N-1}: every pivot is zero
        return np.eye(N, dtype=complex)[:, N - M:]
    if fam == "permutation_columns":
        return np.eye(N, dtype=complex)[:, rng.permutation(N)[:M]]
    if fam == "phased_permutation_columns":
        return np.eye(N, dtype=complex)[:, rng.permutation(N)[:M]] * phases(rng, M)
    if fam == "signed_permutation_columns":
        return np.eye(N, dtype=complex)[:, rng.permutation(N)[:M]] * rng.choice([-1.0, 1.0], M)
    if fam == "cyclic_shift_columns":         # column k = e_{k+1 mod N}
        return np.roll(np.eye(N, dtype=complex), 1, axis=0)[:, :M]
    if fam == "reversal_columns":             # column k = e_{N-1-k}
        return np.eye(N, dtype=complex)[::-1][:, :M].copy()
    if fam == "diagonal_phases":
        return np.diag(phases(rng, N))[:, :M]
    if fam == "diagonal_pm1":
        return np.diag(rng.choice([-1.0, 1.0], N)).astype(complex)[:, :M]
    if fam == "hadamard_columns":
        return kron_all([H1] * n)[:, :M]
    if fam == "hadamard_random_columns":
        return kron_all([H1] * n)[:, np.sort(rng.permutation(N)[:M])]
    if fam == "hadamard_last_columns":
        return kron_all([H1] * n)[:, N - M:]
    if fam == "qft_columns":
        return qft(N)[:, :M]
    if fam == "real_orthogonal":
        return orth(rng, N)[:, :M]
    if fam == "real_nonpositive":             # one non-positive real column per input (m = 0), else -|.| is not orthogonal
        if m != 0:
            return None
        v = -np.abs(rng.normal(size=N))
        return (v / np.linalg.norm(v)).astype(complex).reshape(N, 1)
    if fam == "global_phase_real":
        return np.exp(1j * rng.uniform(0.3, 6.0)) * orth(rng, N)[:, :M]
    if fam == "reflection_columns":           # columns of I - 2vv^dagger (extension spectrum {1,..,1,-1} when m = n)
        v = rand_state(rng, N)
        return (np.eye(N, dtype=complex) - 2 * np.outer(v, v.conj()))[:, :M]
    if fam == "repeated_spectrum_columns":
        w = haar(rng, N)
        d = phases(rng, 2)[np.arange(N) % 2]
        return ((w * d) @ w.conj().T)[:, :M]
    if fam == "zero_pivot":                   # generic columns living entirely in the lower half (rows >= N/2)
        if m >= n:
            return None
        out = np.zeros((N, M), dtype=complex)
        out[N // 2:, :] = haar(rng, N // 2)[:, :M]
        return out
    if fam == "upper_half_support":           # generic columns living in the rows < N/2 (top qubit stays 0)
        if m >= n:
            return None
        out = np.zeros((N, M), dtype=complex)
        out[:N // 2, :] = haar(rng, N // 2)[:, :M]
        return out
    if fam == "sparse_disjoint":              # column k supported on rows {k, k + M, ...}: disjoint supports
        if m >= n:
            return None
        out = np.zeros((N, M), dtype=complex)
        for k in range(M):
            out[k::M, k] = rand_state(rng, N // M)
        return out
    if fam == "half_zero_entries":            # haar isometry on a random half of the rows, zero elsewhere
        if m >= n:
            return None
        rows = np.sort(rng.permutation(N)[:N // 2])
        out = np.zeros((N, M), dtype=complex)
        out[rows, :] = haar(rng, N // 2)[:, :M]
        return out
    if fam == "state_tensor_unitary":         # |psi> (x) W : W unitary on the m low qubits
        if m >= n:
            return None
        return np.kron(rand_state(rng, N // M).reshape(-1, 1), haar(rng, M))
    if fam == "basis_tensor_unitary":         # |j> (x) W
        if m >= n:
            return None
        e = np.zeros((N // M, 1), dtype=complex)
        e[int(rng.integers(N // M))] = 1.0
        return np.kron(e, haar(rng, M))
    if fam == "isometry_tensor_isometry":     # (n1, m1) (x) (n2, m2) product; qubit-interleaving NOT aligned with inputs
        if n < 2 or m < 1 or m >= n:
            return None
        # V = A (x) B with A: 2^(n-m) x 1 state on high qubits... generalised: B is 2^(m+1) x 2^m, A is a state
        if n - m - 1 < 0:
            return None
        a = rand_state(rng, 2 ** (n - m - 1)).reshape(-1, 1)
        b = haar(rng, 2 ** (m + 1))[:, :M]
        return np.kron(a, b)
    if fam == "equal_superposition":          # columns = uniform-modulus vectors (Hadamard with column phases)
        return kron_all([H1] * n)[:, :M] * phases(rng, M)
    if fam == "ghz_like":
        if m != 0:
            return None
        v = np.zeros((N, 1), dtype=complex)
        v[0], v[-1] = 1 / np.sqrt(2), -1 / np.sqrt(2)
        return v
    if fam == "basis_state":
        if m != 0:
            return None
        v = np.zeros((N, 1), dtype=complex)
        v[int(rng.integers(N))] = np.exp(1j * rng.uniform(0, 6))
        return v
    if fam == "product_state":
        if m != 0:
            return None
        return kron_all([rand_state(rng, 2).reshape(2, 1) for _ in range(n)])
    raise ValueError(fam)


FAMILIES = ["haar", "identity_columns", "minus_identity_columns", "last_identity_columns", "permutation_columns",
            "phased_permutation_columns", "signed_permutation_columns", "cyclic_shift_columns", "reversal_columns",
            "diagonal_phases", "diagonal_pm1", "hadamard_columns", "hadamard_random_columns", "hadamard_last_columns",
            "qft_columns", "real_orthogonal", "real_nonpositive", "global_phase_real", "reflection_columns",
            "repeated_spectrum_columns", "zero_pivot", "upper_half_support", "sparse_disjoint", "half_zero_entries",
            "state_tensor_unitary", "basis_tensor_unitary", "isometry_tensor_isometry", "equal_superposition",
            "ghz_like", "basis_state", "product_state"]
DETERMINISTIC = {"identity_columns", "minus_identity_columns", "last_identity_columns", "cyclic_shift_columns",
                 "reversal_columns", "hadamard_columns", "hadamard_last_columns", "qft_columns", "ghz_like"}


def a2_diagnosis(arg, scheme, V2, m):
    """For the known-finding predicates: re-run the decomposition with Qiskit's A.2 rewriting (qclib.unitary._apply_a2,
    imported from qiskit.synthesis.unitary.qsd) switched off.  a2_loss = the circuit is then exact (<= 1e-9), i.e. the
    failure is produced inside Qiskit's two-qubit re-synthesis and not by qclib's decomposition."""
    import qclib.unitary as qu
    from qclib.isometry import decompose
    saved = qu._apply_a2
    try:
        qu._apply_a2 = lambda circuit: circuit
        op = Operator(decompose(arg.copy(), scheme)).data
        err = float(np.abs(op[:, :2 ** m] - V2).max())
    except Exception:  # noqa: BLE001
        err = float("inf")
    finally:
        qu._apply_a2 = saved
    return {"err_without_a2": err, "a2_loss": bool(err < 1e-9)}


def eval_case(ctx, V, scheme, fam, shape1d=False, dtype="complex"):
    """C03 on the implementation for one isometry; True when it holds.  dtype = 'real': a real-valued isometry handed over as float64"""
    from qclib.isometry import decompose
    V = np.asarray(V, dtype=complex)
    V2 = V.reshape(len(V), -1)
    n, m = int(np.log2(V2.shape[0])), int(np.log2(V2.shape[1]))
    case = {"function": "decompose", "scheme": scheme, "n": n, "m": m, "family": fam, "vector_input": bool(shape1d),
            "isometry": jsonable(V2), "dtype": dtype}
    arg = V2[:, 0].copy() if shape1d else V2.copy()
    if dtype == "real":
        arg = np.array(np.real(arg), dtype=float)
    try:
        circ = decompose(arg, scheme)
        op = Operator(circ).data
    except Exception as exc:  # noqa: BLE001
        case["exception"] = f"{type(exc).__name__}: {str(exc)[:200]}"
        case["exception_type"] = type(exc).__name__
        case["raised_in_weyl_decomposition"] = "TwoQubitWeylDecomposition" in str(exc)
        case.update(a2_diagnosis(arg, scheme, V2, m))
        ctx.violation(f"decompose(V, '{scheme}') raised {type(exc).__name__} on a valid {V2.shape[0]}x{V2.shape[1]} "
                      f"isometry ({fam})", case)
        return False
    if circ.num_qubits != n:
        ctx.violation(f"decompose(V, '{scheme}') returned {circ.num_qubits} qubits for n={n}", case)
        return False
    err = float(np.abs(op[:, :2 ** m] - V2).max())
    if not err < TOL:
        case["err"] = err
        case.update(a2_diagnosis(arg, scheme, V2, m))
        ctx.violation(f"decompose(V, '{scheme}'): leading {2 ** m} columns of the operator differ from V by {err:.3g} "
                      f"({fam}, n={n}, m={m})", case)
        return False
    return True


def schemes_for(n):
    return [s for s in SCHEMES if not (s == "knill" and n < 2)]


def run_isometry(ctx, V, fam, n, m):
    key_v = tuple(np.round(V, 12).ravel().tolist())
    for scheme in schemes_for(n):
        ctx.count(f"{scheme}:{fam}", key=(scheme, n, m, key_v), nontrivial=n >= 2,
                  sample={"scheme": scheme, "n": n, "m": m, "column0": jsonable(V[:4, 0])} if (n, m) == (3, 1) else None)
        eval_case(ctx, V, scheme, fam)
        if float(np.abs(np.imag(V)).max()) == 0.0 and n <= 4:
            ctx.count(f"{scheme}:{fam}:real_dtype", key=(scheme, n, m, key_v, "real"), nontrivial=n >= 2)
            eval_case(ctx, V, scheme, fam, dtype="real")
        if m == 0:      # the documented 1-d (state vector) input form
            ctx.count(f"{scheme}:{fam}:1d", key=(scheme, n, "1d", key_v), nontrivial=n >= 2)
            eval_case(ctx, V, scheme, fam, shape1d=True)


def evaluate(ctx, deep):
    nmax = 5
    small = ["haar", "identity_columns", "permutation_columns", "hadamard_columns", "real_orthogonal",
             "diagonal_phases", "zero_pivot", "reflection_columns", "last_identity_columns", "qft_columns"]
    for n in range(1, nmax + 1):
        for m in range(0, n + 1):
            if deep:
                reps = {1: 4, 2: 8, 3: 8, 4: 6, 5: 2}[n]
            else:
                reps = {1: 2, 2: 3, 3: 3, 4: 1, 5: 1}[n]
            if n == 5 and not deep:
                if m not in (0, 2, 5):
                    continue
                fams = small[:5]
            elif n == 5 and m >= 4:
                fams = small
            else:
                fams = FAMILIES
            for fam in fams:
                for r in range(reps):
                    if r > 0 and fam in DETERMINISTIC:
                        break
                    V = make(fam, n, m, ctx.rng)
                    if V is None:
                        break
                    run_isometry(ctx, V, fam, n, m)
    # exhaustive: every choice of 2^m distinct basis columns in every order for n = 2 (m = 0, 1, 2)
    for m in range(0, 3):
        for cols in itertools.permutations(range(4), 2 ** m):
            V = np.eye(4, dtype=complex)[:, list(cols)]
            run_isometry(ctx, V, "all_basis_columns_n2", 2, m)
    # every single Hadamard column and every ordered pair for n = 2, every single column n = 3
    H2 = kron_all([H1] * 2)
    for cols in list(itertools.permutations(range(4), 1)) + list(itertools.permutations(range(4), 2)):
        run_isometry(ctx, H2[:, list(cols)], "all_hadamard_columns_n2", 2, int(np.log2(len(cols))))
    H3 = kron_all([H1] * 3)
    for c in range(8):
        run_isometry(ctx, H3[:, [c]], "all_hadamard_columns_n3", 3, 0)
    pairs = list(itertools.combinations(range(8), 2))
    for cols in (pairs if deep else pairs[::3]):
        run_isometry(ctx, H3[:, list(cols)], "hadamard_pairs_n3", 3, 1)
    # n = 3 basis columns: every pair (m = 1)
    for cols in (list(itertools.permutations(range(8), 2)) if deep else list(itertools.permutations(range(8), 2))[::4]):
        run_isometry(ctx, np.eye(8, dtype=complex)[:, list(cols)], "basis_pairs_n3", 3, 1)


def replay(ctx, case):
    V = unjson_array(case["isometry"]).astype(complex)
    return eval_case(ctx, V, case["scheme"], case.get("family", "replay"), shape1d=case.get("vector_input", False),
                     dtype=case.get("dtype", "complex"))
