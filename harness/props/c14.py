"""C14 - mixed-state preparation."""
import numpy as np
from harness.coqcases import run_bool_cases
from harness.props._common import run_eval, replay_eval
from harness.props import c16

PROPS_FILES = ["P_C14", "P_C14mx"]
PROPS_FILE = "P_C14"
GEN_FILES = ["Gen_validate"]
COQ_TARGETS = ["CaseLib"]
RULE = ("tie (a): probability validation predicate regenerated from mixed.py and compared with MixedInitialize's accept/reject "
        "decisions; tie (d): the vector handed to the inner initializer in classical mode is logged and compared with the "
        "purification matrix Psi[a,i] = sqrt(p_i) psi_i[a] (auxiliary index in the low ceil(log2 k) bits) that the theorem is about, "
        "and the premise s_i*conj(s_i) = p_i is checked; direct evaluation (harness/props/c14_eval.py): partial trace of the "
        "output vs the ensemble density matrix, both modes. distinct = distinct ensembles; non-trivial = k >= 2")
ASSUMPTIONS = ["the inner initializer prepares the vector it is given (property C01)", "in-circuit mode relies on Qiskit's .control(ctrl_state); evaluated, not proved"]
TRUSTED = ["numpy reshape convention (index = data*2^c + aux) checked against an explicit loop in the harness"]


def monitor_purification(ctx):
    from qclib.state_preparation import MixedInitialize, LowRankInitialize
    rng = ctx.rng
    recorded = []

    class Recorder(LowRankInitialize):
        def __init__(self, params, label=None, opt_params=None):
            recorded.append(np.array(params, dtype=complex).copy())
            super().__init__(params, label=label, opt_params=opt_params)

    for n in (1, 2, 3):
        for k in (1, 2, 3, 4, 5) if ctx.quick else (1, 2, 3, 4, 5, 6, 7, 9):
            d = 2 ** n
            states = []
            for i in range(k):
                v = rng.normal(size=d) + 1j * rng.normal(size=d)
                if i % 3 == 1:
                    v[rng.random(d) < 0.5] = 0
                    if not v.any():
                        v[0] = 1
                states.append(v / np.linalg.norm(v))
            p = rng.random(k) + 0.05
            p = p / p.sum()
            recorded.clear()
            g = MixedInitialize(states, initializer=Recorder, probabilities=list(p), classical=True, reset=False)
            _ = g.definition
            c = int(np.ceil(np.log2(k))) if k > 1 else 0
            # the vector given to the inner initializer at definition time (the constructor also probes params[0])
            cand = [r for r in recorded if r.shape[0] == d * 2 ** c]
            ctx.monitor("purification_vector", 1)
            ctx.count("monitor:purification", key=("pur", n, k, tuple(np.round(p, 6))), nontrivial=k >= 2,
                      sample={"n": n, "k": k, "probabilities": list(p)} if (n, k) == (2, 3) else None)
            if not cand:
                ctx.mismatch("C14 monitor: no purification vector was handed to the inner initializer", {"n": n, "k": k})
                continue
            vec = cand[-1]
            ok = True
            for a in range(d):
                for i in range(2 ** c):
                    want = np.sqrt(p[i]) * states[i][a] if i < k else 0.0
                    if abs(vec[a * 2 ** c + i] - want) > 1e-12:
                        ok = False
            s = np.sqrt(p)
            if np.abs(s * np.conj(s) - p).max() > 1e-14:
                ok = False
            if not ok:
                ctx.mismatch("C14 monitor: the vector handed to the inner initializer is not the purification "
                             "Psi[a,i] = sqrt(p_i) psi_i[a] of the theorem", {"n": n, "k": k, "probabilities": list(p)})


def run(ctx):
    cases, lines = [], []
    c16.tv_probs(ctx, cases, lines)
    for c in cases:
        ctx.count("tv:" + c[0], key=c[:-1], nontrivial=not c[-1],
                  sample={"function": c[0], "input": list(c[1:-1]), "accepted": c[-1]} if (c[1] == 3 and not c[-1]) else None)

    def on_fail(c):
        ctx.mismatch(f"C14: accept/reject decision of {c[0]} on {c[1:-1]} differs from the predicate regenerated from the source",
                     {"function": c[0], "input": list(c[1:-1]), "accepted": c[-1]})
    run_bool_cases(ctx, "c14_tv", c16.HEADER, lines, cases, on_fail, shard=300)
    monitor_purification(ctx)
    run_eval(ctx, "C14")


def search(ctx):
    run_eval(ctx, "C14", deep=True)


def replay(ctx, case):
    return replay_eval(ctx, "C14", case)


MANIFEST = dict(
    text="Proof: tracing the auxiliary register out of the purification sum_i s_i|psi_i>|i> with s_i conj(s_i)=p_i leaves sum_i p_i|psi_i><psi_i| for any ensemble size and dimension (C14_partial_trace_purification, any field); that matrix has trace one for normalised states and probabilities summing to one and is Hermitian for real probabilities (C14_reduced_state_trace_one, C14_reduced_state_hermitian; C14_purification_normalised: the vector handed to the inner initializer has norm one) and its quadratic form is sum_i p_i |<psi_i|x>|^2 (C14_reduced_state_quadratic_form: positive semi-definite); accepted probability vectors lie in [0,1] and sum to 1 within 1e-9 relative (C14_probs_accept, predicate regenerated from the source). Tie: translator + decision comparison; the vector handed to the inner initializer is logged and compared with the theorem's purification matrix. In-circuit mode and the partial trace of the output are evaluated.",
    note='Modelled, not verified: the inner initializer (C01), Qiskit .control(ctrl_state) in the in-circuit mode.',
    technique='Coq/mathcomp proof + translator-regenerated validation predicate + logged-intermediate monitor + partial-trace evaluation',
    design_ref='DESIGN.md section 4, C14')
