"""C05 - multi-controlled X gates are exact permutations that restore borrowed qubits; majority gate.

Direct evaluation on the implementation in /repo:

* McxVchainDirty(k, num_target_qubit=nt, ctrl_state, relative_phase, action_only).definition
  layout: controls 0..k-1, borrowed qubits k..k+max(k-2,0)-1, targets after them.
* LinearMcx(k, ctrl_state, action_only).definition   layout: controls 0..k-1, target k, borrowed qubit k+1.
* qclib.gates.majority.operate(circuit, controls, target).

Reference: the classical permutation "flip every target iff control i equals bit i of the pattern" (pattern string
read in reverse order: its last character belongs to control 0), computed with numpy index arithmetic only.
Small widths are compared as full operators, larger ones by evolving random / structured state vectors in which the
borrowed qubits are in superposition and entangled with the rest.

modes
  exact        operator == permutation (identity on the borrowed qubits whatever their state)
  relphase     single target: |operator| == permutation and every non-zero entry has modulus 1
  action_only  internal mode (ancillas need not be restored): only "the target bits of every output basis state are
               those of the input, flipped iff the input controls match" is demanded
"""
import contextlib
import ctypes
import glob
import os
import warnings
from math import comb

import numpy as np
from qiskit import QuantumCircuit
from qiskit.quantum_info import Operator, Statevector

warnings.filterwarnings("ignore")

TOL = 1e-6
OP_MAX_QUBITS = 8          # full operators up to this width, state evolution above


# --------------------------------------------------------------------------------------------
# BLAS threading: 2x2 gates on 2^n-vectors are memory bound; OpenBLAS' default thread pool makes them ~10x slower
# (and burns every core).  Best effort, restored afterwards.
# --------------------------------------------------------------------------------------------
def _openblas_handles():
    out = []
    base = os.path.dirname(np.__file__)
    for pat in ("../numpy.libs/*openblas*.so*", "../scipy.libs/*openblas*.so*", "../scipy_openblas64/lib/*openblas*.so*"):
        for path in sorted(glob.glob(os.path.join(base, pat))):
            try:
                lib = ctypes.CDLL(path)
            except OSError:
                continue
            for prefix in ("scipy_openblas_", "openblas_"):
                for suffix in ("64_", ""):
                    setter = getattr(lib, f"{prefix}set_num_threads{suffix}", None)
                    getter = getattr(lib, f"{prefix}get_num_threads{suffix}", None)
                    if setter is not None and getter is not None:
                        out.append((setter, getter))
                        break
                else:
                    continue
                break
    return out


@contextlib.contextmanager
def blas_threads(n):
    saved = []
    try:
        for setter, getter in _openblas_handles():
            saved.append((setter, int(getter())))
            setter(int(n))
    except Exception:
        pass
    try:
        yield
    finally:
        for setter, old in saved:
            try:
                setter(old)
            except Exception:
                pass


# --------------------------------------------------------------------------------------------
# reference
# --------------------------------------------------------------------------------------------
def pattern_of(k, ctrl_state):
    """integer whose bit i is the required value of control i"""
    if ctrl_state is None:
        return (1 << k) - 1
    assert len(ctrl_state) == k
    return int(ctrl_state, 2)          # last character <-> control 0


def match_mask(nq, controls, pat):
    idx = np.arange(1 << nq)
    m = np.ones(1 << nq, dtype=bool)
    for i, c in enumerate(controls):
        m &= ((idx >> c) & 1) == ((pat >> i) & 1)
    return idx, m


def perm_source(nq, controls, pat, targets):
    """src with (P v)[i] = v[src[i]] for the involution P = flip targets iff controls match"""
    idx, m = match_mask(nq, controls, pat)
    tmask = 0
    for t in targets:
        tmask |= 1 << t
    return np.where(m, idx ^ tmask, idx), m, tmask


# --------------------------------------------------------------------------------------------
# implementation under evaluation
# --------------------------------------------------------------------------------------------
def build(case):
    """returns (circuit, controls, borrowed, targets)"""
    from qclib.gates.mcx import McxVchainDirty, LinearMcx
    k = case["k"]
    cs = case["ctrl_state"]
    if case["class"] == "McxVchainDirty":
        nt = case["nt"]
        gate = McxVchainDirty(k, num_target_qubit=nt, ctrl_state=cs,
                              relative_phase=case["relative_phase"], action_only=case["action_only"])
        circ = gate.definition
        na = max(k - 2, 0)
        controls = list(range(k))
        borrowed = list(range(k, k + na))
        targets = list(range(k + na, k + na + nt))
    elif case["class"] == "LinearMcx":
        gate = LinearMcx(k, ctrl_state=cs, action_only=case["action_only"])
        circ = gate.definition
        controls = list(range(k))
        targets = [k]
        borrowed = [k + 1]
    else:
        raise ValueError(case["class"])
    return circ, controls, borrowed, targets


def width_of(case):
    k = case["k"]
    if case["class"] == "McxVchainDirty":
        return k + max(k - 2, 0) + case["nt"]
    return k + 2


# --------------------------------------------------------------------------------------------
# states
# --------------------------------------------------------------------------------------------
STATE_FAMILIES = ["haar", "ctrl_match", "product", "borrowed_plus", "real_neg"]


def make_state(rng, fam, nq, controls, borrowed, targets, pat):
    n_dim = 1 << nq
    if fam == "haar":
        v = rng.normal(size=n_dim) + 1j * rng.normal(size=n_dim)
    elif fam == "unimod":                                   # all moduli equal, random phases
        v = np.exp(1j * rng.uniform(0, 2 * np.pi, n_dim))
    elif fam == "real_neg":
        v = -np.abs(rng.normal(size=n_dim)) - 0.05
        v = v.astype(complex)
    elif fam == "product":
        v = np.array([1.0 + 0j])
        for _ in range(nq):
            q = rng.normal(size=2) + 1j * rng.normal(size=2)
            v = np.kron(q / np.linalg.norm(q), v)
    elif fam == "ctrl_match":                               # controls in the matching basis state, rest random
        idx, m = match_mask(nq, controls, pat)
        v = (rng.normal(size=n_dim) + 1j * rng.normal(size=n_dim)) * m
    elif fam == "borrowed_plus":                            # borrowed qubits in |+>/|-> products, controls one bit off
        idx = np.arange(n_dim)
        off = int(rng.integers(len(controls)))
        patx = pat ^ (1 << off) if rng.random() < 0.5 else pat
        _, m = match_mask(nq, controls, patx)
        sign = np.ones(n_dim)
        for b in borrowed:
            if rng.random() < 0.5:
                sign = sign * np.where((idx >> b) & 1, -1.0, 1.0)
        tv = rng.normal(size=n_dim) + 1j * rng.normal(size=n_dim)
        # amplitude depends on the target bits only
        tbits = np.zeros(n_dim, dtype=int)
        for j, t in enumerate(targets):
            tbits |= ((idx >> t) & 1) << j
        v = m * sign * tv[tbits]
    else:
        raise ValueError(fam)
    return v / np.linalg.norm(v)


# --------------------------------------------------------------------------------------------
# evaluation of one case
# --------------------------------------------------------------------------------------------
def describe(case):
    opts = []
    if case["class"] == "McxVchainDirty":
        opts.append(f"num_target_qubit={case['nt']}")
    opts.append(f"ctrl_state={case['ctrl_state']!r}")
    if case.get("relative_phase"):
        opts.append("relative_phase=True")
    if case.get("action_only"):
        opts.append("action_only=True")
    return f"{case['class']}({case['k']}, {', '.join(opts)})"


def eval_case(ctx, case):
    """property C05 on one gate instance; True when it holds"""
    mode = case["mode"]
    k = case["k"]
    try:
        circ, controls, borrowed, targets = build(case)
    except Exception as exc:  # the gate must exist for every documented parameter combination
        ctx.violation(f"{describe(case)}: building the definition raises {type(exc).__name__}: {str(exc)[:120]}", case)
        return False
    nq = width_of(case)
    if circ.num_qubits != nq:
        ctx.violation(f"{describe(case)}: definition acts on {circ.num_qubits} qubits, expected "
                      f"{nq} (controls + borrowed + targets)", case)
        return False
    pat = pattern_of(k, case["ctrl_state"])
    src, m, tmask = perm_source(nq, controls, pat, targets)
    idx = np.arange(1 << nq)

    if case["eval"] == "operator":
        mat = Operator(circ).data
        expected = np.zeros((1 << nq, 1 << nq))
        expected[src, idx] = 1.0                      # column i (input i) -> row P(i)
        if mode == "exact":
            err = float(np.abs(mat - expected).max())
            if err >= TOL:
                ctx.violation(f"{describe(case)}: operator differs from the permutation 'flip targets iff controls "
                              f"match' by {err:.3g} (borrowed qubits included)", dict(case, err=err))
                return False
        elif mode == "relphase":
            err = float(np.abs(np.abs(mat) - expected).max())
            if err >= TOL:
                ctx.violation(f"{describe(case)}: |operator| is not the permutation with unit-modulus entries "
                              f"(max deviation {err:.3g})", dict(case, err=err))
                return False
        else:   # action_only: weight outside "target bits = input target bits xor match" must vanish
            out_t = (idx & tmask)[:, None]
            in_t = ((idx & tmask) ^ (m * tmask))[None, :]
            bad = np.abs(mat) * (out_t != in_t)
            err = float(bad.max())
            if err >= TOL:
                ctx.violation(f"{describe(case)}: action-only gate does not flip the targets exactly iff the "
                              f"controls match (stray amplitude {err:.3g})", dict(case, err=err))
                return False
        return True

    # ---- state evolution
    rng = np.random.default_rng(case["state_seed"])
    ok = True
    ratio = None
    fams = case["states"]
    for fam in fams:
        v = make_state(rng, fam, nq, controls, borrowed, targets, pat)
        w = Statevector(v).evolve(circ).data
        if mode == "exact":
            err = float(np.abs(w - v[src]).max())
            if err >= TOL:
                ctx.violation(f"{describe(case)}: evolved {fam} state differs from the permuted state by {err:.3g} "
                              f"({nq} qubits, borrowed qubits in superposition)", dict(case, err=err, failing_state=fam))
                ok = False
                break
        elif mode == "relphase":
            if ratio is None:
                assert fam == "unimod"
                ratio = w / v[src]
                err = float(np.abs(np.abs(ratio) - 1.0).max())
                what = "moduli are not preserved along the permutation"
            else:
                err = float(np.abs(w - ratio * v[src]).max()) * np.sqrt(1 << nq)
                what = "the phases are not a fixed diagonal (differ between two input states)"
            if err >= TOL * 10:
                ctx.violation(f"{describe(case)}: relative-phase gate is not permutation x unit diagonal: {what} "
                              f"(deviation {err:.3g}, {nq} qubits)", dict(case, err=err, failing_state=fam))
                ok = False
                break
        else:   # action_only
            # project the input on each (match, target-bits) sector and compare the sector weights after evolution
            p_in = np.abs(v) ** 2
            p_out = np.abs(w) ** 2
            key_in = (idx & tmask) ^ (m * tmask)          # target bits every output component must carry
            # total output weight per target-bit value must equal the input weight mapped there
            err = 0.0
            tvals = np.unique(idx & tmask)
            for tv in tvals:
                err = max(err, abs(float(p_out[(idx & tmask) == tv].sum() - p_in[key_in == tv].sum())))
            if err >= 1e-7:
                ctx.violation(f"{describe(case)}: action-only gate moves probability {err:.3g} to the wrong target "
                              f"value for a {fam} state", dict(case, err=err, failing_state=fam))
                ok = False
                break
    return ok


# --------------------------------------------------------------------------------------------
# majority
# --------------------------------------------------------------------------------------------
class Recorder:
    """stands in for a QuantumCircuit: records the emitted mcx instructions as control bit masks"""

    def __init__(self):
        self.masks = []
        self.targets = set()

    def mcx(self, controls, target, *args, **kwargs):
        mk = 0
        for c in controls:
            mk |= 1 << int(c)
        self.masks.append(mk)
        self.targets.add(int(target))


def majority_inputs(rng, n, all_inputs):
    if all_inputs:
        return list(range(1 << n))
    xs = set()
    for w in range(n + 1):
        xs.add((1 << w) - 1)                       # lowest w controls
        xs.add(((1 << w) - 1) << (n - w))          # highest w controls
        for _ in range(3):
            pos = rng.choice(n, size=w, replace=False)
            xs.add(int(sum(1 << int(p) for p in pos)))
    return sorted(xs)


def eval_majority_replay(ctx, case):
    """replay the emitted mcx instructions classically on bit vectors"""
    from qclib.gates import majority
    n = case["n"]
    rec = Recorder()
    try:
        majority.operate(rec, list(range(n)), n)
    except Exception as exc:
        ctx.violation(f"majority.operate with {n} controls raises {type(exc).__name__}: {str(exc)[:100]}", case)
        return False
    if rec.targets - {n}:
        ctx.violation(f"majority.operate with {n} controls emits an mcx on a qubit other than the target", case)
        return False
    masks = np.array(rec.masks, dtype=np.uint64)
    full = np.uint64((1 << n) - 1)
    if case.get("inputs") is not None:
        xs = [int(x) for x in case["inputs"]]
    else:
        xs = majority_inputs(np.random.default_rng(case["state_seed"]), n, case["all_inputs"])
    for x in xs:
        notx = np.uint64(~x & ((1 << n) - 1)) & full
        flips = int(np.count_nonzero((masks & notx) == 0)) & 1
        w = bin(x).count("1")
        want = 1 if 2 * w >= n else 0
        if flips != want:
            ctx.violation(f"majority.operate with {n} controls: input of weight {w} -> target "
                          f"{'flipped' if flips else 'not flipped'}, majority demands {'flip' if want else 'no flip'} "
                          f"(classical replay of the {len(rec.masks)} emitted mcx)",
                          dict(case, inputs=[x], weight=w, emitted=len(rec.masks)))
            return False
    return True


def observed_degrees(n):
    """degree list used by majority.operate for n controls, observed without enumerating the subsets:
    itertools.combinations is substituted in the module namespace while operate runs"""
    from qclib.gates import majority
    seen = []
    orig = majority.combinations

    def fake(controls, r):
        seen.append((len(list(controls)), int(r)))
        return iter(())

    majority.combinations = fake
    try:
        majority.operate(Recorder(), list(range(n)), n)
    finally:
        majority.combinations = orig
    return seen


def eval_majority_degrees(ctx, case):
    n = case["n"]
    try:
        seen = observed_degrees(n)
    except Exception as exc:
        ctx.violation(f"majority.operate with {n} controls raises {type(exc).__name__}: {str(exc)[:100]}", case)
        return False
    if any(m != n for m, _ in seen):
        ctx.violation(f"majority.operate with {n} controls enumerates subsets of a list of another length", case)
        return False
    degs = [d for _, d in seen]
    for w in range(n + 1):
        flips = sum(comb(w, d) for d in degs) & 1
        want = 1 if 2 * w >= n else 0
        if flips != want:
            ctx.violation(f"majority.operate with {n} controls (subset sizes {degs[:12]}): inputs of weight {w} -> "
                          f"target {'flipped' if flips else 'not flipped'}, majority demands "
                          f"{'flip' if want else 'no flip'}", dict(case, weight=w, degrees=degs))
            return False
    return True


def eval_majority_operator(ctx, case):
    """real QuantumCircuit, controls/target at arbitrary positions plus spectators, full operator"""
    from qclib.gates import majority
    n = case["n"]
    controls = case["controls"]
    target = case["target"]
    nq = case["width"]
    qc = QuantumCircuit(nq)
    try:
        majority.operate(qc, list(controls), target)
        mat = Operator(qc).data
    except Exception as exc:
        ctx.violation(f"majority.operate with {n} controls on a QuantumCircuit raises {type(exc).__name__}: "
                      f"{str(exc)[:100]}", case)
        return False
    idx = np.arange(1 << nq)
    weight = np.zeros(1 << nq, dtype=int)
    for c in controls:
        weight += (idx >> c) & 1
    src = np.where(2 * weight >= n, idx ^ (1 << target), idx)
    expected = np.zeros((1 << nq, 1 << nq))
    expected[src, idx] = 1.0
    err = float(np.abs(mat - expected).max())
    if err >= TOL:
        ctx.violation(f"majority.operate with {n} controls: operator differs from 'flip the target iff at least half "
                      f"of the controls are 1' by {err:.3g}", dict(case, err=err))
        return False
    return True


# --------------------------------------------------------------------------------------------
# generators
# --------------------------------------------------------------------------------------------
def cs_string(k, p):
    return format(p, "0%db" % k)


def patterns_for(rng, k, all_upto, n_random):
    """list of ctrl_state values: None, then every pattern (k <= all_upto) or structured + random ones"""
    out = [None]
    if k <= all_upto:
        out += [cs_string(k, p) for p in range(1 << k)]
        return out
    full = (1 << k) - 1
    structured = [full, 0, 1, 1 << (k - 1), full ^ 1, full ^ (1 << (k - 1)),
                  int("01" * k, 2) & full, int("10" * k, 2) & full,
                  (1 << (k // 2)) - 1, full ^ ((1 << (k // 2)) - 1)]
    seen = []
    for p in structured:
        if p not in seen:
            seen.append(p)
    seen = seen[:max(2, min(len(seen), n_random))]
    while len(seen) < n_random + 2:
        p = int(rng.integers(1 << k))
        if p not in seen:
            seen.append(p)
    return out + [cs_string(k, p) for p in seen]


def run_gate_case(ctx, case):
    nq = width_of(case)
    case["n"] = nq
    case["eval"] = "operator" if nq <= OP_MAX_QUBITS else "states"
    if case["eval"] == "states":
        case["state_seed"] = int(ctx.rng.integers(1 << 62))
        if case["mode"] == "relphase":
            extra = STATE_FAMILIES[int(ctx.rng.integers(len(STATE_FAMILIES)))]
            case["states"] = ["unimod", "haar", extra] if extra != "haar" else ["unimod", "haar"]
        else:
            extra = STATE_FAMILIES[1 + int(ctx.rng.integers(len(STATE_FAMILIES) - 1))]
            case["states"] = ["haar", "ctrl_match", extra] if extra != "ctrl_match" else ["haar", "ctrl_match"]
    short = "vchain" if case["class"] == "McxVchainDirty" else "linear"
    fam = f"{short}:{case['mode']}:{case['eval']}"
    if case["class"] == "McxVchainDirty":
        fam += f":nt{case['nt']}"
    case["family"] = fam
    key = (case["class"], case["k"], case.get("nt"), case["ctrl_state"], case["mode"], case.get("state_seed"))
    sample = None
    if case["k"] == 4 and case["ctrl_state"] == "0110":
        sample = {k: v for k, v in case.items() if k != "state_seed"}
    ctx.count(fam, key=key, nontrivial=True, sample=sample)
    ctx.max_struct_qubits = max(ctx.max_struct_qubits, nq)
    return eval_case(ctx, case)


def vchain_case(k, nt, cs, mode):
    return {"class": "McxVchainDirty", "k": k, "nt": nt, "ctrl_state": cs, "mode": mode,
            "relative_phase": mode == "relphase", "action_only": mode == "action_only"}


def linear_case(k, cs, mode):
    return {"class": "LinearMcx", "k": k, "ctrl_state": cs, "mode": mode, "relative_phase": False,
            "action_only": mode == "action_only"}


def evaluate(ctx, deep):
    with blas_threads(1):
        _evaluate(ctx, deep)


def _evaluate(ctx, deep):
    rng = ctx.rng
    # ---------------- V-chain: width 2k-2+nt
    all_upto = 6 if deep else 5              # every pattern, every mode, every target count
    kmax_v = 10 if deep else 7
    qmax = 20 if deep else 13
    for k in range(1, kmax_v + 1):
        for nt in (1, 2, 3):
            nq = k + max(k - 2, 0) + nt
            if nq > qmax:
                continue
            modes = ["exact", "action_only"] + (["relphase"] if nt == 1 else [])
            for mode in modes:
                upto = all_upto + 1 if (mode == "exact" and nt == 1) else all_upto
                if nq >= 17:
                    nrand = 4 if mode == "exact" else 2
                elif deep:
                    nrand = 12 if mode == "exact" else 6
                else:
                    nrand = 8 if mode == "exact" else 4
                pats = patterns_for(rng, k, upto, nrand)
                if nq >= 17:
                    pats = pats[1:]            # None == all ones is the first structured pattern anyway
                for cs in pats:
                    run_gate_case(ctx, vchain_case(k, nt, cs, mode))
    # ---------------- linear MCX: width k+2
    all_upto_l = 7 if deep else 6
    kmax_l = 18 if deep else 11
    for k in range(1, kmax_l + 1):
        for mode in ("exact", "action_only"):
            upto = all_upto_l + 1 if mode == "exact" else all_upto_l
            if k + 2 >= 17:
                nrand = 4 if mode == "exact" else 2
            elif deep:
                nrand = 12 if mode == "exact" else 4
            else:
                nrand = 8 if mode == "exact" else 3
            pats = patterns_for(rng, k, upto, nrand)
            if k + 2 >= 17:
                pats = pats[1:]
            for cs in pats:
                run_gate_case(ctx, linear_case(k, cs, mode))
    # ---------------- majority
    evaluate_majority(ctx, deep)


def evaluate_majority(ctx, deep):
    rng = ctx.rng
    # (a) real circuits, full operator; controls / target at arbitrary positions, spectator qubits present
    nmax_op = 8 if deep else 7
    for n in range(1, nmax_op + 1):
        for rep in range(2 if n <= 6 else 1):
            extra = int(rng.integers(0, 2)) if n < nmax_op else 0
            width = n + 1 + extra
            if rep == 0:
                perm = list(range(width))
            else:
                perm = [int(x) for x in rng.permutation(width)]
            case = {"function": "majority.operate", "eval": "operator", "n": n, "controls": perm[:n],
                    "target": perm[n], "width": width, "family": "majority:operator"}
            ctx.count("majority:operator", key=("maj-op", n, tuple(perm)), nontrivial=True,
                      sample=case if n == 3 else None)
            eval_majority_operator(ctx, case)
    # (b) classical replay of every emitted mcx
    nmax_replay = 24 if deep else 21
    for n in range(1, nmax_replay + 1):
        case = {"function": "majority.operate", "eval": "replay", "n": n, "all_inputs": n <= 12,
                "state_seed": int(rng.integers(1 << 62)), "family": "majority:replay"}
        ctx.count("majority:replay", key=("maj-replay", n, case["state_seed"]), nontrivial=True,
                  sample=case if n == 5 else None)
        eval_majority_replay(ctx, case)
    # (c) every weight, subset sizes observed (the instruction list has C(n, n/2) entries and is not enumerated)
    nmax_deg = 512 if deep else 96
    for n in range(1, nmax_deg + 1):
        case = {"function": "majority.operate", "eval": "degrees", "n": n, "family": "majority:degrees"}
        ctx.count("majority:degrees", key=("maj-deg", n), nontrivial=True, sample=case if n == 19 else None)
        eval_majority_degrees(ctx, case)
    ctx.note("majority: the emitted mcx list is replayed on bit vectors for n <= %d; above that operate() would emit "
             "C(n, n/2) instructions, so the subset sizes are observed (itertools.combinations substituted in the "
             "module namespace) and the flip parity sum_k C(w, k) mod 2 is evaluated for every weight w" % nmax_replay)


def replay(ctx, case):
    case = dict(case)
    if case.get("function") == "majority.operate":
        if case["eval"] == "operator":
            return eval_majority_operator(ctx, case)
        if case["eval"] == "replay":
            return eval_majority_replay(ctx, case)
        return eval_majority_degrees(ctx, case)
    for extra in ("err", "failing_state"):
        case.pop(extra, None)
    with blas_threads(1):
        return eval_case(ctx, case)
