"""C04 - multi-controlled one-qubit gates equal the ideal controlled operator.

Direct evaluation on the implementation in /repo of

  Ldmcu, Qdmcu, Mcg                 every U in U(2)
  Ldmcsu, LdMcSpecialUnitary        every U in SU(2) (Mcg dispatches to Ldmcsu there)
  Mcg(up_to_diagonal=True)          operator * (ideal)^-1 must be a unit-modulus diagonal
  MultiTargetMCSU2                  list of axis rotations, one per target, shared controls
  MCU (approximate)                 ||operator - ideal||_2 <= error whenever the constructor accepts the parameters

against a numpy reference "apply U to the target iff control i equals bit i of the pattern" (the ctrl_state string is
read in reverse order: its last character belongs to control 0, as in qclib.gates.util.apply_ctrl_state and Qiskit).
Layout of every definition: controls 0..k-1, then the target(s).  Up to 7 qubits the full operator is compared,
above that random / structured state vectors are evolved (the state concentrated on the matching control value is
always among them, since only 2 of the 2^n columns of the ideal operator differ from the identity).
"""
import contextlib
import ctypes
import glob
import os
import warnings

import numpy as np
from qiskit import QuantumCircuit
from qiskit.quantum_info import Operator, Statevector

warnings.filterwarnings("ignore")

TOL = 1e-6
OP_MAX_QUBITS = 7


# --------------------------------------------------------------------------------------------
# BLAS threading (2x2 gates on 2^n vectors are memory bound; OpenBLAS' thread pool makes them ~10x slower)
# --------------------------------------------------------------------------------------------
def _openblas_handles():
    out = []
    base = os.path.dirname(np.__file__)
    for pat in ("../numpy.libs/*openblas*.so*", "../scipy.libs/*openblas*.so*", "../scipy_openblas64/lib/*openblas*.so*"):
        for path in sorted(glob.glob(os.path.join(base, pat))):
            try:
                lib = ctypes.CDLL(path)
            except OSError:
                continue
            for prefix in ("scipy_openblas_", "openblas_"):
                for suffix in ("64_", ""):
                    setter = getattr(lib, f"{prefix}set_num_threads{suffix}", None)
                    getter = getattr(lib, f"{prefix}get_num_threads{suffix}", None)
                    if setter is not None and getter is not None:
                        out.append((setter, getter))
                        break
                else:
                    continue
                break
    return out


@contextlib.contextmanager
def blas_threads(n):
    saved = []
    try:
        for setter, getter in _openblas_handles():
            saved.append((setter, int(getter())))
            setter(int(n))
    except Exception:
        pass
    try:
        yield
    finally:
        for setter, old in saved:
            try:
                setter(old)
            except Exception:
                pass


# --------------------------------------------------------------------------------------------
# 2x2 matrices
# --------------------------------------------------------------------------------------------
def rx(t):
    return np.array([[np.cos(t / 2), -1j * np.sin(t / 2)], [-1j * np.sin(t / 2), np.cos(t / 2)]], dtype=complex)


def ry(t):
    return np.array([[np.cos(t / 2), -np.sin(t / 2)], [np.sin(t / 2), np.cos(t / 2)]], dtype=complex)


def rz(t):
    return np.array([[np.exp(-1j * t / 2), 0], [0, np.exp(1j * t / 2)]], dtype=complex)


ROT = {"x": rx, "y": ry, "z": rz}
X = np.array([[0, 1], [1, 0]], dtype=complex)
Y = np.array([[0, -1j], [1j, 0]], dtype=complex)
Z = np.array([[1, 0], [0, -1]], dtype=complex)
H = np.array([[1, 1], [1, -1]], dtype=complex) / np.sqrt(2)
I2 = np.eye(2, dtype=complex)


def mat_to_json(m):
    m = np.asarray(m, dtype=complex)
    return [[[float(m[i, j].real).hex(), float(m[i, j].imag).hex()] for j in range(2)] for i in range(2)]


def mat_from_json(js, dtype="complex"):
    m = np.array([[complex(float.fromhex(e[0]), float.fromhex(e[1])) for e in row] for row in js], dtype=complex)
    if dtype == "float":
        return np.ascontiguousarray(m.real)
    return m


# fixed boundary matrices of SU(2): they select the code branches (exact zeros / exact real parts)
SU2_FIXED = {
    "I": I2,
    "-I": -I2,
    "iX": 1j * X,
    "-iX": -1j * X,                                   # RX(pi)
    "iY": np.array([[0, 1], [-1, 0]], dtype=complex),
    "RY(pi)": np.array([[0, -1], [1, 0]], dtype=complex),
    "iZ": np.diag([1j, -1j]),
    "RZ(pi)": np.diag([-1j, 1j]),
    "iH": 1j * H,
    "RY(pi)_fp": ry(np.pi),                          # as computed in floating point (6e-17 on the diagonal)
    "RZ(pi)_fp": rz(np.pi),
    "RX(pi)_fp": rx(np.pi),
    "RY(pi/2)": ry(np.pi / 2),
    "RX(pi/2)": rx(np.pi / 2),
    "RZ(pi/2)": rz(np.pi / 2),
}
SU2_RANDOM = ["diag", "antidiag", "real_rot", "rx", "xy_axis", "yz_axis", "general", "general2",
              "near_I", "near_-I", "near_diag", "near_antidiag", "near_real", "real_near_2pi"]
U2_FIXED = {
    "X": X, "Y": Y, "Z": Z, "H": H,
    "S": np.diag([1, 1j]), "T": np.diag([1, np.exp(0.25j * np.pi)]),
    "sqrtX": 0.5 * np.array([[1 + 1j, 1 - 1j], [1 - 1j, 1 + 1j]]),
    "iI": 1j * I2,
}
U2_RANDOM = ["phase_gate", "scalar", "phase_x_su2", "phase_x_boundary", "i_x_su2", "near_scalar"]
REAL_FAMILIES = {"I", "-I", "iY", "RY(pi)", "RY(pi)_fp", "RY(pi/2)", "real_rot", "real_near_2pi", "X", "Z", "H",
                 "near_minusI_real", "real_rot_2pi_fp"}


def angle(rng, lo=0.15, hi=3.0):
    """random angle kept away from 0 and pi by 0.1 (no accidental threshold cases)"""
    a = float(rng.uniform(lo, hi))
    return a if rng.random() < 0.5 else -a


def su2_random(rng, fam):
    if fam == "diag":
        return rz(angle(rng))
    if fam == "antidiag":
        p = angle(rng)
        return np.array([[0, -np.exp(-1j * p)], [np.exp(1j * p), 0]], dtype=complex)
    if fam == "real_rot":
        return ry(angle(rng, 0.15, 6.0))
    if fam == "rx":
        return rx(angle(rng, 0.15, 6.0))
    if fam == "xy_axis":                     # real main diagonal, complex secondary diagonal
        a, b = angle(rng), angle(rng)
        return np.array([[np.cos(b / 2), -np.exp(-1j * a) * np.sin(b / 2)],
                         [np.exp(1j * a) * np.sin(b / 2), np.cos(b / 2)]], dtype=complex)
    if fam == "yz_axis":                     # complex main diagonal, real secondary diagonal
        a, b = angle(rng), angle(rng)
        c, s = np.cos(b / 2), np.sin(b / 2)
        return np.array([[c - 1j * s * np.cos(a), -s * np.sin(a)], [s * np.sin(a), c + 1j * s * np.cos(a)]], dtype=complex)
    if fam in ("general", "general2"):
        return rz(angle(rng)) @ ry(angle(rng)) @ rz(angle(rng))
    eps = 1e-3 if rng.random() < 0.5 else 1e-5
    a, b, c = (float(x) for x in rng.uniform(0.3, 3.0, 3))
    if fam == "near_I":
        return rz(eps * a) @ ry(eps * b) @ rz(eps * c)
    if fam == "near_-I":
        return -(rz(eps * a) @ ry(eps * b) @ rz(eps * c))
    if fam == "near_diag":
        return rz(a) @ ry(eps * b) @ rz(c)
    if fam == "near_antidiag":
        return rz(a) @ ry(np.pi - eps * b) @ rz(c)
    if fam == "near_real":
        return rz(eps * a) @ ry(b) @ rz(eps * c)
    if fam == "real_near_2pi":               # real rotation 1e-3 away from -I (safe side of the cancellation)
        return ry((2 * np.pi - 1e-3 * a) * (1 if rng.random() < 0.5 else -1))
    raise ValueError(fam)


def near_minus_identity_real(rng):
    """real rotations RY(t), 0 < |t - 2 pi| <= 4e-6 (exactly special unitary, 5e-8..2e-6 away from -I)"""
    eps = [1e-7, 1e-6, 4e-6][int(rng.integers(3))]
    sign = 1 if rng.random() < 0.5 else -1
    return ry(sign * (2 * np.pi - eps))


def scalar_up_to_rounding(rng, with_phase):
    """products that are a scalar matrix in exact arithmetic and differ from it by rounding errors (1e-16) only"""
    a, b, c = (float(x) for x in rng.uniform(0.3, 3.0, 3))
    m = rz(a) @ ry(b) @ rz(c)
    kind = int(rng.integers(4))
    if kind == 0:
        out = m @ m.conj().T
    elif kind == 1:
        out = -(m @ m.conj().T)
    elif kind == 2:
        out = m @ (rz(-c) @ ry(-b) @ rz(-a))
    else:
        out = rx(2 * np.pi)
    if with_phase:
        out = np.exp(1j * float(rng.uniform(0.3, 2.5))) * out
    return out


def u2_random(rng, fam):
    if fam == "phase_gate":
        return np.diag([1, np.exp(1j * angle(rng))])
    if fam == "scalar":
        return np.exp(1j * angle(rng)) * I2
    if fam == "phase_x_su2":
        return np.exp(1j * angle(rng, 0.2, 1.4)) * su2_random(rng, "general")
    if fam == "phase_x_boundary":
        names = sorted(SU2_FIXED)
        return np.exp(1j * angle(rng, 0.2, 1.4)) * SU2_FIXED[names[int(rng.integers(len(names)))]]
    if fam == "i_x_su2":
        return 1j * su2_random(rng, ["general", "real_rot", "diag"][int(rng.integers(3))])
    if fam == "near_scalar":
        eps = 1e-3 if rng.random() < 0.5 else 1e-5
        a, b, c = (float(x) for x in rng.uniform(0.3, 3.0, 3))
        return np.exp(1j * angle(rng)) * (rz(eps * a) @ ry(eps * b) @ rz(eps * c))
    raise ValueError(fam)


def make_matrix(rng, fam):
    if fam in SU2_FIXED:
        return SU2_FIXED[fam].copy()
    if fam in U2_FIXED:
        return U2_FIXED[fam].copy()
    if fam in SU2_RANDOM:
        return su2_random(rng, fam)
    if fam == "near_minusI_real":
        return near_minus_identity_real(rng)
    if fam == "real_rot_2pi_fp":
        return ry(2 * np.pi if rng.random() < 0.5 else -2 * np.pi)
    if fam == "scalar_up_to_rounding":
        return scalar_up_to_rounding(rng, False)
    if fam == "phase_scalar_up_to_rounding":
        return scalar_up_to_rounding(rng, True)
    return u2_random(rng, fam)


def matrix_group(fam):
    """coarse class of the matrix family, for the histogram"""
    if fam in SU2_FIXED:
        return "su2_boundary"
    if fam in ("diag", "antidiag", "real_rot", "rx", "xy_axis", "yz_axis"):
        return "su2_axis"
    if fam in ("general", "general2"):
        return "su2_general"
    if fam in SU2_RANDOM:
        return "su2_near_boundary"
    if fam in ("near_minusI_real", "real_rot_2pi_fp"):
        return "su2_real_within_5e-6_of_-I"
    if fam in ("scalar_up_to_rounding", "phase_scalar_up_to_rounding"):
        return "scalar_up_to_rounding"
    if fam in U2_FIXED:
        return "u2_named"
    return "u2_phase"


SU2_FAMILIES = list(SU2_FIXED) + SU2_RANDOM
U2_FAMILIES = list(U2_FIXED) + U2_RANDOM
CLASS_FAMILIES = {
    "Ldmcu": SU2_FAMILIES + U2_FAMILIES,
    "Qdmcu": SU2_FAMILIES + U2_FAMILIES,
    "Mcg": SU2_FAMILIES + U2_FAMILIES,
    "Ldmcsu": SU2_FAMILIES,
    "LdMcSpecialUnitary": SU2_FAMILIES,
}
CLASSES = list(CLASS_FAMILIES)


# --------------------------------------------------------------------------------------------
# reference
# --------------------------------------------------------------------------------------------
def pattern_of(k, ctrl_state):
    if ctrl_state is None:
        return (1 << k) - 1
    assert len(ctrl_state) == k
    return int(ctrl_state, 2)


def match_mask(nq, controls, pat):
    idx = np.arange(1 << nq)
    m = np.ones(1 << nq, dtype=bool)
    for i, c in enumerate(controls):
        m &= ((idx >> c) & 1) == ((pat >> i) & 1)
    return idx, m


def apply_cu(v, nq, controls, pat, target, u):
    idx, m = match_mask(nq, controls, pat)
    v0 = v[idx & ~(1 << target)]
    v1 = v[idx | (1 << target)]
    bit = (idx >> target) & 1
    new = np.where(bit == 0, u[0, 0] * v0 + u[0, 1] * v1, u[1, 0] * v0 + u[1, 1] * v1)
    return np.where(m, new, v)


def ideal_operator(nq, controls, pat, targets, us):
    cols = np.eye(1 << nq, dtype=complex)
    out = np.empty_like(cols)
    for j in range(1 << nq):
        v = cols[:, j]
        for t, u in zip(targets, us):
            v = apply_cu(v, nq, controls, pat, t, u)
        out[:, j] = v
    return out


def ideal_state(v, nq, controls, pat, targets, us):
    for t, u in zip(targets, us):
        v = apply_cu(v, nq, controls, pat, t, u)
    return v


STATE_FAMILIES = ["ctrl_match", "haar", "near_miss", "product"]


def make_state(rng, fam, nq, controls, pat):
    n_dim = 1 << nq
    g = rng.normal(size=n_dim) + 1j * rng.normal(size=n_dim)
    idx, m = match_mask(nq, controls, pat)
    if fam == "haar":
        v = g
    elif fam == "ctrl_match":                # all the weight where the ideal gate acts
        v = g * m
    elif fam == "near_miss":                 # matching value and every value with exactly one control off
        dist = np.zeros(n_dim, dtype=int)
        for i, c in enumerate(controls):
            dist += ((idx >> c) & 1) != ((pat >> i) & 1)
        v = g * (dist <= 1)
    elif fam == "product":
        v = np.array([1.0 + 0j])
        for _ in range(nq):
            q = rng.normal(size=2) + 1j * rng.normal(size=2)
            v = np.kron(q / np.linalg.norm(q), v)
    else:
        raise ValueError(fam)
    return v / np.linalg.norm(v)


# --------------------------------------------------------------------------------------------
# implementation under evaluation
# --------------------------------------------------------------------------------------------
def gate_class(name):
    if name == "Ldmcu":
        from qclib.gates.ldmcu import Ldmcu
        return Ldmcu
    if name == "Qdmcu":
        from qclib.gates.qdmcu import Qdmcu
        return Qdmcu
    if name == "Mcg":
        from qclib.gates.mcg import Mcg
        return Mcg
    if name == "Ldmcsu":
        from qclib.gates.ldmcsu import Ldmcsu
        return Ldmcsu
    if name == "LdMcSpecialUnitary":
        from qclib.gates.ldmcsu import LdMcSpecialUnitary
        return LdMcSpecialUnitary
    if name == "MCU":
        from qclib.gates.mcu import MCU
        return MCU
    if name == "MultiTargetMCSU2":
        from qclib.gates.multitargetmcsu2 import MultiTargetMCSU2
        return MultiTargetMCSU2
    raise ValueError(name)


STATIC_ENTRY = {"Ldmcu": "ldmcu", "Qdmcu": "qdmcu", "Mcg": "mcg", "Ldmcsu": "ldmcsu", "LdMcSpecialUnitary": "ldmcsu"}


def case_matrices(case):
    if case["kind"] == "multitarget":
        return [ROT[ax](float.fromhex(th)) for ax, th in case["rotations"]]
    return [mat_from_json(case["matrix"], case.get("dtype", "complex"))]


def build(case):
    """returns (circuit, controls, targets) for the case; raises whatever the implementation raises"""
    cls = gate_class(case["class"])
    k = case["k"]
    cs = case["ctrl_state"]
    us = case_matrices(case)
    if case["kind"] == "multitarget":
        nt = len(us)
        if case["entry"] == "static":
            place = case["placement"]
            qc = QuantumCircuit(case["width"])
            cls.multi_target_mcsu2(qc, us, place[:k], place[k:k + nt], ctrl_state=cs)
            return qc, place[:k], place[k:k + nt]
        gate = cls(us, k, num_target=nt, ctrl_state=cs)
        return gate.definition, list(range(k)), list(range(k, k + nt))
    if case["kind"] == "mcu":
        err = float.fromhex(case["error"])
        if case["entry"] == "static":
            place = case["placement"]
            qc = QuantumCircuit(case["width"])
            cls.mcu(qc, us[0], place[:k], place[k], err, ctrl_state=cs)
            return qc, place[:k], [place[k]]
        gate = cls(us[0], k, err, ctrl_state=cs)
        return gate.definition, list(range(k)), [k]
    if case["entry"] == "static":
        place = case["placement"]
        qc = QuantumCircuit(case["width"])
        getattr(cls, STATIC_ENTRY[case["class"]])(qc, us[0], place[:k], place[k], ctrl_state=cs)
        return qc, place[:k], [place[k]]
    if case["class"] == "Mcg" and case.get("up_to_diagonal"):
        gate = cls(us[0], k, ctrl_state=cs, up_to_diagonal=True)
    else:
        gate = cls(us[0], k, ctrl_state=cs)
    return gate.definition, list(range(k)), [k]


def describe(case):
    if case["kind"] == "multitarget":
        rots = ", ".join(f"R{ax}({float.fromhex(th):.6g})" for ax, th in case["rotations"])
        head = f"MultiTargetMCSU2([{rots}], {case['k']}, ctrl_state={case['ctrl_state']!r})"
    elif case["kind"] == "mcu":
        head = (f"MCU(<{case['mat_family']}>, {case['k']}, error={float.fromhex(case['error']):.6g}, "
                f"ctrl_state={case['ctrl_state']!r})")
    else:
        opt = ", up_to_diagonal=True" if case.get("up_to_diagonal") else ""
        head = f"{case['class']}(<{case['mat_family']}>, {case['k']}, ctrl_state={case['ctrl_state']!r}{opt})"
    if case["entry"] == "static":
        head += " via the static entry point"
    return head


# --------------------------------------------------------------------------------------------
# evaluation of one case
# --------------------------------------------------------------------------------------------
def eval_case(ctx, case):
    """property C04 on one gate instance; True when it holds (or the approximate gate rejects its parameters)"""
    k = case["k"]
    us = case_matrices(case)
    us_c = [np.asarray(u, dtype=complex) for u in us]
    accepted = True
    try:
        if case["kind"] == "mcu":
            # the constructor alone decides acceptance
            gate_class("MCU")(us[0], k, float.fromhex(case["error"]), ctrl_state=case["ctrl_state"])
    except Exception:
        accepted = False
    if not accepted:
        ctx.monitor("mcu_rejected_parameters")
        return True
    if case["kind"] == "mcu":
        ctx.monitor("mcu_accepted_parameters")
    try:
        circ, controls, targets = build(case)
    except Exception as exc:
        ctx.violation(f"{describe(case)}: building the circuit raises {type(exc).__name__}: {str(exc)[:120]}", case)
        return False
    nq = case["width"]
    if circ.num_qubits != nq:
        ctx.violation(f"{describe(case)}: definition acts on {circ.num_qubits} qubits, expected {nq}", case)
        return False
    pat = pattern_of(k, case["ctrl_state"])

    if case["eval"] == "operator":
        try:
            mat = Operator(circ).data
        except Exception as exc:
            ctx.violation(f"{describe(case)}: the circuit has no operator ({type(exc).__name__}: {str(exc)[:100]})", case)
            return False
        ideal = ideal_operator(nq, controls, pat, targets, us_c)
        if case["kind"] == "mcu":
            err = float.fromhex(case["error"])
            dev = float(np.linalg.norm(mat - ideal, 2))
            if dev > err * (1 + 1e-9) + 1e-9:
                ctx.violation(f"{describe(case)}: accepted, but the operator deviates from the ideal controlled gate by "
                              f"{dev:.6g} > error in operator norm", dict(case, deviation=dev))
                return False
            return True
        if case.get("up_to_diagonal"):
            rel = mat @ ideal.conj().T
            off = float(np.abs(rel - np.diag(np.diag(rel))).max())
            mod = float(np.abs(np.abs(np.diag(rel)) - 1).max())
            if max(off, mod) >= TOL:
                ctx.violation(f"{describe(case)}: operator is not (unit diagonal) x (controlled U): deviation "
                              f"{max(off, mod):.3g}", dict(case, err=max(off, mod)))
                return False
            return True
        dev = float(np.abs(mat - ideal).max())
        if not dev < TOL:
            ctx.violation(f"{describe(case)}: operator differs from 'apply U to the target iff the controls match' "
                          f"by {dev:.3g}", dict(case, err=dev))
            return False
        return True

    rng = np.random.default_rng(case["state_seed"])
    for fam in case["states"]:
        v = make_state(rng, fam, nq, controls, pat)
        try:
            w = Statevector(v).evolve(circ).data
        except Exception as exc:
            ctx.violation(f"{describe(case)}: the circuit cannot be simulated ({type(exc).__name__}: {str(exc)[:100]})", case)
            return False
        ref = ideal_state(v, nq, controls, pat, targets, us_c)
        if case["kind"] == "mcu":
            err = float.fromhex(case["error"])
            dev = float(np.linalg.norm(w - ref))
            if dev > err * (1 + 1e-9) + 1e-9:
                ctx.violation(f"{describe(case)}: accepted, but a normalised {fam} state is moved {dev:.6g} > error away "
                              f"from the ideal result", dict(case, deviation=dev, failing_state=fam))
                return False
        else:
            dev = float(np.abs(w - ref).max())
            if not dev < TOL:
                ctx.violation(f"{describe(case)}: evolved {fam} state differs from the ideally controlled one by "
                              f"{dev:.3g} ({nq} qubits)", dict(case, err=dev, failing_state=fam))
                return False
    return True


# --------------------------------------------------------------------------------------------
# generators
# --------------------------------------------------------------------------------------------
def cs_string(k, p):
    return format(p, "0%db" % k)


def structured_patterns(rng, k, n_total):
    full = (1 << k) - 1
    cand = [full, 0, 1, 1 << (k - 1), full ^ 1, full ^ (1 << (k - 1)), int("01" * k, 2) & full,
            int("10" * k, 2) & full, (1 << (k // 2)) - 1, full ^ ((1 << (k // 2)) - 1)]
    seen = []
    for p in cand:
        if p not in seen:
            seen.append(p)
    order = [int(i) for i in rng.permutation(len(seen))]
    keep = [seen[i] for i in order][:max(1, n_total // 2)]
    while len(keep) < min(n_total, 1 << k):
        p = int(rng.integers(1 << k))
        if p not in keep:
            keep.append(p)
    return [cs_string(k, p) for p in keep]


def finish_case(ctx, case):
    """fills width / evaluation mode, counts and evaluates"""
    k = case["k"]
    nt = len(case["rotations"]) if case["kind"] == "multitarget" else 1
    if case["entry"] == "static":
        width = k + nt + case.get("spectators", 0)
        case["placement"] = [int(x) for x in ctx.rng.permutation(width)]
    else:
        width = k + nt
    case["width"] = width
    case["n"] = width
    case["eval"] = "operator" if width <= OP_MAX_QUBITS else "states"
    if case["eval"] == "states":
        case["state_seed"] = int(ctx.rng.integers(1 << 62))
        extra = STATE_FAMILIES[2 + int(ctx.rng.integers(len(STATE_FAMILIES) - 2))]
        case["states"] = ["ctrl_match", "haar", extra]
    if case["kind"] == "cu":
        fam = f"{case['class']}:{matrix_group(case['mat_family'])}"
        if case.get("up_to_diagonal"):
            fam = f"Mcg(up_to_diagonal):{'su2' if case['det1'] else 'u2'}"
        key = (case["class"], k, case["ctrl_state"], str(case["matrix"]), case["entry"], case.get("up_to_diagonal"),
               case.get("dtype"), case.get("state_seed"), tuple(case.get("placement", ())))
        sample = None
        if k == 3 and case["ctrl_state"] == "010" and case["entry"] == "definition":
            sample = {x: case[x] for x in ("class", "k", "ctrl_state", "mat_family", "matrix", "entry", "eval")}
    elif case["kind"] == "multitarget":
        fam = f"MultiTargetMCSU2:{case['rot_family']}"
        key = ("mt", k, case["ctrl_state"], str(case["rotations"]), case["entry"], case.get("state_seed"),
               tuple(case.get("placement", ())))
        sample = dict(case) if (k == 3 and nt == 2) else None
    else:
        fam = f"MCU:{case['mat_family']}"
        key = ("mcu", k, case["ctrl_state"], str(case["matrix"]), case["error"], case["entry"], case.get("state_seed"))
        sample = {x: case[x] for x in ("class", "k", "ctrl_state", "mat_family", "error", "base_aimed", "eval")} \
            if k == 4 else None
    if case["entry"] == "static":
        fam = f"{case['class']}:static_entry_point"
    case["family"] = fam
    ctx.count(fam, key=key, nontrivial=True, sample=sample)
    ctx.max_struct_qubits = max(ctx.max_struct_qubits, width)
    return eval_case(ctx, case)


def cu_case(ctx, cls, k, cs, mat_family, entry="definition", up_to_diagonal=False):
    rng = ctx.rng
    m = make_matrix(rng, mat_family)
    dtype = "complex"
    if mat_family in REAL_FAMILIES and rng.random() < 0.3:
        dtype = "float"                       # the caller hands over a real-typed array
    case = {"kind": "cu", "class": cls, "k": k, "ctrl_state": cs, "mat_family": mat_family,
            "matrix": mat_to_json(m), "dtype": dtype, "entry": entry,
            "det1": bool(abs(np.linalg.det(m) - 1) < 1e-9)}
    if up_to_diagonal:
        case["up_to_diagonal"] = True
    if entry == "static":
        case["spectators"] = int(rng.integers(0, 2))
    return finish_case(ctx, case)


def gen_cu(ctx, deep):
    rng = ctx.rng
    full_cross_upto = 3
    per_pattern = {4: 12, 5: 6} if deep else {4: 6, 5: 4}
    kmax = 15 if deep else 11
    for cls in CLASSES:
        fams = CLASS_FAMILIES[cls]
        for k in range(1, kmax + 1):
            heavy = cls == "Qdmcu" and k >= 7          # quadratic depth: about 1 s per case from 12 qubits on
            if k <= 5:
                pats = [None] + [cs_string(k, p) for p in range(1 << k)]
            elif k + 1 <= OP_MAX_QUBITS:
                pats = [None] + structured_patterns(rng, k, 12 if deep else 6)
            elif heavy:
                pats = structured_patterns(rng, k, 4 if deep else 2)
            elif k <= 12:
                pats = [None] + structured_patterns(rng, k, 8 if deep else 4)
            else:
                pats = structured_patterns(rng, k, 3)
            if k <= full_cross_upto:
                for cs in pats:
                    for fam in fams:
                        cu_case(ctx, cls, k, cs, fam)
                continue
            if k <= 5:
                m_per = per_pattern[k]
            elif heavy:
                m_per = 3 if deep else 2
            elif k <= 12:
                m_per = 6 if deep else 4
            else:
                m_per = 3
            off = int(rng.integers(len(fams)))
            for j, cs in enumerate(pats):
                for t in range(m_per):
                    cu_case(ctx, cls, k, cs, fams[(off + j * m_per + t) % len(fams)])
        # static entry points: arbitrary placement of controls / target, spectator qubits
        for k in range(1, 6):
            for _ in range(8 if deep else 3):
                cs = None if rng.random() < 0.2 else cs_string(k, int(rng.integers(1 << k)))
                cu_case(ctx, cls, k, cs, fams[int(rng.integers(len(fams)))], entry="static")
    # numerically delicate inputs that are exactly admissible: real rotations within 5e-6 of -I (loss of significance
    # in Ldmcsu._compute_gate_a), RY(2 pi) as computed in floating point, scalar matrices up to rounding (eig in
    # Ldmcu._gate_u)
    for cls in CLASSES:
        delicate = ["near_minusI_real", "real_rot_2pi_fp", "scalar_up_to_rounding"]
        if cls in ("Ldmcu", "Qdmcu", "Mcg"):
            delicate.append("phase_scalar_up_to_rounding")
        for fam in delicate:
            for k in (1, 2, 3, 4):
                for _ in range(3 if deep else 1):
                    cu_case(ctx, cls, k, cs_string(k, int(rng.integers(1 << k))), fam)
    # Mcg(up_to_diagonal=True)
    su2_pick = ["general", "iX", "real_rot", "diag", "-I"]
    u2_pick = ["X", "phase_gate", "phase_x_su2", "H", "scalar"]
    for k in range(1, 5 if not deep else 7):
        for cs in [None] + structured_patterns(rng, k, 2 if not deep else 4):
            for fam in su2_pick[:3 if not deep else 5] + u2_pick[:3 if not deep else 5]:
                cu_case(ctx, "Mcg", k, cs, fam, up_to_diagonal=True)


# ---- multi target ---------------------------------------------------------------------------
ROT_FAMILIES = ["mixed", "all_ry", "all_rx", "all_rz", "boundary", "near_boundary", "equal"]
BOUNDARY_ANGLES = [0.0, np.pi, -np.pi, np.pi / 2, 2 * np.pi]


def make_rotations(rng, fam, nt):
    out = []
    shared = (["x", "y", "z"][int(rng.integers(3))], angle(rng, 0.15, 6.0))
    for _ in range(nt):
        if fam == "mixed":
            ax, th = ["x", "y", "z"][int(rng.integers(3))], angle(rng, 0.15, 6.0)
        elif fam in ("all_ry", "all_rx", "all_rz"):
            ax, th = fam[-1], angle(rng, 0.15, 6.0)
        elif fam == "boundary":
            ax = ["x", "y", "z"][int(rng.integers(3))]
            th = BOUNDARY_ANGLES[int(rng.integers(len(BOUNDARY_ANGLES)))]
            if ax == "y" and abs(th) == 2 * np.pi:
                th = np.pi                       # RY(2 pi) is generated in the family near_minusI_real
        elif fam == "near_boundary":
            ax = ["x", "y", "z"][int(rng.integers(3))]
            th = [0.0, np.pi, 2 * np.pi][int(rng.integers(3))] + (1e-3 if rng.random() < 0.5 else -1e-3)
        elif fam == "equal":
            ax, th = shared
        elif fam == "near_minusI_real":
            ax, th = "y", (2 * np.pi - [0.0, 1e-7, 1e-6][int(rng.integers(3))])
        else:
            raise ValueError(fam)
        out.append([ax, float(th).hex()])
    return out


def mt_case(ctx, k, nt, cs, fam, entry="definition"):
    case = {"kind": "multitarget", "class": "MultiTargetMCSU2", "k": k, "nt": nt, "ctrl_state": cs,
            "rot_family": fam, "rotations": make_rotations(ctx.rng, fam, nt), "entry": entry}
    if entry == "static":
        case["spectators"] = int(ctx.rng.integers(0, 2))
        case["ctrl_state_given"] = cs is not None and "0" in cs
    return finish_case(ctx, case)


def gen_multitarget(ctx, deep):
    rng = ctx.rng
    kmax = 13 if deep else 10
    for k in range(1, kmax + 1):
        for nt in (1, 2, 3, 4):
            if k == 1:
                pats = [None, "1", "0"]
            elif k <= (5 if deep else 4) or (k == 5 and nt <= 2):
                pats = [None] + [cs_string(k, p) for p in range(1 << k)]
            elif k + nt <= OP_MAX_QUBITS + 2:
                pats = [None] + structured_patterns(rng, k, 8 if deep else 5)
            else:
                pats = [None] + structured_patterns(rng, k, 4 if deep else 2)
            off = int(rng.integers(len(ROT_FAMILIES)))
            reps = 2 if (deep or k <= 3) else 1
            for j, cs in enumerate(pats):
                for t in range(reps):
                    mt_case(ctx, k, nt, cs, ROT_FAMILIES[(off + j * reps + t) % len(ROT_FAMILIES)])
    for k in (2, 3):
        for nt in (1, 2):
            mt_case(ctx, k, nt, cs_string(k, int(rng.integers(1 << k))), "near_minusI_real")
    # static entry point
    for k in range(2, 6):
        for nt in (1, 2, 3):
            mt_case(ctx, k, nt, None, "mixed", entry="static")
            mt_case(ctx, k, nt, cs_string(k, int(rng.integers((1 << k) - 1))), "mixed", entry="static")


# ---- approximate MCU --------------------------------------------------------------------------
MCU_FAMILIES = ["X", "Z", "H", "S", "T", "sqrtX", "phase_gate_pos", "two_pos_angles", "conj_pos_dominant",
                "scalar_pos", "small_angle", "neg_dominant"]


def mcu_matrix(rng, fam):
    """returns (U, theta) with theta the eigen-angle of largest 1-cos (the one the constructor looks at)"""
    if fam in U2_FIXED:
        u = U2_FIXED[fam]
        ang = np.angle(np.linalg.eigvals(u))
        return u.copy(), float(max(abs(ang)))
    if fam == "phase_gate_pos":
        a = float(rng.uniform(0.2, 3.0))
        return np.diag([1, np.exp(1j * a)]), a
    if fam == "scalar_pos":
        a = float(rng.uniform(0.2, 3.0))
        return np.exp(1j * a) * I2, a
    if fam == "scalar_pos_rounding":        # e^{ia} I up to rounding errors
        a = float(rng.uniform(0.5, 2.5))
        m = rz(angle(rng)) @ ry(angle(rng)) @ rz(angle(rng))
        return np.exp(1j * a) * (m @ m.conj().T), a
    v = rz(angle(rng)) @ ry(angle(rng)) @ rz(angle(rng))
    if fam == "two_pos_angles":
        a = float(rng.uniform(0.5, 3.0))
        b = float(rng.uniform(0.05, a - 0.2))
    elif fam == "conj_pos_dominant":
        a = float(rng.uniform(0.5, 3.0))
        b = -float(rng.uniform(0.05, a - 0.2))
    elif fam == "small_angle":
        a = float(rng.uniform(0.01, 0.08))
        b = -float(rng.uniform(0.001, a / 2))
    elif fam == "neg_dominant":            # the constructor is expected to reject these (log2 of a negative number)
        a = -float(rng.uniform(0.5, 3.0))
        b = float(rng.uniform(0.05, -a - 0.2))
    else:
        raise ValueError(fam)
    u = v @ np.diag([np.exp(1j * a), np.exp(1j * b)]) @ v.conj().T
    return u, a


def mcu_case(ctx, k, cs, fam, base_aimed, entry="definition"):
    rng = ctx.rng
    u, theta = mcu_matrix(rng, fam)
    if fam == "small_angle":
        err = float(rng.uniform(0.3, 0.95))              # far larger than ||U - I||: negative base count, empty circuit
    elif base_aimed == "free":
        err = float(10 ** rng.uniform(-2.5, -0.02))
    else:
        # error for which the constructor computes base_aimed base controls: theta/arccos(1-e^2/2) in (2^(b-2), 2^(b-1)]
        if rng.random() < 0.25:
            q = 2.0 ** (base_aimed - 1)                  # upper end: the bound is attained
        else:
            q = 2.0 ** (base_aimed - 2) * (1.0 + float(rng.uniform(0.02, 0.98)))
        err = 2 * np.sin(abs(theta) / (2 * q))
        if not 0 < err < 0.99:
            err = float(rng.uniform(0.05, 0.95))
    case = {"kind": "mcu", "class": "MCU", "k": k, "ctrl_state": cs, "mat_family": fam, "matrix": mat_to_json(u),
            "error": float(err).hex(), "base_aimed": base_aimed, "entry": entry}
    if entry == "static":
        case["spectators"] = 0
    return finish_case(ctx, case)


def gen_mcu(ctx, deep):
    rng = ctx.rng
    kmax = 13 if deep else 10
    for k in range(1, kmax + 1):
        if k <= 5:
            pats = [None] + [cs_string(k, p) for p in range(1 << k)]
        elif k + 1 <= OP_MAX_QUBITS:
            pats = [None] + structured_patterns(rng, k, 12 if deep else 6)
        else:
            pats = [None] + structured_patterns(rng, k, 6 if deep else 3)
        reps = 4 if deep else 2
        off = int(rng.integers(len(MCU_FAMILIES)))
        for j, cs in enumerate(pats):
            for t in range(reps):
                fam = MCU_FAMILIES[(off + j * reps + t) % len(MCU_FAMILIES)]
                base = "free" if rng.random() < 0.15 else 1 + int(rng.integers(k))
                mcu_case(ctx, k, cs, fam, base)
        # every base count once with the all-ones pattern
        for b in range(1, k + 1):
            mcu_case(ctx, k, None, ["X", "phase_gate_pos", "conj_pos_dominant"][b % 3], b)
    for k in range(2, 6):
        mcu_case(ctx, k, cs_string(k, int(rng.integers(1 << k))), "two_pos_angles", 1 + int(rng.integers(k)), entry="static")
    for k in range(2, 6):
        for b in range(2, k + 1):
            mcu_case(ctx, k, cs_string(k, int(rng.integers(1 << k))), "scalar_pos_rounding", b)


def evaluate(ctx, deep):
    with blas_threads(1):
        gen_cu(ctx, deep)
        gen_multitarget(ctx, deep)
        gen_mcu(ctx, deep)
    acc = ctx.monitor_calls.get("mcu_accepted_parameters", 0)
    rej = ctx.monitor_calls.get("mcu_rejected_parameters", 0)
    ctx.note(f"MCU: the bound is evaluated only when the constructor accepts (unitary, num_controls, error); "
             f"this run: {acc} accepted, {rej} rejected parameter sets")


def replay(ctx, case):
    case = dict(case)
    for extra in ("err", "deviation", "failing_state"):
        case.pop(extra, None)
    with blas_threads(1):
        return eval_case(ctx, case)
