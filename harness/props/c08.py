"""C08 - bounded-approximation initializer (BAA)."""
from fractions import Fraction
import numpy as np
from harness.coqcases import run_bool_cases
from harness.flatten import coq_q
from harness.props._common import run_eval, replay_eval
from harness import monitors

PROPS_FILE = "P_C08"
PROPS_FILES = ["P_C08", "P_C08asm"]
COQ_TARGETS = ["CaseLib", "BaaModel"]
RULE = ("tie (c): every call of baa._search_best made while planning (all strategies, use_low_rank, several budgets, structured and "
        "random states, n = 2..5/6) is logged as (total_saved_cnots, largest block, total_fidelity_loss as the exact rational of the "
        "float) and replayed inside Coq by BaaModel.search_best, which must select the same element; the tree of every run is walked "
        "and the conclusion of C08_build_inv (loss <= budget, saved > 0 on every non-root node) and the loss combination "
        "1-(1-a)(1-b) are checked; the definition of every built gate is checked to be one low-rank block per plan factor on the plan's disjoint, "
        "mirrored qubit groups (hypotheses of C08_product_assembly); direct evaluation (harness/props/c08_eval.py). distinct = distinct (state, options); non-trivial = n >= 3")
ASSUMPTIONS = ["the candidate oracle (_reduce_entanglement, _count_saved_cnots: SVD and CNOT estimates) is arbitrary in the theorems; its numerics are evaluated",
               "the early exit to the canonical product plan and the _OptParams clamping are evaluated"]
TRUSTED = ["harness/monitors.py patching of baa._search_best and baa._build_approximation_tree"]
HEADER = ("From Coq Require Import List Bool Arith ZArith QArith.\nFrom QV Require Import BaaModel CaseLib.\nImport ListNotations.\n")


def states(rng, n):
    N = 2 ** n
    v = rng.normal(size=N) + 1j * rng.normal(size=N)
    yield "complex", v / np.linalg.norm(v)
    v = np.array([1.0 + 0j])
    for _ in range(n):
        v = np.kron(v, rng.normal(size=2) + 1j * rng.normal(size=2))
    yield "product", v / np.linalg.norm(v)
    if n >= 3:
        a = rng.normal(size=4) + 1j * rng.normal(size=4)
        b = rng.normal(size=2 ** (n - 2)) + 1j * rng.normal(size=2 ** (n - 2))
        v = np.kron(a, b).reshape([2] * n)
        perm = rng.permutation(n)
        v = np.transpose(v, perm).reshape(-1)
        yield "separable_shuffled", v / np.linalg.norm(v)
    v = np.zeros(N, complex)
    v[0] = v[-1] = 1
    yield "ghz", v / np.linalg.norm(v)
    v = (rng.normal(size=N) + 1j * rng.normal(size=N)) * (rng.random(N) < 0.4)
    if not v.any():
        v[1] = 1
    yield "sparse", v / np.linalg.norm(v)


def run_plans(ctx):
    from qclib.state_preparation.util import baa
    nmax = 5 if ctx.quick else 6
    cases, lines = [], []
    for n in range(2, nmax + 1):
        for fam, v in states(ctx.rng, n):
            for strategy in ("greedy", "brute_force", "split", "canonical"):
                for low in (False, True):
                    for l in (0.0, 0.05, 0.3, 1.0):
                        if n >= 5 and strategy == "brute_force" and low and ctx.quick:
                            continue
                        log, roots = [], []

                        def sb_factory(orig):
                            def wrapped(nodes):
                                best = orig(nodes)
                                idx = next(i for i, nd in enumerate(nodes) if nd is best)
                                log.append(([(int(nd.total_saved_cnots), int(baa._max_subsystem_size(nd)), float(nd.total_fidelity_loss))
                                             for nd in nodes], idx))
                                return best
                            return wrapped

                        def bt_factory(orig):
                            def wrapped(node, max_fidelity_loss, *a, **kw):
                                if not roots or node.total_saved_cnots == 0 and node.total_fidelity_loss == 0.0 and not any(node is r[0] for r in roots):
                                    if node.node_saved_cnots == 0 and node.node_fidelity_loss == 0.0:
                                        roots.append((node, max_fidelity_loss))
                                return orig(node, max_fidelity_loss, *a, **kw)
                            return wrapped
                        with monitors.patched(baa, "_search_best", sb_factory), \
                                monitors.patched(baa, "_build_approximation_tree", bt_factory):
                            try:
                                baa.adaptive_approximation(v, l, strategy, 0, low)
                            except Exception as ex:
                                ctx.note(f"adaptive_approximation raised {type(ex).__name__} on {fam} n={n} {strategy} low={low} l={l}")
                                continue
                        case = {"n": n, "family": fam, "strategy": strategy, "use_low_rank": low, "max_fidelity_loss": l}
                        ctx.count(f"plan:{strategy}:{'lowrank' if low else 'rank1'}", key=(n, fam, strategy, low, l, v.tobytes()),
                                  nontrivial=n >= 3, sample=dict(case, search_best_calls=len(log)) if n == 4 and fam == "complex" and l == 0.3 else None)
                        for (leaves, idx) in log:
                            ctx.monitor("search_best_replayed")
                            cases.append(dict(case, leaves=len(leaves)))
                            ls = "[" + "; ".join(f"{{| saved := ({s})%Z; depth := {d}; loss := {coq_q(Fraction(x))} |}}" for s, d, x in leaves) + "]"
                            lines.append(f"(match search_best {ls} with Some (i, _) => Nat.eqb i {idx} | None => false end)")
                        # walk the trees: conclusion of C08_build_inv and the loss combination
                        for root, budget in roots:
                            stack = [(root, None)]
                            while stack:
                                nd, parent = stack.pop()
                                if parent is not None:
                                    ctx.monitor("tree_node_invariant")
                                    comb = 1.0 - (1.0 - nd.node_fidelity_loss) * (1.0 - parent.total_fidelity_loss)
                                    if not (nd.total_fidelity_loss <= budget) or not (nd.total_saved_cnots > 0) \
                                            or abs(comb - nd.total_fidelity_loss) > 1e-15 \
                                            or nd.total_saved_cnots != parent.total_saved_cnots + nd.node_saved_cnots:
                                        ctx.mismatch("C08 tie: a node of the approximation tree violates the invariants of C08_build_inv "
                                                     "(loss <= budget, saved > 0, loss = 1-(1-a)(1-b), saved additive)", case)
                                        stack = []
                                        break
                                for ch in nd.nodes:
                                    stack.append((ch, nd))

    def on_fail(c):
        ctx.mismatch("C08 tie: baa._search_best selected a different leaf than BaaModel.search_best on the logged leaves", c)
    run_bool_cases(ctx, "c08_best", HEADER, lines, cases, on_fail, shard=150)


def assembly_tie(ctx):
    """hypotheses of C08_product_assembly on the definition of BaaLowRankInitialize: one low-rank block per plan factor, block j placed
    on the plan's qubit group j (labels mirrored, order reversed: compose(gate, qubits[::-1]) then reverse_bits), groups pairwise
    disjoint and covering the register, every factor a unit vector of the group's dimension"""
    from qclib.state_preparation import BaaLowRankInitialize
    nmax = 6 if ctx.quick else 8
    for n in range(2, nmax + 1):
        for fam, v in states(ctx.rng, n):
            for strategy, l in (("greedy", 0.0), ("brute_force" if n <= 6 else "greedy", 0.1), ("canonical", 0.4), ("split", 1.0)):
                for low in (False, True):
                    case = {"n": n, "family": fam, "strategy": strategy, "use_low_rank": low, "max_fidelity_loss": l}
                    try:
                        g = BaaLowRankInitialize(v, opt_params={"max_fidelity_loss": l, "strategy": strategy, "use_low_rank": low})
                        circ = g.definition
                        node = g.node
                    except Exception as ex:
                        ctx.note(f"BaaLowRankInitialize raised {type(ex).__name__} on {fam} n={n} {strategy} low={low} l={l}")
                        continue
                    ctx.monitor("assembly_structure")
                    ctx.count(f"assembly:{strategy}", key=("asm", n, fam, strategy, low, l, v.tobytes()), nontrivial=n >= 3, sample=None)
                    groups = [tuple(int(q) for q in qs) for qs in node.qubits]
                    insts = [(i.operation.name, [circ.find_bit(q).index for q in i.qubits]) for i in circ.data]
                    expect = [[n - 1 - q for q in qs[::-1]] for qs in groups]
                    flat = sorted(q for qs in groups for q in qs)
                    ok = (len(insts) == len(groups) and all(nm == "low_rank" for nm, _ in insts)
                          and [qs for _, qs in insts] == expect and flat == list(range(n))
                          and all(len(vec) == 2 ** len(qs) and abs(np.linalg.norm(vec) - 1) < 1e-9 for vec, qs in zip(node.vectors, groups)))
                    if not ok:
                        ctx.mismatch("C08 tie: the definition of BaaLowRankInitialize is not one low-rank block per plan factor on the plan's "
                                     "disjoint qubit groups (hypotheses of C08_product_assembly)",
                                     dict(case, plan_qubits=[list(q) for q in groups], instructions=insts))


def run(ctx):
    run_plans(ctx)
    assembly_tie(ctx)
    run_eval(ctx, "C08")


def search(ctx):
    run_eval(ctx, "C08", deep=True)


def replay(ctx, case):
    return replay_eval(ctx, "C08", case)


MANIFEST = dict(
    text='Proof (PARTIAL): for every candidate oracle the tree built under the two guards of _build_approximation_tree contains only nodes with accounted loss <= budget and saved CNOTs > 0 (C08_build_inv), and _search_best returns one of the leaves it is given (C08_search_best_in/preserves). Tie: every _search_best call of a run is replayed inside Coq on the logged leaves (losses as exact rationals of the floats) and must select the same leaf; every tree is walked for the invariants. Assembly: local operators on pairwise disjoint qubit groups, each preparing its factor, prepare the product of the factors (C08_product_assembly, C08_product_from_zeros; local = frame property, held by circuits that stay inside the group, C08_local_circuits); the block structure of every built definition is checked against the plan. Exactness at l=0, plan faithfulness, true loss for n<=3 and CNOT comparison are evaluated.',
    note='Modelled, not verified: SVD-based candidate oracle and CNOT estimates (arbitrary in the theorems); plan assembly evaluated only.',
    technique='Coq proof (invariant by induction over the search tree, any oracle) + bit-exact replay of the selection rule (vm_compute) + evaluation',
    design_ref='DESIGN.md section 4, C08')
