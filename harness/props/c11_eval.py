"""C11 - BdspInitialize (every split level) and DcspInitialize: widths (s+1)*2^(n-s)-1 and 2^n-1, declared width equals
the definition's width, the marginal distribution of the output qubits 0..n-1 is |a_k|^2, and s = n gives the vector up
to a global phase.

Direct evaluation: exact state vector of gate.definition (Qiskit Statevector.evolve from |0..0>), marginalised with
numpy; widths are also checked by formula for every (n, s) up to n = 8 without simulating."""
import warnings
from math import ceil
import numpy as np
from qiskit.quantum_info import Statevector

from harness.core import jsonable, unjson_array

warnings.filterwarnings("ignore")

PTOL = 1e-7     # probabilities
ATOL = 1e-6     # amplitudes


def _bdsp(vec, split, how="opt"):
    from qclib.state_preparation.bdsp import BdspInitialize
    if how == "none":
        return BdspInitialize(vec)
    if how == "empty":
        return BdspInitialize(vec, opt_params={})
    return BdspInitialize(vec, opt_params={"split": split})


def _dcsp(vec):
    from qclib.state_preparation.dcsp import DcspInitialize
    return DcspInitialize(vec)


def width_bdsp(n, s):
    return (s + 1) * 2 ** (n - s) - 1


def width_dcsp(n):
    return 2 ** n - 1


def _unit(v):
    v = np.asarray(v, dtype=complex)
    return v / np.linalg.norm(v)


def _cnormal(rng, m):
    v = rng.normal(size=m) + 1j * rng.normal(size=m)
    small = np.abs(v) < 0.05
    v[small] = 0.05 * np.exp(1j * rng.uniform(0, 2 * np.pi, int(small.sum())))
    return v


FAMILIES = ["complex", "real", "negative", "positive", "uniform", "basis", "sparse", "left_zero", "right_zero",
            "zero_subtrees", "one_zero", "product", "phases_only", "two_point", "near_real", "tiny_odd"]


def make_vector(rng, n, fam):
    N = 2 ** n
    if fam == "complex":
        v = _cnormal(rng, N)
    elif fam == "real":
        v = np.abs(_cnormal(rng, N)) * rng.choice([-1.0, 1.0], N) + 0j
    elif fam == "negative":
        v = -np.abs(_cnormal(rng, N)) + 0j
    elif fam == "positive":
        v = np.abs(_cnormal(rng, N)) + 0j
    elif fam == "uniform":
        v = np.ones(N, dtype=complex)
    elif fam == "basis":
        v = np.zeros(N, dtype=complex)
        v[int(rng.integers(N))] = np.exp(1j * rng.uniform(0, 6)) if rng.random() < 0.5 else 1.0
    elif fam == "sparse":
        v = _cnormal(rng, N)
        v[rng.random(N) < 0.6] = 0
        if not v.any():
            v[int(rng.integers(N))] = 1
    elif fam == "left_zero":        # first half vanishes: root rotation is pi, the |0> sub-tree is never selected
        v = _cnormal(rng, N)
        v[:N // 2] = 0
    elif fam == "right_zero":       # second half vanishes: root rotation skipped (angle 0), no swaps at the root
        v = _cnormal(rng, N)
        if N >= 2:
            v[N // 2:] = 0
    elif fam == "zero_subtrees":    # aligned blocks of random size vanish
        v = _cnormal(rng, N)
        for _ in range(max(1, n)):
            b = 2 ** int(rng.integers(0, n)) if n >= 1 else 1
            k = int(rng.integers(0, N // b))
            v[k * b:(k + 1) * b] = 0
        if not v.any():
            v[int(rng.integers(N))] = -1
    elif fam == "one_zero":
        v = _cnormal(rng, N)
        if N >= 2:
            v[int(rng.integers(N))] = 0
    elif fam == "product":
        v = np.array([1.0 + 0j])
        for _ in range(n):
            v = np.kron(v, _cnormal(rng, 2))
    elif fam == "phases_only":
        v = np.exp(1j * rng.uniform(0, 2 * np.pi, N))
    elif fam == "two_point":
        v = np.zeros(N, dtype=complex)
        i = int(rng.integers(N))
        j = int(rng.integers(N))
        v[i] = 0.6
        v[j] += 0.8j
    elif fam == "near_real":        # real up to round-off: imaginary parts of relative size 1e-12 .. 1e-17
        v = rng.normal(size=N) + 1j * rng.normal(size=N) * 10.0 ** float(rng.integers(-17, -11))
    elif fam == "tiny_odd":         # odd-indexed amplitudes tiny but non-zero, with phases
        v = rng.normal(size=N) + 1j * rng.normal(size=N)
        v[1::2] *= 10.0 ** float(rng.integers(-12, -8))
    else:
        raise ValueError(fam)
    return _unit(v)


def final_state(circ):
    return np.asarray(Statevector.from_int(0, 2 ** circ.num_qubits).evolve(circ).data)


def output_marginal(psi, width, n):
    """probability of reading k on qubits 0..n-1 (qubit q = bit q of k)"""
    p = np.abs(psi) ** 2
    return p.reshape(2 ** (width - n), 2 ** n).sum(axis=0)


def build(cls_name, vec, split, how):
    if cls_name == "DcspInitialize":
        return _dcsp(vec)
    return _bdsp(vec, split, how)


def expected_width(cls_name, n, split, how):
    if cls_name == "DcspInitialize":
        return width_dcsp(n)
    s = split if how == "opt" else int(ceil(n / 2))
    return width_bdsp(n, s)


def eval_case(ctx, cls_name, n, split, how, fam, vec, simulate=True):
    """True iff the property holds for this case.  how: 'opt' (opt_params={'split': s}), 'none' (no opt_params),
    'empty' (opt_params={}); the latter two use the default split ceil(n/2)."""
    vec = np.asarray(vec, dtype=complex)
    s_eff = None if cls_name == "DcspInitialize" else (split if how == "opt" else int(ceil(n / 2)))
    case = {"class": cls_name, "n": n, "split": split, "how": how, "family": fam, "simulate": bool(simulate),
            "vector": jsonable(vec)}
    try:
        gate = build(cls_name, vec, split, how)
        circ = gate.definition
    except Exception as e:   # pylint: disable=broad-except
        ctx.violation(f"{cls_name}(n={n}, split={split}, {how}) raised {type(e).__name__}: {str(e)[:120]}", case)
        return False
    ok = True
    want = expected_width(cls_name, n, split, how)
    if not (gate.num_qubits == want and circ.num_qubits == want):
        ok = False
        ctx.violation(f"{cls_name}(n={n}, split={s_eff}): declared width {gate.num_qubits}, definition width "
                      f"{circ.num_qubits}, formula {want}", dict(case, declared=int(gate.num_qubits),
                                                                  definition=int(circ.num_qubits), formula=int(want)))
    if not simulate:
        return ok
    width = circ.num_qubits
    ctx.max_struct_qubits = max(ctx.max_struct_qubits, width)
    if circ.num_clbits:
        ok = False
        ctx.violation(f"{cls_name}: definition has classical bits", case)
        return ok
    psi = final_state(circ)
    marg = output_marginal(psi, width, n)
    perr = float(np.abs(marg - np.abs(vec) ** 2).max())
    if not perr < PTOL:
        ok = False
        ctx.violation(f"{cls_name}(n={n}, split={s_eff}): marginal distribution of output qubits 0..{n - 1} differs from "
                      f"|a_k|^2 by {perr:.3g}", dict(case, err=perr))
    if cls_name == "BdspInitialize" and s_eff == n:
        if width != n:
            ok = False
            ctx.violation(f"BdspInitialize(n={n}, split=n) uses {width - n} ancilla qubits", case)
        else:
            ov = np.vdot(vec, psi)
            ph = ov / abs(ov) if abs(ov) > 1e-12 else 1.0
            aerr = float(np.abs(psi - ph * vec).max())
            if not aerr < ATOL:
                ok = False
                ctx.violation(f"BdspInitialize(n={n}, split=n): output state differs from the vector (up to a global phase) "
                              f"by {aerr:.3g}", dict(case, err=aerr))
    return ok


def sim_configs(max_width, nmax):
    """(class, n, split, how) with simulated width <= max_width"""
    out = []
    for n in range(1, nmax + 1):
        for s in range(1, n + 1):
            if width_bdsp(n, s) <= max_width:
                out.append(("BdspInitialize", n, s, "opt"))
        if width_bdsp(n, int(ceil(n / 2))) <= max_width:
            out.append(("BdspInitialize", n, None, "none"))
            out.append(("BdspInitialize", n, None, "empty"))
        if width_dcsp(n) <= max_width:
            out.append(("DcspInitialize", n, None, "opt"))
    return out


def evaluate(ctx, deep):
    rng = ctx.rng
    # 1. widths three ways (formula, declared, definition) for every (n, s), n <= 8 (9 deep), no simulation
    for n in range(1, (9 if deep else 8) + 1):
        fams = ["complex", "sparse", "basis"] if n <= 6 else ["complex"]
        for fam in fams:
            vec = make_vector(rng, n, fam)
            cfgs = [("BdspInitialize", n, s, "opt") for s in range(1, n + 1)]
            cfgs += [("BdspInitialize", n, None, "none"), ("BdspInitialize", n, None, "empty"), ("DcspInitialize", n, None, "opt")]
            for (cls_name, _, s, how) in cfgs:
                ctx.count(f"width:{cls_name[:4].lower()}:{how}", key=("w", cls_name, n, s, how, fam, vec.tobytes()),
                          nontrivial=n >= 2, sample={"class": cls_name, "n": n, "split": s, "how": how,
                                                     "formula": expected_width(cls_name, n, s, how)} if n == 5 else None)
                eval_case(ctx, cls_name, n, s, how, fam, vec, simulate=False)
    # 2. simulated cases (cost grows quickly with width and with n: the plan below keeps quick at about 2 minutes)
    core = ["complex", "sparse", "zero_subtrees", "real", "left_zero", "basis"]
    for (cls_name, n, s, how) in sim_configs(24 if deep else 20, 10 if deep else 8):
        w = expected_width(cls_name, n, s, how)
        if how != "opt":
            fams, reps = ["complex", "sparse"], 1
        elif w <= 12 and n <= 6:
            fams, reps = FAMILIES, (4 if deep else 2)
        elif w <= 16 and n <= 6:
            fams, reps = FAMILIES, (2 if deep else 1)
        elif n <= 8 and w <= 16:
            fams, reps = (FAMILIES if deep else core), 1
        elif w <= 20 and n <= 6:
            fams, reps = (FAMILIES if deep else core[:4]), 1
        elif w <= 20 and n <= 9:
            fams, reps = core[:3], 1
        elif w <= 20:                       # n = 10 (deep only): s = 9 (19 qubits, about a minute), s = 10
            fams, reps = (core[:1] if s < n else core[:2]), 1
        elif n <= 5:                        # 23 qubits, deep only
            fams, reps = core[:3:2], 1
        else:                               # n = 7, s = 5: 23 qubits, > 1 minute per case
            fams, reps = core[2:3], 1
        for fam in fams:
            for _ in range(reps):
                vec = make_vector(rng, n, fam)
                tag = ("dcsp" if cls_name == "DcspInitialize" else
                       ("bdsp:s=n" if (how == "opt" and s == n) else ("bdsp:default" if how != "opt" else "bdsp:s<n")))
                ctx.count(f"{tag}:{fam}", key=("s", cls_name, n, s, how, vec.tobytes()), nontrivial=n >= 2,
                          sample={"class": cls_name, "n": n, "split": s, "width": w,
                                  "vector": [complex(np.round(x, 3)) for x in vec]} if (n == 3 and s in (2, None)) else None)
                eval_case(ctx, cls_name, n, s, how, fam, vec, simulate=True)


def replay(ctx, case):
    vec = unjson_array(case["vector"]).astype(complex)
    split = case.get("split")
    return eval_case(ctx, case["class"], int(case["n"]), None if split is None else int(split), case.get("how", "opt"),
                     case.get("family", "replay"), vec, simulate=bool(case.get("simulate", True)))
