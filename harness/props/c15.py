"""C15 - gates compose: placement, inverse, declared width, inputs untouched."""
import numpy as np
from harness.coqcases import run_bool_cases
from harness.flatten import flatten, coq_list, coq_bool
from harness.props._common import run_eval, replay_eval
from harness.props.c05 import sgates_to_coq, pat_of

PROPS_FILE = "P_C15"
COQ_TARGETS = ["CaseLib", "CaseLibMcx", "IrProps", "IrPropsRot", "TopDownModel", "LdmcuCore", "Placed"]
RULE = ("correspondence on the IR for McxVchainDirty / LinearMcx (k = 1..10/20): flatten(definition.inverse()) = IrProps.sinv_list(model), "
        "the model instance is well-formed (premise of C15_inverse_*), and appending the definition on a shuffled ordered subset of a "
        "larger host circuit yields map (relabel sigma) (model) with every other host qubit unmentioned (premise of C15_spectator); direct "
        "evaluation (harness/props/c15_eval.py): every initializer / gate class through its documented entry point with spectators in "
        "superposition, inverse in both orders, declared width vs circuit width, inputs byte-compared, building twice. "
        "distinct = distinct (class, options, placement); non-trivial = at least 2 qubits")
ASSUMPTIONS = ["Qiskit's append/compose/inverse semantics are mirrored by relabel / sinv_list and tied per instance, not verified",
               "'inputs untouched' and 'same operator when built twice' have no model: run-time byte comparison and gate-by-gate comparison only"]
TRUSTED = ["harness/flatten.py"]
HEADER = ("From Coq Require Import List Bool Arith.\nFrom QV Require Import McxModel CaseLib CaseLibMcx IrProps.\nImport ListNotations.\n"
          "Definition swfb (g : sgate) : bool := match g with SX _ | SU _ _ => true | SCX c t => negb (Nat.eqb c t)\n"
          "  | SMCX cs t => negb (existsb (Nat.eqb t) cs) end.\n"
          "Definition mentions (q : nat) (g : sgate) : bool := existsb (Nat.eqb q) (squbits g).\n")


def correspondence(ctx):
    from qiskit import QuantumCircuit
    from qclib.gates.mcx import McxVchainDirty, LinearMcx
    kmax = 10 if ctx.quick else 20
    cases, lines = [], []
    for k in range(1, kmax + 1):
        for cls in ("vchain", "vchain_rel", "linear"):
            p = "".join("1" if ctx.rng.random() < 0.5 else "0" for _ in range(k))
            if cls == "linear":
                g = LinearMcx(k, p)
                model = f"(linear_mcx {k} {coq_list([coq_bool(b) for b in pat_of(p, k)])} false)"
            else:
                rel = cls == "vchain_rel"
                g = McxVchainDirty(k, 1, p, rel, False)
                model = f"(vchain {k} 1 {coq_list([coq_bool(b) for b in pat_of(p, k)])} {coq_bool(rel)} false)"
            d = g.definition
            fl_inv, _ = flatten(d.inverse())
            nq = d.num_qubits
            host_n = nq + 3
            sigma = [int(x) for x in ctx.rng.permutation(host_n)[:nq]]
            host = QuantumCircuit(host_n)
            host.append(d.to_instruction(), sigma)
            fl_host, _ = flatten(host)
            others = [q for q in range(host_n) if q not in sigma]
            case = {"class": cls, "k": k, "ctrl_state": p, "placement": sigma}
            cases.append(case)
            ctx.max_struct_qubits = max(ctx.max_struct_qubits, host_n)
            ctx.count("corr:" + cls, key=(cls, k, p, tuple(sigma)), nontrivial=k >= 2,
                      sample=dict(case, gates=len(fl_host)) if k == 4 else None)
            lines.append("(" + " && ".join([
                f"list_eqb sgate_eqb (sinv_list {model}) {sgates_to_coq(fl_inv)}",
                f"forallb swfb {model}",
                f"list_eqb sgate_eqb (map (relabel {coq_list([str(q) for q in sigma])}) {model}) {sgates_to_coq(fl_host)}",
                f"forallb (fun q => negb (existsb (mentions q) (map (relabel {coq_list([str(q) for q in sigma])}) {model}))) {coq_list([str(q) for q in others])}",
            ]) + ")")

    def on_fail(c):
        ctx.mismatch("C15 correspondence: inverse / placement of the definition differs from the IR operations sinv_list / relabel", c)
    run_bool_cases(ctx, "c15_ir", HEADER, lines, cases, on_fail, shard=10)


def rot_correspondence(ctx):
    """TopDownInitialize on the rotation IR: inverse of the definition = pinv_list(model), well-formedness, placement."""
    from fractions import Fraction
    from qiskit import QuantumCircuit
    from qclib.state_preparation import TopDownInitialize
    from qclib.state_preparation.util.state_tree_preparation import Amplitude, state_decomposition
    from qclib.state_preparation.util.angle_tree_preparation import create_angles_tree
    from harness.flatten import coq_q
    from harness.props import c01

    def items_of(fl):
        out = []
        for name, qs, op in fl:
            if name in ("ry", "rz"):
                out.append(f"PRot {'RotY' if name == 'ry' else 'RotZ'} {coq_q(Fraction(float(op.params[0])))} {qs[0]}")
            elif name == "cx":
                out.append(f"PEnt EntCX {qs[0]} {qs[1]}")
            else:
                out.append("PEnt EntCZ 99999 99999")
        return coq_list(out)
    nmax = 4 if ctx.quick else 6
    cases, lines = [], []
    for n in range(1, nmax + 1):
        for kind in ("complex", "sparse", "real", "basis", "product"):
            v = c01.vector(ctx.rng, n, kind)
            g = TopDownInitialize(v)
            d = g.definition
            at = create_angles_tree(state_decomposition(n, [Amplitude(i, a) for i, a in enumerate(v)]))
            ys, zs = c01.levels_of(at)
            yq = coq_list([coq_list([coq_q(Fraction(a)) for a in lv]) for lv in ys])
            zq = coq_list([coq_list([coq_q(Fraction(a)) for a in lv]) for lv in zs])
            model = f"(topdown_q {n}%nat {yq} {zq})"
            fl_inv, _ = flatten(d.inverse())
            host_n = n + 2
            sigma = [int(x) for x in ctx.rng.permutation(host_n)[:n]]
            host = QuantumCircuit(host_n)
            host.append(d.to_instruction(), sigma)
            fl_host, _ = flatten(host)
            others = [q for q in range(host_n) if q not in sigma]
            sl = coq_list([str(q) for q in sigma]) + "%nat"
            case = {"class": "TopDownInitialize", "n": n, "family": kind, "placement": sigma}
            cases.append(case)
            ctx.count("corr:topdown_ir:" + kind, key=("td_ir", n, kind, v.tobytes(), tuple(sigma)), nontrivial=n >= 2,
                      sample=dict(case, gates=len(fl_host)) if n == 3 else None)
            eps = "(1 # 1000000000000)"
            lines.append("(" + " && ".join([
                f"list_eqb (pgate_close {eps}) (pinv_list {model}) {items_of(fl_inv)}",
                f"forallb pwfb {model}",
                f"list_eqb (pgate_close {eps}) (map (prelabel {sl}) {model}) {items_of(fl_host)}",
                f"forallb (fun q => negb (existsb (pmentions q) (map (prelabel {sl}) {model}))) {coq_list([str(q) for q in others])}%nat",
            ]) + ")")
    hdr = ("From Coq Require Import List Bool Arith QArith.\nFrom QV Require Import Sem UcrModel TopDownModel CaseLib.\nImport ListNotations.\n")
    run_bool_cases(ctx, "c15_rot", hdr, lines, cases,
                   lambda c: ctx.mismatch("C15 correspondence: inverse / placement of TopDownInitialize's definition differs from the IR operations pinv_list / prelabel", c),
                   shard=10)


def run(ctx):
    correspondence(ctx)
    rot_correspondence(ctx)
    run_eval(ctx, "C15")


def search(ctx):
    run_eval(ctx, "C15", deep=True)


def replay(ctx, case):
    return replay_eval(ctx, "C15", case)


MANIFEST = dict(
    text='Proof (PARTIAL): on the circuit IR of the multi-controlled-X generators, the reversed list of per-gate inverses undoes a well-formed circuit in either order, and a circuit commutes with fixing the value of any qubit it does not mention (C15_inverse_right/left, C15_spectator); placement through any injective qubit map (C15_placed_any); the same inverse law for the alphabet of Ldmcu, controlled powers of a one-parameter group (C15_ldmcu_ir_inverse). Tie: for McxVchainDirty/LinearMcx and TopDownInitialize, flatten(definition.inverse()) = inverse list of the model, well-formedness of the instance, and flatten(host with the definition appended on a shuffled qubit list) = map relabel (model), compared inside Coq. Every other class, declared widths, inputs-untouched and determinism are evaluated.',
    note="Modelled, not verified: Qiskit append/compose/inverse; all classes other than the mcx family; 'inputs untouched' and determinism are run-time checks only.",
    technique='Coq proof (per-gate inverse and commutation lemmas lifted over lists) + IR correspondence (vm_compute) + evaluation with spectators in superposition',
    design_ref='DESIGN.md section 4, C15')
