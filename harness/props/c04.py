"""C04 - multi-controlled one-qubit gates."""
import numpy as np
from harness.props._common import run_eval, replay_eval
from harness import monitors

PROPS_FILE = "P_C04"
RULE = ("contract monitors: every call of Qdmcu.custom_sqrtm (V unitary, V V = U: premises of C04_barenco_step) and of "
        "Ldmcsu._compute_gate_a (A unitary, (A^dagger X A X)^2 = U: conclusion of C04_gate_a_fourth_root in matrix form) made while "
        "building gates for boundary and random SU(2)/U(2) matrices and 2..6/9 controls is checked numerically at 1e-9; direct "
        "evaluation (harness/props/c04_eval.py): operator / random-state evolution vs the ideal controlled-U for every gate class, "
        "control pattern and boundary matrix. distinct = distinct (class, matrix, controls, pattern); non-trivial = k >= 2")
ASSUMPTIONS = ["Qiskit's UnitaryGate(...).control(...) is the ideal controlled gate (validated numerically in the direct evaluation)",
               "Ldmcu's ladder, Ldmcsu's eigenbasis branch, LdMcSpecialUnitary's ABC decomposition, MCU's truncated ladder and "
               "MultiTargetMCSU2 are evaluated, not proved"]
TRUSTED = ["harness/monitors.py"]
X = np.array([[0, 1], [1, 0]], dtype=complex)


def su2_family(rng):
    def rz(t):
        return np.diag([np.exp(-1j * t / 2), np.exp(1j * t / 2)])

    def ry(t):
        return np.array([[np.cos(t / 2), -np.sin(t / 2)], [np.sin(t / 2), np.cos(t / 2)]], dtype=complex)

    def rx(t):
        return np.array([[np.cos(t / 2), -1j * np.sin(t / 2)], [-1j * np.sin(t / 2), np.cos(t / 2)]])
    yield "identity", np.eye(2, dtype=complex)
    yield "minus_identity", -np.eye(2, dtype=complex)
    yield "iX", 1j * X
    yield "iY", np.array([[0, 1], [-1, 0]], dtype=complex)
    yield "iZ", np.diag([1j, -1j])
    yield "ry_pi", ry(np.pi)
    yield "rz_pi", rz(np.pi)
    yield "ry", ry(float(rng.uniform(-3, 3)))
    yield "rz", rz(float(rng.uniform(-3, 3)))
    yield "rx", rx(float(rng.uniform(-3, 3)))
    for _ in range(3):
        a, b, c = rng.uniform(-3, 3, 3)
        yield "haar_su2", rz(a) @ ry(b) @ rz(c)


def monitor_run(ctx):
    from qclib.gates.ldmcsu import Ldmcsu
    from qclib.gates.qdmcu import Qdmcu
    kmax = 6 if ctx.quick else 9
    log_a, log_v = [], []

    def gate_a_factory(orig):
        def wrapped(x_value, z_value):
            a = orig(x_value, z_value)
            ctx.monitor("compute_gate_a_contract")
            xr = np.real(x_value)
            u = np.array([[np.conj(z_value), xr], [-xr, z_value]], dtype=complex)
            m = a.conj().T @ X @ a @ X
            log_a.append((float(np.abs(a.conj().T @ a - np.eye(2)).max()), float(np.abs(m @ m - u).max()), abs(np.imag(x_value))))
            return a
        return wrapped

    def sqrtm_factory(orig):
        def wrapped(u):
            v = orig(u)
            ctx.monitor("custom_sqrtm_contract")
            log_v.append((float(np.abs(v.conj().T @ v - np.eye(2)).max()), float(np.abs(v @ v - u).max())))
            return v
        return wrapped

    for k in range(2, kmax + 1):
        for fam, U in su2_family(ctx.rng):
            cs = "".join("1" if ctx.rng.random() < 0.6 else "0" for _ in range(k))
            log_a.clear()
            log_v.clear()
            with monitors.patched(Ldmcsu, "_compute_gate_a", lambda o: staticmethod(gate_a_factory(o))), \
                    monitors.patched(Qdmcu, "custom_sqrtm", lambda o: staticmethod(sqrtm_factory(o))):
                for cls, name in ((Ldmcsu, "Ldmcsu"), (Qdmcu, "Qdmcu")):
                    try:
                        g = cls(U, k, ctrl_state=cs)
                        _ = g.definition
                    except Exception as ex:
                        ctx.note(f"{name} raised on {fam} k={k}: {type(ex).__name__}")
            ctx.count("monitor:" + fam, key=(fam, k, cs, U.tobytes()), nontrivial=True,
                      sample={"family": fam, "k": k, "ctrl_state": cs, "gate_a_calls": len(log_a), "sqrtm_calls": len(log_v)}
                      if k == 4 and fam in ("haar_su2", "iX") else None)
            for (eu, ef, xi) in log_a:
                if xi < 1e-9 and max(eu, ef) > 1e-9:
                    ctx.mismatch(f"C04 contract: Ldmcsu._compute_gate_a: A unitary {eu:.1e}, (A^dag X A X)^2 = U off by {ef:.1e}",
                                 {"family": fam, "k": k, "matrix": [[str(z) for z in row] for row in U]})
                    break
            for (eu, ef) in log_v:
                if max(eu, ef) > 1e-9:
                    ctx.mismatch(f"C04 contract: Qdmcu.custom_sqrtm: V unitary {eu:.1e}, V V = U off by {ef:.1e}",
                                 {"family": fam, "k": k, "matrix": [[str(z) for z in row] for row in U]})
                    break


def run(ctx):
    monitor_run(ctx)
    run_eval(ctx, "C04")


def search(ctx):
    run_eval(ctx, "C04", deep=True)


def replay(ctx, case):
    return replay_eval(ctx, "C04", case)


MANIFEST = dict(
    text="Proof (PARTIAL): the recursion step of Qdmcu (Barenco Lemma 7.5) for any placement and any 'rest' predicate (C04_barenco_step), and the fourth-root identity of Ldmcsu._compute_gate_a over the reals (C04_gate_a_fourth_root); the V-chains they use are C05's theorems. Tie: every custom_sqrtm and _compute_gate_a call made while building gates for boundary and random SU(2) matrices is checked against the theorem's premises/conclusion in matrix form. All gate classes (Ldmcu, Ldmcsu, LdMcSpecialUnitary, Qdmcu, Mcg, MCU, MultiTargetMCSU2), patterns and boundary matrices are evaluated against the ideal controlled operator.",
    note='Modelled, not verified: Qiskit .control(), UnitaryGate; Ldmcu ladder, eigenbasis branch, ABC decomposition, MCU bound, multi-target variant are evaluated only.',
    technique='Coq proof (operator algebra on monomial/permuted states; real sqrt algebra) + runtime contract monitors + operator / random-state evaluation',
    design_ref='DESIGN.md section 4, C04')
