"""C04 - multi-controlled one-qubit gates."""
import numpy as np
from harness.props._common import run_eval, replay_eval
from harness import monitors

PROPS_FILE = "P_C04"
COQ_TARGETS = ["CaseLib", "CaseLibMcx", "LdmcsuModel", "QdmcuModel", "LdmcuInst", "AbcModel", "LdmcsuEig", "MultiTarget", "MultiTargetAll", "McuModel", "McuExtra"]
RULE = ("contract monitors: every call of Qdmcu.custom_sqrtm (V unitary, V V = U: premises of C04_barenco_step) and of "
        "Ldmcsu._compute_gate_a (A unitary, (A^dagger X A X)^2 = U: conclusion of C04_gate_a_fourth_root in matrix form) made while "
        "building gates for boundary and random SU(2)/U(2) matrices and 2..6/9 controls is checked numerically at 1e-9; gate-list "
        "correspondence: the flattened definition of Ldmcsu(U, k, ctrl_state) for U with a real main or secondary diagonal, k = 2..12/24, "
        "is compared inside Coq (vm_compute) with LdmcsuModel.ldmcsu k pattern hconj, and the 2x2 premises of C04_ldmcsu_plain/_hconj "
        "(A^dagger A = I, (A^dagger X A X)^2 = U or H U H) are checked on the A the code computed; for SU(2) matrices with both diagonals complex "
        "(eigenbasis branch, k = 2..12/24) the flattened definition is compared with LdmcsuEig.eig and the four 2x2 identities that are the "
        "premises of C04_ldmcsu_eig are checked on the emitted one-qubit gates; MultiTargetMCSU2 on lists of rotations (k = 2..14/26 controls, 1-3 "
        "targets) is compared with MultiTarget.mtm and the per-target premises of C04_multitarget are checked; MCU with the error chosen so that "
        "the base count equals the number of controls (T = 2..8/12) is compared with McuModel.mcu0, with extra controls (base 2..5/6, 1-3 extra) with "
        "McuExtra.mcux, and the deviation with the root deviation; the flattened definition of "
        "Qdmcu(U, n, ctrl_state), n = 1..9/16, U(2) boundary and Haar matrices, is compared inside Coq with QdmcuModel.qdmcu (controlled V / "
        "V^dagger gates named by the custom_sqrtm iterate their base matrix equals, each checked to be the ideal controlled matrix; the "
        "premises of C04_qdmcu - V_(l+1)^2 = V_l, unitarity - are checked on the iterates); the flattened definition of Ldmcu(U, T, ctrl_state), "
        "T = 1..9/14, is compared inside Coq with LdmcuInst.ldmcu (crx angles read exactly as +-pi/2^e, controlled roots named by the integer "
        "power of the deepest root W they equal; premises W Wi = 1, W^(2^(T-1)) = U checked numerically); the flattened definition of "
        "LdMcSpecialUnitary(U, k, ctrl_state), k = 1..12/20, is compared inside Coq with AbcModel.abc (one-qubit gates named by the matrices "
        "get_abc_operators returned, logged in call order; premises A X B X C = U, A B C = 1 on every level checked numerically); direct "
        "evaluation (harness/props/c04_eval.py): operator / random-state evolution vs the ideal controlled-U for every gate class, "
        "control pattern and boundary matrix. distinct = distinct (class, matrix, controls, pattern); non-trivial = k >= 2")
ASSUMPTIONS = ["Qiskit's UnitaryGate(...).control(...) is the ideal controlled gate (validated numerically in the direct evaluation)",
               "the 2x2 identities that are premises of C04_qdmcu / C04_ldmcsu_* (square roots, unitarity) are checked numerically on the matrices the code computes",
               "the multi-target RX blocks inside MCU are compared numerically with the ideal multi-controlled rotations (blocks of at most 9 qubits)"]
TRUSTED = ["harness/monitors.py"]
X = np.array([[0, 1], [1, 0]], dtype=complex)


def su2_family(rng):
    def rz(t):
        return np.diag([np.exp(-1j * t / 2), np.exp(1j * t / 2)])

    def ry(t):
        return np.array([[np.cos(t / 2), -np.sin(t / 2)], [np.sin(t / 2), np.cos(t / 2)]], dtype=complex)

    def rx(t):
        return np.array([[np.cos(t / 2), -1j * np.sin(t / 2)], [-1j * np.sin(t / 2), np.cos(t / 2)]])
    yield "identity", np.eye(2, dtype=complex)
    yield "minus_identity", -np.eye(2, dtype=complex)
    yield "iX", 1j * X
    yield "iY", np.array([[0, 1], [-1, 0]], dtype=complex)
    yield "iZ", np.diag([1j, -1j])
    yield "ry_pi", ry(np.pi)
    yield "rz_pi", rz(np.pi)
    yield "ry", ry(float(rng.uniform(-3, 3)))
    yield "rz", rz(float(rng.uniform(-3, 3)))
    yield "rx", rx(float(rng.uniform(-3, 3)))
    for _ in range(3):
        a, b, c = rng.uniform(-3, 3, 3)
        yield "haar_su2", rz(a) @ ry(b) @ rz(c)


def monitor_run(ctx):
    from qclib.gates.ldmcsu import Ldmcsu
    from qclib.gates.qdmcu import Qdmcu
    kmax = 6 if ctx.quick else 9
    log_a, log_v = [], []

    def gate_a_factory(orig):
        def wrapped(x_value, z_value):
            a = orig(x_value, z_value)
            ctx.monitor("compute_gate_a_contract")
            xr = np.real(x_value)
            u = np.array([[np.conj(z_value), xr], [-xr, z_value]], dtype=complex)
            m = a.conj().T @ X @ a @ X
            log_a.append((float(np.abs(a.conj().T @ a - np.eye(2)).max()), float(np.abs(m @ m - u).max()), abs(np.imag(x_value))))
            return a
        return wrapped

    def sqrtm_factory(orig):
        def wrapped(u):
            v = orig(u)
            ctx.monitor("custom_sqrtm_contract")
            log_v.append((float(np.abs(v.conj().T @ v - np.eye(2)).max()), float(np.abs(v @ v - u).max())))
            return v
        return wrapped

    for k in range(2, kmax + 1):
        for fam, U in su2_family(ctx.rng):
            cs = "".join("1" if ctx.rng.random() < 0.6 else "0" for _ in range(k))
            log_a.clear()
            log_v.clear()
            with monitors.patched(Ldmcsu, "_compute_gate_a", lambda o: staticmethod(gate_a_factory(o))), \
                    monitors.patched(Qdmcu, "custom_sqrtm", lambda o: staticmethod(sqrtm_factory(o))):
                for cls, name in ((Ldmcsu, "Ldmcsu"), (Qdmcu, "Qdmcu")):
                    try:
                        g = cls(U, k, ctrl_state=cs)
                        _ = g.definition
                    except Exception as ex:
                        ctx.note(f"{name} raised on {fam} k={k}: {type(ex).__name__}")
            ctx.count("monitor:" + fam, key=(fam, k, cs, U.tobytes()), nontrivial=True,
                      sample={"family": fam, "k": k, "ctrl_state": cs, "gate_a_calls": len(log_a), "sqrtm_calls": len(log_v)}
                      if k == 4 and fam in ("haar_su2", "iX") else None)
            for (eu, ef, xi) in log_a:
                if xi < 1e-9 and max(eu, ef) > 1e-9:
                    ctx.mismatch(f"C04 contract: Ldmcsu._compute_gate_a: A unitary {eu:.1e}, (A^dag X A X)^2 = U off by {ef:.1e}",
                                 {"family": fam, "k": k, "matrix": [[str(z) for z in row] for row in U]})
                    break
            for (eu, ef) in log_v:
                if max(eu, ef) > 1e-9:
                    ctx.mismatch(f"C04 contract: Qdmcu.custom_sqrtm: V unitary {eu:.1e}, V V = U off by {ef:.1e}",
                                 {"family": fam, "k": k, "matrix": [[str(z) for z in row] for row in U]})
                    break


LHEADER = ("From Coq Require Import List Bool Arith.\nFrom QV Require Import McxModel CaseLib CaseLibMcx LdmcsuModel.\nImport ListNotations.\n"
           "Definition lgate_eqb (g h : lgate) : bool := match g, h with\n"
           " | LS a, LS b => sgate_eqb a b | LA d t, LA d' t' => Bool.eqb d d' && Nat.eqb t t' | LH t, LH t' => Nat.eqb t t' | _, _ => false end.\n"
           "(* when A is Hermitian, A and A^dagger are the same matrix: the dagger flag carries no information *)\n"
           "Definition undag (g : lgate) : lgate := match g with LA _ t => LA false t | _ => g end.\n")


def ldmcsu_correspondence(ctx):
    """Ldmcsu(U, k, ctrl_state) for SU(2) matrices with a real main or secondary diagonal: the flattened definition is compared
    inside Coq with LdmcsuModel.ldmcsu; the 2x2 premises of C04_ldmcsu_plain / C04_ldmcsu_hconj are checked on A."""
    from cmath import isclose
    from qclib.gates.ldmcsu import Ldmcsu
    from harness.flatten import flatten, coq_list, coq_bool
    from harness.coqcases import run_bool_cases
    from harness.props.c05 import pat_of
    kmax = 12 if ctx.quick else 24
    H = np.array([[1, 1], [1, -1]], dtype=complex) / np.sqrt(2)
    cases, lines = [], []
    for k in range(2, kmax + 1):
        for fam, U in su2_family(ctx.rng):
            sec_real = isclose(U[0, 1].imag, 0.0) and isclose(U[1, 0].imag, 0.0)
            main_real = isclose(U[0, 0].imag, 0.0) and isclose(U[1, 1].imag, 0.0)
            if not (sec_real or main_real):
                continue          # eigenbasis branch: not modelled
            hconj = not sec_real
            cs = None if ctx.rng.random() < 0.3 else "".join("1" if ctx.rng.random() < 0.5 else "0" for _ in range(k))
            g = Ldmcsu(U, k, ctrl_state=cs)
            fl, _ = flatten(g.definition)
            A = Ldmcsu._compute_gate_a(*Ldmcsu._get_x_z(U))
            items = []
            herm = np.abs(A - A.conj().T).max() < 1e-12
            for name, qs, op in fl:
                if name == "unitary" and len(qs) == 1:
                    M = np.asarray(op.to_matrix())
                    if np.abs(M - A).max() < 1e-12:
                        items.append(f"LA false {qs[0]}")
                    elif np.abs(M - A.conj().T).max() < 1e-12:
                        items.append(f"LA true {qs[0]}")
                    else:
                        items.append("LH 99999")
                elif name == "h":
                    items.append(f"LH {qs[0]}")
                else:
                    from harness.props.c05 import sgates_to_coq
                    items.append("LS (" + sgates_to_coq([(name, qs, op)])[1:-1] + ")")
            case = {"class": "Ldmcsu", "k": k, "ctrl_state": cs, "mat_family": fam, "hconj": hconj}
            cases.append(case)
            ctx.max_struct_qubits = max(ctx.max_struct_qubits, k + 1)
            ctx.count("corr:ldmcsu:" + ("hconj" if hconj else "plain"), key=("ldmcsu", k, cs, fam, U.tobytes()), nontrivial=True,
                      sample=dict(case, gates=len(items)) if k == 5 else None)
            model = f"(ldmcsu {k} {coq_list([coq_bool(b) for b in pat_of(cs, k)])} {coq_bool(hconj)})"
            if herm:
                model = f"(map undag {model})"
            lines.append(f"(list_eqb lgate_eqb {model} {coq_list(items)})")
            # premises of the theorems on the actual A
            X2 = X
            W = A.conj().T @ X2 @ A @ X2
            Uprime = H @ U @ H if hconj else U
            ctx.monitor("ldmcsu_theorem_premises")
            if np.abs(A.conj().T @ A - np.eye(2)).max() > 1e-9 or np.abs(W @ W - Uprime).max() > 1e-9:
                ctx.mismatch("C04 contract: (A^dagger X A X)^2 = U (or H U H) fails for the matrix returned by Ldmcsu._compute_gate_a",
                             dict(case, matrix=[[str(z) for z in row] for row in U]))

    def on_fail(c):
        ctx.mismatch("C04 correspondence: flattened Ldmcsu definition differs from the Coq model LdmcsuModel.ldmcsu", c)
    run_bool_cases(ctx, "c04_ldmcsu", LHEADER, lines, cases, on_fail, shard=12)


QHEADER = ("From Coq Require Import List Bool Arith.\nFrom QV Require Import McxModel CaseLib CaseLibMcx QdmcuModel.\nImport ListNotations.\n"
           "Definition qg_eqb (g h : qg) : bool := match g, h with\n"
           " | QS a, QS b => sgate_eqb a b\n"
           " | QCV d l v c t, QCV d' l' v' c' t' => Bool.eqb d d' && Nat.eqb l l' && Bool.eqb v v' && Nat.eqb c c' && Nat.eqb t t'\n"
           " | _, _ => false end.\n"
           "(* (dagger, level) pairs naming numerically equal 2x2 matrices are identified: table computed by the harness *)\n"
           "Definition canon (tb : list ((bool * nat) * (bool * nat))) (d : bool) (l : nat) : bool * nat :=\n"
           "  match find (fun e => Bool.eqb (fst (fst e)) d && Nat.eqb (snd (fst e)) l) tb with Some e => snd e | None => (d, l) end.\n"
           "Definition cgate tb (g : qg) : qg := match g with QCV d l v c t => let (d', l') := canon tb d l in QCV d' l' v c t | _ => g end.\n")


def qdmcu_correspondence(ctx):
    """Qdmcu(U, n, ctrl_state) for U(2) matrices: the flattened definition (controlled V / V^dagger kept whole, LinearMcx action-only
    blocks and their inverses opened) is compared inside Coq with QdmcuModel.qdmcu n (n-1) 0 pattern; each controlled gate is named by
    the iterate of custom_sqrtm its base matrix equals, and checked to be the ideal controlled matrix."""
    from qiskit.circuit import ControlledGate
    from qiskit.quantum_info import Operator
    from qclib.gates.qdmcu import Qdmcu
    from harness.flatten import flatten, coq_list, coq_bool, ctrl_state_of
    from harness.coqcases import run_bool_cases
    from harness.props.c05 import pat_of, sgates_to_coq
    from scipy.stats import unitary_group
    nmax = 9 if ctx.quick else 16

    def stop(op):
        if isinstance(op, ControlledGate) and op.num_ctrl_qubits == 1 and op.num_qubits == 2 and op.name not in ("cx",):
            return "cv"
        return None

    def u2_family():
        yield from su2_family(ctx.rng)
        yield "X", X.copy()
        yield "Z", np.diag([1.0 + 0j, -1.0])
        yield "phase", np.diag([1.0 + 0j, np.exp(0.7j)])
        yield "global_phase", np.exp(0.3j) * np.eye(2, dtype=complex)
        for _ in range(2):
            yield "haar_u2", unitary_group.rvs(2, random_state=int(ctx.rng.integers(1 << 30)))
    cases, lines = [], []
    for n in range(1, nmax + 1):
        for fam, U in u2_family():
            if n > 6 and fam not in ("haar_u2", "X", "identity", "iX", "haar_su2"):
                continue
            cs = None if ctx.rng.random() < 0.3 else "".join("1" if ctx.rng.random() < 0.5 else "0" for _ in range(n))
            g = Qdmcu(U, n, ctrl_state=cs)
            fl, _ = flatten(g.definition, stop=stop)
            # the iterates of the square root, as the code computes them
            Vs = [np.asarray(U, dtype=complex)]
            for _ in range(n):
                Vs.append(np.asarray(Qdmcu.custom_sqrtm(Vs[-1])))
            names = [(d, l) for l in range(n + 1) for d in (False, True)]
            mat = {(d, l): (Vs[l].conj().T if d else Vs[l]) for (d, l) in names}
            rep = {}
            for i, a in enumerate(names):
                rep[a] = next(b for b in names[:i + 1] if np.abs(mat[a] - mat[b]).max() < 1e-12)
            table = coq_list([f"(({coq_bool(a[0])}, {a[1]}), ({coq_bool(rep[a][0])}, {rep[a][1]}))" for a in names])
            items, bad = [], None
            for name, qs, op in fl:
                if name == "cv":
                    B = np.asarray(Operator(op.base_gate).data)
                    hit = next((a for a in names if np.abs(B - mat[a]).max() < 1e-12), None)
                    cvb = ctrl_state_of(op)[0]
                    ideal = np.eye(4, dtype=complex)
                    idx = [2 * t + cvb for t in (0, 1)]                # little-endian: index = 2 * target + control
                    ideal[np.ix_(idx, idx)] = B
                    ctx.monitor("qdmcu_controlled_gate_is_ideal")
                    if np.abs(np.asarray(Operator(op).data) - ideal).max() > 1e-9:
                        bad = "a controlled V gate is not the ideal controlled matrix"
                    if hit is None:
                        items.append("QCV false 99999 true 0 0")
                    else:
                        items.append(f"QCV {coq_bool(rep[hit][0])} {rep[hit][1]} {coq_bool(bool(cvb))} {qs[0]} {qs[1]}")
                else:
                    items.append("QS (" + sgates_to_coq([(name, qs, op)])[1:-1] + ")")
            case = {"class": "Qdmcu", "k": n, "ctrl_state": cs, "mat_family": fam, "matrix": [[str(z) for z in row] for row in U]}
            cases.append(case)
            ctx.max_struct_qubits = max(ctx.max_struct_qubits, n + 1)
            ctx.count("corr:qdmcu", key=("qdmcu", n, cs, fam, U.tobytes()), nontrivial=n >= 2,
                      sample={"class": "Qdmcu", "k": n, "ctrl_state": cs, "mat_family": fam, "gates": len(items)} if n == 4 else None)
            if bad:
                ctx.mismatch("C04 contract: " + bad, case)
            # premises of C04_qdmcu on the iterates
            ctx.monitor("qdmcu_theorem_premises")
            for l in range(n):
                if np.abs(Vs[l + 1] @ Vs[l + 1] - Vs[l]).max() > 1e-9 or np.abs(Vs[l + 1] @ Vs[l + 1].conj().T - np.eye(2)).max() > 1e-9:
                    ctx.mismatch("C04 contract: custom_sqrtm iterate is not a unitary square root (premise of C04_qdmcu)", dict(case, level=l + 1))
                    break
            model = f"(map (cgate {table}) (qdmcu {n} {n - 1} 0 {coq_list([coq_bool(b) for b in pat_of(cs, n)])}))"
            lines.append(f"(list_eqb qg_eqb {model} {coq_list(items)})")

    def on_fail(c):
        ctx.mismatch("C04 correspondence: flattened Qdmcu definition differs from the Coq model QdmcuModel.qdmcu", c)
    run_bool_cases(ctx, "c04_qdmcu", QHEADER, lines, cases, on_fail, shard=12)


DHEADER = ("From Coq Require Import List Bool Arith ZArith.\nFrom QV Require Import McxModel CaseLib CaseLibMcx LdmcuCore LdmcuModel LdmcuInst.\nImport ListNotations.\n"
           "Definition lg_eqb (g h : lg) : bool := Nat.eqb (gc g) (gc h) && Nat.eqb (gt g) (gt h) && Z.eqb (gz g) (gz h).\n"
           "Definition fg_eqb (g h : fgate) : bool := match g, h with inl a, inl b => sgate_eqb a b | inr a, inr b => lg_eqb a b | _, _ => false end.\n"
           "(* exponents naming numerically equal powers of W on the target are identified: table computed by the harness *)\n"
           "Definition canonz (tb : list (Z * Z)) (z : Z) : Z := match find (fun e => Z.eqb (fst e) z) tb with Some e => snd e | None => z end.\n"
           "Definition cfg (T : nat) tb (g : fgate) : fgate := match g with inr a => if Nat.eqb (gt a) T then inr (LG (gc a) (gt a) (canonz tb (gz a))) else g | _ => g end.\n")


def ldmcu_correspondence(ctx):
    """Ldmcu(U, T, ctrl_state): the flattened definition (crx angles read exactly as +-pi/2^e, controlled roots of U kept whole and
    named by the integer power of the deepest root W = U^(1/2^(T-1)) they equal) is compared inside Coq with LdmcuInst.ldmcu T pattern;
    the premises of C04_ldmcu (W Wi = 1, W^(2^(T-1)) = U) are checked numerically."""
    from qiskit.circuit import ControlledGate
    from qiskit.quantum_info import Operator
    from qclib.gates.ldmcu import Ldmcu
    from harness.flatten import flatten, coq_list, coq_bool, ctrl_state_of
    from harness.coqcases import run_bool_cases
    from harness.props.c05 import pat_of, sgates_to_coq
    from scipy.stats import unitary_group
    tmax = 9 if ctx.quick else 14

    def stop(op):
        if isinstance(op, ControlledGate) and op.num_ctrl_qubits == 1 and op.num_qubits == 2 and op.name not in ("cx", "crx"):
            return "cv"
        return None

    def u2_family():
        yield from su2_family(ctx.rng)
        yield "X", X.copy()
        yield "Z", np.diag([1.0 + 0j, -1.0])
        yield "phase", np.diag([1.0 + 0j, np.exp(0.7j)])
        yield "tiny_phase", np.diag([1.0 + 0j, np.exp(1e-9j)])
        yield "global_phase", np.exp(0.3j) * np.eye(2, dtype=complex)
        for _ in range(2):
            yield "haar_u2", unitary_group.rvs(2, random_state=int(ctx.rng.integers(1 << 30)))
    cases, lines = [], []
    for T in range(1, tmax + 1):
        for fam, U in u2_family():
            if T > 6 and fam not in ("haar_u2", "X", "identity", "iX", "haar_su2", "tiny_phase"):
                continue
            cs = None if ctx.rng.random() < 0.3 else "".join("1" if ctx.rng.random() < 0.5 else "0" for _ in range(T))
            g = Ldmcu(U, T, ctrl_state=cs)
            fl, _ = flatten(g.definition, stop=stop)
            W = np.asarray(Operator(Ldmcu._gate_u(U, 2 ** (T - 1), 1)).data)[np.ix_([1, 3], [1, 3])]   # controlled circuit: block control = 1
            Wi = np.linalg.inv(W)
            cands = [sg * 2 ** j for j in range(T) for sg in (1, -1)]
            mat = {z: np.linalg.matrix_power(W if z > 0 else Wi, abs(z)) for z in cands}
            rep = {}
            for i, a in enumerate(cands):
                rep[a] = next(b for b in cands[:i + 1] if np.abs(mat[a] - mat[b]).max() < 1e-13)
            table = coq_list([f"(({a})%Z, ({rep[a]})%Z)" for a in cands])
            items, bad = [], None
            for name, qs, op in fl:
                if name == "cv":
                    B = np.asarray(Operator(op.base_gate).data)
                    best = min(cands, key=lambda z: np.abs(B - mat[z]).max())
                    ideal = np.eye(4, dtype=complex)
                    ideal[np.ix_([1, 3], [1, 3])] = B                 # little-endian: index = 2 * target + control
                    ctx.monitor("ldmcu_controlled_root_is_ideal")
                    if ctrl_state_of(op) != (1,) or np.abs(np.asarray(Operator(op).data) - ideal).max() > 1e-9:
                        bad = "a controlled root gate is not the ideal positively controlled matrix"
                    if np.abs(B - mat[best]).max() > 1e-9:
                        items.append(f"inr (LG {qs[0]} {qs[1]} 77777%Z)")
                    else:
                        items.append(f"inr (LG {qs[0]} {qs[1]} ({rep[best]})%Z)")
                elif name == "crx":
                    th = float(op.params[0])
                    e = int(round(np.log2(np.pi / abs(th)))) if th != 0 else -1
                    t = qs[1]
                    if e < 0 or np.pi / 2 ** e != abs(th) or t - 1 - e < 0:
                        items.append(f"inr (LG {qs[0]} {qs[1]} 88888%Z)")
                    else:
                        z = (1 if th > 0 else -1) * 2 ** (t - 1 - e)
                        items.append(f"inr (LG {qs[0]} {qs[1]} ({z})%Z)")
                else:
                    items.append("inl (" + sgates_to_coq([(name, qs, op)])[1:-1] + ")")
            case = {"class": "Ldmcu", "k": T, "ctrl_state": cs, "mat_family": fam, "matrix": [[str(z) for z in row] for row in U]}
            cases.append(case)
            ctx.max_struct_qubits = max(ctx.max_struct_qubits, T + 1)
            ctx.count("corr:ldmcu", key=("ldmcu", T, cs, fam, U.tobytes()), nontrivial=T >= 2,
                      sample={"class": "Ldmcu", "k": T, "ctrl_state": cs, "mat_family": fam, "gates": len(items)} if T == 4 else None)
            if bad:
                ctx.mismatch("C04 contract: " + bad, case)
            ctx.monitor("ldmcu_theorem_premises")
            if np.abs(W @ Wi - np.eye(2)).max() > 1e-9 or np.abs(np.linalg.matrix_power(W, 2 ** (T - 1)) - U).max() > 1e-9:
                ctx.mismatch("C04 contract: the deepest root W = U^(1/2^(T-1)) of Ldmcu._gate_u does not satisfy W^(2^(T-1)) = U (premise of C04_ldmcu)", case)
            model = f"(map (cfg {T} {table}) (ldmcu {T} {coq_list([coq_bool(b) for b in pat_of(cs, T)])}))"
            lines.append(f"(list_eqb fg_eqb {model} {coq_list(items)})")

    def on_fail(c):
        ctx.mismatch("C04 correspondence: flattened Ldmcu definition differs from the Coq model LdmcuInst.ldmcu", c)
    run_bool_cases(ctx, "c04_ldmcu", DHEADER, lines, cases, on_fail, shard=12)


AHEADER = ("From Coq Require Import List Bool Arith.\nFrom QV Require Import McxModel CaseLib CaseLibMcx AbcModel.\nImport ListNotations.\n"
           "Definition ag_eqb (g h : ag) : bool := match g, h with AS a, AS b => sgate_eqb a b | AU i t, AU j u => Nat.eqb i j && Nat.eqb t u | _, _ => false end.\n"
           "(* indices naming numerically equal 2x2 matrices are identified: table computed by the harness *)\n"
           "Definition canoni (tb : list (nat * nat)) (i : nat) : nat := match find (fun e => Nat.eqb (fst e) i) tb with Some e => snd e | None => i end.\n"
           "Definition cag tb (g : ag) : ag := match g with AU i t => AU (canoni tb i) t | _ => g end.\n")


def abc_correspondence(ctx):
    """LdMcSpecialUnitary(U, k, ctrl_state), U in SU(2): the flattened definition is compared inside Coq with AbcModel.abc k pattern;
    the one-qubit gates are named by the matrices returned by get_abc_operators (logged in call order), and the premises of
    C04_ldmc_special (A X B X C = U, A B C = 1, and the same for the nested decompositions of A, B, C) are checked numerically."""
    from qclib.gates.ldmcsu import LdMcSpecialUnitary
    from harness.flatten import flatten, coq_list, coq_bool
    from harness.coqcases import run_bool_cases
    from harness.props.c05 import pat_of, sgates_to_coq
    kmax = 12 if ctx.quick else 20
    cases, lines = [], []
    log = []

    def abc_factory(orig):
        def wrapped(beta, gamma, delta):
            r = orig(beta, gamma, delta)
            log.append([np.asarray(g.to_matrix()) for g in r])
            return r
        return wrapped

    def prem(a, b, c, w):
        return max(np.abs(a @ X @ b @ X @ c - w).max(), np.abs(a @ b @ c - np.eye(2)).max())
    for k in range(1, kmax + 1):
        for fam, U in su2_family(ctx.rng):
            if k > 7 and fam not in ("haar_su2", "identity", "iX", "rz", "ry"):
                continue
            cs = None if ctx.rng.random() < 0.3 else "".join("1" if ctx.rng.random() < 0.5 else "0" for _ in range(k))
            log.clear()
            with monitors.patched(LdMcSpecialUnitary, "get_abc_operators", lambda o: staticmethod(abc_factory(o))):
                g = LdMcSpecialUnitary(U, k, ctrl_state=cs)
                fl, _ = flatten(g.definition)
            case = {"class": "LdMcSpecialUnitary", "k": k, "ctrl_state": cs, "mat_family": fam, "matrix": [[str(z) for z in row] for row in U]}
            cases.append(case)
            mats = {}
            if len(log) >= 1:
                mats[9], mats[10], mats[11] = log[0]
            if len(log) == 4:
                for j in range(3):
                    mats[3 * j], mats[3 * j + 1], mats[3 * j + 2] = log[1 + j]
            ctx.monitor("abc_theorem_premises")
            ok_shape = (len(log) == 1 and k < 3) or (len(log) == 4 and k >= 3)
            if not ok_shape:
                ctx.mismatch("C04 correspondence: LdMcSpecialUnitary called get_abc_operators an unexpected number of times", dict(case, calls=len(log)))
            else:
                A, B, C = mats[9], mats[10], mats[11]
                errs = [prem(A, B, C, U)]
                if k >= 3:
                    errs += [prem(mats[0], mats[1], mats[2], A), prem(mats[3], mats[4], mats[5], B), prem(mats[6], mats[7], mats[8], C)]
                if max(errs) > 1e-9:
                    ctx.mismatch(f"C04 contract: the ABC operators do not satisfy A X B X C = U, A B C = 1 (premises of C04_ldmc_special), off by {max(errs):.1e}", case)
            idxs = sorted(mats)
            rep = {}
            for n_i, a in enumerate(idxs):
                rep[a] = next(b for b in idxs[:n_i + 1] if np.abs(mats[a] - mats[b]).max() < 1e-13)
            table = coq_list([f"({a}, {rep[a]})" for a in idxs])
            items = []
            for name, qs, op in fl:
                if name == "unitary" and len(qs) == 1:
                    Mx = np.asarray(op.to_matrix())
                    best = min(idxs, key=lambda a: np.abs(Mx - mats[a]).max()) if idxs else None
                    if best is None or np.abs(Mx - mats[best]).max() > 1e-12:
                        items.append(f"AU 99999 {qs[0]}")
                    else:
                        items.append(f"AU {rep[best]} {qs[0]}")
                else:
                    items.append("AS (" + sgates_to_coq([(name, qs, op)])[1:-1] + ")")
            ctx.max_struct_qubits = max(ctx.max_struct_qubits, k + 1)
            ctx.count("corr:ldmc_special", key=("abc", k, cs, fam, U.tobytes()), nontrivial=k >= 2,
                      sample={"class": "LdMcSpecialUnitary", "k": k, "ctrl_state": cs, "mat_family": fam, "gates": len(items)} if k == 6 else None)
            model = f"(map (cag {table}) (abc {k} {coq_list([coq_bool(b) for b in pat_of(cs, k)])}))"
            lines.append(f"(list_eqb ag_eqb {model} {coq_list(items)})")

    def on_fail(c):
        ctx.mismatch("C04 correspondence: flattened LdMcSpecialUnitary definition differs from the Coq model AbcModel.abc", c)
    run_bool_cases(ctx, "c04_abc", AHEADER, lines, cases, on_fail, shard=12)


EHEADER = AHEADER.replace("AbcModel.", "AbcModel LdmcsuModel LdmcsuEig.")


def eig_correspondence(ctx):
    """Ldmcsu(U, k, ctrl_state) for SU(2) matrices with both diagonals complex (eigenbasis branch, k >= 2): the flattened definition is
    compared inside Coq with LdmcsuEig.eig k pattern; the one-qubit gates are named in order of first appearance (H, S, S^dagger, the
    Hadamard-like gate, A, A^dagger) and the four 2x2 identities that are the premises of C04_ldmcsu_eig are checked numerically."""
    from cmath import isclose
    from qclib.gates.ldmcsu import Ldmcsu
    from harness.flatten import flatten, coq_list, coq_bool
    from harness.coqcases import run_bool_cases
    from harness.props.c05 import pat_of, sgates_to_coq
    kmax = 12 if ctx.quick else 24
    Hm = np.array([[1, 1], [1, -1]], dtype=complex) / np.sqrt(2)
    cases, lines = [], []

    def rz(t):
        return np.diag([np.exp(-1j * t / 2), np.exp(1j * t / 2)])

    def ry(t):
        return np.array([[np.cos(t / 2), -np.sin(t / 2)], [np.sin(t / 2), np.cos(t / 2)]], dtype=complex)

    def Xp(q):
        return X if q else np.eye(2)
    for k in range(2, kmax + 1):
        for rep in range(4 if k <= 8 else 2):
            a, b, c = ctx.rng.uniform(-3, 3, 3)
            U = rz(a) @ ry(b) @ rz(c)
            if rep == 1:
                U = rz(a) @ ry(1e-3 * b) @ rz(c)          # nearly diagonal
            sec_real = isclose(U[0, 1].imag, 0.0) and isclose(U[1, 0].imag, 0.0)
            main_real = isclose(U[0, 0].imag, 0.0) and isclose(U[1, 1].imag, 0.0)
            if sec_real or main_real:
                continue
            cs = None if ctx.rng.random() < 0.3 else "".join("1" if ctx.rng.random() < 0.5 else "0" for _ in range(k))
            g = Ldmcsu(U, k, ctrl_state=cs)
            fl, _ = flatten(g.definition)
            case = {"class": "Ldmcsu", "k": k, "ctrl_state": cs, "mat_family": "complex_diagonals", "matrix": [[str(z) for z in row] for row in U]}
            cases.append(case)
            ctx.count("corr:ldmcsu:eigenbasis", key=("eig", k, cs, U.tobytes()), nontrivial=True,
                      sample={"class": "Ldmcsu", "k": k, "ctrl_state": cs, "branch": "eigenbasis", "gates": len(fl)} if k == 6 else None)
            ctx.max_struct_qubits = max(ctx.max_struct_qubits, k + 1)
            ones = [np.asarray(op.to_matrix()) for name, qs, op in fl if name == "unitary" and len(qs) == 1]
            mats = {0: Hm}
            for i, Mx in enumerate(ones[:5]):
                mats[i + 1] = Mx
            idxs = sorted(mats)
            rep_of = {}
            for n_i, a_ in enumerate(idxs):
                rep_of[a_] = next(b_ for b_ in idxs[:n_i + 1] if np.abs(mats[a_] - mats[b_]).max() < 1e-13)
            table = coq_list([f"({a_}, {rep_of[a_]})" for a_ in idxs])
            items = []
            for name, qs, op in fl:
                if name == "h":
                    items.append(f"AU {rep_of[0]} {qs[0]}")
                elif name == "unitary" and len(qs) == 1:
                    Mx = np.asarray(op.to_matrix())
                    best = min(idxs, key=lambda a_: np.abs(Mx - mats[a_]).max())
                    items.append(f"AU {rep_of[best]} {qs[0]}" if np.abs(Mx - mats[best]).max() < 1e-12 else f"AU 99999 {qs[0]}")
                else:
                    items.append("AS (" + sgates_to_coq([(name, qs, op)])[1:-1] + ")")
            ctx.monitor("ldmcsu_eig_theorem_premises")
            if len(mats) == 6:
                M = mats

                def Wf(q1, q2):
                    seq = [M[0], M[2], Xp(q2), M[1], M[3], Xp(q1), M[5], Xp(q2), M[4], Xp(q1), M[5], Xp(q2), M[4], M[3], M[2], Xp(q2), M[1], M[0]]
                    out = np.eye(2, dtype=complex)
                    for m_ in seq:
                        out = out @ m_
                    return out
                err = max(np.abs(Wf(1, 1) - U).max(), np.abs(Wf(1, 0) - np.eye(2)).max(), np.abs(Wf(0, 1) - np.eye(2)).max(),
                          np.abs(Wf(0, 0) - np.eye(2)).max())
                if err > 1e-9:
                    ctx.mismatch(f"C04 contract: the one-qubit gates of the eigenbasis branch of Ldmcsu do not satisfy the four 2x2 identities "
                                 f"(premises of C04_ldmcsu_eig), off by {err:.1e}", case)
            model = f"(map (cag {table}) (eig {k} {coq_list([coq_bool(b_) for b_ in pat_of(cs, k)])}))"
            lines.append(f"(list_eqb ag_eqb {model} {coq_list(items)})")

    def on_fail(c):
        ctx.mismatch("C04 correspondence: flattened Ldmcsu definition (eigenbasis branch) differs from the Coq model LdmcsuEig.eig", c)
    run_bool_cases(ctx, "c04_eig", EHEADER, lines, cases, on_fail, shard=12)


MHEADER = AHEADER.replace("AbcModel.", "AbcModel LdmcsuModel MultiTarget.")


def multitarget_correspondence(ctx):
    """MultiTargetMCSU2(list of rotations, k >= 2 controls, ctrl_state): the
    flattened definition is compared inside Coq with MultiTarget.mtm k nt pattern flags; the gates A_i / A_i^dagger are named per
    target, and the premises of C04_multitarget (A_i^dagger A_i = 1, (A_i^dagger X A_i X)^2 = U_i', H U_i' H = U_i) are checked."""
    from cmath import isclose
    from qclib.gates.ldmcsu import Ldmcsu
    from qclib.gates.multitargetmcsu2 import MultiTargetMCSU2
    from harness.flatten import flatten, coq_list, coq_bool
    from harness.coqcases import run_bool_cases
    from harness.props.c05 import pat_of, sgates_to_coq
    kmax = 14 if ctx.quick else 26
    Hm = np.array([[1, 1], [1, -1]], dtype=complex) / np.sqrt(2)
    cases, lines = [], []

    def rot(kind, t):
        if kind == "rz":
            return np.diag([np.exp(-1j * t / 2), np.exp(1j * t / 2)])
        if kind == "ry":
            return np.array([[np.cos(t / 2), -np.sin(t / 2)], [np.sin(t / 2), np.cos(t / 2)]], dtype=complex)
        return np.array([[np.cos(t / 2), -1j * np.sin(t / 2)], [-1j * np.sin(t / 2), np.cos(t / 2)]])
    for k in range(2, kmax + 1):
        for nt in (1, 2, 3):
            if k > 12 and nt == 3:
                continue
            kinds = [["rx", "ry", "rz"][int(ctx.rng.integers(3))] for _ in range(nt)]
            Us = [rot(kd, float(ctx.rng.uniform(-3, 3))) for kd in kinds]
            cs = None if ctx.rng.random() < 0.3 else "".join("1" if ctx.rng.random() < 0.5 else "0" for _ in range(k))
            g = MultiTargetMCSU2(Us, k, num_target=nt, ctrl_state=cs)
            fl, _ = flatten(g.definition)
            case = {"class": "MultiTargetMCSU2", "k": k, "num_target": nt, "ctrl_state": cs, "kinds": kinds,
                    "matrices": [[[str(z) for z in row] for row in U] for U in Us]}
            cases.append(case)
            ctx.count("corr:multitarget", key=("mt", k, nt, cs, tuple(U.tobytes() for U in Us)), nontrivial=True,
                      sample={"class": "MultiTargetMCSU2", "k": k, "num_target": nt, "ctrl_state": cs, "gates": len(fl)} if (k, nt) == (8, 2) else None)
            ctx.max_struct_qubits = max(ctx.max_struct_qubits, k + nt)
            As = [np.asarray(Ldmcsu._compute_gate_a(*Ldmcsu._get_x_z(U))) for U in Us]
            flags = []
            for U in Us:
                sec_real = isclose(U[0, 1].imag, 0.0) and isclose(U[1, 0].imag, 0.0)
                main_real = isclose(U[0, 0].imag, 0.0) and isclose(U[1, 1].imag, 0.0)
                flags.append((not sec_real) and main_real)
            table = []
            ctx.monitor("multitarget_theorem_premises")
            for i, (A, U, hflag) in enumerate(zip(As, Us, flags)):
                if np.abs(A - A.conj().T).max() < 1e-13:
                    table.append(f"({3 * i + 1}, {3 * i})")
                Ad = A.conj().T
                W = Ad @ X @ A @ X
                Up = W @ W
                Hh = Hm if hflag else np.eye(2)
                err = max(np.abs(Ad @ A - np.eye(2)).max(), np.abs(Hh @ Up @ Hh - U).max())
                if err > 1e-9:
                    ctx.mismatch(f"C04 contract: target {i} of MultiTargetMCSU2: (A^dagger X A X)^2 conjugated as in the definition is not the "
                                 f"listed rotation (premise of C04_multitarget), off by {err:.1e}", case)
            items = []
            for name, qs, op in fl:
                if name == "h" and qs[0] >= k:
                    items.append(f"AU {3 * (qs[0] - k) + 2} {qs[0]}")
                elif name == "unitary" and len(qs) == 1 and qs[0] >= k:
                    i = qs[0] - k
                    Mx = np.asarray(op.to_matrix())
                    if np.abs(Mx - As[i]).max() < 1e-12:
                        items.append(f"AU {3 * i} {qs[0]}")
                    elif np.abs(Mx - As[i].conj().T).max() < 1e-12:
                        items.append(f"AU {3 * i + 1} {qs[0]}")
                    else:
                        items.append(f"AU 99999 {qs[0]}")
                else:
                    items.append("AS (" + sgates_to_coq([(name, qs, op)])[1:-1] + ")")
            model = (f"(map (cag {coq_list(table)}) (mtm {k} {nt} {coq_list([coq_bool(b_) for b_ in pat_of(cs, k)])} "
                     f"{coq_list([coq_bool(b_) for b_ in flags])}))")
            lines.append(f"(list_eqb ag_eqb {model} {coq_list(items)})")

    def on_fail(c):
        ctx.mismatch("C04 correspondence: flattened MultiTargetMCSU2 definition differs from the Coq model MultiTarget.mtm", c)
    run_bool_cases(ctx, "c04_mt", MHEADER, lines, cases, on_fail, shard=8)


def mcu_correspondence(ctx):
    """MCU(U, T, error) with the error chosen so that the base count equals the number of controls T (no extra controls): the flattened
    definition is compared inside Coq with McuModel.mcu0 T pattern (crx angles exact, controlled roots named by the power of the deepest
    root W = U^(1/2^(T-1)) they equal); premises of C04_mcu_base checked numerically; the deviation from the ideal gate is compared
    with |e^(i theta / 2^(T-1)) - 1| and with the requested error."""
    from qiskit.circuit import ControlledGate
    from qiskit.quantum_info import Operator
    from qclib.gates.mcu import MCU
    from harness.flatten import flatten, coq_list, coq_bool
    from harness.coqcases import run_bool_cases
    from harness.props.c05 import pat_of, sgates_to_coq
    tmax = 8 if ctx.quick else 12

    def stop(op):
        if isinstance(op, ControlledGate) and op.num_ctrl_qubits == 1 and op.num_qubits == 2 and op.name not in ("cx", "crx"):
            return "cv"
        return None
    cases, lines = [], []
    for T in range(2, tmax + 1):
        for rep in range(3):
            theta = float(ctx.rng.uniform(0.3, 3.0))
            lam = float(ctx.rng.uniform(-3, 3))
            if rep == 0:
                U = np.diag([1.0 + 0j, np.exp(1j * theta)])
            else:                                   # eigenphases (lam, lam + theta) in a random basis, the larger 1 - cos first or second
                from scipy.stats import unitary_group
                V = unitary_group.rvs(2, random_state=int(ctx.rng.integers(1 << 30)))
                U = V @ np.diag([np.exp(1j * lam * 0.1), np.exp(1j * theta)]) @ V.conj().T
            ang = np.angle(np.linalg.eigvals(U))
            angle = ang[0] if (1 - np.cos(ang[0])) >= (1 - np.cos(ang[1])) else ang[1]
            if angle <= 0:
                continue                            # the constructor takes log2 of a non-positive quotient: not accepted
            delta = angle / 2 ** (T - 1.5)          # log2(angle / delta) = T - 1.5  ->  base count = ceil(T - 1.5) + 1 = T
            eps = float(np.sqrt(2 - 2 * np.cos(delta)))
            cs = None if ctx.rng.random() < 0.3 else "".join("1" if ctx.rng.random() < 0.5 else "0" for _ in range(T))
            try:
                g = MCU(U, T, error=eps, ctrl_state=cs)
            except Exception as ex:
                ctx.note(f"MCU raised {type(ex).__name__} for T={T}")
                continue
            if g.n_ctrl_base != T:
                continue
            fl, _ = flatten(g.definition, stop=stop)
            case = {"class": "MCU", "k": T, "ctrl_state": cs, "error": eps, "matrix": [[str(z) for z in row] for row in U]}
            cases.append(case)
            ctx.count("corr:mcu_base", key=("mcu", T, cs, U.tobytes()), nontrivial=True,
                      sample={"class": "MCU", "k": T, "ctrl_state": cs, "error": eps, "gates": len(fl)} if T == 4 else None)
            ctx.max_struct_qubits = max(ctx.max_struct_qubits, T + 1)
            W = np.asarray(Operator(MCU._gate_u(U, 2 ** (T - 1), 1)).data)[np.ix_([1, 3], [1, 3])]
            Wi = np.linalg.inv(W)
            cands = [sg * 2 ** j for j in range(T) for sg in (1, -1)]
            mat = {z: np.linalg.matrix_power(W if z > 0 else Wi, abs(z)) for z in cands}
            rep_of = {}
            for i, a in enumerate(cands):
                rep_of[a] = next(b for b in cands[:i + 1] if np.abs(mat[a] - mat[b]).max() < 1e-13)
            table = coq_list([f"(({a})%Z, ({rep_of[a]})%Z)" for a in cands])
            items = []
            for name, qs, op in fl:
                if name == "cv":
                    B = np.asarray(Operator(op.base_gate).data)
                    best = min(cands, key=lambda z: np.abs(B - mat[z]).max())
                    items.append(f"inr (LG {qs[0]} {qs[1]} ({rep_of[best]})%Z)" if np.abs(B - mat[best]).max() < 1e-9
                                 else f"inr (LG {qs[0]} {qs[1]} 77777%Z)")
                elif name == "crx":
                    th = float(op.params[0])
                    e = int(round(np.log2(np.pi / abs(th)))) if th != 0 else -1
                    t = qs[1]
                    if e < 0 or np.pi / 2 ** e != abs(th) or t - 1 - e < 0:
                        items.append(f"inr (LG {qs[0]} {qs[1]} 88888%Z)")
                    else:
                        items.append(f"inr (LG {qs[0]} {qs[1]} ({(1 if th > 0 else -1) * 2 ** (t - 1 - e)})%Z)")
                else:
                    items.append("inl (" + sgates_to_coq([(name, qs, op)])[1:-1] + ")")
            ctx.monitor("mcu_theorem_premises")
            if np.abs(W @ Wi - np.eye(2)).max() > 1e-9 or np.abs(np.linalg.matrix_power(W, 2 ** (T - 1)) - U).max() > 1e-9:
                ctx.mismatch("C04 contract: the deepest root of MCU._gate_u does not satisfy W^(2^(T-1)) = U (premise of C04_mcu_base)", case)
            # the deviation the theorem predicts: || W^-1 - 1 || = |e^(i angle / 2^(T-1)) - 1|, and it must be within the requested error
            ctx.monitor("mcu_deviation_is_root_deviation")
            dev = float(np.linalg.norm(Wi - np.eye(2), 2))
            pred = float(abs(np.exp(1j * angle / 2 ** (T - 1)) - 1))
            if abs(dev - pred) > 1e-9 or dev > eps + 1e-12:
                ctx.mismatch(f"C04 contract: MCU deviation {dev:.3e} vs predicted {pred:.3e} vs requested error {eps:.3e}", case)
            model = f"(map (cfg {T} {table}) (mcu0 {T} {coq_list([coq_bool(b) for b in pat_of(cs, T)])}))"
            lines.append(f"(list_eqb fg_eqb {model} {coq_list(items)})")

    def on_fail(c):
        ctx.mismatch("C04 correspondence: flattened MCU definition differs from the Coq model McuModel.mcu0", c)
    run_bool_cases(ctx, "c04_mcu", DHEADER.replace("LdmcuInst.", "LdmcuInst McuModel."), lines, cases, on_fail, shard=12)


XHEADER = ("From Coq Require Import List Bool Arith ZArith.\nFrom QV Require Import McxModel CaseLib CaseLibMcx LdmcuCore McuExtra.\nImport ListNotations.\n"
           "Definition vg_eqb (g h : vg) : bool := match g, h with VG cs t et z, VG cs' t' et' z' =>\n"
           "  list_eqb Nat.eqb cs cs' && Nat.eqb t t' && Nat.eqb et et' && Z.eqb z z' end.\n"
           "Definition xg_eqb (g h : xgate) : bool := match g, h with inl a, inl b => sgate_eqb a b | inr a, inr b => vg_eqb a b | _, _ => false end.\n"
           "Definition canonz (tb : list (Z * Z)) (z : Z) : Z := match find (fun e => Z.eqb (fst e) z) tb with Some e => snd e | None => z end.\n"
           "Definition cxg (T : nat) tb (g : xgate) : xgate := match g with\n"
           "  | inr (VG cs t et z) => if Nat.eqb et T then inr (VG cs t et (canonz tb z)) else g | _ => g end.\n")


def mcux_correspondence(ctx):
    """MCU(U, T + e controls, error) with base count T and e >= 1 extra controls: the flattened definition (multi-target RX blocks kept
    whole and checked to be the ideal multi-controlled rotations, then listed target by target) is compared inside Coq with
    McuExtra.mcux e T pattern; premises of C04_mcu and the deviation are checked as for the base case."""
    from qiskit.circuit import ControlledGate
    from qiskit.quantum_info import Operator
    from qclib.gates.mcu import MCU
    from harness.flatten import flatten, coq_list, coq_bool
    from harness.coqcases import run_bool_cases
    from harness.props.c05 import pat_of, sgates_to_coq
    tmax = 5 if ctx.quick else 6

    def stop(op):
        if isinstance(op, ControlledGate) and op.num_ctrl_qubits == 1 and op.num_qubits == 2 and op.name not in ("cx", "crx"):
            return "cv"
        if op.name.startswith("circuit-") and op.num_qubits >= 3:
            return "mtblock"
        return None

    def rx(th):
        return np.array([[np.cos(th / 2), -1j * np.sin(th / 2)], [-1j * np.sin(th / 2), np.cos(th / 2)]])
    cases, lines = [], []
    for T in range(2, tmax + 1):
        for e in ((1, 2, 3) if T <= 4 else (1,)):
            theta = float(ctx.rng.uniform(0.3, 3.0))
            from scipy.stats import unitary_group
            V = unitary_group.rvs(2, random_state=int(ctx.rng.integers(1 << 30)))
            U = V @ np.diag([np.exp(0.05j), np.exp(1j * theta)]) @ V.conj().T
            ang = np.angle(np.linalg.eigvals(U))
            angle = ang[0] if (1 - np.cos(ang[0])) >= (1 - np.cos(ang[1])) else ang[1]
            if angle <= 0:
                continue
            delta = angle / 2 ** (T - 1.5)
            eps = float(np.sqrt(2 - 2 * np.cos(delta)))
            nc = T + e
            cs = None if ctx.rng.random() < 0.3 else "".join("1" if ctx.rng.random() < 0.5 else "0" for _ in range(nc))
            try:
                g = MCU(U, nc, error=eps, ctrl_state=cs)
            except Exception as ex:
                ctx.note(f"MCU raised {type(ex).__name__} for T={T} e={e}")
                continue
            if g.n_ctrl_base != T:
                continue
            fl, _ = flatten(g.definition, stop=stop)
            case = {"class": "MCU", "k": nc, "base": T, "ctrl_state": cs, "error": eps, "matrix": [[str(z) for z in row] for row in U]}
            cases.append(case)
            ctx.count("corr:mcu_extra", key=("mcux", T, e, cs, U.tobytes()), nontrivial=True,
                      sample={"class": "MCU", "k": nc, "base": T, "ctrl_state": cs, "gates": len(fl)} if (T, e) == (3, 2) else None)
            ctx.max_struct_qubits = max(ctx.max_struct_qubits, nc + 1)
            W = np.asarray(Operator(MCU._gate_u(U, 2 ** (T - 1), 1)).data)[np.ix_([1, 3], [1, 3])]
            Wi = np.linalg.inv(W)
            cands = [sg * 2 ** j for j in range(T) for sg in (1, -1)]
            mat = {z: np.linalg.matrix_power(W if z > 0 else Wi, abs(z)) for z in cands}
            rep_of = {}
            for i, a in enumerate(cands):
                rep_of[a] = next(b for b in cands[:i + 1] if np.abs(mat[a] - mat[b]).max() < 1e-13)
            table = coq_list([f"(({a})%Z, ({rep_of[a]})%Z)" for a in cands])
            items, nblock = [], 0
            for name, qs, op in fl:
                if name == "cv":
                    B = np.asarray(Operator(op.base_gate).data)
                    best = min(cands, key=lambda z: np.abs(B - mat[z]).max())
                    zz = rep_of[best] if np.abs(B - mat[best]).max() < 1e-9 else 77777
                    items.append(f"inr (VG [{qs[0]}] {qs[1]} {qs[1] - e} ({zz})%Z)")
                elif name == "crx":
                    th = float(op.params[0])
                    ee = int(round(np.log2(np.pi / abs(th)))) if th != 0 else -1
                    t = qs[1] - e
                    if ee < 0 or np.pi / 2 ** ee != abs(th) or t - 1 - ee < 0:
                        items.append(f"inr (VG [{qs[0]}] {qs[1]} {t} 88888%Z)")
                    else:
                        items.append(f"inr (VG [{qs[0]}] {qs[1]} {t} ({(1 if th > 0 else -1) * 2 ** (t - 1 - ee)})%Z)")
                elif name == "mtblock":
                    nblock += 1
                    ctrl, tg = list(qs[: e + 1]), list(qs[e + 1:])
                    sign = 1 if nblock == 1 else -1                      # sweep 1: + , sweep 3: -  (control 0, not first)
                    # ideal block: on the basis states with all of ctrl = 1, RX(sign pi / 2^(t - e - 1)) on every target t
                    ctx.monitor("mcu_multitarget_block_is_ideal")
                    M = np.asarray(Operator(op).data)
                    k_ = len(qs)
                    ok_block = ctrl == list(range(e + 1)) and sorted(tg, reverse=True) == tg and k_ <= 9
                    if ok_block:
                        ref = np.eye(2 ** k_, dtype=complex)
                        sub = np.array([[1.0 + 0j]])
                        for pos_t in range(len(tg) - 1, -1, -1):          # local qubit e+1+pos_t is target tg[pos_t]; highest local qubit first
                            sub = np.kron(sub, rx(sign * np.pi / 2 ** (tg[pos_t] - e - 1)))
                        idx = [((1 << (e + 1)) - 1) | (j << (e + 1)) for j in range(2 ** len(tg))]
                        ref[np.ix_(idx, idx)] = sub
                        ok_block = np.abs(M - ref).max() < 1e-9
                    if not ok_block:
                        items.append("inl (SX 99996)")
                    else:
                        for t in tg:
                            items.append(f"inr (VG {coq_list([str(q) for q in ctrl])} {t} {t - e} ({sign})%Z)")
                else:
                    items.append("inl (" + sgates_to_coq([(name, qs, op)])[1:-1] + ")")
            ctx.monitor("mcu_theorem_premises")
            if np.abs(W @ Wi - np.eye(2)).max() > 1e-9 or np.abs(np.linalg.matrix_power(W, 2 ** (T - 1)) - U).max() > 1e-9:
                ctx.mismatch("C04 contract: the deepest root of MCU._gate_u does not satisfy W^(2^(T-1)) = U (premise of C04_mcu)", case)
            ctx.monitor("mcu_deviation_is_root_deviation")
            dev = float(np.linalg.norm(Wi - np.eye(2), 2))
            if dev > eps + 1e-12:
                ctx.mismatch(f"C04 contract: MCU root deviation {dev:.3e} exceeds the requested error {eps:.3e}", case)
            model = f"(map (cxg {T} {table}) (mcux {e} {T} {coq_list([coq_bool(b) for b in pat_of(cs, nc)])}))"
            lines.append(f"(list_eqb xg_eqb {model} {coq_list(items)})")

    def on_fail(c):
        ctx.mismatch("C04 correspondence: flattened MCU definition (extra controls) differs from the Coq model McuExtra.mcux", c)
    run_bool_cases(ctx, "c04_mcux", XHEADER, lines, cases, on_fail, shard=6)


def run(ctx):
    monitor_run(ctx)
    ldmcsu_correspondence(ctx)
    mcu_correspondence(ctx)
    mcux_correspondence(ctx)
    eig_correspondence(ctx)
    multitarget_correspondence(ctx)
    qdmcu_correspondence(ctx)
    ldmcu_correspondence(ctx)
    abc_correspondence(ctx)
    run_eval(ctx, "C04")


def search(ctx):
    run_eval(ctx, "C04", deep=True)


def replay(ctx, case):
    return replay_eval(ctx, "C04", case)


MANIFEST = dict(
    text="Proof (PARTIAL): MCU (the approximate gate), every base count T >= 1 and every number e >= 0 of extra controls: its exact operator is the ideal gate times W^-1 on the target whenever the first e+1 controls match (C04_mcu_base for e = 0, C04_mcu for e >= 1: the sweep with the collected control-0 rotations denotes the same grouped form, and a conjunction of never-targeted qubits stands in for a control), so its deviation from the ideal operator is that of the deepest root from the identity, bounded by the requested error when theta/2^(T-1) <= arccos(1 - eps^2/2) (C04_mcu_root_deviation); MultiTargetMCSU2 for every k >= 2 controls, any number of targets, every pattern: the operator is the product over the targets of the controlled U_i (C04_multitarget: multi-target V-chains on arbitrary placements via the general placement theorem, rows of per-target gates regrouped column by column - Transpose.transpose -, the one-target identity per column); Ldmcsu's eigenbasis branch (both diagonals complex) for every k >= 2 and every pattern, given four 2x2 identities on the emitted one-qubit gates (C04_ldmcsu_eig: the action_only V-chain and its inverse cancel their residue across the gates between them); LdMcSpecialUnitary end to end for every k >= 1 controls and every pattern given the ABC identities on the matrices (C04_ldmc_special: controlled C, LinearMcx onto the target borrowing the last control - action_only from six controls on -, controlled B, the inverse LinearMcx, controlled A, each controlled gate a nested a ; cx ; b ; cx ; c block); Ldmcu end to end for every T >= 1 controls, every control pattern and every invertible W (C04_ldmcu): the gate list in the order the code emits it - four sweeps of controlled RX(+-pi/2^e) and controlled roots of U over the pairs (control, target) sorted stably by control + target - applies W^(2^(T-1)) = U to the target exactly on the matching basis states and restores every control with its phase; proof = trace equivalence of the sorted sweeps with their grouped form (Resort.resort), merging of the gates of one target in a one-parameter group, the cascade 'flip qubit j iff all lower qubits are 1' by induction (LdmcuCore.Sl_sem, Sl'_sem) and the weight identity C04_ldmcu_weights; Qdmcu end to end for every number of controls, every control pattern and every 2x2 matrix family with V_(l+1)^2 = V_l, V_l V_l^dagger = 1: the gate list of QdmcuModel.qdmcu (controlled V, action-only LinearMcx on the lower controls with the target as dirty ancilla, controlled V^dagger, the inverse LinearMcx, recursion on the remaining controls with the next square root) applies U to the target exactly on the basis states matching the pattern and the identity elsewhere (C04_qdmcu; it rests on the exact LinearMcx for every k >= 1 and every pattern, C04_linear_mcx_exact, on the factorisation exact = controls-only circuit after action-only, and on a polarity version of Barenco Lemma 7.5); the spectral square root squares to the matrix (C04_spectral_sqrt); the recursion step of Qdmcu (Barenco Lemma 7.5) for any placement and any 'rest' predicate (C04_barenco_step), and the fourth-root identity of Ldmcsu._compute_gate_a over the reals (C04_gate_a_fourth_root); Ldmcsu end to end for every k >= 2, every control pattern and every SU(2) matrix with a real main or secondary diagonal: the gate list of LdmcsuModel.ldmcsu (two dirty V-chains, their inverses, A / A^dagger, optional H conjugation) applies U to the target exactly on the basis states matching the pattern and the identity elsewhere (C04_ldmcsu_plain, C04_ldmcsu_hconj, built on C05's placed V-chain theorems). Tie: the flattened Ldmcu, Ldmcsu (both branches), LdMcSpecialUnitary, MultiTargetMCSU2 and Qdmcu definitions are compared with the models' gate lists inside Coq; every custom_sqrtm and _compute_gate_a call made while building gates for boundary and random SU(2) matrices is checked against the theorem's premises/conclusion in matrix form. All gate classes (Ldmcu, Ldmcsu, LdMcSpecialUnitary, Qdmcu, Mcg, MCU, MultiTargetMCSU2), patterns and boundary matrices are evaluated against the ideal controlled operator.",
    note='Modelled, not verified: Qiskit .control(), UnitaryGate; scipy schur inside custom_sqrtm (its output is checked, not modelled) and inside Ldmcu._gate_u (its roots are checked to be integer powers of the deepest root); numpy eig inside the eigenbasis branch of Ldmcsu (the identities it must deliver are checked), the ZYZ angles behind the ABC operators (their identities are checked), the multi-target RX blocks inside MCU are taken as ideal after a numerical check (their decomposition is the subject of C04_multitarget); the one-control branches of the special-unitary gates are evaluated only.',
    technique='Coq proof (operator algebra on monomial/permuted states; trace equivalence of commuting gate orders; one-parameter groups; real sqrt algebra) + runtime contract monitors + operator / random-state evaluation',
    design_ref='DESIGN.md section 4, C04')
