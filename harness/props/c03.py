"""C03 - isometry decomposition (ccd, csd, knill)."""
import numpy as np
import scipy.linalg
from harness.coqcases import run_bool_cases, zlit
from harness.props._common import run_eval, replay_eval
from harness import monitors

PROPS_FILES = ["P_C03", "P_C03mx"]
PROPS_FILE = "P_C03"
GEN_FILES = ["Gen_isometry_counts"]
COQ_TARGETS = ["CaseLib"]
RULE = ("translation validation of isometry._a/_b/_k_s; contract monitor: every scipy.linalg.schur call made by the Knill scheme "
        "on structured and random isometries must return a unitary basis and a diagonal form (the orthogonal-idempotent premise "
        "of C03_knill_product); every _ccd run must end with the tracked matrix G V equal to the embedding times a diagonal of phases "
        "(the premise of C03_ccd_closing) and return an operator mapping the embedding to V; direct evaluation (harness/props/c03_eval.py): leading columns of the operator vs the isometry for "
        "all schemes, all m, structured families. distinct = distinct inputs; non-trivial = n >= 2")
ASSUMPTIONS = ["the CCD column sweep reaching embedding x phases is a monitored contract (its closing step is C03_ccd_closing); the CSD scheme is evaluated, not proved (CSD reduces to C02 in isometry mode plus the null-space extension contract)",
               "scipy.linalg.schur / null_space contracts are monitored numerically on the inputs of each run only"]
TRUSTED = ["harness/monitors.py"]
HEADER = ("From Coq Require Import List Bool ZArith.\nFrom QV Require Import GenLib Gen_isometry_counts CaseLib.\nImport ListNotations.\nOpen Scope Z_scope.\n")


def tv(ctx):
    from qclib import isometry as I
    cases, lines = [], []
    for k in range(0, 64 if ctx.quick else 256):
        for i in range(0, 9):
            vals = tuple(int(getattr(I, f)(k, i)) for f in ("_a", "_b", "_k_s"))
            cases.append((k, i, vals))
            lines.append(f"(Z.eqb (_a {k} {i}) {zlit(vals[0])} && Z.eqb (_b {k} {i}) {zlit(vals[1])} && Z.eqb (_k_s {k} {i}) {zlit(vals[2])})")
            ctx.count("tv:_a/_b/_k_s", key=(k, i), nontrivial=k > 0, sample={"k": k, "bit": i, "a,b,k_s": vals} if (k, i) == (13, 2) else None)
    run_bool_cases(ctx, "c03_abk", HEADER, lines, cases,
                   lambda c: ctx.mismatch("C03 translation validation: _a/_b/_k_s differ from their translation", {"k": c[0], "bit": c[1], "python": c[2]}),
                   shard=1000)


def structured_isometries(rng, n, m):
    N, M = 2 ** n, 2 ** m
    H = np.array([[1.0]])
    for _ in range(n):
        H = np.kron(H, np.array([[1, 1], [1, -1]]) / np.sqrt(2))
    q, _ = np.linalg.qr(rng.normal(size=(N, N)) + 1j * rng.normal(size=(N, N)))
    yield "haar", q[:, :M]
    yield "identity", np.eye(N, dtype=complex)[:, :M]
    yield "permutation", np.eye(N, dtype=complex)[rng.permutation(N)][:, :M]
    yield "diagonal", np.diag(np.exp(1j * rng.uniform(0, 6, N)))[:, :M]
    yield "hadamard", H.astype(complex)[:, :M]
    o, _ = np.linalg.qr(rng.normal(size=(N, N)))
    yield "real", o.astype(complex)[:, :M]


def knill_monitor(ctx):
    from qclib import isometry as I
    nmax = 3 if ctx.quick else 4
    for n in range(2, nmax + 1):
        for m in range(0, n + 1):
            for fam, V in structured_isometries(ctx.rng, n, m):
                log = []
                with monitors.patched(scipy.linalg, "schur", monitors.schur_monitor(ctx, log)):
                    circ = None
                    try:
                        circ = I.decompose(V if m > 0 else V[:, 0], scheme="knill")
                    except Exception as ex:   # construction failures are the direct evaluation's business
                        ctx.note(f"knill raised on {fam} n={n} m={m}: {type(ex).__name__}")
                if circ is not None:
                    # structure of every factor: prepare^-1 ; x on all ; mcp(theta) on the last qubit, controlled by all others ;
                    # x on all ; prepare  (C03_knill_factor with the phase step C03_knill_phase)
                    ctx.monitor("knill_factor_structure")
                    ops = [(i.operation.name, [circ.find_bit(q).index for q in i.qubits], i.operation) for i in circ.data]
                    per = 2 * n + 3
                    ok = len(ops) % per == 0
                    for f in range(0, len(ops) if ok else 0, per):
                        blk = ops[f:f + per]
                        xs1, mcp, xs2 = blk[1:1 + n], blk[1 + n], blk[2 + n:2 + 2 * n]
                        ok = ok and all(o[0] == "x" for o in xs1 + xs2) and sorted(o[1][0] for o in xs1) == list(range(n)) \
                            and sorted(o[1][0] for o in xs2) == list(range(n)) and mcp[0] in ("mcphase", "cp", "p") \
                            and mcp[1] == list(range(n)) and blk[0][1] == list(range(n)) and blk[-1][1] == list(range(n)) \
                            and blk[0][0].replace("_dg", "") == blk[-1][0].replace("_dg", "")
                        if ok:
                            from qiskit.quantum_info import Operator
                            prod = Operator(blk[0][2]).data @ Operator(blk[-1][2]).data
                            ok = bool(np.abs(prod - np.eye(2 ** n)).max() < 1e-8)
                    if not ok:
                        ctx.mismatch("C03 contract: the Knill circuit is not a sequence of factors prepare^-1 ; x layer ; mcp ; x layer ; prepare",
                                     {"n": n, "m": m, "family": fam})
                ctx.count("monitor:knill_schur:" + fam, key=("knill", n, m, fam, V.tobytes()[:64]), nontrivial=True,
                          sample={"n": n, "m": m, "family": fam, "schur_calls": len(log)} if (n, m) == (3, 1) else None)
                for (eu, ed, er) in log:
                    if max(eu, ed, er) > 1e-8:
                        ctx.mismatch("C03 contract: the eigenbasis used by the Knill scheme is not unitary / not diagonalising "
                                     f"(unitarity {eu:.2e}, off-diagonal {ed:.2e}, reconstruction {er:.2e})",
                                     {"n": n, "m": m, "family": fam})
                        break


def ccd_monitor(ctx):
    """hypotheses of C03_ccd_closing on the real run: after the column sweep the tracked matrix `iso` (= G V, G the product of the
    matrices of the emitted gates) is the embedding I_{2^n,2^m} times a diagonal of phases, and the appended DiagonalGate is
    diag(exp(-i phases)) on the m low qubits."""
    from qclib import isometry as I
    from qiskit.quantum_info import Operator
    nmax = 3 if ctx.quick else 4
    for n in range(1, nmax + 1):
        for m in range(0, n + 1):
            for fam, V in structured_isometries(ctx.rng, n, m):
                seen = {}

                def factory(orig):
                    def wrapped(iso, log_lines, log_cols):
                        v0 = np.array(iso, copy=True)
                        circ = orig(iso, log_lines, log_cols)
                        seen["v0"], seen["final"], seen["circ"] = v0, np.array(iso, copy=True), circ
                        return circ
                    return wrapped
                pair_bad = []

                def ufactory(orig):
                    def uwrapped(iso, basis=0):
                        out = orig(iso, basis=basis)
                        ctx.monitor("ccd_pair_gate_contract")
                        c1, c2 = complex(np.asarray(iso)[0][0]), complex(np.asarray(iso)[1][0])
                        nrm = float(np.sqrt(abs(c1) ** 2 + abs(c2) ** 2))
                        if nrm == 0.0:
                            want = np.eye(2)
                        else:
                            p1, p2 = c1 / nrm, c2 / nrm
                            rows = [[np.conj(p1), np.conj(p2)], [-p2, p1]]      # the gate of C03_ccd_pair_gate (basis = 0)
                            want = np.array(rows if basis == 0 else rows[::-1])
                        if np.shape(out) != (2, 2) or np.abs(np.asarray(out) - want).max() > 1e-12:
                            pair_bad.append(basis)
                        return out
                    return uwrapped
                with monitors.patched(I, "_ccd", factory), monitors.patched(I, "_unitary", ufactory):
                    try:
                        I.decompose(V if m > 0 else V[:, 0], scheme="ccd")
                    except Exception as ex:   # pylint: disable=broad-except
                        ctx.note(f"decompose(ccd) raised {type(ex).__name__} on {fam} n={n} m={m} (left to the direct evaluation)")
                        continue
                ctx.monitor("ccd_sweep_contract")
                ctx.count(f"monitor:ccd:{fam}", key=("ccd", n, m, fam, V.tobytes()), nontrivial=n >= 2,
                          sample={"n": n, "m": m, "family": fam} if (n, m) == (3, 1) else None)
                fin = seen["final"]
                N, M = 2 ** n, 2 ** m
                ph = np.diag(fin[:M, :M])
                ref = np.zeros((N, M), dtype=complex)
                ref[:M, :M] = np.diag(ph)
                bad = None
                if np.abs(fin - ref).max() > 1e-7 or np.abs(np.abs(ph) - 1).max() > 1e-7:   # accumulated accuracy of Qiskit's UCGate over the sweep: 1.5e-9 seen at n = m = 4
                    bad = ("after the column sweep the tracked matrix G V is not the embedding times a diagonal of phases "
                           f"(off by {np.abs(fin - ref).max():.2e}, |phase| off by {np.abs(np.abs(ph) - 1).max():.2e})")
                else:
                    # G = (circuit^-1 without the diagonal): check G V = J Phi and D^-1 J = J Phi through the returned operator
                    W = Operator(seen["circ"]).data          # = (D G)^-1
                    J = np.eye(N, dtype=complex)[:, :M]
                    if np.abs(W @ J - seen["v0"]).max() > 1e-7:
                        bad = "the returned operator does not map the embedding to the isometry although the sweep contract holds"
                if bad:
                    ctx.mismatch("C03 contract (ccd): " + bad, {"n": n, "m": m, "family": fam})
                if pair_bad:
                    ctx.mismatch("C03 contract (ccd): isometry._unitary does not return the gate of C03_ccd_pair_gate "
                                 "(rows (conj p1, conj p2), (-p2, p1) of the normalised pair; swapped for basis 1; identity for a zero pair)",
                                 {"n": n, "m": m, "family": fam, "basis": pair_bad[0]})


def run(ctx):
    tv(ctx)
    knill_monitor(ctx)
    ccd_monitor(ctx)
    run_eval(ctx, "C03")


def search(ctx):
    run_eval(ctx, "C03", deep=True)


def replay(ctx, case):
    return replay_eval(ctx, "C03", case)


MANIFEST = dict(
    text=("Proof (MODULAR): Knill scheme - product formula prod_i(1+(lam_i-1)E_i) = sum_i lam_i E_i for orthogonal idempotents summing to 1 (C03_knill_product, any field), "
          "each factor as a circuit prepare^-1 ; phase on |0..0> ; prepare = 1 + c|v><v| (C03_knill_factor) and the phase step x layer ; mcp ; x layer (C03_knill_phase); "
          "column-by-column scheme - the one-qubit gate built from a pair of amplitudes is unitary and maps the pair to (norm, 0), resp. (0, norm) with the rows swapped (C03_ccd_pair_gate, C03_ccd_pair_unitary: the zeroing step of every multiplexer entry; every call of isometry._unitary is compared with that gate), and the "
          "closing step: if the sweep reaches embedding x phases, the returned operator maps basis column k to column k of V (C03_ccd_closing); "
          "bit-level specifications of the translated index helpers _a/_b/_k_s. Tie: translator (regenerated every run, validated by execution); monitors on every Schur "
          "decomposition used by Knill (unitary basis, diagonal form: the premise numpy eig violated before the repair), on the factor structure of every Knill circuit, and on "
          "every _ccd run (tracked matrix = embedding x phases; returned operator maps the embedding to V). Leading columns of the operator vs the isometry are evaluated for every "
          "scheme, every m and structured families."),
    note='Modelled, not verified: why the CCD column sweep reaches embedding x phases (per-column zeroing) and the CSD extension (evaluated); scipy schur/null_space, Qiskit UCGate / multi-controlled gates; the state preparations inside the Knill factors are C01.',
    technique='Coq/mathcomp proof + Sem-level proof of the phase step + translator-regenerated definitions + contract monitors + numpy operator comparison',
    design_ref='DESIGN.md section 4, C03')
