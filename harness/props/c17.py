"""C17 - probabilistic quantum memory (qclib.memory.pqm)."""
import numpy as np
from harness.coqcases import run_bool_cases
from harness.flatten import flatten, coq_list, coq_bool

PROPS_FILE = "P_C17"
COQ_TARGETS = ["CaseLib", "PqmModel", "PqmQuantum"]
RULE = ("correspondence: the gate list appended by pqm.initialize (classical and quantum pattern) compared inside Coq with "
        "PqmModel.pqm_gates / pqm_gates_q for n = 1..8/20 and all (n<=4) or random patterns, for a placement function that satisfies "
        "the theorem's hypotheses; direct evaluation (harness/props/c17_eval.py): exact marginals of auxiliary, memory and "
        "pattern registers. distinct = distinct (n, pattern, variant); non-trivial = n >= 2")
ASSUMPTIONS = ["Qiskit h, x, cx, p, cp have their textbook matrices (validated numerically per run)",
               "the quantum-pattern variant is proved branch by branch (C17_pqm_quantum: on each pattern basis state the circuit acts as the classical one and branches never mix); it is also corresponded and evaluated"]
TRUSTED = ["harness/flatten.py; angle canonicalisation: a float parameter is accepted as num*pi/den only if it is bit-identical to the float qclib computes for that fraction"]
HEADER = ("From Coq Require Import List Bool Arith ZArith.\nFrom QV Require Import PqmModel CaseLib.\nImport ListNotations.\n"
          "Definition pgate_eqb (g h : pgate) : bool := match g, h with\n"
          " | PH a, PH b => Nat.eqb a b | PX a, PX b => Nat.eqb a b | PCX a b, PCX c d => Nat.eqb a c && Nat.eqb b d\n"
          " | PP n d q, PP n' d' q' => Z.eqb n n' && Z.eqb d d' && Nat.eqb q q'\n"
          " | PCP n d c t, PCP n' d' c' t' => Z.eqb n n' && Z.eqb d d' && Nat.eqb c c' && Nat.eqb t t' | _, _ => false end.\n")


def gates_to_coq(fl, n):
    items = []
    for name, qs, op in fl:
        if name == "h":
            items.append(f"PH {qs[0]}")
        elif name == "x":
            items.append(f"PX {qs[0]}")
        elif name == "cx":
            items.append(f"PCX {qs[0]} {qs[1]}")
        elif name == "p" and float(op.params[0]) == -np.pi / (2 * n):
            items.append(f"PP (-1) {2 * n} {qs[0]}")
        elif name == "cp" and float(op.params[0]) == np.pi / n:
            items.append(f"PCP 1 {n} {qs[0]} {qs[1]}")
        else:
            items.append("PH 99999")
    return coq_list(items)


def correspondence(ctx):
    from qiskit import QuantumCircuit, QuantumRegister
    from qclib.memory import pqm
    nmax = 12 if ctx.quick else 20
    cases, lines = [], []
    for n in range(1, nmax + 1):
        pats = [[(i >> k) & 1 for k in range(n)] for i in range(2 ** n)] if n <= 4 else \
            [[int(x) for x in ctx.rng.integers(0, 2, n)] for _ in range(4)] + [[0] * n, [1] * n]
        for pat in pats:
            mem = QuantumRegister(n, "m")
            aux = QuantumRegister(1, "c")
            qc = QuantumCircuit(mem, aux)
            pqm.initialize(qc, pat, mem, aux, is_classical_pattern=True)
            fl, _ = flatten(qc)
            cases.append(("classical", n, pat))
            ctx.count("corr:classical", key=("c", n, tuple(pat)), nontrivial=n >= 2,
                      sample={"n": n, "pattern": pat, "gates": len(fl)} if n == 3 and sum(pat) == 2 else None)
            lines.append(f"(list_eqb pgate_eqb (pqm_gates {n} (fun i => if i <? {n} then i else {n} + 1 + i) {n} "
                         f"{coq_list([coq_bool(b == 1) for b in pat])}) {gates_to_coq(fl, n)})")
        # quantum pattern: registers pattern (0..n-1), memory (n..2n-1), aux 2n
        pr = QuantumRegister(n, "p")
        mem = QuantumRegister(n, "m")
        aux = QuantumRegister(1, "c")
        qc = QuantumCircuit(pr, mem, aux)
        pqm.initialize(qc, pr, mem, aux, is_classical_pattern=False)
        fl, _ = flatten(qc)
        cases.append(("quantum", n, None))
        ctx.count("corr:quantum", key=("q", n), nontrivial=n >= 2, sample={"n": n, "gates": len(fl)} if n == 3 else None)
        ctx.max_struct_qubits = max(ctx.max_struct_qubits, qc.num_qubits)
        lines.append(f"(list_eqb pgate_eqb (pqm_gates_q {n} (fun i => if i <? {n} then i else {2 * n} + 1 + 2 * i) "
                     f"(fun i => if i <? {n} then {n} + i else {2 * n} + 2 + 2 * i) {2 * n}) {gates_to_coq(fl, n)})")

    def on_fail(c):
        ctx.mismatch("C17 correspondence: gate list of pqm.initialize differs from the Coq model PqmModel.pqm_gates",
                     {"variant": c[0], "n": c[1], "pattern": c[2]})
    run_bool_cases(ctx, "c17_pqm", HEADER, lines, cases, on_fail, shard=60)


def primitives(ctx):
    from qiskit.circuit.library import HGate, PhaseGate, CPhaseGate
    from qiskit.quantum_info import Operator
    t = 0.3771
    ok = (np.allclose(Operator(HGate()).data, np.array([[1, 1], [1, -1]]) / np.sqrt(2))
          and np.allclose(Operator(PhaseGate(t)).data, np.diag([1, np.exp(1j * t)]))
          and np.allclose(Operator(CPhaseGate(t)).data, np.diag([1, 1, 1, np.exp(1j * t)])))
    ctx.monitor("qiskit_primitive_matrices", 3)
    if not ok:
        ctx.mismatch("Qiskit primitive matrices differ from the Coq IR's ideal matrices", {})


def run(ctx):
    primitives(ctx)
    correspondence(ctx)
    if ctx.skip_eval:
        return
    from harness.props import c17_eval
    c17_eval.evaluate(ctx, not ctx.quick)


def search(ctx):
    from harness.props import c17_eval
    c17_eval.evaluate(ctx, True)


def replay(ctx, case):
    from harness.props import c17_eval
    return c17_eval.replay(ctx, case)


MANIFEST = dict(
    text=("Proof (FULL): for every n>=1, every placement, every pattern and every memory state the gate list of the model leaves amplitude cos(pi d/2n) a_k on aux=0 and "
          "-i sin(pi d/2n) a_k on aux=1 (C17_pqm_amplitudes, classical pattern; C17_pqm_quantum, pattern in a quantum register: on each pattern branch the circuit acts as the classical "
          "one, branches never mix); hence P(aux=0,k) = |a_k|^2 cos^2 and the memory marginal is unchanged (C17_probabilities; C17_probabilities_quantum for the quantum pattern register: P(aux=0,p,k) = |a_{p,k}|^2 cos^2(pi d(p,k)/2n), joint (pattern, memory) marginal unchanged). Tie: the gate list appended by pqm.initialize is compared "
          "inside Coq with PqmModel.pqm_gates / pqm_gates_q on placements that satisfy the theorems' hypotheses, n<=12/20. Exact marginals are also evaluated numerically."),
    note="Modelled, not verified: Qiskit h/x/cx/p/cp matrices (validated per run).",
    technique="Coq proof (diagonal-layer semantics, induction on n; branch-wise agreement for the quantum pattern) + gate-list correspondence (vm_compute) + exact marginal evaluation",
    design_ref="DESIGN.md section 4, C17")
