"""C12 - UCGInitialize / UCGEInitialize: column t of the operator is the vector; with preserve_previous and a vector
supported on indices >= t, basis states below t are fixed up to a phase.

Direct evaluation: Operator(gate.definition) (n <= 6) against the input vector, every target index t."""
import warnings
import numpy as np
from qiskit.quantum_info import Operator

from harness.core import jsonable, unjson_array

warnings.filterwarnings("ignore")

TOL = 1e-6
CLASSES = ("UCGInitialize", "UCGEInitialize")


def _cls(name):
    if name == "UCGInitialize":
        from qclib.state_preparation.ucg import UCGInitialize
        return UCGInitialize
    from qclib.state_preparation.ucge import UCGEInitialize
    return UCGEInitialize


def _unit(v):
    v = np.asarray(v, dtype=complex)
    return v / np.linalg.norm(v)


def _cnormal(rng, m):
    """complex gaussian entries with modulus kept away from 0 (>= 0.05)"""
    v = rng.normal(size=m) + 1j * rng.normal(size=m)
    small = np.abs(v) < 0.05
    v[small] = 0.05 * np.exp(1j * rng.uniform(0, 2 * np.pi, int(small.sum())))
    return v


# families that are supported on indices >= t (the precondition of the preservation clause) are marked in SUPPORT
FAMILIES = ["complex", "real", "negative", "sparse", "uniform", "product", "halfprod", "basis_any", "zero_child0",
            "zero_pairs", "neg_repeat", "signed_even", "sup_complex", "sup_real", "sup_sparse", "sup_basis", "sup_target", "sup_uniform", "sup_last",
            "near_equal_blocks"]


def make_vector(rng, n, t, fam):
    N = 2 ** n
    if fam == "complex":
        v = _cnormal(rng, N)
    elif fam == "real":
        v = _cnormal(rng, N).real + 0j
        v[np.abs(v) < 0.05] = 0.3
    elif fam == "negative":
        v = -np.abs(_cnormal(rng, N)) + 0j
    elif fam == "sparse":
        v = _cnormal(rng, N)
        v[rng.random(N) < 0.5] = 0
        if not v.any():
            v[int(rng.integers(N))] = 1
    elif fam == "uniform":
        v = np.ones(N, dtype=complex) * np.exp(1j * rng.uniform(0, 6))
    elif fam == "product":
        v = np.array([1.0 + 0j])
        for _ in range(n):
            v = np.kron(v, _cnormal(rng, 2))
    elif fam == "halfprod":     # |+>^k (x) random: repeated multiplexer entries (UCGE simplification)
        k = int(rng.integers(0, n + 1))
        a = np.ones(2 ** k, dtype=complex)
        b = _cnormal(rng, 2 ** (n - k))
        v = np.kron(a, b) if rng.random() < 0.5 else np.kron(b, a)
    elif fam == "basis_any":
        v = np.zeros(N, dtype=complex)
        v[int(rng.integers(N))] = np.exp(1j * rng.uniform(0, 6))
    elif fam == "zero_child0":  # every even-indexed amplitude is zero: the diagonal operator branch on the first level
        v = _cnormal(rng, N)
        v[0::2] = 0
    elif fam == "zero_pairs":   # whole sibling pairs vanish: identity entries in the multiplexer
        v = _cnormal(rng, N)
        if N >= 4:
            for p in range(N // 2):
                if rng.random() < 0.5:
                    v[2 * p:2 * p + 2] = 0
        if not v.any():
            v[N - 1] = 1
    elif fam == "neg_repeat":   # a sub-block repeated with the opposite sign: multiplexer entries G and -G (UCGE must not merge them)
        if n == 1:
            v = np.array([1.0, -1.0], dtype=complex)
        else:
            k = int(rng.integers(0, n))          # position of the (1, -1) factor, counted from the most significant qubit
            left = _cnormal(rng, 2 ** k) if rng.random() < 0.5 else np.abs(_cnormal(rng, 2 ** k)).real + 0j
            right = _cnormal(rng, 2 ** (n - 1 - k)) if rng.random() < 0.5 else np.abs(_cnormal(rng, 2 ** (n - 1 - k))).real + 0j
            v = np.kron(np.kron(left, np.array([1.0, -1.0])), right)
    elif fam == "signed_even":  # signed real entries at the even indices, zeros at the odd ones
        v = np.zeros(N, dtype=complex)
        v[0::2] = (np.abs(_cnormal(rng, N // 2)).real if N >= 2 else 1.0) * rng.choice([-1.0, 1.0], max(N // 2, 1))
        if rng.random() < 0.5 and N >= 4:        # equal moduli: exact repetitions up to sign
            v[0::2] = rng.choice([-1.0, 1.0], N // 2)
    elif fam == "sup_complex":
        v = _cnormal(rng, N)
        v[:t] = 0
    elif fam == "sup_real":
        v = np.abs(_cnormal(rng, N)) * rng.choice([-1.0, 1.0], N) + 0j
        v[:t] = 0
    elif fam == "sup_sparse":
        v = _cnormal(rng, N)
        v[rng.random(N) < 0.5] = 0
        v[:t] = 0
        if not v.any():
            v[int(rng.integers(t, N))] = 1
    elif fam == "sup_basis":
        v = np.zeros(N, dtype=complex)
        v[int(rng.integers(t, N))] = np.exp(1j * rng.uniform(0, 6))
    elif fam == "sup_target":
        v = np.zeros(N, dtype=complex)
        v[t] = np.exp(1j * rng.uniform(0, 6)) if rng.random() < 0.5 else 1.0
    elif fam == "sup_uniform":
        v = np.ones(N, dtype=complex)
        v[:t] = 0
    elif fam == "sup_last":     # zero amplitude exactly at t, support strictly above (or only t when t is last)
        v = _cnormal(rng, N)
        v[:t] = 0
        if t < N - 1:
            v[t] = 0
    elif fam == "near_equal_blocks":
        # two copies of one block, one amplitude rotated by a phase of 3e-6 .. 3e-4: the multiplexer gates of the top level are
        # nearly, but not exactly, equal (valid input; far above every cut-off of the library)
        if n < 2:
            v = _cnormal(rng, N)
        else:
            v = np.kron(np.ones(2), _cnormal(rng, N // 2)).astype(complex)
            v[int(rng.integers(N))] *= 1 + 1j * 10 ** rng.uniform(-5.5, -3.5)
    else:
        raise ValueError(fam)
    return _unit(v)


def _instrument(gate, flags):
    """Monitor (used only to key known findings): does the entanglement-aware variant drop a multiplexer control while
    building this circuit (`simplified`), and is the residual diagonal of such a reduced multiplexer non-trivial
    (`simplified_diag`)?  Flags stay None when the internals are not as expected."""
    try:
        orig_s, orig_d = gate._simplify, gate._apply_diagonal   # pylint: disable=protected-access

        def wrap_s(mux, level):
            res = orig_s(mux, level)
            if res[0]:
                flags["simplified"] = True
            return res

        def wrap_d(bit_target, parent, ucg):
            if getattr(ucg, "dont_carry", None) and not np.allclose(ucg._get_diagonal(), 1.0, atol=1e-9):
                flags["simplified_diag"] = True
            return orig_d(bit_target, parent, ucg)

        gate._simplify = wrap_s            # pylint: disable=protected-access
        gate._apply_diagonal = wrap_d      # pylint: disable=protected-access
        flags["simplified"] = False
        flags["simplified_diag"] = False
    except Exception:   # pylint: disable=broad-except
        flags["simplified"] = None
        flags["simplified_diag"] = None


class _IdealUcg:
    """stands in for Qiskit's UCGate in the diagnostic re-run: the ideal multiplexer of the gate list, no residual diagonal"""
    def __init__(self, size):
        self._size = size
        self.dont_carry = []
        self.controls = []

    def _get_diagonal(self):
        return np.ones(self._size, dtype=complex)


def _ideal_run(cls_name, arg, t, preserve, no_merge=False):
    """column-t error of the same construction with every UCGate replaced by the ideal multiplexer of its own gate list
    (and, with no_merge, without the repetition search of the entanglement-aware variant); None when it raises"""
    from qclib.state_preparation.ucg import UCGInitialize
    from qclib.state_preparation.ucge import UCGEInitialize
    from harness import monitors

    def factory(orig):   # pylint: disable=unused-argument
        def wrapped(self, mux, mult_controls, target):
            gates = [np.asarray(g, dtype=complex) for g in mux]
            M = np.zeros((2 * len(gates), 2 * len(gates)), dtype=complex)
            for k, g in enumerate(gates):
                M[2 * k:2 * k + 2, 2 * k:2 * k + 2] = g
            self.circuit.unitary(M, [target] + list(mult_controls))
            return _IdealUcg(2 * len(gates))
        return wrapped

    def sfactory(orig):   # pylint: disable=unused-argument
        def swrapped(self, mux, level):   # pylint: disable=unused-argument
            return [], list(mux)
        return swrapped
    try:
        with monitors.patched(UCGInitialize, "_apply_ucg", factory):
            if no_merge:
                with monitors.patched(UCGEInitialize, "_simplify", sfactory):
                    circ = _cls(cls_name)(arg, opt_params={"target_state": t, "preserve_previous": preserve}).definition
            else:
                circ = _cls(cls_name)(arg, opt_params={"target_state": t, "preserve_previous": preserve}).definition
        U = Operator(circ).data
        return float(np.abs(U[:, t] - np.asarray(arg, dtype=complex)).max())
    except Exception:   # pylint: disable=broad-except
        return None


def _ucgate_cause(cls_name, arg, t, preserve, exc):
    """Narrow attribution of a failure (recorded as case["cause"]; the known findings are keyed on it):
      qiskit_ucgate_not_unitary  ValueError 'Input matrix is not unitary' raised inside Qiskit's UCGate (its one-qubit factors fail
                                 UnitaryGate's check although the gates handed over are unitary to 1e-15)
      qiskit_ucgate              the case is exact (1e-9) when every Qiskit UCGate is replaced by the ideal multiplexer of the
                                 gate list qclib handed to it: Qiskit's UCGate does not implement its own gate list there
      ucge_merge_tolerance       UCGEInitialize only: not exact with ideal multiplexers, but exact (1e-9) with ideal multiplexers
                                 and without the repetition search (whose np.allclose test merges gates that differ by up to 1e-5)
      other                      none of these"""
    import traceback
    if exc is not None and isinstance(exc, ValueError) and "not unitary" in str(exc):
        names = [f.name for f in traceback.extract_tb(exc.__traceback__)]
        files = [f.filename for f in traceback.extract_tb(exc.__traceback__)]
        if "_dec_ucg" in names or any("generalized_gates" in f for f in files[-4:]):
            return "qiskit_ucgate_not_unitary"
    try:
        e = _ideal_run(cls_name, arg, t, preserve)
        if e is not None and e < 1e-9:
            return "qiskit_ucgate"
        if cls_name == "UCGEInitialize":
            e = _ideal_run(cls_name, arg, t, preserve, no_merge=True)
            if e is not None and e < 1e-9:
                return "ucge_merge_tolerance"
    except Exception:   # pylint: disable=broad-except
        return "undiagnosed"
    return "other"


def eval_case(ctx, cls_name, n, t, preserve, fam, vec, real_dtype=False):
    """True iff the property holds for this case.  real_dtype: a real-valued vector handed over as a float64 array."""
    vec = np.asarray(vec, dtype=complex)
    case = {"class": cls_name, "n": n, "t": t, "preserve": bool(preserve), "family": fam, "vector": jsonable(vec),
            "real_dtype": bool(real_dtype)}
    flags = {}
    try:
        arg = np.array(np.real(vec), dtype=float) if real_dtype else vec
        gate = _cls(cls_name)(arg, opt_params={"target_state": t, "preserve_previous": preserve})
        if cls_name == "UCGEInitialize":
            _instrument(gate, flags)
        circ = gate.definition
        U = Operator(circ).data
    except Exception as e:   # pylint: disable=broad-except
        case.update(flags)
        case["cause"] = _ucgate_cause(cls_name, arg, t, preserve, e)
        case["exception"] = type(e).__name__
        ctx.violation(f"{cls_name}(target_state={t}, preserve_previous={preserve}) raised {type(e).__name__}: {str(e)[:120]}"
                      f" [cause: {case['cause']}]", case)
        return False
    case.update(flags)
    ok = True
    if gate.num_qubits != n or circ.num_qubits != n:
        ok = False
        ctx.violation(f"{cls_name}: width {gate.num_qubits}/{circ.num_qubits} differs from n={n}", case)
    err = float(np.abs(U[:, t] - vec).max())
    if not err < TOL:
        ok = False
        case2 = dict(case, err=err, cause=_ucgate_cause(cls_name, arg, t, preserve, None), exception=None)
        ctx.violation(f"{cls_name}(target_state={t}, preserve_previous={preserve}): column t of the operator differs "
                      f"from the vector by {err:.3g} [cause: {case2['cause']}]", case2)
    if preserve and cls_name == "UCGInitialize" and not vec[:t].any():
        worst, wb = 0.0, -1
        for b in range(t):
            d = abs(abs(U[b, b]) - 1.0)
            if d > worst:
                worst, wb = d, b
        if not worst < TOL:
            ok = False
            ctx.violation(f"{cls_name}(target_state={t}, preserve_previous=True): basis state {wb} < t is not mapped to itself "
                          f"up to a phase (|<b|U|b>| off by {worst:.3g})", dict(case, b=wb, err=worst))
    return ok


def evaluate(ctx, deep):
    rng = ctx.rng
    nmax = 6 if deep else 5
    for n in range(1, nmax + 1):
        N = 2 ** n
        if n <= 4 or (deep and n == 5):
            targets = list(range(N))
            reps = 2 if (deep and n <= 4) else 1
        else:   # quick n = 5, deep n = 6: boundary targets and some random ones
            targets = sorted(set([0, 1, N // 2 - 1, N // 2, N - 2, N - 1] + [int(x) for x in rng.integers(0, N, 20 if deep else 4)]))
            reps = 1
        for t in targets:
            for fam in FAMILIES:
                for _ in range(reps):
                    vec = make_vector(rng, n, t, fam)
                    for cls_name in CLASSES:
                        for preserve in (False, True):
                            tag = f"{cls_name[:4].lower()}:{'pres' if preserve else 'nopres'}:{fam}"
                            ctx.count(tag, key=(cls_name, n, t, preserve, vec.tobytes()), nontrivial=n >= 2,
                                      sample={"class": cls_name, "n": n, "t": t, "preserve": preserve,
                                              "vector": [complex(np.round(x, 3)) for x in vec]} if (n == 3 and t == 5) else None)
                            eval_case(ctx, cls_name, n, t, preserve, fam, vec)
                            if n <= 4 and float(np.abs(np.imag(vec)).max()) == 0.0:
                                ctx.count(f"{cls_name}:{fam}:real_dtype", key=(cls_name, n, t, preserve, fam, vec.tobytes(), "real"), nontrivial=True)
                                eval_case(ctx, cls_name, n, t, preserve, fam, vec, real_dtype=True)

    # mid-size registers (8 and 9 qubits: control labels beyond 7): column t only, by evolving |t>
    from qiskit.quantum_info import Statevector
    for n in ((8, 9) if deep else (9,)):
        N = 2 ** n
        for t in sorted({0, N - 1, int(rng.integers(1, N - 1))}):
            vec = rng.normal(size=N) + 1j * rng.normal(size=N)
            vec = vec / np.linalg.norm(vec)
            for cls_name in CLASSES:
                case = {"class": cls_name, "n": n, "t": t, "preserve": False, "family": "mid_size", "vector": jsonable(vec), "column_only": True}
                ctx.count(f"{cls_name[:4].lower()}:mid_size", key=(cls_name, n, t, vec.tobytes()[:256]), nontrivial=True, sample=None)
                try:
                    circ = _cls(cls_name)(vec, opt_params={"target_state": t}).definition
                    col = np.asarray(Statevector.from_int(t, N).evolve(circ).data)
                    err = float(np.abs(col - vec).max())
                except Exception as e:   # pylint: disable=broad-except
                    ctx.violation(f"{cls_name}(target_state={t}) raised {type(e).__name__}: {str(e)[:120]}", case)
                    continue
                if not err < TOL:
                    ctx.violation(f"{cls_name}(target_state={t}, preserve_previous=False): column t of the operator differs "
                                  f"from the vector by {err:.3g}", dict(case, err=err))


def replay(ctx, case):
    vec = unjson_array(case["vector"]).astype(complex)
    return eval_case(ctx, case["class"], int(case["n"]), int(case["t"]), bool(case["preserve"]),
                     case.get("family", "replay"), vec, real_dtype=bool(case.get("real_dtype", False)))
