"""C20 - entanglement measures (Meyer-Wallach, geometric)."""
from harness.coqcases import run_bool_cases, zlit
from harness.props._common import run_eval, replay_eval

PROPS_FILES = ["P_C20", "P_C20mx", "P_C20r"]
PROPS_FILE = "P_C20"
GEN_FILES = ["Gen_iota"]
COQ_TARGETS = ["CaseLib"]
RULE = ("translation validation: entanglement._get_iota (translated to Gen_iota.iota_delta / iota_index) evaluated inside Coq "
        "for every (qubit, selector, basis state) with n <= 6/8 and compared with CPython; direct evaluation "
        "(harness/props/c20_eval.py): Meyer-Wallach vs an independent reduced-density-matrix computation, range, product states, "
        "local-unitary and permutation invariance; geometric measure post-conditions. distinct = distinct argument tuples / states; "
        "non-trivial = n >= 2")
ASSUMPTIONS = ["generalized_cross_product / numpy sums are tied only by the direct evaluation",
               "the geometric measure comes from tensorly's Tucker iteration with random restarts: only its post-conditions are evaluated; 'zero on product states' depends on convergence and is not a theorem"]
TRUSTED = ["harness/translate.py (Gen_iota regenerated from qclib/entanglement.py on every run)"]
HEADER = ("From Coq Require Import List Bool ZArith.\nFrom QV Require Import GenLib Gen_iota CaseLib.\nImport ListNotations.\nOpen Scope Z_scope.\n")


def tv(ctx):
    from qclib.entanglement import _get_iota
    nmax = 6 if ctx.quick else 8
    cases, lines = [], []
    for n in range(1, nmax + 1):
        for j in range(n):
            for s in (0, 1):
                for b in range(2 ** n):
                    d, idx = _get_iota(j, n, s, b)
                    cases.append((j, n, s, b, bool(d), int(idx)))
                    lines.append(f"(Bool.eqb (iota_delta {j} {n} {s} {b}) {'true' if d else 'false'} && Z.eqb (iota_index {j} {n} {s} {b}) {zlit(idx)})")
                    ctx.count("tv:_get_iota", key=(j, n, s, b), nontrivial=n >= 2,
                              sample={"qubit": j, "n": n, "selector": s, "basis_state": b, "delta": bool(d), "index": int(idx)}
                              if (n, j, s, b) == (4, 2, 1, 13) else None)

    def on_fail(c):
        ctx.mismatch("C20 translation validation: _get_iota differs from its translation", {"args": list(c[:4]), "python": list(c[4:])})
    run_bool_cases(ctx, "c20_iota", HEADER, lines, cases, on_fail, shard=800)


def run(ctx):
    tv(ctx)
    run_eval(ctx, "C20")


def search(ctx):
    run_eval(ctx, "C20", deep=True)


def replay(ctx, case):
    return replay_eval(ctx, "C20", case)


MANIFEST = dict(
    text="Proof: _get_iota, regenerated from the source, selects bit j and deletes it (C20_iota_delta, C20_iota_index_bits, all n); Lagrange's identity behind the Meyer-Wallach formula over any field with involution (C20_lagrange, C20_mw_per_qubit, C20_purity_form: the code's per-qubit sum is (1 - Tr rho_k^2)/2). On that per-qubit quantity D(u, v), for every dimension: D = 0 when both halves are multiples of one vector, i.e. on product states (C20_mw_zero_on_product); a one-qubit gate on the same qubit multiplies D by |det|^2 = 1 (C20_mw_unitary_same_qubit); a one-qubit gate on another qubit, or any isometry applied to both halves, leaves 2D unchanged (C20_mw_unitary_other_qubit); so does any relabelling of the remaining qubits (C20_mw_relabel); over the complex numbers 0 <= 4D <= 1 for unit vectors, hence the measure lies in [0,1] (C20_mw_range). Conversely D = 0 forces the two halves to be proportional (C20_mw_zero_only_if_proportional, C20_mw_zero_multiple): a vanishing measure means that every qubit is unentangled from the rest; the last step from there to a full product state is not formalised. Tie: translator validated by executing the translation against CPython for every argument (n<=6/8). The geometric measure lies in [0,1] for whatever unit product state is returned (C20_geometric_range, Cauchy-Schwarz; C20_geometric_zero_at_state: the bound 0 is attained when the returned product state is the state itself), given the post-conditions evaluated on every input (the returned product state is normalised and the reported value is 1 - its fidelity with the input). The value, the invariances on the code itself and the remaining post-conditions are also evaluated; the convergence of the optimiser is not a theorem.",
    note='Modelled, not verified: numpy sums; tensorly Tucker iteration (post-conditions evaluated only).',
    technique='Coq proof (Z bit lemmas; mathcomp big-operator algebra) on translator-regenerated definitions + translation validation + numpy evaluation',
    design_ref='DESIGN.md section 4, C20')
