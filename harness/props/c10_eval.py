"""C10 - CNOT estimates equal the synthesized counts (general position).

estimate  : qclib.unitary.cnot_count / qclib.isometry.cnot_count / qclib.state_preparation.lowrank.cnot_count
            with method='estimate'
actual    : count_ops()['cx'] of qiskit.transpile(circuit, basis_gates=['u','cx'], optimization_level=0) where the
            circuit is the one the library synthesizes for the same input and options (unitary(...), decompose(...),
            LowRankInitialize(...).definition); the transpile call is made here, not through method='exact'.

Demanded (property text): equality for generic complex inputs and
  * unitary: qsd (apply_a2 True/False) and csd on full unitaries (iso = 0); qsd + apply_a2=True for iso = 1..n-1
  * isometry: ccd / csd / knill, all m in 0..n (knill from n = 2); ccd with m = n only as an upper bound
  * low-rank preparation: every low_rank, partition, iso_scheme in {ccd, knill}, unitary_scheme in {qsd, csd}
Everything else (structured inputs, option combinations outside the list) is only tallied: families "structured:*"
and "extra:*", monitors "<family>_differs"; it never raises a violation."""
import itertools
import warnings
import numpy as np
from qiskit import transpile

from harness.core import jsonable, unjson_array
from harness.props.c02_eval import haar, orth, phases, kron_all, H1

warnings.filterwarnings("ignore")


def cx_count(circ):
    t = transpile(circ, basis_gates=["u", "cx"], optimization_level=0)
    return int(t.count_ops().get("cx", 0))


def rand_state(rng, N):
    v = rng.normal(size=N) + 1j * rng.normal(size=N)
    return v / np.linalg.norm(v)


# ----------------------------------------------------------------------------------------------- unitary
def unitary_pair(U, dec, iso, a2):
    from qclib.unitary import unitary, cnot_count
    est = int(cnot_count(np.array(U), dec, "estimate", iso, a2))
    act = cx_count(unitary(np.array(U), dec, iso, a2))
    return est, act


def eval_unitary(ctx, U, dec, iso, a2, fam, demanded=True):
    n = int(np.log2(len(U)))
    case = {"function": "unitary.cnot_count", "decomposition": dec, "iso": int(iso), "apply_a2": bool(a2), "n": n,
            "family": fam, "matrix": jsonable(np.asarray(U, dtype=complex))}
    try:
        est, act = unitary_pair(U, dec, iso, a2)
    except Exception as exc:  # noqa: BLE001
        if not demanded:
            ctx.monitor(f"{fam}_raised")
            return True
        case["exception"] = f"{type(exc).__name__}: {str(exc)[:200]}"
        ctx.violation(f"unitary cnot_count / synthesis raised {type(exc).__name__} ({dec}, iso={iso}, apply_a2={a2}, n={n})", case)
        return False
    if est == act:
        return True
    if not demanded:
        ctx.monitor(f"{fam}_differs")
        return True
    case.update({"estimate": est, "actual": act, "estimate_minus_actual": est - act})
    ctx.violation(f"unitary.cnot_count estimate {est} != {act} cx in the transpiled circuit "
                  f"({dec}, iso={iso}, apply_a2={a2}, n={n}, {fam})", case)
    return False


def unitary_in_scope(dec, iso, a2):
    if iso == 0:
        return True
    return dec == "qsd" and a2


# ----------------------------------------------------------------------------------------------- isometry
def isometry_pair(V, scheme):
    from qclib.isometry import decompose, cnot_count
    est = int(cnot_count(np.array(V), scheme, "estimate"))
    act = cx_count(decompose(np.array(V), scheme))
    return est, act


def eval_isometry(ctx, V, scheme, fam, demanded=True, flat=False):
    """flat: a state vector handed over as a one-dimensional array (m = 0 only)"""
    V = np.asarray(V, dtype=complex).reshape(len(V), -1)
    n, m = int(np.log2(V.shape[0])), int(np.log2(V.shape[1]))
    flat = bool(flat and m == 0)
    case = {"function": "isometry.cnot_count", "scheme": scheme, "n": n, "m": m, "family": fam, "isometry": jsonable(V), "flat": flat}
    try:
        est, act = isometry_pair(V[:, 0].copy() if flat else V, scheme)
    except Exception as exc:  # noqa: BLE001
        if not demanded:
            ctx.monitor(f"{fam}_raised")
            return True
        case["exception"] = f"{type(exc).__name__}: {str(exc)[:200]}"
        ctx.violation(f"isometry cnot_count / decompose raised {type(exc).__name__} ({scheme}, n={n}, m={m})", case)
        return False
    upper_bound_only = scheme == "ccd" and m == n
    ok = (act <= est) if upper_bound_only else (est == act)
    if upper_bound_only and act < est:
        ctx.monitor("ccd_full_unitary_strict_upper_bound")
    if ok:
        return True
    if not demanded:
        ctx.monitor(f"{fam}_differs")
        return True
    case.update({"estimate": est, "actual": act, "estimate_minus_actual": est - act})
    rel = "<" if upper_bound_only else "!="
    ctx.violation(f"isometry.cnot_count estimate {est} {rel} {act} cx in the transpiled circuit "
                  f"({scheme}, n={n}, m={m}, {fam})", case)
    return False


# ----------------------------------------------------------------------------------------------- low rank
def lowrank_pair(state, lr, iso_scheme, uni_scheme, partition):
    from qclib.state_preparation import LowRankInitialize
    from qclib.state_preparation.lowrank import cnot_count
    est = int(cnot_count(np.array(state), low_rank=lr, isometry_scheme=iso_scheme, unitary_scheme=uni_scheme,
                         partition=None if partition is None else list(partition)))
    gate = LowRankInitialize(np.array(state), opt_params={"lr": lr, "iso_scheme": iso_scheme, "unitary_scheme": uni_scheme,
                                                          "partition": None if partition is None else list(partition)})
    act = cx_count(gate.definition)
    return est, act


def real_phase1_excess(state, lr, iso_scheme, uni_scheme, partition, found):
    """Sum of (estimate - actual) over the REAL sub-preparations of the low-rank algorithm with >= 8 entries.
    Phase 1 encodes the vector of singular values - real and non-negative whatever the input; when it has >= 8 entries
    its own preparation contains a real 4x2 isometry whose real orthogonal 4x4 extension Qiskit synthesises with 2 cx
    when its determinant is +1 (the estimate charges 3).  For rank 1 the two factors are prepared by nested low-rank
    preparations (default options), which are followed recursively."""
    from qclib.entanglement import schmidt_decomposition
    n = int(np.log2(len(state)))
    if n < 2:
        return 0
    part = sorted(partition) if partition is not None else list(range(n // 2 + n % 2))
    rank, svd_u, sv, svd_v = schmidt_decomposition(np.array(state), part, rank=lr)
    total = 0
    if rank >= 8:
        found.append(int(rank))
        e1, a1 = lowrank_pair(sv / np.linalg.norm(sv), 0, iso_scheme, uni_scheme, None)
        total += e1 - a1
    if rank == 1:
        total += real_phase1_excess(svd_u[:, 0], 0, iso_scheme, uni_scheme, None, found)
        total += real_phase1_excess(svd_v.T[:, 0], 0, iso_scheme, uni_scheme, None, found)
    return total


def real_phase1_diagnosis(state, lr, iso_scheme, uni_scheme, partition, diff):
    """for the known-finding predicate: the whole difference is produced by real phase-1 sub-preparations"""
    found = []
    try:
        excess = real_phase1_excess(state, lr, iso_scheme, uni_scheme, partition, found)
    except Exception:  # noqa: BLE001
        return {"explained_by_real_phase1": False}
    return {"real_phase1_vectors": found, "real_phase1_excess": int(excess),
            "explained_by_real_phase1": bool(found and excess == diff and diff > 0)}


def eval_lowrank(ctx, state, lr, iso_scheme, uni_scheme, partition, fam, demanded=True):
    state = np.asarray(state, dtype=complex)
    n = int(np.log2(len(state)))
    case = {"function": "lowrank.cnot_count", "low_rank": int(lr), "iso_scheme": iso_scheme, "unitary_scheme": uni_scheme,
            "partition": None if partition is None else [int(p) for p in partition], "n": n, "family": fam,
            "state": jsonable(state)}
    try:
        est, act = lowrank_pair(state, lr, iso_scheme, uni_scheme, partition)
    except Exception as exc:  # noqa: BLE001
        if not demanded:
            ctx.monitor(f"{fam}_raised")
            return True
        case["exception"] = f"{type(exc).__name__}: {str(exc)[:200]}"
        ctx.violation(f"lowrank cnot_count / LowRankInitialize raised {type(exc).__name__} (n={n}, lr={lr}, "
                      f"{iso_scheme}/{uni_scheme}, partition={partition})", case)
        return False
    if est == act:
        return True
    if not demanded:
        ctx.monitor(f"{fam}_differs")
        return True
    case.update({"estimate": est, "actual": act, "estimate_minus_actual": est - act})
    case.update(real_phase1_diagnosis(state, lr, iso_scheme, uni_scheme, partition, est - act))
    ctx.violation(f"lowrank.cnot_count estimate {est} != {act} cx in the transpiled LowRankInitialize circuit "
                  f"(n={n}, lr={lr}, {iso_scheme}/{uni_scheme}, partition={partition}, {fam})", case)
    return False


def valid_partitions(n):
    """every sorted subset allowed by the documentation: 1 <= |P| <= n//2 (+1 when n is odd)"""
    out = []
    for k in range(1, n // 2 + n % 2 + 1):
        out += [list(c) for c in itertools.combinations(range(n), k)]
    return out


def exact_rank_state(rng, n, part, r):
    """random complex state whose Schmidt rank across `part` is exactly r (generic otherwise)"""
    k = len(part)
    a = haar(rng, 2 ** (n - k))[:, :r]
    b = haar(rng, 2 ** k)[:, :r]
    s = rng.uniform(0.3, 1.0, r)
    s /= np.linalg.norm(s)
    mat = (a * s) @ b.T                                   # rows: complement, columns: partition
    # qclib's convention (entanglement._separation_matrix): partition index j is axis j of state.reshape([2]*n)
    # (big-endian position); the separation matrix has the partition axes moved to the end.
    to_axes = sorted(part)
    from_axes = list(range(n - k, n))
    return np.moveaxis(mat.reshape([2] * n), from_axes, to_axes).reshape(-1)


# ----------------------------------------------------------------------------------------------- structured (tally only)
def structured_unitaries(rng, n):
    N = 2 ** n
    yield "identity", np.eye(N, dtype=complex)
    yield "diagonal", np.diag(phases(rng, N))
    yield "permutation", np.eye(N, dtype=complex)[rng.permutation(N)]
    yield "hadamard", kron_all([H1] * n)
    yield "real_orthogonal", orth(rng, N)
    if n >= 2:
        yield "tensor", kron_all([haar(rng, 2) for _ in range(n)])


def structured_states(rng, n):
    N = 2 ** n
    e = np.zeros(N, dtype=complex)
    e[int(rng.integers(N))] = 1
    yield "basis", e
    yield "product", kron_all([rand_state(rng, 2).reshape(2, 1) for _ in range(n)]).reshape(-1)
    r = rng.normal(size=N)
    yield "real", (r / np.linalg.norm(r)).astype(complex)
    yield "uniform", np.full(N, 1 / np.sqrt(N), dtype=complex)
    g = np.zeros(N, dtype=complex)
    g[0] = g[-1] = 1 / np.sqrt(2)
    yield "ghz", g


# ----------------------------------------------------------------------------------------------- driver
def evaluate(ctx, deep):
    rng = ctx.rng
    # ---- unitaries
    un_max = 6 if deep else 5
    for n in range(1, un_max + 1):
        reps = ({1: 2, 2: 4, 3: 4, 4: 4, 5: 3, 6: 2} if deep else {1: 2, 2: 3, 3: 3, 4: 2, 5: 1})[n]
        for _ in range(reps):
            U = haar(rng, 2 ** n)
            key_u = tuple(np.round(U[0], 12).tolist())
            for dec in ("qsd", "csd"):
                for a2 in (True, False):
                    for iso in range(0, max(n, 1)):
                        scope = unitary_in_scope(dec, iso, a2)
                        fam = f"unitary:{dec}{'+a2' if a2 else ''}:{'iso' if iso else 'full'}" if scope else \
                            f"extra:unitary:{dec}{'+a2' if a2 else ''}:iso"
                        ctx.count(fam, key=(dec, a2, iso, n, key_u), nontrivial=n >= 2,
                                  sample={"decomposition": dec, "apply_a2": a2, "iso": iso, "n": n} if n == 3 and iso == 1 else None)
                        eval_unitary(ctx, U, dec, iso, a2, fam, demanded=scope)
    # ---- isometries
    iso_max = 5
    for n in range(1, iso_max + 1):
        for m in range(0, n + 1):
            reps = ({1: 2, 2: 4, 3: 4, 4: 4, 5: 3} if deep else {1: 2, 2: 3, 3: 3, 4: 2, 5: 1})[n]
            for _ in range(reps):
                V = haar(rng, 2 ** n)[:, :2 ** m]
                key_v = tuple(np.round(V[:, 0], 12).tolist())
                for scheme in ("ccd", "csd", "knill"):
                    if scheme == "knill" and n < 2:
                        continue
                    fam = f"isometry:{scheme}:{'state' if m == 0 else 'unitary' if m == n else 'proper'}"
                    ctx.count(fam, key=(scheme, n, m, key_v), nontrivial=n >= 2,
                              sample={"scheme": scheme, "n": n, "m": m} if (n, m) == (3, 1) else None)
                    eval_isometry(ctx, V, scheme, fam)
                    if m == 0:
                        ctx.count(fam + ":1d", key=(scheme, n, m, key_v, "flat"), nontrivial=n >= 2, sample=None)
                        eval_isometry(ctx, V, scheme, fam, flat=True)
    if deep:    # n = 6 without knill (knill at n = 6 prepares 64-vectors: see the low-rank known finding)
        for m in (0, 1, 3, 5, 6):
            V = haar(rng, 64)[:, :2 ** m]
            for scheme in ("ccd", "csd"):
                fam = f"isometry:{scheme}:{'state' if m == 0 else 'unitary' if m == 6 else 'proper'}"
                ctx.count(fam, key=(scheme, 6, m, tuple(np.round(V[:, 0], 12).tolist())), nontrivial=True)
                eval_isometry(ctx, V, scheme, fam)
    # ---- low-rank state preparation
    lr_max = 7
    for n in range(1, lr_max + 1):
        parts = [None] + valid_partitions(n)
        if n >= 5:      # None, the contiguous ones, and a random selection
            allp = valid_partitions(n)
            pick = [allp[i] for i in sorted(rng.permutation(len(allp))[: (14 if deep else 5)])]
            parts = [None, [0], [n - 1], list(range(1, n // 2 + 1))] + pick
        reps = (3 if n <= 5 else 2) if deep else (2 if n <= 4 else 1)
        for _ in range(reps):
            v = rand_state(rng, 2 ** n)
            key_s = tuple(np.round(v[:4], 12).tolist())
            for part in parts:
                side = min(len(part), n - len(part)) if part is not None else n // 2
                lrs = sorted({0, 1, 2, 3, 2 ** side, max(1, 2 ** side // 2)})
                lrs = [x for x in lrs if x <= 2 ** side]
                for lr in lrs:
                    for iso_scheme in ("ccd", "knill", "csd"):
                        for uni in ("qsd", "csd"):
                            if n >= 6 and part is not None and (iso_scheme, uni) not in (("ccd", "qsd"), ("knill", "csd")):
                                continue
                            scope = iso_scheme != "csd"
                            fam = f"lowrank:{iso_scheme}/{uni}:lr{'0' if lr == 0 else '1' if lr == 1 else '>1'}"
                            if not scope:
                                fam = "extra:" + fam
                            ctx.count(fam, key=(n, tuple(part) if part else None, lr, iso_scheme, uni, key_s), nontrivial=n >= 2,
                                      sample={"n": n, "partition": part, "lr": lr, "iso_scheme": iso_scheme,
                                              "unitary_scheme": uni} if n == 4 and part == [1] else None)
                            eval_lowrank(ctx, v, lr, iso_scheme, uni, part, fam, demanded=scope)
        # states of exact Schmidt rank r (generic given the rank), lr = 0: the rank is detected, not requested
        if n >= 2:
            for part in ([None] + (valid_partitions(n) if n <= 4 else [[0], [1, 3], [0, n - 1]])):
                p = part if part is not None else list(range(n // 2 + n % 2))
                side = min(len(p), n - len(p))
                for r in range(1, 2 ** side + 1):
                    if r > 5 and r != 2 ** side:
                        continue
                    v = exact_rank_state(rng, n, p, r)
                    for iso_scheme, uni in (("ccd", "qsd"), ("knill", "csd")):
                        fam = f"lowrank:{iso_scheme}/{uni}:exact_rank"
                        ctx.count(fam, key=(n, tuple(p), r, iso_scheme, uni, tuple(np.round(v[:4], 12).tolist())), nontrivial=True,
                                  sample={"n": n, "partition": part, "schmidt_rank": r} if n == 4 and r == 2 else None)
                        eval_lowrank(ctx, v, 0, iso_scheme, uni, part, fam)
    # ---- structured inputs: tallied only (the property restricts equality to general position)
    for n in range(1, (5 if deep else 4) + 1):
        for name, U in structured_unitaries(rng, n):
            for dec, a2 in (("qsd", True), ("qsd", False), ("csd", False)):
                fam = f"structured:unitary:{name}"
                ctx.count(fam, key=(dec, a2, n, name, tuple(np.round(U[0], 12).tolist())), nontrivial=False)
                eval_unitary(ctx, U, dec, 0, a2, fam, demanded=False)
            for m in range(0, n + 1):
                for scheme in ("ccd", "csd", "knill"):
                    if scheme == "knill" and n < 2:
                        continue
                    fam = f"structured:isometry:{name}"
                    ctx.count(fam, key=(scheme, n, m, name, tuple(np.round(U[0], 12).tolist())), nontrivial=False)
                    eval_isometry(ctx, U[:, :2 ** m], scheme, fam, demanded=False)
        for name, v in structured_states(rng, n):
            for iso_scheme, uni in (("ccd", "qsd"), ("knill", "csd")):
                fam = f"structured:lowrank:{name}"
                ctx.count(fam, key=(n, name, iso_scheme, uni, tuple(np.round(v[:4], 12).tolist())), nontrivial=False)
                eval_lowrank(ctx, v, 0, iso_scheme, uni, None, fam, demanded=False)
    diff = {k: v for k, v in ctx.monitor_calls.items() if k.startswith(("structured:", "extra:"))}
    if diff:
        ctx.note("outside the demanded set (tally only) the estimate differed from / failed on the synthesized count: "
                 + ", ".join(f"{k}={v}" for k, v in sorted(diff.items())))


def replay(ctx, case):
    fn = case["function"]
    fam = case.get("family", "replay")
    if fn == "unitary.cnot_count":
        return eval_unitary(ctx, unjson_array(case["matrix"]).astype(complex), case["decomposition"], case["iso"],
                            case["apply_a2"], fam)
    if fn == "isometry.cnot_count":
        return eval_isometry(ctx, unjson_array(case["isometry"]).astype(complex), case["scheme"], fam, flat=bool(case.get("flat", False)))
    if fn == "lowrank.cnot_count":
        return eval_lowrank(ctx, unjson_array(case["state"]).astype(complex), case["low_rank"], case["iso_scheme"],
                            case["unitary_scheme"], case["partition"], fam)
    raise ValueError(fn)
