"""C19 - black-box (amplitude amplification) preparation."""
import math
import numpy as np
from harness.props._common import run_eval, replay_eval
from harness.coqcases import run_bool_cases

COQ_TARGETS = ["BlackBox"]
BHEADER = ("From Coq Require Import List Bool Arith.\nFrom QV Require Import BlackBox CaseLib.\nImport ListNotations.\n")


def mux_ref(kind, angles):
    """block-diagonal reference of a multiplexed rotation: target = first qubit, block k = rotation by angles[k]"""
    N = len(angles)
    ref = np.zeros((2 * N, 2 * N), complex)
    for k, t in enumerate(angles):
        if kind == "y":
            ref[2 * k:2 * k + 2, 2 * k:2 * k + 2] = [[np.cos(t / 2), -np.sin(t / 2)], [np.sin(t / 2), np.cos(t / 2)]]
        else:
            ref[2 * k:2 * k + 2, 2 * k:2 * k + 2] = np.diag([np.exp(-1j * t / 2), np.exp(1j * t / 2)])
    return ref


def flat_gates(c, n, th, ph, check_ops):
    """the definition in the alphabet of BlackBox.v; None + reason when an instruction has no counterpart"""
    from qiskit.quantum_info import Operator
    out = []
    for inst in c.data:
        op = inst.operation
        if op.name in ("U", "U_dg"):
            d = op.definition
            for i in d.data:
                nm = i.operation.name
                qs = [d.find_bit(q).index for q in i.qubits]
                pr = np.array([float(x) for x in i.operation.params])
                if nm == "h" and len(qs) == 1 and qs[0] >= 1:
                    out.append(f"BH {qs[0]}")
                    continue
                if qs != list(range(n + 1)):
                    return None, f"{nm} inside {op.name} acts on {qs}"
                table = th if nm.startswith("ucry") else ph
                if len(pr) != len(table) or not np.array_equal(pr, table):
                    return None, f"{nm} inside {op.name} carries a different angle table"
                if nm in ("ucry", "ucrz") and op.name == "U":
                    out.append("BUcry" if nm == "ucry" else "BUcrz")
                elif nm in ("ucry_dg", "ucrz_dg") and op.name == "U_dg":
                    # the inverse keeps the table; its operator must be the multiplexer of the negated angles
                    if check_ops and not np.allclose(Operator(i.operation).data, mux_ref("y" if nm == "ucry_dg" else "z", -table), atol=1e-9):
                        return None, f"{nm} is not the multiplexer of the negated angles"
                    out.append("BUcryd" if nm == "ucry_dg" else "BUcrzd")
                else:
                    return None, f"unexpected {nm} inside {op.name}"
            if abs(float(d.global_phase)) > 1e-12:
                return None, f"{op.name} has a global phase"
        elif op.name == "I_t":
            out.append("BIt")
        elif op.name.startswith("I_s"):
            out.append("BIs")
        else:
            return None, f"unexpected instruction {op.name}"
    return out, None

PROPS_FILES = ["P_C19", "P_C19mx"]
PROPS_FILE = "P_C19"
RULE = ("gate-list correspondence: the definition of BlackBoxInitialize, with U and U^-1 expanded into h / ucry / ucrz (and their inverses, whose angle tables must equal the contract-checked ones and whose matrices are compared with the negated-angle multiplexers for n <= 4), must equal BlackBox.bb_circuit n r inside Coq (vm_compute, list equality); structural tie: the top-level instruction list of BlackBoxInitialize(...).definition must be (U, I_t, U^dagger, I_s)^r, U with "
        "r = floor(pi sqrt(N)/4) (the property's formula, computed independently), global phase pi iff r is odd, U = H on the data "
        "qubits ; UCRY(theta) ; UCRZ(phi) on [flag, data]; contract: cos(theta_k/2) = |a_k| in [0,1] and phi_k = -2 arg a_k (premises of "
        "C19_oracle_flag), I_t = diag(-1,1) on the flag, I_s = I - 2|0..0><0..0|; direct evaluation "
        "(harness/props/c19_eval.py): flag-0 branch vs sin((2r+1)theta) a. distinct = distinct vectors; non-trivial = n >= 2")
ASSUMPTIONS = ["Qiskit's UCRYGate/UCRZGate are the ideal multiplexers with target = first qubit and control index = value of the remaining qubits, and h is the Hadamard matrix (validated numerically per run)",
               "the theorems are over the reals: a_k of the theorem is cos(theta_k/2) e^{-i phi_k/2} for the angle tables the code computed; that this equals the input amplitude (theta_k = 2 acos|a_k|, phi_k = -2 arg a_k) is the angle contract, checked numerically at 1e-9 on every run; r = floor(pi sqrt(N)/4) is computed in binary64 by the harness",
               "the inverse multiplexers inside U^-1 are compared with the negated-angle multiplexers as matrices for n <= 4 and by their (identical) angle tables above"]
TRUSTED = ["top-level instruction list of the definition"]


def vec(rng, n, kind):
    N = 2 ** n
    if kind == "complex":
        v = rng.normal(size=N) + 1j * rng.normal(size=N)
    elif kind == "basis":
        v = np.zeros(N, complex)
        v[rng.integers(N)] = np.exp(1j * rng.uniform(0, 6))
    elif kind == "sparse":
        v = rng.normal(size=N) + 1j * rng.normal(size=N)
        v[rng.random(N) < 0.6] = 0
        if not v.any():
            v[0] = 1j
    else:
        v = rng.normal(size=N).astype(complex)
    return v / np.linalg.norm(v)


def structure(ctx):
    from qclib.state_preparation.blackbox import BlackBoxInitialize
    from qiskit.quantum_info import Operator
    nmax = 7 if ctx.quick else 8
    lines, cases = [], []
    for n in range(1, nmax + 1):
        N = 2 ** n
        r_prop = math.isqrt(int((math.pi ** 2) * N / 16 * 10 ** 12) // 10 ** 12 + 0) if False else int(math.floor(math.pi * math.sqrt(N) / 4))
        assert abs(math.pi * math.sqrt(N) / 4 - round(math.pi * math.sqrt(N) / 4)) > 1e-6
        for kind in ("complex", "basis", "sparse", "real"):
            for _ in range((1 if n >= 6 else 2) if ctx.quick else 5):
                if ctx.quick and n >= 6 and kind in ("sparse", "real"):
                    continue
                v = vec(ctx.rng, n, kind)
                g = BlackBoxInitialize(v)
                c = g.definition
                case = {"class": "BlackBoxInitialize", "n": n, "family": kind,
                        "vector": [[float(z.real).hex(), float(z.imag).hex()] for z in v]}
                ctx.count("struct:" + kind, key=("bb", n, v.tobytes()), nontrivial=n >= 2,
                          sample={"n": n, "family": kind, "rounds": r_prop, "instructions": len(c.data)} if n == 3 else None)
                names = ["I_s" if inst.operation.name.startswith("I_s") else inst.operation.name for inst in c.data]
                want = ["U", "I_t", "U_dg", "I_s"] * r_prop + ["U"]
                bad = None
                if names != want:
                    bad = f"instruction sequence {names[:9]}... has {names.count('I_t')} rounds, expected {r_prop}"
                elif abs(np.exp(1j * float(c.global_phase)) - (-1 if r_prop % 2 else 1)) > 1e-12:
                    bad = "global phase is not pi for an odd number of rounds / 0 for an even number"
                else:
                    for inst in c.data:
                        op = inst.operation
                        qs = [c.find_bit(q).index for q in inst.qubits]
                        if op.name in ("U", "U_dg") and qs != list(range(n + 1)):
                            bad = "U not on all qubits in order"
                        if op.name == "I_t" and (qs != [0] or not np.allclose(Operator(op).data, np.diag([-1, 1]))):
                            bad = "I_t is not diag(-1,1) on the flag qubit"
                        if op.name.startswith("I_s"):
                            if sorted(qs) != list(range(n + 1)) or op.ctrl_state != 0 \
                                    or not np.allclose(Operator(op.base_gate).data, np.diag([-1, 1])):
                                bad = "I_s is not diag(-1,1) controlled on all other qubits being 0 (= I - 2|0..0><0..0|)"
                    u = c.data[0].operation.definition
                    unames = [(i.operation.name, [u.find_bit(q).index for q in i.qubits]) for i in u.data]
                    exp_u = [("h", [q]) for q in range(1, n + 1)] + [("ucry", list(range(n + 1))), ("ucrz", list(range(n + 1)))]
                    if unames != exp_u:
                        bad = f"oracle U is not H^n ; UCRY ; UCRZ: {unames}"
                    else:
                        th = np.array([float(p) for p in u.data[n].operation.params])
                        ph = np.array([float(p) for p in u.data[n + 1].operation.params])
                        m = np.abs(v)
                        ctx.monitor("oracle_angle_contract")
                        if np.isnan(th).any() or np.abs(np.cos(th / 2) - np.clip(m, 0, 1)).max() > 1e-9 or (np.cos(th / 2) < -1e-12).any():
                            bad = "UCRY angles violate cos(theta_k/2) = |a_k| (premise of C19_oracle_flag)"
                        elif np.abs(np.exp(1j * ph) - np.exp(-2j * np.angle(v))).max() > 1e-9:
                            bad = "UCRZ angles are not -2 arg a_k"
                if bad:
                    ctx.mismatch("C19 structural tie: " + bad, case)
                    continue
                # gate list in the alphabet of BlackBox.v, compared inside Coq with bb_circuit n r
                fl, why = flat_gates(c, n, th, ph, check_ops=(n <= 4))
                ctx.monitor("gate_list_correspondence")
                if fl is None:
                    ctx.mismatch("C19 correspondence: " + why, case)
                    continue
                lines.append(f"(list_eqb bgate_eqb (bb_circuit {n} {r_prop}) [{'; '.join(fl)}])")
                cases.append(case)

    def on_fail(cs):
        ctx.mismatch("C19 correspondence: gate list of BlackBoxInitialize differs from the Coq model BlackBox.bb_circuit", cs)
    run_bool_cases(ctx, "c19_bb", BHEADER, lines, cases, on_fail, shard=12)


def primitives(ctx):
    from qiskit.circuit.library import UCRYGate, UCRZGate
    from qiskit.quantum_info import Operator
    th = [0.3, 1.1, -0.7, 2.9]
    ok = True
    for G, f in ((UCRYGate, lambda t: np.array([[np.cos(t / 2), -np.sin(t / 2)], [np.sin(t / 2), np.cos(t / 2)]])),
                 (UCRZGate, lambda t: np.diag([np.exp(-1j * t / 2), np.exp(1j * t / 2)]))):
        M = Operator(G(th)).data
        ref = np.zeros((8, 8), complex)
        for k, t in enumerate(th):
            ref[2 * k:2 * k + 2, 2 * k:2 * k + 2] = f(t)
        ok = ok and np.allclose(M, ref)
    ctx.monitor("qiskit_multiplexer_convention", 2)
    if not ok:
        ctx.mismatch("Qiskit UCRY/UCRZ do not follow the multiplexer convention assumed by the model", {})


def run(ctx):
    primitives(ctx)
    structure(ctx)
    run_eval(ctx, "C19")


def search(ctx):
    run_eval(ctx, "C19", deep=True)


def replay(ctx, case):
    return replay_eval(ctx, "C19", case)


MANIFEST = dict(
    text=("Proof (FULL on the model): for every n, every number of rounds r and every pair of angle tables whose moduli cos(th_k/2) are normalised, the gate list "
          "BlackBox.bb_circuit n r = U ; (I_t ; U^-1 ; I_s ; U)^r with U = H on the data ; UCRY(th) ; UCRZ(ph), run from |0..0> and multiplied by the global phase (-1)^r, has on the flag = 0 "
          "branch exactly sin((2r+1) asin(1/sqrt N)) a_k with a_k = cos(th_k/2) e^{-i ph_k/2}, zeros and unit-modulus amplitudes included (C19_flag0_branch_asin; C19_flag0_branch for any t with "
          "sin t = 1/sqrt N), and on the flag = 1 branch cos((2r+1)t) b_k / sqrt(N-1) (C19_flag1_branch); the state never leaves the plane of the two (C19_circuit_state). "
          "C19_grover_rec is the two-dimensional recurrence, C19_oracle_flag the modulus loaded by theta = 2 acos m for 0 <= m <= 1 (the hypothesis binary64 violated before the repair). "
          "Tie: the definition of BlackBoxInitialize, flattened into the model alphabet, is compared inside Coq with bb_circuit n r for r = floor(pi sqrt(N)/4) computed independently; global phase pi iff r "
          "odd; every angle table in U and U^-1 equals the contract-checked one (cos(theta_k/2) = |a_k|, phi_k = -2 arg a_k, i.e. a_k of the theorem is the input amplitude); the inverse "
          "multiplexers are compared with the negated-angle multiplexer as matrices for n <= 4. The flagged branch is also evaluated on state vectors."),
    note='Modelled, not verified: Qiskit UCRY/UCRZ multiplexer convention and h matrix (validated per run); floor(pi sqrt(N)/4) computed in binary64 by the harness.',
    technique='Coq proof (invariant plane of the amplification rounds in the assignment semantics + trigonometric induction) + gate-list correspondence (vm_compute) + angle contract + state-vector evaluation',
    design_ref='DESIGN.md section 4, C19')
