"""C07 - LowRankInitialize prepares the normalised Schmidt truncation (best rank-r' state across the chosen cut).

For a unit vector v on n >= 2 qubits, a partition P (every non-empty proper subset of the qubits, in any order), a
requested rank r (0 = no cap, 1 .. beyond the maximum) and every iso_scheme / unitary_scheme / svd choice, the circuit
LowRankInitialize(v, {'lr': r, 'partition': P, ...}).definition is simulated from |0..0> (Statevector) and compared
with an INDEPENDENT reference: the bipartition matrix is built by explicit index arithmetic (no qclib.entanglement,
no numpy.moveaxis), its singular value decomposition by numpy.linalg.svd, and

    r' = least power of two >= min(r or infinity, Schmidt rank)          (Schmidt rank = # coefficients > 1e-7)

Demanded of the prepared state w:
  (1) |<v|w>|^2 == sum of the r' largest squared Schmidt coefficients (1e-7), and <v|w> is real positive
      (the normalised truncation has overlap +sqrt(F) with v: global phase included);
  (2) the Schmidt rank of w across P is <= r';
  (3) if the coefficient gap at the cut is > 1e-3 (truncation unique): w == independently built truncated state,
      amplitude by amplitude (1e-6);
  (4) if r' >= Schmidt rank: w == v (1e-6).
(1)+(2) are the Eckart-Young optimum: no state of Schmidt rank r' has a larger fidelity than the top-r' sum.
Construction must not raise.

Qubit labelling: entry p of `partition` is qclib's (big-endian) qubit label = axis p of v.reshape((2,)*n) = bit n-1-p
of the amplitude index (LowRankInitialize reverses the bits of its circuit at the end); since all subsets are tried
the property is evaluated for every bipartition under either reading.  PARTITION_BIT(n, p) is the single place
where this labelling enters.
"""
import itertools
import numpy as np

TOL = 1e-6
PTOL = 1e-7
CUT = 1e-7


def PARTITION_BIT(n, p):
    return n - 1 - p


# ------------------------------------------------------------------------------------------------ reference

def ref_index(n, part):
    ps = sorted(int(p) for p in part)
    cs = [q for q in range(n) if q not in ps]
    rows, cols = 2 ** len(cs), 2 ** len(ps)
    idx = np.zeros((rows, cols), dtype=np.int64)
    a = np.arange(rows)
    b = np.arange(cols)
    for j, q in enumerate(cs):
        idx += ((((a >> (len(cs) - 1 - j)) & 1)) << PARTITION_BIT(n, q))[:, None]
    for j, q in enumerate(ps):
        idx += ((((b >> (len(ps) - 1 - j)) & 1)) << PARTITION_BIT(n, q))[None, :]
    return idx


def expected_rank(s, r):
    eff = int(np.sum(s > CUT))
    if 0 < r < eff:
        eff = r
    k = 1
    while k < eff:
        k *= 2
    return k


# ------------------------------------------------------------------------------------------------ input families

def _unit(v):
    v = np.asarray(v, dtype=complex)
    return v / np.linalg.norm(v)


def _cgauss(rng, m):
    return rng.normal(size=m) + 1j * rng.normal(size=m)


def _from_spectrum(rng, n, part, s, real=False):
    idx = ref_index(n, part)
    rows, cols = idx.shape
    k = len(s)
    ga = rng.normal(size=(rows, k)) if real else _cgauss(rng, rows * k).reshape(rows, k)
    gb = rng.normal(size=(cols, k)) if real else _cgauss(rng, cols * k).reshape(cols, k)
    qa, _ = np.linalg.qr(ga)
    qb, _ = np.linalg.qr(gb)
    M = (qa * np.asarray(s)) @ qb.T
    v = np.zeros(2 ** n, complex)
    v[idx] = M
    return _unit(v)


def gen_state(rng, n, fam, part):
    N = 2 ** n
    idx = ref_index(n, part)
    rows, cols = idx.shape
    m = min(rows, cols)
    if fam == "complex":
        return _unit(_cgauss(rng, N))
    if fam == "real":
        return _unit(rng.normal(size=N))
    if fam == "negative":
        return _unit(-np.abs(rng.normal(size=N)) - 0.05)
    if fam == "basis":
        v = np.zeros(N, complex)
        v[int(rng.integers(N))] = [1, -1, 1j, np.exp(1j * rng.uniform(0, 6))][int(rng.integers(4))]
        return v
    if fam == "sparse":
        v = _cgauss(rng, N)
        v[rng.random(N) < 0.6] = 0
        if not v.any():
            v[int(rng.integers(N))] = 1
        return _unit(v)
    if fam == "product":
        v = np.array([1.0 + 0j])
        for _ in range(n):
            c = int(rng.integers(6))
            q = [np.array([1, 0]), np.array([0, 1]), np.array([1, 1]), np.array([1, -1]), None, None][c]
            if q is None:
                q = _cgauss(rng, 2)
            v = np.kron(v, _unit(q))
        return _unit(v)
    if fam == "hadamard":
        k = int(rng.integers(N))
        return _unit(np.array([(-1.0) ** bin(i & k).count("1") for i in range(N)]))
    if fam == "ghz":
        v = np.zeros(N, complex)
        v[0] = 1
        v[-1] = [1, -1, np.exp(1j * rng.uniform(0, 6))][int(rng.integers(3))]
        if rng.random() < 0.5:
            v[0] = 2        # unequal weights: unique rank-1 truncation
        return _unit(v)
    if fam == "w":
        v = np.zeros(N, complex)
        wts = np.ones(n) if rng.random() < 0.5 else rng.uniform(0.3, 1, n)
        for q in range(n):
            v[1 << q] = wts[q]
        return _unit(v)
    if fam == "blockprod":
        k = int(rng.integers(1, n))
        sub = sorted(int(x) for x in rng.permutation(n)[:k])
        i2 = ref_index(n, sub)
        v = np.zeros(N, complex)
        v[i2] = np.outer(_unit(_cgauss(rng, i2.shape[0])), _unit(_cgauss(rng, i2.shape[1])))
        return _unit(v)
    if fam in ("rank1", "rank2", "rank3"):
        k = min({"rank1": 1, "rank2": 2, "rank3": 3}[fam], m)
        return _from_spectrum(rng, n, part, rng.uniform(0.3, 1.0, k), real=rng.random() < 0.3)
    if fam == "degenerate":
        s = np.ones(m)
        if m >= 4 and rng.random() < 0.5:
            s[m // 2:] = 0.5
        return _from_spectrum(rng, n, part, s)
    if fam == "gapped":
        # geometric spectrum: every truncation unique and clearly separated
        return _from_spectrum(rng, n, part, 0.5 ** np.arange(m), real=rng.random() < 0.3)
    if fam == "small_coeff":
        # trailing coefficients of relative size 1e-4 (a thousand times the library's rank cut): they count
        s = np.array([1.0, 0.6, 1e-4, 0.5e-4, 0.3e-4, 0.2e-4, 0.15e-4, 0.1e-4][:m])
        return _from_spectrum(rng, n, part, s)
    if fam == "schur":
        vs = schur_vectors(n, int(rng.integers(0, n + 1)))
        return vs[int(rng.integers(len(vs)))]
    raise ValueError(fam)


FAMS = ["schur", "complex", "real", "negative", "basis", "sparse", "product", "hadamard", "ghz", "w", "blockprod",
        "rank1", "rank2", "rank3", "degenerate", "gapped", "small_coeff"]


# ------------------------------------------------------------------------------------------------ one case

def enc_vec(v):
    return [[float(np.real(x)).hex(), float(np.imag(x)).hex()] for x in np.asarray(v, dtype=complex)]


def dec_vec(e):
    return np.array([complex(float.fromhex(a), float.fromhex(b)) for a, b in e])


def _run(vec, opts):
    from qiskit.quantum_info import Statevector
    from qclib.state_preparation import LowRankInitialize
    n = int(np.log2(len(vec)))
    part = [int(p) for p in opts["partition"]]
    r = int(opts.get("lr") or 0)
    try:
        gate = LowRankInitialize(np.array(vec), opt_params=dict(opts))
        circ = gate.definition
        if circ.num_qubits != n:
            return [f"definition acts on {circ.num_qubits} qubits"], None
        w = np.asarray(Statevector(circ).data)
    except Exception as exc:
        import traceback
        frames = [f.name for f in traceback.extract_tb(exc.__traceback__)]
        return [f"raised {type(exc).__name__}: {str(exc)[:100]}"], (type(exc).__name__, frames[-12:], str(exc)[:200])
    bad = []
    idx = ref_index(n, part)
    U, s, Vh = np.linalg.svd(vec[idx], full_matrices=False)
    if np.any((s > CUT * 1e-3) & (s < CUT * 1e3)):
        return [], None                      # Schmidt rank ambiguous with respect to the library's cut: not judged
    k = expected_rank(s, r)
    srank = int(np.sum(s > CUT))
    fid_ref = float(np.sum(s[:k] ** 2))
    ov = np.vdot(vec, w)
    if not np.all(np.isfinite(w)):
        return ["prepared state has non-finite amplitudes"], None
    if abs(abs(ov) ** 2 - fid_ref) > PTOL:
        bad.append(f"fidelity {abs(ov) ** 2:.9f} != sum of the {k} largest squared Schmidt coefficients {fid_ref:.9f}")
    if abs(ov - np.sqrt(fid_ref)) > TOL:
        bad.append(f"overlap <v|w> = {ov:.7f} is not +sqrt(fidelity) = {np.sqrt(fid_ref):.7f} (global phase)")
    sw = np.linalg.svd(w[idx], compute_uv=False)
    if np.sum(sw > TOL) > k:
        bad.append(f"prepared state has Schmidt rank {int(np.sum(sw > TOL))} > r' = {k}")
    gap = (s[k - 1] - s[k]) if k < len(s) else 1.0
    if gap > 1e-3:
        t = np.zeros(2 ** n, complex)
        t[idx] = (U[:, :k] * s[:k]) @ Vh[:k, :]
        t = t / np.linalg.norm(t)
        err = float(np.abs(w - t).max())
        if err > TOL:
            bad.append(f"prepared state differs from the normalised {k}-term Schmidt truncation by {err:.3g}")
    if k >= srank:
        err = float(np.abs(w - vec).max())
        if err > TOL:
            bad.append(f"r' = {k} >= Schmidt rank {srank} but the prepared state differs from the vector by {err:.3g}")
    return bad, None


def _diagnose(vec, opts, exc):
    """narrow attribution (known findings are keyed on it):
       auto_randomized_svd  svd = 'auto' (default) chose the randomized SVD (n >= 14, rank 1, large partition) and the same case
                            is exact with svd = 'regular';
       qiskit_apply_a2      exact when qiskit's _apply_a2 is the identity;  other / undiagnosed otherwise"""
    try:
        n = int(np.log2(len(vec)))
        if opts.get("svd", "auto") == "auto" and n >= 14 and int(opts.get("lr") or 0) == 1:
            bad, _ = _run(vec, dict(opts, svd="regular"))
            if not bad:
                return "auto_randomized_svd"
    except Exception:
        pass
    try:
        import qclib.unitary as qu
        orig = qu._apply_a2
        try:
            qu._apply_a2 = lambda circuit: circuit
            bad, _ = _run(vec, opts)
        finally:
            qu._apply_a2 = orig
        return "qiskit_apply_a2" if not bad else "other"
    except Exception:
        return "undiagnosed"


def eval_case(ctx, vec, opts, family):
    vec = np.asarray(vec, dtype=complex)
    n = int(np.log2(len(vec)))
    bad, exc = _run(vec, opts)
    if not bad:
        return True
    cause = _diagnose(vec, opts, exc)
    oj = dict(opts)
    oj["partition_is_tuple"] = isinstance(opts["partition"], tuple)
    oj["partition"] = [int(p) for p in opts["partition"]]
    case = {"class": "LowRankInitialize", "opt_params": oj, "n": n, "family": family, "cause": cause,
            "partition": oj["partition"], "lr": int(opts.get("lr") or 0), "iso_scheme": oj.get("iso_scheme"),
            "unitary_scheme": oj.get("unitary_scheme"), "svd": oj.get("svd"),
            "exception": None if exc is None else exc[0], "raised_in": None if exc is None else exc[1],
            "vector": enc_vec(vec)}
    ctx.violation(f"LowRankInitialize(opt_params={oj}) on n={n} [{family}]: " + "; ".join(bad[:3]) + f" [cause: {cause}]", case)
    return False


# ------------------------------------------------------------------------------------------------ driver

def all_subsets(n):
    for size in range(1, n):
        for c in itertools.combinations(range(n), size):
            yield list(c)


COMBOS = [(i, u) for i in ("ccd", "knill") for u in ("qsd", "csd")]


def _hadamard(n):
    h = np.array([[1.0, 1.0], [1.0, -1.0]]) / np.sqrt(2)
    m = np.array([[1.0]])
    for _ in range(n):
        m = np.kron(m, h)
    return m


def schur_vectors(n, m):
    """Schur vectors of a unitary completion of 2^m Hadamard columns (real, highly structured; the inputs on which the
    known Qiskit _apply_a2 finding was first seen)"""
    import scipy.linalg
    iso = _hadamard(n)[:, : 2 ** m].astype(complex)
    u = iso if m == n else np.concatenate([iso, np.conj(scipy.linalg.null_space(iso.T))], axis=1)
    _, z = scipy.linalg.schur(u, output="complex")
    return [_unit(z[:, i]) for i in range(2 ** n)]


def schur_sweep(ctx, deep):
    rng = ctx.rng
    plan = {3: (1, 2), 4: (1, 2, 3), 5: (2, 4)} if deep else {4: (3,), 5: (4,)}
    for n, ms in plan.items():
        for m in ms:
            for vec in schur_vectors(n, m):
                subsets = list(all_subsets(n))
                parts = [list(range(n // 2 + n % 2))] + [subsets[int(j)] for j in rng.permutation(len(subsets))[:2]]
                for part in parts:
                    for r in (0, 2):
                        opts = {"lr": r, "partition": part}
                        ctx.monitor(f"n={n}")
                        ctx.count("schur_sweep", key=(n, tuple(part), r, vec.tobytes()), nontrivial=True, sample=None)
                        eval_case(ctx, vec, opts, "schur_sweep")


def evaluate(ctx, deep):
    rng = ctx.rng
    schur_sweep(ctx, deep)
    nmax = 8 if deep else 6
    n_allfam = 6 if deep else 5
    n_allrank = 5 if deep else 4
    for n in range(2, nmax + 1):
        subsets = list(all_subsets(n))
        for si, part in enumerate(subsets):
            idx = ref_index(n, part)
            m = min(idx.shape)
            if n <= n_allfam:
                fams = FAMS
            elif n == n_allfam + 1:
                fams = [FAMS[(si * 7 + j * 3) % len(FAMS)] for j in range(4 if deep else 3)]
            else:
                fams = [FAMS[(si * 7) % len(FAMS)]]
            for fam in fams:
                vec = gen_state(rng, n, fam, part)
                rmax = max(m, 2 ** (n // 2))
                if n <= n_allrank:
                    ranks = list(range(0, rmax + 2))
                elif n <= n_allfam:
                    ranks = sorted({[0, 1][int(rng.integers(2))], int(rng.integers(1, rmax + 1)), [2, 3, rmax, rmax + 1][int(rng.integers(4))]})
                else:
                    ranks = sorted({int(rng.integers(0, 3)), int(rng.integers(2, rmax + 1))})
                for r in ranks:
                    p = list(part)
                    order = "sorted"
                    if len(p) > 1 and rng.random() < 0.3:
                        p = [p[int(j)] for j in rng.permutation(len(p))]
                        order = "sorted" if p == sorted(p) else "shuffled"
                    i, u = COMBOS[int(rng.integers(4))]
                    opts = {"lr": r, "partition": tuple(p) if rng.random() < 0.2 else p}
                    if rng.random() < 0.75:
                        opts["iso_scheme"] = i
                        opts["unitary_scheme"] = u
                    if rng.random() < 0.3:
                        opts["svd"] = ["regular", "auto"][int(rng.integers(2))]
                    size_tag = "size<=half" if len(p) <= n // 2 + n % 2 else "size>half"
                    ctx.monitor(f"n={n}")
                    ctx.monitor("schemes:" + (f"{i}/{u}" if "iso_scheme" in opts else "default"))
                    ctx.monitor("rank:" + ("0" if r == 0 else "1" if r == 1 else "2..max" if r <= m else ">max"))
                    ctx.monitor("partition:" + order + "," + size_tag)
                    ctx.count(fam, key=(n, tuple(p), r, opts.get("iso_scheme"), opts.get("unitary_scheme"), opts.get("svd"), vec.tobytes()),
                              nontrivial=True,
                              sample={"n": n, "opt_params": {k: (list(v) if k == "partition" else v) for k, v in opts.items()},
                                      "vector_head": [complex(x) for x in vec[:4]]} if (n == 3 and r == 1) else None)
                    eval_case(ctx, vec, opts, fam)
    # large states: with the default svd = 'auto' the library switches to a randomized SVD for rank 1, n >= 14
    for rep in range(3 if deep else 1):
        n = 14
        part = list(range(7)) if rep % 2 == 0 else sorted(int(q) for q in rng.choice(n, size=7, replace=False))
        vec = _unit(_cgauss(rng, 2 ** n))
        opts = {"lr": 1, "partition": part}
        ctx.monitor("n=14")
        ctx.count("large_rank1", key=(n, tuple(part), 1, vec.tobytes()[:256]), nontrivial=True,
                  sample={"n": n, "opt_params": opts} if rep == 0 else None)
        eval_case(ctx, vec, opts, "large_rank1")
    # mid-size registers (9..12 qubits: qubit labels beyond 7, register halves of 5 and more qubits), cheap low ranks
    for n in ((9, 10, 11, 12) if deep else (9, 10)):
        odd = n % 2
        parts = [list(range(n // 2 + odd)),
                 sorted(int(q) for q in rng.choice(n, size=n // 2 + odd, replace=False)),
                 sorted(int(q) for q in rng.choice(n, size=int(rng.integers(1, n)), replace=False))]
        if deep:
            parts.append(sorted(int(q) for q in rng.choice(n, size=n - 2, replace=False)))
        for pi, part in enumerate(parts):
            for r in ((1, 2) if (deep or n == 9) else (1,)):
                vec = _unit(_cgauss(rng, 2 ** n))
                opts = {"lr": r, "partition": part}
                ctx.monitor(f"n={n}")
                ctx.count("mid_lowrank", key=(n, tuple(part), r, vec.tobytes()[:256]), nontrivial=True,
                          sample={"n": n, "opt_params": opts} if (n == 9 and pi == 0 and r == 1) else None)
                eval_case(ctx, vec, opts, "mid_lowrank")
    n = 9
    vec = _unit(_cgauss(rng, 2 ** n))
    opts = {"lr": 0, "partition": list(range(5))}
    ctx.monitor("n=9")
    ctx.count("mid_fullrank", key=(n, 0, vec.tobytes()[:256]), nontrivial=True)
    eval_case(ctx, vec, opts, "mid_fullrank")
    ctx.note("C07: partition entry p designates axis p of v.reshape((2,)*n) (bit n-1-p of the amplitude index), qclib's labelling")


def replay(ctx, case):
    opts = dict(case["opt_params"])
    if opts.pop("partition_is_tuple", False):
        opts["partition"] = tuple(opts["partition"])
    return eval_case(ctx, dec_vec(case["vector"]), opts, case.get("family", "replay"))
