"""C16 - invalid inputs are rejected."""
import types
from fractions import Fraction
from math import log2
import numpy as np
from harness.coqcases import run_bool_cases
from harness.flatten import coq_q

PROPS_FILE = "P_C16"
GEN_FILES = ["Gen_validate"]
COQ_TARGETS = ["CaseLib"]
RULE = ("translation validation: the acceptance predicates regenerated from the source (Gen_validate.init_accept, "
        "iso_shape_accept, probs_accept, u2_shape_accept) are evaluated inside Coq on the same lengths / sums / shapes / "
        "probability vectors that are fed to Initialize._get_num_qubits, isometry._check_isometry, MixedInitialize and "
        "check_u2, and the accept/reject decisions are compared (data kept a factor 1e3 away from the 1e-10 / 1e-9 cuts); "
        "direct evaluation (harness/props/c16_eval.py): malformed streams through every entry point. "
        "distinct = distinct inputs; non-trivial = the input is malformed")
ASSUMPTIONS = ["float log2(len).is_integer() coincides with 'len is a power of two' for len < 2^53",
               "np.allclose / qiskit is_unitary_matrix orthonormality tests are numerical contracts (evaluated, not proved)"]
TRUSTED = ["harness/translate.py gen_validate(): shape-checked extraction of the validation statements and their tolerances"]

HEADER = ("From Coq Require Import List Bool ZArith NArith QArith.\nFrom QV Require Import GenLib ValidateLib Gen_validate CaseLib.\n"
          "Import ListNotations.\nOpen Scope Q_scope.\n")


def py_init_accepts(params):
    from qclib.gates.initialize import Initialize
    obj = types.SimpleNamespace()
    try:
        Initialize._get_num_qubits(obj, params)
        return True
    except ValueError:
        return False


def tv_probs(ctx, cases, lines):
    rng = ctx.rng
    from fractions import Fraction
    # --- MixedInitialize probabilities
    from qclib.state_preparation import MixedInitialize
    pvs = []
    for k in (1, 2, 3, 4, 5):
        base = rng.random(k) + 0.05
        base = base / base.sum()
        for off in [0.0, 1e-13, 1e-11, -1e-11, 5e-10, -5e-10, 2e-9, -2e-9, 1e-6, 0.1, -0.1, 1.0]:
            p = base.copy()
            p[0] += off
            pvs.append(list(p))
        pvs.append([1.5] + [-0.5 / max(k - 1, 1)] * (k - 1) if k > 1 else [1.5])
        pvs.append([-0.2] + [1.2 / max(k - 1, 1)] * (k - 1) if k > 1 else [-0.2])
        pvs.append([1.0] + [0.0] * (k - 1))
        pvs.append([0.0] * k)
    for p in pvs:
        s = float(sum(p))
        if abs(abs(s - 1.0) - 1e-9 * max(abs(s), 1.0)) < 2e-12:
            continue
        k = len(p)
        states = [list(np.eye(2)[i % 2]) for i in range(k)]
        try:
            MixedInitialize(states, probabilities=list(p))
            acc = True
        except ValueError:
            acc = False
        cases.append(("MixedInitialize(probabilities)", k, [float(x).hex() for x in p], acc))
        # the source sums floats left to right; give Coq the exact rational of that float sum through a one-element
        # list whenever all entries are valid, else the entries themselves (sign / >1 tests are exact on floats)
        if all(0.0 <= x <= 1.0 for x in p):
            ql = "[" + "; ".join(coq_q(Fraction(x)) for x in p[:-1]) + ("; " if k > 1 else "") \
                 + coq_q(Fraction(s) - sum(Fraction(x) for x in p[:-1])) + "]"
        else:
            ql = "[" + "; ".join(coq_q(Fraction(x)) for x in p) + "]"
        lines.append(f"(Bool.eqb (probs_accept {ql}) {'true' if acc else 'false'})")


def tv(ctx):
    rng = ctx.rng
    cases, lines = [], []
    # --- Initialize._get_num_qubits: lengths x sums of squares
    lens = [1, 2, 3, 4, 5, 6, 7, 8, 12, 16, 24, 32, 33, 64] + ([128, 100, 256] if not ctx.quick else [])
    offs = [0.0, 1e-12, -1e-12, 5e-11, -5e-11, 9.9e-11, -9.9e-11, 1.01e-10, -1.01e-10, 2e-10, -2e-10, 5e-10, -5e-10,
            9e-10, 1e-9, -1e-9, 1e-8, 1e-6, -1e-6, 1e-3, 0.5, -0.5, 1.0, 3.0, -1.0]
    for ln in lens:
        for off in offs:
            v = np.zeros(ln, dtype=complex)
            # spread the mass over the entries with random phases; first entry absorbs the offset
            w = rng.random(ln) + 0.1
            w = w / w.sum() * (1.0 + off) if 1.0 + off > 0 else w * 0.0
            v[:] = np.sqrt(w) * np.exp(1j * rng.uniform(0, 2 * np.pi, ln))
            s = float(sum(np.absolute(v) ** 2))
            # keep away from the decision threshold |s-1| = 1e-10 by a relative margin
            if abs(abs(s - 1.0) - 1e-10) < 2e-13:
                continue
            acc = py_init_accepts(list(v))
            cases.append(("Initialize._get_num_qubits", ln, s.hex(), acc))
            lines.append(f"(Bool.eqb (init_accept {ln}%N {coq_q(Fraction(s))}) {'true' if acc else 'false'})")
    # --- isometry shapes
    from qclib import isometry as I
    shapes = [(r, c) for r in [1, 2, 3, 4, 6, 8, 16] for c in [1, 2, 3, 4, 5, 8, 16, 32]]
    for (r, c) in shapes:
        iso = np.eye(r, c, dtype=complex)
        try:
            I._check_isometry(iso, log2(r), log2(c))
            acc = True
        except ValueError:
            acc = False
        if c <= r or not acc:     # for c > r the identity block is not an isometry anyway: both must reject
            cases.append(("isometry._check_isometry(shape)", r, c, acc))
            lines.append(f"(Bool.eqb (iso_shape_accept {r}%N {c}%N) {'true' if acc else 'false'})")
    # --- check_u2 shapes
    from qclib.gates.util import check_u2
    for (r, c) in [(1, 1), (2, 2), (2, 1), (1, 2), (3, 3), (4, 4), (2, 4), (4, 2)]:
        try:
            check_u2(np.eye(r, c, dtype=complex))
            acc = True
        except ValueError:
            acc = False
        cases.append(("gates.util.check_u2(shape)", r, c, acc))
        lines.append(f"(Bool.eqb (u2_shape_accept {r}%N {c}%N) {'true' if acc else 'false'})")
    tv_probs(ctx, cases, lines)
    for c in cases:
        ctx.count("tv:" + c[0], key=c[:-1], nontrivial=not c[-1],
                  sample={"function": c[0], "input": list(c[1:-1]), "accepted": c[-1]} if (c[1] in (8, 3) and not c[-1]) else None)

    def on_fail(c):
        ctx.mismatch(f"C16: accept/reject decision of {c[0]} on {c[1:-1]} (implementation: {'accept' if c[-1] else 'reject'}) "
                     "differs from the predicate regenerated from the source", {"function": c[0], "input": list(c[1:-1]), "accepted": c[-1]})
    run_bool_cases(ctx, "c16_tv", HEADER, lines, cases, on_fail, shard=300)


def run(ctx):
    tv(ctx)
    if ctx.skip_eval:
        return
    try:
        from harness.props import c16_eval
    except ModuleNotFoundError:
        ctx.note("direct evaluation module not present")
        return
    c16_eval.evaluate(ctx, not ctx.quick)


def search(ctx):
    from harness.props import c16_eval
    c16_eval.evaluate(ctx, True)


def replay(ctx, case):
    from harness.props import c16_eval
    return c16_eval.replay(ctx, case)


MANIFEST = dict(
    text="Proof: the acceptance predicates regenerated from the source on every run (tolerances read from the isclose calls) imply the property's bounds, which are written in the Props file: accepted length is 2^n, n>=1; |sum of squares - 1| <= 1e-10, hence |norm - 1| <= 1e-10; off-norm/zero vectors rejected; isometry shapes 2^a x 2^b with b<=a; 2x2 shape for one-qubit gates; probability vectors (C16_* theorems). A loosened tolerance in the source breaks C16_accept_sumsq. Tie: translator (shape-checked extraction) + decision comparison on lengths/sums/shapes; malformed streams through every entry point are evaluated.",
    note='Modelled, not verified: np.allclose / is_unitary_matrix orthonormality tests (numerical contracts); float log2(len).is_integer() as power-of-two test.',
    technique='Coq proof (Q/R arithmetic) on translator-regenerated predicates with property-side bounds + decision correspondence + malformed-input evaluation',
    design_ref='DESIGN.md section 4, C16')
