"""C01 - exact dense state preparation."""
from fractions import Fraction
import numpy as np
from harness.coqcases import run_bool_cases
from harness.flatten import flatten, coq_q, coq_list
from harness.props._common import run_eval, replay_eval

PROPS_FILE = "P_C01"
COQ_TARGETS = ["CaseLib", "TopDownModel"]
RULE = ("tie (d)+(b) for TopDownInitialize: the angle tree the implementation computes (state_decomposition, create_angles_tree) is "
        "logged; its relations to the input (theorem premises of C01_amp_tree: m^2 = m_l^2 + m_r^2, phase = mean of children, "
        "sin(ay/2) m = m_r, cos(ay/2) m = m_l, az = 2(arg_r - arg)) are checked numerically; the flattened gate list of the "
        "definition is compared inside Coq (angles within 1e-12) with TopDownModel.topdown_q run on the logged tree, n = 1..6/9, "
        "10 data families; direct evaluation (harness/props/c01_eval.py): state vector of every exact initializer and option vs "
        "the input. distinct = distinct (class, options, vector); non-trivial = n >= 2")
ASSUMPTIONS = ["polar form: abs/cmath.phase satisfy |a| e^{i phase a} = a (checked numerically)",
               "Schmidt-based (LowRank, SVD), UCG/UCGE, isometry-based and bounded-approximation initializers: evaluated; their algebra is C02/C03/C07/C09/C12",
               "Qiskit's circuit container, reverse_ops and global phase handling"]
TRUSTED = ["harness/flatten.py", "vm_compute evaluation of TopDownModel on exact rationals of the logged float angles"]
HEADER = ("From Coq Require Import List Bool Arith QArith.\nFrom QV Require Import Sem UcrModel TopDownModel CaseLib.\nImport ListNotations.\n"
          "Open Scope Q_scope.\n")


def vector(rng, n, kind):
    N = 2 ** n
    if kind == "complex":
        v = rng.normal(size=N) + 1j * rng.normal(size=N)
    elif kind == "real":
        v = rng.normal(size=N).astype(complex)
    elif kind == "negative":
        v = -np.abs(rng.normal(size=N)).astype(complex)
    elif kind == "basis":
        v = np.zeros(N, complex)
        v[rng.integers(N)] = np.exp(1j * rng.uniform(0, 6))
    elif kind == "sparse":
        v = rng.normal(size=N) + 1j * rng.normal(size=N)
        v[rng.random(N) < 0.5] = 0
        if not v.any():
            v[0] = 1
    elif kind == "product":
        v = np.array([1.0 + 0j])
        for _ in range(n):
            v = np.kron(v, rng.normal(size=2) + 1j * rng.normal(size=2))
    elif kind == "ghz":
        v = np.zeros(N, complex)
        v[0], v[-1] = 1, -1
    elif kind == "uniform":
        v = np.ones(N, complex)
    elif kind == "near_real":
        v = rng.normal(size=N) + 1j * rng.normal(size=N) * 10.0 ** float(rng.integers(-17, -11))
    elif kind == "tiny_odd":
        v = rng.normal(size=N) + 1j * rng.normal(size=N)
        v[1::2] *= 10.0 ** float(rng.integers(-12, -8))
    elif kind == "half_zero":
        v = rng.normal(size=N) + 1j * rng.normal(size=N)
        v[N // 2:] = 0
        if not v.any():
            v[0] = 1
    else:
        v = np.zeros(N, complex)
        v[0] = 1
    return v / np.linalg.norm(v)


KINDS = ["complex", "real", "negative", "basis", "sparse", "product", "ghz", "uniform", "half_zero", "zero_state", "near_real", "tiny_odd"]


def levels_of(tree):
    """angle lists per level, left to right"""
    ys, zs, nodes = [], [], [tree]
    while nodes:
        ys.append([float(nd.angle_y) for nd in nodes])
        zs.append([float(nd.angle_z) for nd in nodes])
        nxt = []
        for nd in nodes:
            if nd.left is not None:
                nxt.append(nd.left)
            if nd.right is not None:
                nxt.append(nd.right)
        nodes = nxt
    return ys, zs


def check_tree_relations(ctx, v, state_tree, angle_tree, case):
    """premises of C01_amp_tree on the logged trees"""
    bad = None
    st, at = [state_tree], [angle_tree]
    while at:
        nst, nat_ = [], []
        for s, a in zip(st, at):
            l, r = s.left, s.right
            if abs(s.mag ** 2 - (l.mag ** 2 + r.mag ** 2)) > 1e-12:
                bad = "m^2 = m_l^2 + m_r^2"
            if abs(s.arg - (l.arg + r.arg) / 2) > 1e-12:
                bad = "arg = mean of children"
            if abs(np.sin(a.angle_y / 2) * s.mag - r.mag) > 1e-9 or abs(np.cos(a.angle_y / 2) * s.mag - l.mag) > 1e-9:
                bad = "sin/cos(ay/2) m = m_r/m_l"
            if abs(a.angle_z - 2 * (r.arg - s.arg)) > 1e-12:
                bad = "az = 2 (arg_r - arg)"
            if a.left is not None:
                nst += [l, r]
                nat_ += [a.left, a.right]
        st, at = nst, nat_
    # leaves of the state tree are the polar forms of the amplitudes
    leaves = st if st else []
    ctx.monitor("angle_tree_relations")
    if bad:
        ctx.mismatch(f"C01 contract: the angle tree of TopDownInitialize violates a premise of C01_amp_tree ({bad})", case)


def topdown_correspondence(ctx):
    from qclib.state_preparation import TopDownInitialize
    from qclib.state_preparation.util.state_tree_preparation import Amplitude, state_decomposition
    from qclib.state_preparation.util.angle_tree_preparation import create_angles_tree
    nmax = 6 if ctx.quick else 9
    cases, lines, lines0 = [], [], []
    for n in range(1, nmax + 1):
        for kind in KINDS:
            v = vector(ctx.rng, n, kind)
            g = TopDownInitialize(v)
            fl, phase = flatten(g.definition)
            st = state_decomposition(n, [Amplitude(i, a) for i, a in enumerate(v)])
            at = create_angles_tree(st)
            case = {"class": "TopDownInitialize", "n": n, "family": kind, "vector": [[float(z.real).hex(), float(z.imag).hex()] for z in v]}
            check_tree_relations(ctx, v, st, at, case)
            ys, zs = levels_of(at)
            items = []
            for name, qs, op in fl:
                if name in ("ry", "rz"):
                    items.append(f"PRot {'RotY' if name == 'ry' else 'RotZ'} {coq_q(Fraction(float(op.params[0])))} {qs[0]}")
                elif name == "cx":
                    items.append(f"PEnt EntCX {qs[0]} {qs[1]}")
                else:
                    items.append("PEnt EntCZ 99999 99999")
            yq = coq_list([coq_list([coq_q(Fraction(a)) for a in lv]) for lv in ys])
            zq = coq_list([coq_list([coq_q(Fraction(a)) for a in lv]) for lv in zs])
            cases.append(case)
            ctx.max_struct_qubits = max(ctx.max_struct_qubits, n)
            ctx.count("corr:topdown:" + kind, key=("td", n, kind, v.tobytes()), nontrivial=n >= 2,
                      sample={"n": n, "family": kind, "gates": len(fl), "angles_y_level1": ys[1] if n > 1 else []} if n == 3 else None)
            lines.append(f"(list_eqb (pgate_close (1 # 1000000000000)) (topdown_q {n} {yq} {zq}) {coq_list(items)})")
            lines0.append(f"(list_eqb pgate_eqb (topdown_q {n} {yq} {zq}) (topdown_q0 {n} {yq} {zq}))")
            # global phase of the definition = mean of the leaf phases (root phase of the state tree)
            want = float(sum(np.angle(v)) / len(v))
            if abs(np.exp(1j * phase) - np.exp(1j * want)) > 1e-9:
                ctx.mismatch("C01: global phase of TopDownInitialize differs from the mean leaf phase", case)

    def on_fail(c):
        ctx.mismatch("C01 correspondence: gate list of TopDownInitialize differs from TopDownModel.topdown_q run on its own angle tree",
                     {k: c[k] for k in ("class", "n", "family")})
    run_bool_cases(ctx, "c01_td", HEADER, lines, cases, on_fail, shard=15)
    skipped = []
    run_bool_cases(ctx, "c01_td0", HEADER, lines0, cases, lambda c: skipped.append(c), shard=15)
    ctx.note(f"{len(skipped)} of {len(cases)} top-down instances contain a leaf rotation in (0, 1e-8] that the source skips: "
             "for those the exact-skip model of the theorems applies only up to 2^k*1e-8 in the angles")


def run(ctx):
    topdown_correspondence(ctx)
    run_eval(ctx, "C01")


def search(ctx):
    run_eval(ctx, "C01", deep=True)


def replay(ctx, case):
    return replay_eval(ctx, "C01", case)


MANIFEST = dict(
    text="Proof (PARTIAL): for every n and every table of angles the level-by-level walk of top-down preparation maps |0..0> to the amplitude tree of the angles (C01_topdown_amplitudes), and the angle tree computed from any state tree (zero sub-trees included) reproduces magnitudes and phases relative to the root (C01_amp_tree); composed at list level with C13's multiplexer theorems: the GATE LIST of the executable model - the one compared with TopDownInitialize on every run - prepares the amplitude tree of its tables for every n and every rational table, all four any(angles_y)/any(angles_z) branches, the shared omitted CNOT, the reversed RZ multiplexer and the qubit placement included (C01_topdown_model), and when the tables are the angle tree of a state tree (mag, arg) it prepares mag_k e^{i(arg_k - arg_root)} (C01_topdown_prepares_state). Tie: the angle tree computed by the implementation is logged, its relations to the input (the premises of C01_topdown_prepares_state) are checked, and the flattened gate list of TopDownInitialize is compared inside Coq with the Gallina model TopDownModel.topdown_q run on that tree (n<=6/9, 10 data families). The Schmidt-based, UCG/UCGE, isometry-based and bounded-approximation initializers are covered by the algebraic theorems of C02/C03/C07/C09/C12 plus monitors and by direct evaluation of the state vector for every class and option.",
    note='Modelled, not verified: numpy/cmath polar form (the premises of C01_topdown_prepares_state are checked numerically on the logged trees), Qiskit circuit container and global phase, leaf rotations in (0, 1e-8] that the source skips (counted per run), all non-top-down initializers (algebraic theorems of other properties + evaluation).',
    technique='Coq proof (explicit-state invariant over levels; asin/sqrt identities) + gate-list correspondence on logged angle trees (vm_compute) + contract monitors + state-vector evaluation',
    design_ref='DESIGN.md section 4, C01')
