"""C18 - FnPointsInitialize (Ventura-Martinez function-points preparation).

Direct evaluation: Statevector(gate.definition) on the 2n+1 qubits of the definition (x = qubits 0..n-1, work
registers g = n..2n-2 and c = 2n-1, 2n) against the closed form: amplitude -(1/sqrt(m)) exp(2 pi i s / N') on the
index int(key, 2) of every listed input (keys are read most-significant bit first, as in the source), zero on
every other basis state of the whole circuit (hence work qubits back to |0>).  N' = max(requested, max(s) - 1), or
max(s) - 1 when nothing is requested.  Cases with N' < 1 are outside the property (division by zero) and are not
generated."""
import itertools
import warnings
import numpy as np
from qiskit.quantum_info import Statevector

warnings.filterwarnings("ignore")

TOL_AMP = 1e-6


def n_prime(outputs, requested):
    default = max(outputs) - 1
    return default if requested is None else max(requested, default)


def reference(n, keys, outputs, requested):
    m = len(keys)
    npr = n_prime(outputs, requested)
    ref = np.zeros(2 ** (2 * n + 1), dtype=complex)
    for key, s in zip(keys, outputs):
        ref[int(key, 2)] = -(1.0 / np.sqrt(m)) * np.exp(2j * np.pi * s / npr)
    return ref


def eval_case(ctx, n, keys, outputs, requested, opt, fam):
    """True iff C18 holds.  opt: 'given' -> {'n_output_values': requested}; 'none' -> opt_params=None;
    'empty' -> opt_params={}; 'explicit_none' -> {'n_output_values': None}"""
    from qclib.state_preparation.fnpoints import FnPointsInitialize
    keys = [str(k) for k in keys]
    outputs = [int(s) for s in outputs]
    case = {"class": "FnPointsInitialize", "n": n, "m": len(keys), "family": fam, "keys": keys, "outputs": outputs,
            "requested": requested, "opt": opt, "n_prime": n_prime(outputs, requested)}
    if case["n_prime"] < 1:
        raise ValueError("generator produced a case outside the property (N' < 1)")
    params = dict(zip(keys, outputs))
    opt_params = {"given": {"n_output_values": requested}, "none": None, "empty": {},
                  "explicit_none": {"n_output_values": None}}[opt]
    try:
        gate = FnPointsInitialize(params, opt_params=opt_params)
        definition = gate.definition
        width = definition.num_qubits
        sv = np.asarray(Statevector(definition).data)
    except Exception as exc:
        ctx.violation(f"FnPointsInitialize raised {type(exc).__name__}: {str(exc)[:120]}", case)
        return False
    if width != 2 * n + 1:
        ctx.violation(f"FnPointsInitialize definition has {width} qubits, expected 2n+1 = {2 * n + 1}", case)
        return False
    if not np.all(np.isfinite(sv)):
        ctx.violation("FnPointsInitialize: state vector contains NaN/inf", case)
        return False
    ref = reference(n, keys, outputs, requested)
    diff = np.abs(sv - ref)
    err = float(diff.max())
    if err >= TOL_AMP:
        worst = int(diff.argmax())
        where = "input register" if worst < 2 ** n else "work qubits not back in |0>"
        ctx.violation(f"FnPointsInitialize: state differs from the closed form by {err:.3g} at index {worst} ({where})",
                      dict(case, err=err, index=worst))
        return False
    return True


# ----------------------------------------------------------------------------------------------- generators
def gray(n):
    return [i ^ (i >> 1) for i in range(2 ** n)]


def pick_inputs(rng, n, m, order):
    N = 2 ** n
    if order == "gray":
        g = gray(n)
        start = int(rng.integers(N))
        vals = [g[(start + i) % N] for i in range(m)]
    else:
        vals = [int(x) for x in rng.choice(N, size=m, replace=False)]
        if order == "asc":
            vals.sort()
        elif order == "desc":
            vals.sort(reverse=True)
        elif order == "weight":
            vals.sort(key=lambda x: (bin(x).count("1"), x))
        elif order == "msb_block":      # all inputs share the upper bits (dense low block at a random offset)
            b = min(n, max(1, int(np.ceil(np.log2(m))) if m > 1 else 1))
            base = (int(rng.integers(N)) >> b) << b
            vals = [base | int(x) for x in rng.choice(2 ** b, size=m, replace=False)]
    return [f"{v:0{n}b}" for v in vals]


ORDERS = ["asc", "desc", "random", "gray", "weight", "msb_block"]
OUT_FAMS = ["zeros", "binary", "uniform_N", "all_max", "ramp", "default", "empty_opt", "explicit_none", "N_small", "N_one"]


def pick_outputs(rng, m, fam):
    """returns (outputs, requested, opt)"""
    if fam == "zeros":
        return [0] * m, int(rng.choice([1, 2, 5])), "given"
    if fam == "binary":
        out = [int(x) for x in rng.integers(0, 2, m)]
        return out, 2, "given"
    if fam == "uniform_N":
        N = int(rng.choice([2, 3, 4, 5, 7, 8, 16, 100]))
        return [int(x) for x in rng.integers(0, N, m)], N, "given"
    if fam == "all_max":
        N = int(rng.choice([2, 3, 6, 9]))
        return [N - 1] * m, N, "given"
    if fam == "ramp":
        N = int(rng.choice([3, 4, 5, 8]))
        return [i % N for i in range(m)], N, "given"
    if fam in ("default", "empty_opt", "explicit_none"):
        top = int(rng.choice([2, 3, 4, 6, 11]))
        out = [int(x) for x in rng.integers(0, top + 1, m)]
        out[int(rng.integers(m))] = top
        return out, None, {"default": "none", "empty_opt": "empty", "explicit_none": "explicit_none"}[fam]
    if fam == "N_small":                # requested below max(s) - 1: N' = max(s) - 1
        top = int(rng.choice([4, 5, 9]))
        out = [int(x) for x in rng.integers(0, top + 1, m)]
        out[int(rng.integers(m))] = top
        return out, int(rng.integers(1, top - 1)), "given"
    if fam == "N_one":
        return [int(x) for x in rng.integers(0, 2, m)], 1, "given"
    raise ValueError(fam)


def run_one(ctx, n, keys, fam_in, fam_out):
    outputs, requested, opt = pick_outputs(ctx.rng, len(keys), fam_out)
    m = len(keys)
    ctx.count(f"{fam_in}:{fam_out}", key=(n, tuple(keys), tuple(outputs), requested, opt), nontrivial=True,
              sample={"n": n, "keys": keys, "outputs": outputs, "requested": requested, "opt": opt}
              if (n == 3 and 3 <= m <= 5) else None)
    eval_case(ctx, n, keys, outputs, requested, opt, f"{fam_in}:{fam_out}")



def _limit_blas_threads(n_threads=2):
    """OpenBLAS threading does not speed these small tensor contractions up but occupies every core; cap it (best
    effort, silently skipped when the bundled library or symbol is not found)."""
    try:
        import ctypes
        import glob
        import os
        libdir = os.path.join(os.path.dirname(os.path.dirname(np.__file__)), "numpy.libs")
        for path in glob.glob(os.path.join(libdir, "*openblas*")):
            lib = ctypes.CDLL(path)
            for name in ("scipy_openblas_set_num_threads64_", "openblas_set_num_threads64_",
                         "scipy_openblas_set_num_threads", "openblas_set_num_threads"):
                if hasattr(lib, name):
                    getattr(lib, name)(int(n_threads))
                    break
    except Exception:
        pass


def evaluate(ctx, deep):
    _limit_blas_threads()
    rng = ctx.rng
    nmax = 6 if deep else 5
    # exhaustive: every ordered selection of inputs for n = 2 (64 of them), and of up to 2 (3 deep) inputs for n = 3
    for n, mmax in ((2, 4), (3, 3 if deep else 2)):
        for m in range(1, mmax + 1):
            for sel in itertools.permutations(range(2 ** n), m):
                keys = [f"{v:0{n}b}" for v in sel]
                fam_out = OUT_FAMS[int(rng.integers(len(OUT_FAMS)))]
                run_one(ctx, n, keys, "all_orders", fam_out)
    for n in range(2, nmax + 1):
        N = 2 ** n
        ms = sorted(set([1, 2, 3, N // 2, N - 1, N] + [int(x) for x in rng.integers(1, N + 1, 4 if deep else 2)]))
        ms = [m for m in ms if 1 <= m <= N]
        reps = {2: 3, 3: 3, 4: 3, 5: 2, 6: 1}[n] if deep else {2: 2, 3: 2, 4: 2, 5: 1}[n]
        for m in ms:
            for order in ORDERS:
                for fam_out in OUT_FAMS:
                    if n >= 6 and m > 16 and rng.random() < 0.5:
                        continue            # thin out the largest cases
                    for _ in range(reps):
                        keys = pick_inputs(rng, n, m, order)
                        run_one(ctx, n, keys, order, fam_out)
    if deep:        # one wider size (15 qubits), thinned
        n = 7
        for m in (1, 2, 5, 17, 64, 127, 128):
            for order in ("random", "gray", "desc"):
                for fam_out in [OUT_FAMS[i] for i in rng.choice(len(OUT_FAMS), size=2, replace=False)]:
                    keys = pick_inputs(rng, n, m, order)
                    run_one(ctx, n, keys, order, fam_out)


def replay(ctx, case):
    return eval_case(ctx, case["n"], case["keys"], case["outputs"], case["requested"], case["opt"],
                     case.get("family", "replay"))
