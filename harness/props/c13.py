"""C13 - uniformly controlled rotations (qclib.gates.ucr.ucr)."""
import re
from fractions import Fraction
import numpy as np
from qiskit.circuit.library import RZGate, RYGate, CXGate, CZGate
from qiskit.quantum_info import Operator

from harness.flatten import flatten, coq_q, coq_list, coq_bool
from harness import coqtool

PROPS_FILE = "P_C13"
COQ_TARGETS = ["CaseLib"]
RULE = ("correspondence: flatten(qclib.gates.ucr.ucr(r, angles, e, last)) compared gate by gate (exact rational angles) "
        "with the Coq model UcrModel.run_q evaluated by vm_compute, for dyadic angle lists (families: random, zeros, "
        "constant (all leaves but one skipped), sub-threshold, huge); direct evaluation: Operator of the circuit vs the "
        "block-diagonal reference for float angle lists. distinct = distinct (r,e,last,k,angles); non-trivial = k >= 1")
ASSUMPTIONS = ["Qiskit's RYGate/RZGate/CXGate/CZGate have their textbook matrices (validated numerically in this run)",
               "theorems are over the reals; binary64 rounding in the implementation is covered by the 1e-6 direct evaluation only"]
TRUSTED = ["harness/flatten.py (stops at ry, rz, cx, cz)", "generated cases.v compared inside Coq by CaseLib.pgate_eqb (vm_compute)"]

ROT = {"ry": RYGate, "rz": RZGate}
ENT = {"cx": CXGate, "cz": CZGate}
COMBOS = [("ry", "cx"), ("ry", "cz"), ("rz", "cx")]


def ucr_impl(r, e, angles, last):
    from qclib.gates.ucr import ucr
    return ucr(ROT[r], list(angles), ENT[e], last)


def dyadic_family(rng, k, fam):
    n = 2 ** k
    if fam == "random":
        return [Fraction(int(rng.integers(-200, 200)), 32) for _ in range(n)]
    if fam == "zeros":
        return [Fraction(int(rng.integers(-200, 200)), 32) if rng.random() < 0.5 else Fraction(0) for _ in range(n)]
    if fam == "constant":
        c = Fraction(int(rng.integers(1, 100)), 16)
        return [c] * n
    if fam == "allzero":
        return [Fraction(0)] * n
    if fam == "subthreshold":   # leaves around the 1e-8 cut: 2^-30 ~ 9.3e-10 (skipped), 2^-20 ~ 9.5e-7 (kept)
        return [Fraction(int(rng.integers(-3, 4)), 2 ** 30) + (Fraction(1, 2 ** 20) if rng.random() < 0.3 else 0)
                for _ in range(n)]
    if fam == "huge":
        return [Fraction(int(rng.integers(-4000, 4000)), 8) for _ in range(n)]
    if fam in ("int_list", "np_int_array"):      # integer-typed angle lists are valid input
        return [Fraction(int(rng.integers(-7, 8))) for _ in range(n)]
    raise ValueError(fam)


FAMS = ["random", "zeros", "constant", "allzero", "subthreshold", "huge", "int_list", "np_int_array"]


def as_input(ang, fam):
    """the object handed to qclib: floats, Python ints or an integer numpy array"""
    if fam == "int_list":
        return [int(a) for a in ang]
    if fam == "np_int_array":
        return np.array([int(a) for a in ang])
    return [float(a) for a in ang]


def flat_to_coq(fl):
    items = []
    for name, qs, op in fl:
        if name in ("ry", "rz"):
            items.append(f"PRot {'RotY' if name == 'ry' else 'RotZ'} {coq_q(Fraction(float(op.params[0])))} {qs[0]}")
        elif name in ("cx", "cz"):
            items.append(f"PEnt {'EntCX' if name == 'cx' else 'EntCZ'} {qs[0]} {qs[1]}")
        else:
            items.append(f"PEnt EntCX 999 999 (* unexpected {name} *)")
    return coq_list(items)


def correspondence(ctx):
    kmax = 6 if ctx.quick else 9
    reps = 1 if ctx.quick else 3
    cases = []
    for k in range(0, kmax + 1):
        for (r, e) in COMBOS + [("rz", "cz")]:
            for last in (True, False):
                for fam in FAMS:
                    for _ in range(reps):
                        ang = dyadic_family(ctx.rng, k, fam)
                        cases.append((r, e, last, k, ang, fam))
    lines = []
    for (r, e, last, k, ang, fam) in cases:
        circ = ucr_impl(r, e, as_input(ang, fam), last)
        fl, _ = flatten(circ)
        ctx.max_struct_qubits = max(ctx.max_struct_qubits, circ.num_qubits)
        ctx.count("corr:" + fam, key=("corr", r, e, last, k, tuple(ang)), nontrivial=k >= 1,
                  sample={"r": r, "e": e, "last": last, "k": k, "angles": [str(a) for a in ang[:8]], "gates": len(fl)} if k == 2 else None)
        lines.append(f"(list_eqb pgate_eqb (run_q {'RotY' if r=='ry' else 'RotZ'} {'EntCX' if e=='cx' else 'EntCZ'} {k} "
                     f"{coq_list([coq_q(a) for a in ang])} {coq_bool(last)}) {flat_to_coq(fl)})")
    # shard
    shard = 60
    items = []
    for s in range(0, len(lines), shard):
        src = ("From Coq Require Import List QArith ZArith Bool.\nFrom QV Require Import Sem UcrModel CaseLib.\n"
               "Import ListNotations.\nOpen Scope Q_scope.\n"
               "Definition results : list bool := [\n" + ";\n".join(lines[s:s + shard]) + "].\n"
               "Eval vm_compute in (failing results).\n")
        items.append((f"c13_cases_{s // shard}", src))
    res = coqtool.coq_eval_many(ctx, items)
    for si, (name, _) in enumerate(items):
        ok, out = res[name]
        m = re.search(r"=\s*\[([^\]]*)\]\s*:\s*list nat", out.replace("\n", " "))
        if not ok or not m:
            ctx.mismatch("C13 correspondence: case file did not evaluate", {"file": name, "output": out[-1500:]})
            continue
        idx = [int(x) for x in re.findall(r"\d+", m.group(1))]
        for i in idx:
            r, e, last, k, ang, fam = cases[si * shard + i]
            circ = ucr_impl(r, e, as_input(ang, fam), last)
            fl, _ = flatten(circ)
            ctx.mismatch("C13 correspondence: gate list of qclib.gates.ucr.ucr differs from the Coq model UcrModel.run_q",
                         {"r": r, "e": e, "last": last, "k": k, "angles": [str(a) for a in ang], "family": fam,
                          "implementation_gates": [(n, list(q), [float(p) for p in op.params]) for n, q, op in fl][:40]})


def ry(t):
    return np.array([[np.cos(t / 2), -np.sin(t / 2)], [np.sin(t / 2), np.cos(t / 2)]], dtype=complex)


def rz(t):
    return np.array([[np.exp(-1j * t / 2), 0], [0, np.exp(1j * t / 2)]], dtype=complex)


def reference(r, angles):
    n = len(angles)
    M = np.zeros((2 * n, 2 * n), dtype=complex)
    for j, a in enumerate(angles):
        M[2 * j:2 * j + 2, 2 * j:2 * j + 2] = ry(a) if r == "ry" else rz(a)
    return M


def eval_case(ctx, r, e, last, angles, fam):
    """property C13 on the implementation: returns True when it holds"""
    given = angles
    if fam == "int_list":
        given = [int(a) for a in angles]
    elif fam == "np_int_array":
        given = np.array([int(a) for a in angles])
    angles = [float(a) for a in angles]
    k = int(np.log2(len(angles)))
    circ = ucr_impl(r, e, given, last)
    if not last and k >= 1:
        circ = circ.copy()
        circ.append(ENT[e](), [k, 0])
    op = Operator(circ).data
    ref = reference(r, angles)
    err = float(np.abs(op - ref).max())
    ok = err < 1e-6
    if not ok:
        ctx.violation(f"ucr({r},{e},last_control={last}) on {len(angles)} angles: operator differs from the multiplexer by {err:.3g}",
                      {"r": r, "e": e, "last": last, "k": k, "angles": [a.hex() for a in angles], "family": fam, "err": err})
    return ok


def float_family(rng, k, fam):
    n = 2 ** k
    if fam == "uniform":
        return list(rng.uniform(-np.pi, np.pi, n))
    if fam == "zeros":
        return [float(x) if rng.random() < 0.5 else 0.0 for x in rng.uniform(-3, 3, n)]
    if fam == "big":
        return list(rng.uniform(-40, 40, n))
    if fam == "equal":
        return [float(rng.uniform(-3, 3))] * n
    if fam == "onehot":
        v = [0.0] * n
        v[int(rng.integers(n))] = float(rng.uniform(-6, 6))
        return v
    if fam in ("int_list", "np_int_array"):
        return [float(int(x)) for x in rng.integers(-7, 8, n)]
    if fam == "half_equal":      # the two halves coincide: the top control is irrelevant
        h = list(rng.uniform(-3, 3, max(n // 2, 1)))
        return (h + h)[:n] if n > 1 else h
    raise ValueError(fam)


EFAMS = ["uniform", "zeros", "big", "equal", "onehot", "int_list", "np_int_array", "half_equal"]


def evaluate(ctx, deep):
    kmax = 7 if deep else 5
    reps = 3 if deep else 1
    for k in range(0, kmax + 1):
        for (r, e) in COMBOS:
            for last in (True, False):
                for fam in EFAMS:
                    for _ in range(reps):
                        ang = float_family(ctx.rng, k, fam)
                        ctx.count("eval:" + fam, key=("eval", r, e, last, k, tuple(ang)), nontrivial=k >= 1,
                                  sample={"r": r, "e": e, "last": last, "k": k, "angles": ang[:8]} if k == 2 else None)
                        eval_case(ctx, r, e, last, ang, fam)


def primitives(ctx):
    """Qiskit primitives used as ideal gates"""
    t = 0.7316
    ok = (np.allclose(Operator(RYGate(t)).data, ry(t)) and np.allclose(Operator(RZGate(t)).data, rz(t))
          and np.allclose(Operator(CXGate()).data, np.array([[1, 0, 0, 0], [0, 0, 0, 1], [0, 0, 1, 0], [0, 1, 0, 0]]))
          and np.allclose(Operator(CZGate()).data, np.diag([1, 1, 1, -1])))
    ctx.monitor("qiskit_primitive_matrices", 4)
    if not ok:
        ctx.mismatch("Qiskit primitive matrices differ from the Coq IR's ideal matrices", {})


def run(ctx):
    primitives(ctx)
    correspondence(ctx)
    evaluate(ctx, deep=not ctx.quick)


def search(ctx):
    evaluate(ctx, deep=True)


def replay(ctx, case):
    angles = [float.fromhex(a) for a in case["angles"]]
    return eval_case(ctx, case["r"], case["e"], case["last"], angles, case.get("family", "replay"))

MANIFEST = dict(
    text=("Proof (FULL, all k, all real angle tables, (RY,CX),(RY,CZ),(RZ,CX), with and without the trailing entangler): "
          "the Gallina model of ucr denotes the block-diagonal multiplexer (C13_ucr_exact, C13_ucr_nolast); the executable "
          "instance with the source's 1e-8 leaf skip denotes the multiplexer of angles within 2^k*1e-8 of the requested ones "
          "(C13_ucr_model). The model is tied to /repo on every run by comparing, inside Coq, its gate list with the flattened "
          "output of qclib.gates.ucr.ucr for dyadic angle lists (exact equality of every angle), k up to 6 (quick) / 9 (thorough); "
          "the operator of the implementation circuit is also compared with the reference matrix for float angles (k<=5/7)."),
    note="Modelled, not verified: Qiskit's circuit container (append/reverse_ops/to_instruction) and its RY/RZ/CX/CZ matrices; numpy's kron/dot angle transform is tied only through the dyadic cases.",
    technique="Coq proof (induction on k, local 2x2-matrix idiom) + gate-list correspondence evaluated by vm_compute + numpy operator comparison",
    design_ref="DESIGN.md section 4, C13")
