"""C20 - entanglement measures (qclib.entanglement.meyer_wallach_entanglement, geometric_entanglement).

Direct evaluation against an independent numpy computation:
  * Meyer-Wallach: 2*(1 - (1/n) sum_k Tr rho_k^2) with rho_k from reshapes of the amplitude tensor (no use of
    qclib's _get_iota / cross product), range, zero on product states, invariance under random and structured
    one-qubit unitaries and under qubit relabelling.
  * geometric measure: range, zero on product states (1e-6), returned product state normalized, equal to the
    Kronecker product of the returned factors up to a global phase, fidelity with the input = 1 - measure, and the
    three return modes agree on the value.  tensorly's `tucker(init="random")` draws from numpy's global
    RandomState; the module seeds it per case with an integer drawn from ctx.rng (recorded in the case) so that
    every case is reproducible.
"""
import warnings
import numpy as np

warnings.filterwarnings("ignore")

TOL_MW = 1e-7      # "probabilities 1e-7"
TOL_GEO = 1e-6     # stated in the task for the iterative tensor method


# ----------------------------------------------------------------------------- encoding
def enc(v):
    v = np.asarray(v)
    if np.iscomplexobj(v):
        return {"dtype": "complex", "data": [[float(x.real).hex(), float(x.imag).hex()] for x in v.reshape(-1)],
                "shape": list(v.shape)}
    return {"dtype": "float", "data": [float(x).hex() for x in v.reshape(-1)], "shape": list(v.shape)}


def dec(d):
    if d["dtype"] == "complex":
        a = np.array([complex(float.fromhex(r), float.fromhex(i)) for r, i in d["data"]], dtype=complex)
    else:
        a = np.array([float.fromhex(r) for r in d["data"]], dtype=float)
    return a.reshape(d["shape"])


# ----------------------------------------------------------------------------- references
def mw_reference(v):
    v = np.asarray(v, dtype=complex)
    n = int(round(np.log2(v.shape[0])))
    t = v.reshape([2] * n)
    s = 0.0
    for k in range(n):                       # qubit k = bit k of the index = axis n-1-k
        m = np.moveaxis(t, n - 1 - k, 0).reshape(2, -1)
        rho = m @ m.conj().T
        s += float(np.real(np.trace(rho @ rho)))
    return 2.0 * (1.0 - s / n)


def apply_local(v, us):
    """us[k] acts on qubit k (bit k of the index)."""
    n = len(us)
    t = np.asarray(v, dtype=complex).reshape([2] * n)
    for k, u in enumerate(us):
        ax = n - 1 - k
        t = np.moveaxis(np.tensordot(u, t, axes=([1], [ax])), 0, ax)
    return t.reshape(-1)


def permute_qubits(v, perm):
    """new qubit perm[k] carries old qubit k."""
    n = len(perm)
    t = np.asarray(v).reshape([2] * n)
    # axis of old qubit k is n-1-k; it must move to axis n-1-perm[k]
    src = [n - 1 - k for k in range(n)]
    dst = [n - 1 - perm[k] for k in range(n)]
    return np.moveaxis(t, src, dst).reshape(-1)


# ----------------------------------------------------------------------------- generators
def unit(v):
    return v / np.linalg.norm(v)


def haar_u2(rng):
    m = rng.normal(size=(2, 2)) + 1j * rng.normal(size=(2, 2))
    q, r = np.linalg.qr(m)
    d = np.diag(r)
    return q * (d / np.abs(d))


H = np.array([[1, 1], [1, -1]], dtype=complex) / np.sqrt(2)
X = np.array([[0, 1], [1, 0]], dtype=complex)
Y = np.array([[0, -1j], [1j, 0]], dtype=complex)
S = np.diag([1, 1j]).astype(complex)
I2 = np.eye(2, dtype=complex)
FIXED_U = {"I": I2, "H": H, "X": X, "Y": Y, "S": S, "-I": -I2}


def local_family(rng, n, kind):
    if kind == "haar":
        return [haar_u2(rng) for _ in range(n)]
    if kind == "clifford":
        names = list(FIXED_U)
        return [FIXED_U[names[int(rng.integers(len(names)))]] for _ in range(n)]
    if kind == "single":                      # one qubit rotated only
        us = [I2] * n
        us[int(rng.integers(n))] = haar_u2(rng)
        return us
    if kind == "phases":
        return [np.diag(np.exp(1j * rng.uniform(0, 2 * np.pi, 2))) for _ in range(n)]
    raise ValueError(kind)


LOCAL_KINDS = ["haar", "clifford", "single", "phases"]


def product_factors(rng, n, kind):
    fs = []
    for _ in range(n):
        if kind == "product":
            q = rng.normal(size=2) + 1j * rng.normal(size=2)
        elif kind == "product_real":
            q = rng.normal(size=2).astype(complex)
        elif kind == "product_plus":
            q = [np.array([1, 1]), np.array([1, -1]), np.array([1, 1j]), np.array([1, 0]), np.array([0, 1])][
                int(rng.integers(5))].astype(complex)
        elif kind == "basis":
            q = np.zeros(2, dtype=complex)
            q[int(rng.integers(2))] = 1
        else:
            raise ValueError(kind)
        fs.append(unit(q))
    return fs


PRODUCT_KINDS = ["product", "product_real", "product_plus", "basis"]


def state_family(rng, n, kind):
    """returns (vector, is_product)"""
    N = 2 ** n
    if kind in PRODUCT_KINDS:
        fs = product_factors(rng, n, kind)
        v = np.array([1.0 + 0j])
        for f in fs:
            v = np.kron(v, f)
        if kind == "basis":
            v = v * np.exp(1j * rng.uniform(0, 2 * np.pi))
        if kind == "product_real":
            v = v.real.astype(float)
        return v, True
    if kind == "complex":
        return unit(rng.normal(size=N) + 1j * rng.normal(size=N)), False
    if kind == "real":
        return unit(rng.normal(size=N)), False
    if kind == "negative":
        return -unit(np.abs(rng.normal(size=N)) + 0.05), False
    if kind == "sparse":
        v = rng.normal(size=N) + 1j * rng.normal(size=N)
        v[rng.random(N) < 0.5] = 0
        if np.count_nonzero(v) < 2:
            v[0] = 1
            v[N - 1] = -1
        return unit(v), False
    if kind == "ghz":
        v = np.zeros(N, dtype=complex)
        v[0] = 1
        v[N - 1] = np.exp(1j * rng.uniform(0, 2 * np.pi))
        return unit(v), False
    if kind == "w":
        v = np.zeros(N, dtype=complex)
        for k in range(n):
            v[1 << k] = 1
        return unit(v), False
    if kind == "dicke":
        w = int(rng.integers(1, n)) if n > 1 else 1
        v = np.array([1.0 if bin(i).count("1") == w else 0.0 for i in range(N)], dtype=complex)
        return unit(v), False
    if kind == "bisep":                        # entangled block (x) product rest, qubits shuffled
        a = int(rng.integers(2, n + 1)) if n >= 2 else 1
        blk = unit(rng.normal(size=2 ** a) + 1j * rng.normal(size=2 ** a))
        v = blk
        for f in product_factors(rng, n - a, "product"):
            v = np.kron(v, f)
        perm = [int(x) for x in rng.permutation(n)]
        return permute_qubits(v, perm), False
    if kind == "graph":                        # graph state on a random graph: H^n then CZ on edges
        v = np.ones(N, dtype=complex) / np.sqrt(N)
        idx = np.arange(N)
        for a in range(n):
            for b in range(a + 1, n):
                if rng.random() < 0.5:
                    v = np.where(((idx >> a) & 1) & ((idx >> b) & 1), -v, v)
        return v, False
    if kind == "near_product":                 # product state plus a small entangling perturbation
        p, _ = state_family(rng, n, "product")
        e = rng.normal(size=N) + 1j * rng.normal(size=N)
        return unit(p + 1e-3 * unit(e)), False
    raise ValueError(kind)


ENT_KINDS = ["complex", "real", "negative", "sparse", "ghz", "w", "dicke", "bisep", "graph", "near_product"]


# ----------------------------------------------------------------------------- Meyer-Wallach
def mw_impl(v):
    from qclib.entanglement import meyer_wallach_entanglement
    return float(meyer_wallach_entanglement(np.array(v)))


def eval_mw(ctx, v, is_product, fam, n, us=None, perm=None):
    """All Meyer-Wallach clauses on one state; True iff they hold."""
    ok = True
    base = {"function": "meyer_wallach_entanglement", "check": "mw", "n": n, "family": fam, "vector": enc(v),
            "is_product": bool(is_product)}
    if us is not None:
        base["locals"] = [enc(u) for u in us]
    if perm is not None:
        base["perm"] = [int(p) for p in perm]

    def fail(what, **kw):
        nonlocal ok
        ok = False
        c = dict(base)
        c.update(kw)
        ctx.violation(what, c)

    try:
        got = mw_impl(v)
    except Exception as ex:  # noqa: BLE001
        fail(f"meyer_wallach_entanglement raised {type(ex).__name__} on a unit vector of {n} qubits: {ex}")
        return False
    ref = mw_reference(v)
    if not np.isfinite(got) or abs(got - ref) > TOL_MW:
        fail(f"meyer_wallach_entanglement = {got!r} differs from 2(1-(1/n) sum Tr rho_k^2) = {ref!r} (n={n}, {fam})",
             got=got, ref=ref)
    if not (-TOL_MW <= got <= 1 + TOL_MW):
        fail(f"meyer_wallach_entanglement = {got!r} outside [0,1] (n={n}, {fam})", got=got)
    if is_product and abs(got) > TOL_MW:
        fail(f"meyer_wallach_entanglement = {got!r} on a product state (n={n}, {fam})", got=got)
    if us is not None:
        try:
            got_u = mw_impl(apply_local(v, us))
            if abs(got_u - got) > TOL_MW:
                fail(f"meyer_wallach_entanglement not invariant under one-qubit unitaries: {got!r} vs {got_u!r} (n={n}, {fam})",
                     got=got, got_transformed=got_u)
        except Exception as ex:  # noqa: BLE001
            fail(f"meyer_wallach_entanglement raised {type(ex).__name__} after local unitaries: {ex}")
    if perm is not None:
        try:
            got_p = mw_impl(permute_qubits(v, perm))
            if abs(got_p - got) > TOL_MW:
                fail(f"meyer_wallach_entanglement not invariant under qubit relabelling {list(perm)}: {got!r} vs {got_p!r} (n={n}, {fam})",
                     got=got, got_transformed=got_p)
        except Exception as ex:  # noqa: BLE001
            fail(f"meyer_wallach_entanglement raised {type(ex).__name__} after qubit relabelling: {ex}")
    return ok


# ----------------------------------------------------------------------------- geometric measure
def geo_impl(v, seed, mode, as_list):
    from qclib.entanglement import geometric_entanglement
    np.random.seed(seed)         # tensorly's random initialisation reads numpy's global RandomState
    arg = [complex(x) for x in v] if as_list else np.array(v)
    if mode == 0:
        return geometric_entanglement(arg)
    if mode == 1:
        return geometric_entanglement(arg, return_product_state=True)
    return geometric_entanglement(arg, return_product_state=True, product_state_with_factors=True)


def eval_geo(ctx, v, is_product, fam, n, seed, as_list):
    ok = True
    base = {"function": "geometric_entanglement", "check": "geo", "n": n, "family": fam, "vector": enc(v),
            "is_product": bool(is_product), "np_seed": int(seed), "as_list": bool(as_list)}

    def fail(what, **kw):
        nonlocal ok
        ok = False
        c = dict(base)
        c.update(kw)
        ctx.violation(what, c)

    try:
        m0 = geo_impl(v, seed, 0, as_list)
        r1 = geo_impl(v, seed, 1, as_list)
        r2 = geo_impl(v, seed, 2, as_list)
    except Exception as ex:  # noqa: BLE001
        fail(f"geometric_entanglement raised {type(ex).__name__} on a unit vector of {n} qubits ({fam}): {ex}")
        return False
    if not (isinstance(r1, tuple) and len(r1) == 2 and isinstance(r2, tuple) and len(r2) == 3):
        fail(f"geometric_entanglement: unexpected return structure for return_product_state options (n={n})")
        return False
    m0 = float(np.real(m0))
    m1, ps1 = float(np.real(r1[0])), np.asarray(r1[1]).reshape(-1)
    m2, ps2, factors = float(np.real(r2[0])), np.asarray(r2[1]).reshape(-1), [np.asarray(f).reshape(-1) for f in r2[2]]
    # same restarts (same seed): the three modes must report the same value
    if max(abs(m0 - m1), abs(m0 - m2)) > TOL_GEO:
        fail(f"geometric_entanglement: return modes disagree on the measure ({m0!r}, {m1!r}, {m2!r}) with the same random seed (n={n}, {fam})")
    for tag, m in (("plain", m0), ("with product state", m1), ("with factors", m2)):
        if not np.isfinite(m) or not (-TOL_GEO <= m <= 1 + TOL_GEO):
            fail(f"geometric_entanglement ({tag}) = {m!r} outside [0,1] (n={n}, {fam})", got=m)
        if is_product and abs(m) > TOL_GEO:
            fail(f"geometric_entanglement ({tag}) = {m!r} on a product state (n={n}, {fam})", got=m)
    vv = np.asarray(v, dtype=complex)
    for tag, m, ps in (("with product state", m1, ps1), ("with factors", m2, ps2)):
        if ps.shape[0] != vv.shape[0]:
            fail(f"geometric_entanglement ({tag}): product state has length {ps.shape[0]}, expected {vv.shape[0]}")
            continue
        nrm = float(np.linalg.norm(ps))
        if abs(nrm - 1) > TOL_GEO:
            fail(f"geometric_entanglement ({tag}): returned product state has norm {nrm!r} (n={n}, {fam})", norm=nrm)
        fid = float(abs(np.vdot(ps, vv)) ** 2)
        if abs(fid - (1 - m)) > TOL_GEO:
            fail(f"geometric_entanglement ({tag}): fidelity of the returned product state {fid!r} != 1 - measure = {1 - m!r} (n={n}, {fam})",
                 fidelity=fid, measure=m)
    if len(factors) != n or any(f.shape[0] != 2 for f in factors):
        fail(f"geometric_entanglement: expected {n} one-qubit factors, got shapes {[list(f.shape) for f in factors]}")
    else:
        kr = np.array([1.0 + 0j])
        for f in factors:
            kr = np.kron(kr, f)
        ov = np.vdot(kr, ps2)
        phase = ov / abs(ov) if abs(ov) > 1e-12 else 1.0
        err = float(np.abs(ps2 - phase * kr).max())
        if err > TOL_GEO:
            fail(f"geometric_entanglement: returned product state differs from the Kronecker product of the returned factors by {err:.3g} up to a global phase (n={n}, {fam})",
                 err=err)
    return ok


# ----------------------------------------------------------------------------- driver
def evaluate(ctx, deep):
    rng = ctx.rng
    nmax_mw = 8 if deep else 6
    nmax_geo = 8 if deep else 6
    reps = 12 if deep else 4
    # Meyer-Wallach
    for n in range(2, nmax_mw + 1):
        r = reps if n <= 6 else 2
        for fam in PRODUCT_KINDS + ENT_KINDS:
            for lk in LOCAL_KINDS:
                for _ in range(r):
                    v, isp = state_family(rng, n, fam)
                    us = local_family(rng, n, lk)
                    perm = [int(x) for x in rng.permutation(n)]
                    if perm == list(range(n)):
                        perm = perm[1:] + perm[:1]
                    ctx.count(f"mw:{fam}", key=("mw", n, fam, lk, v.tobytes()), nontrivial=True,
                              sample={"n": n, "vector_head": [complex(x) for x in v[:4]], "perm": perm} if n == 3 and lk == "haar" else None)
                    eval_mw(ctx, v, isp, fam, n, us, perm)
    # every transposition / cyclic shift on a fixed asymmetric state, small n (all relabellings for n <= 4)
    import itertools
    for n in range(2, (5 if deep else 4) + 1):
        v, _ = state_family(rng, n, "complex")
        for perm in itertools.permutations(range(n)):
            ctx.count("mw:allperms", key=("mwperm", n, perm, v.tobytes()), nontrivial=True)
            eval_mw(ctx, v, False, "allperms", n, None, list(perm))
    # geometric measure
    for n in range(2, nmax_geo + 1):
        r = reps if n <= 6 else 2
        for fam in PRODUCT_KINDS + ENT_KINDS:
            for as_list in (True, False):
                for _ in range(r):
                    v, isp = state_family(rng, n, fam)
                    seed = int(rng.integers(0, 2 ** 31 - 1))
                    ctx.count(f"geo:{fam}", key=("geo", n, fam, as_list, v.tobytes()), nontrivial=True,
                              sample={"n": n, "vector_head": [complex(x) for x in v[:4]], "np_seed": seed} if n == 3 and as_list else None)
                    eval_geo(ctx, v, isp, fam, n, seed, as_list)


def replay(ctx, case):
    v = dec(case["vector"])
    n = int(case["n"])
    if case.get("check") == "geo":
        return eval_geo(ctx, v, case["is_product"], case.get("family", "replay"), n, int(case["np_seed"]), case.get("as_list", True))
    us = [dec(u) for u in case["locals"]] if "locals" in case else None
    perm = case.get("perm")
    return eval_mw(ctx, v, case["is_product"], case.get("family", "replay"), n, us, perm)
