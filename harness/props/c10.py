"""C10 - CNOT-cost estimates equal synthesized counts."""
import types
import numpy as np
from harness.coqcases import run_bool_cases, zlit

PROPS_FILE = "P_C10"
GEN_FILES = ["Gen_unitary_counts", "Gen_isometry_counts"]
COQ_TARGETS = ["CaseLib", "Gen_isometry_counts"]
RULE = ("translation validation: every translated estimate function (unitary._cnot_count_estimate, _cnot_count_iso, "
        "_cnot_count_iso_qsd, isometry._a/_b/_k_s/_cnot_count_estimate_ccd) is executed inside Coq (vm_compute) on a grid and "
        "compared with CPython's value; direct evaluation (harness/props/c10_eval.py): estimate vs cx count of the transpiled "
        "circuit for inputs in general position. distinct = distinct argument tuples; non-trivial = n >= 3")
ASSUMPTIONS = ["the skeleton Counts.cx_build mirrors the synthesis recursion of build_unitary/_qsd (tied by the transpiled counts in the direct evaluation, n <= 4/6)",
               "per-primitive CX costs (UCRZ: 2^(n-1), multiplexed RY with CZ: 2^(n-1)-1, two-qubit block: 3 or 2 under A.2) are measured, not proved"]
TRUSTED = ["harness/translate.py (fail-closed ast translator; output validated by execution against CPython)",
           "Qiskit transpile(basis_gates=['u','cx'], optimization_level=0) as the counting oracle"]

HEADER = ("From Coq Require Import List Bool ZArith.\nFrom QV Require Import GenLib CaseLib Gen_unitary_counts Gen_isometry_counts.\n"
          "Import ListNotations.\nOpen Scope Z_scope.\n")


def tv(ctx):
    from qclib import unitary as U, isometry as I
    dec = {"qsd": 0, "csd": 1}
    cases, lines = [], []
    nmax = 14 if ctx.quick else 22
    rec_max = 8 if ctx.quick else 10
    for n in range(1, nmax + 1):
        fake = types.SimpleNamespace(shape=(2 ** n, 2 ** n))
        for d in ("qsd", "csd"):
            for iso in range(0, min(n, 6)):
                if iso > 0 and n > rec_max:      # the source's recursion is exponential in n
                    continue
                for a2 in (True, False):
                    py = int(U._cnot_count_estimate(fake, d, iso, a2))
                    cases.append(("unitary._cnot_count_estimate", n, d, iso, a2, py))
                    lines.append(f"(Z.eqb (_cnot_count_estimate {n} {dec[d]} {iso} {'true' if a2 else 'false'}) {zlit(py)})")
    for n in range(1, rec_max + 1):
        for iso in range(0, min(n, 7)):
            for a2 in (True, False):
                py = int(U._cnot_count_iso(n, iso, a2))
                cases.append(("unitary._cnot_count_iso", n, iso, a2, py))
                lines.append(f"(Z.eqb (_cnot_count_iso 100 {n} {iso} {'true' if a2 else 'false'}) {zlit(py)})")
                if n >= 2:
                    py = int(U._cnot_count_iso_qsd(n, a2))
                    cases.append(("unitary._cnot_count_iso_qsd", n, a2, py))
                    lines.append(f"(Z.eqb (_cnot_count_iso_qsd 100 {n} {'true' if a2 else 'false'}) {zlit(py)})")
    lmax = 8 if ctx.quick else 10
    for n in range(1, lmax + 1):
        for m in range(0, n + 1):
            py = int(I._cnot_count_estimate_ccd(n, m))
            cases.append(("isometry._cnot_count_estimate_ccd", n, m, py))
            lines.append(f"(Z.eqb (_cnot_count_estimate_ccd {n} {m}) {zlit(py)})")
    for k in range(0, 40 if ctx.quick else 200):
        for i in range(0, 8):
            for f in ("_a", "_b", "_k_s"):
                py = int(getattr(I, f)(k, i))
                cases.append(("isometry." + f, k, i, py))
                lines.append(f"(Z.eqb ({f} {k} {i}) {zlit(py)})")
    for c in cases:
        ctx.count("tv:" + c[0], key=c[:-1], nontrivial=(c[1] >= 3), sample={"function": c[0], "args": list(c[1:-1]), "python": c[-1]}
                  if c[1] == 4 else None)

    def on_fail(c):
        ctx.mismatch(f"C10 translation validation: {c[0]}{tuple(c[1:-1])}: the translated definition evaluates to a different "
                     f"value than CPython ({c[-1]})", {"function": c[0], "args": list(c[1:-1]), "python": c[-1]})
    run_bool_cases(ctx, "c10_tv", HEADER, lines, cases, on_fail, shard=400)


def run(ctx):
    tv(ctx)
    if ctx.skip_eval:
        return
    try:
        from harness.props import c10_eval
    except ModuleNotFoundError:
        ctx.note("direct evaluation module not present")
        return
    c10_eval.evaluate(ctx, not ctx.quick)


def search(ctx):
    from harness.props import c10_eval
    c10_eval.evaluate(ctx, True)


def replay(ctx, case):
    from harness.props import c10_eval
    return c10_eval.replay(ctx, case)


MANIFEST = dict(
    text='Proof (FULL over Z for QSD): the estimate functions, regenerated from qclib/unitary.py on every run, equal the counts of the synthesis recursion for all n>=3: QSD with A.1/A.2 and without A.2 (C10_qsd_a2_estimate, C10_qsd_noa2_estimate, closed forms of the recurrence), the recursive isometry-mode count agrees at iso=0 (C10_iso0_consistent), CSD closed form. Tie: translator, validated by executing every translated function against CPython on a grid; the skeleton is tied to real circuits by comparing with transpiled cx counts (direct evaluation).',
    note='Modelled, not verified: per-primitive CX costs (measured, not proved); Qiskit transpile as counting oracle; CCD/Knill/low-rank estimates evaluated only.',
    technique='Coq proof (induction, lia/ring over Z) on translator-regenerated definitions + translation validation by execution + transpiled-count evaluation',
    design_ref='DESIGN.md section 4, C10')
