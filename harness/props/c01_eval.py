"""C01 - direct evaluation of the exact dense state-preparation classes of qclib.

For a unit vector v on n qubits and a configuration (class, opt_params) the circuit `<Class>(v, opt_params).definition`
is simulated from |0..0> with qiskit.quantum_info.Statevector and compared with v amplitude by amplitude (1e-6 absolute),
global phase included (only TopDownInitialize with global_phase=False is compared up to a phase).  Construction must not
raise on a valid vector.  Classes / options covered:

  TopDownInitialize      opt_params None, {'lib': 'qclib'|'qiskit'}, {'global_phase': True|False}            n >= 1
  LowRankInitialize      lr=0; partition = every non-empty proper subset for small n (sorted / shuffled / tuple),
                         iso_scheme in {ccd, knill}, unitary_scheme in {qsd, csd}, svd in {auto, regular}     n >= 1
  SVDInitialize                                                                                               n >= 2
  UCGInitialize, UCGEInitialize (opt_params None)                                                             n >= 1
  IsometryInitialize     scheme in {ccd, csd, knill}     (knill is defined from two qubits on)                 n >= 1 / 2
  BaaLowRankInitialize   max_fidelity_loss = 0, strategy in {greedy, brute_force, split, canonical},
                         use_low_rank in {False, True}, max_combination_size in {0, 1, 2}, iso/unitary schemes  n >= 1

When a case fails, the module diagnoses whether the failure disappears if Qiskit's `_apply_a2` (the A.2 optimisation of
the quantum Shannon decomposition, which qclib.unitary calls on its own block circuits) is replaced by the identity;
the result is recorded in case["cause"] so that the known finding about that Qiskit routine stays narrow.
"""
import itertools
import numpy as np

TOL = 1e-6


# ------------------------------------------------------------------------------------------------ input families

def _unit(v):
    v = np.asarray(v, dtype=complex)
    return v / np.linalg.norm(v)


def _cgauss(rng, m):
    return rng.normal(size=m) + 1j * rng.normal(size=m)


def _hadamard(n):
    h = np.array([[1.0, 1.0], [1.0, -1.0]]) / np.sqrt(2)
    m = np.array([[1.0]])
    for _ in range(n):
        m = np.kron(m, h)
    return m


def _embed(n, bits, a, b):
    """vector on n qubits = a on the amplitude-index bits `bits` (first listed = least significant) (x) b on the others"""
    bits = list(bits)
    others = [q for q in range(n) if q not in bits]
    idx = np.arange(2 ** n)
    ia = np.zeros_like(idx)
    ib = np.zeros_like(idx)
    for j, q in enumerate(bits):
        ia |= ((idx >> q) & 1) << j
    for j, q in enumerate(others):
        ib |= ((idx >> q) & 1) << j
    return np.asarray(a)[ia] * np.asarray(b)[ib]


def _product(rng, n):
    v = np.array([1.0 + 0j])
    for _ in range(n):
        c = int(rng.integers(7))
        q = [np.array([1, 0]), np.array([0, 1]), np.array([1, 1]), np.array([1, -1]), np.array([1, 1j]), None, None][c]
        if q is None:
            q = _cgauss(rng, 2)
        v = np.kron(v, _unit(q))
    return _unit(v)


def gen_state(rng, n, fam):
    N = 2 ** n
    if fam == "complex":
        return _unit(_cgauss(rng, N))
    if fam == "real":
        return _unit(rng.normal(size=N))
    if fam == "positive":
        return _unit(np.abs(rng.normal(size=N)) + 0.05)
    if fam == "negative":
        return _unit(-np.abs(rng.normal(size=N)) - 0.05)
    if fam == "imag":
        return _unit(1j * rng.normal(size=N))
    if fam == "near_real":          # real up to round-off (imaginary parts of relative size 1e-12 .. 1e-17)
        return _unit(rng.normal(size=N) + 1j * rng.normal(size=N) * 10.0 ** float(rng.integers(-17, -11)))
    if fam == "tiny_odd":           # odd-indexed amplitudes tiny but non-zero, with phases
        v = _cgauss(rng, N)
        v[1::2] *= 10.0 ** float(rng.integers(-12, -8))
        return _unit(v)
    if fam == "basis":
        v = np.zeros(N, complex)
        k = [0, N - 1, int(rng.integers(N)), int(rng.integers(N))][int(rng.integers(4))]
        v[k] = [1, -1, 1j, -1j, np.exp(1j * rng.uniform(0, 6))][int(rng.integers(5))]
        return v
    if fam == "sparse":
        v = _cgauss(rng, N)
        v[rng.random(N) < 0.6] = 0
        if not v.any():
            v[int(rng.integers(N))] = 1
        return _unit(v)
    if fam == "zero_subtree":
        # amplitudes vanish wherever one or two chosen index bits take a chosen value
        v = _cgauss(rng, N) if rng.random() < 0.5 else rng.normal(size=N).astype(complex)
        idx = np.arange(N)
        for _ in range(1 if n == 1 else int(rng.integers(1, 3))):
            b, val = int(rng.integers(n)), int(rng.integers(2))
            keep = v.copy()
            v[((idx >> b) & 1) == val] = 0
            if not v.any():
                v = keep
        return _unit(v)
    if fam == "product":
        return _product(rng, n)
    if fam == "blockprod":
        if n < 2:
            return _product(rng, n)
        k = int(rng.integers(1, n))
        bits = [int(x) for x in rng.permutation(n)[:k]]
        return _unit(_embed(n, bits, _unit(_cgauss(rng, 2 ** k)), _unit(_cgauss(rng, 2 ** (n - k)))))
    if fam == "uniform":
        return _unit(np.ones(N) * [1, -1, 1j, np.exp(0.7j)][int(rng.integers(4))])
    if fam == "hadamard":
        k = [N - 1, 1, int(rng.integers(N))][int(rng.integers(3))]
        return _unit(_hadamard(n)[:, k] * [1, -1][int(rng.integers(2))])
    if fam == "phase":
        if rng.random() < 0.5:
            return _unit(np.array([1, 1j, -1, -1j])[rng.integers(0, 4, N)])
        return _unit(np.exp(1j * rng.uniform(-np.pi, np.pi, N)))
    if fam == "ghz":
        v = np.zeros(N, complex)
        v[0] = 1
        v[-1] += [1, -1, 1j, np.exp(1j * rng.uniform(0, 6))][int(rng.integers(4))]
        return _unit(v)
    if fam == "w":
        v = np.zeros(N, complex)
        wts = _cgauss(rng, n) if rng.random() < 0.5 else np.ones(n)
        for q in range(n):
            v[1 << q] = wts[q]
        return _unit(v)
    if fam == "dicke":
        k = int(rng.integers(0, n + 1))
        v = np.array([1.0 if bin(i).count("1") == k else 0.0 for i in range(N)])
        return _unit(v)
    if fam == "lowrank":
        # Schmidt rank 1..3 across a random cut of the index bits (rank deficient), random or equal coefficients
        if n < 2:
            return _unit(_cgauss(rng, N))
        k = int(rng.integers(1, n))
        bits = [int(x) for x in rng.permutation(n)[:k]]
        r = int(rng.integers(1, 4))
        v = np.zeros(N, complex)
        eq = rng.random() < 0.4
        for _ in range(r):
            v = v + (1.0 if eq else rng.uniform(0.3, 1)) * _embed(n, bits, _unit(_cgauss(rng, 2 ** k)), _unit(_cgauss(rng, 2 ** (n - k))))
        return _unit(v)
    if fam == "bellpairs":
        # maximally entangled across the default cut (all Schmidt coefficients equal), optionally with signs
        if n < 2:
            return _unit(np.array([1, 1]))
        h = n // 2
        v = np.zeros(N, complex)
        sg = rng.random() < 0.5
        for a in range(2 ** h):
            v[a | (a << (n - h))] = (-1) ** (bin(a).count("1") if sg else 0)
        if n % 2:
            v = v + np.roll(v, 2 ** h) * 0.5
        return _unit(v)
    if fam == "dyadic":
        v = np.array([0, 0, 1, -1, 1j, -1j, 2, -2, 1 + 1j])[rng.integers(0, 9, N)].astype(complex)
        if not v.any():
            v[int(rng.integers(N))] = 1
        return _unit(v)
    if fam == "smallamp":
        # a few amplitudes of relative size 1e-4 (far above every cut-off of the library), rest random
        v = _cgauss(rng, N)
        m = rng.random(N) < 0.4
        if m.all():
            m[0] = False
        v[m] *= 1e-4
        return _unit(v)
    if fam == "schur":
        # Schur vectors of a unitary completion of 2^m columns of the Hadamard matrix: real, highly structured
        import scipy.linalg
        if n < 2:
            return _unit(_hadamard(1)[:, 1])
        m = int(rng.integers(0, n + 1))
        iso = _hadamard(n)[:, : 2 ** m].astype(complex)
        if m < n:
            null = np.conj(scipy.linalg.null_space(iso.T))
            u = np.concatenate([iso, null], axis=1)
        else:
            u = iso
        _, z = scipy.linalg.schur(u, output="complex")
        return _unit(z[:, int(rng.integers(N))])
    if fam == "near_product":
        # product state plus a perturbation of relative size 1e-8 or 1e-5: a valid vector, almost separable
        eps = 1e-8 if rng.random() < 0.6 else 1e-5
        return _unit(_product_generic(rng, n) + eps * _unit(_cgauss(rng, N)))
    raise ValueError(fam)


def _product_generic(rng, n):
    v = np.array([1.0 + 0j])
    for _ in range(n):
        v = np.kron(v, _unit(_cgauss(rng, 2)))
    return v


FAMS = ["complex", "real", "positive", "negative", "imag", "basis", "sparse", "zero_subtree", "product", "blockprod",
        "uniform", "hadamard", "phase", "ghz", "w", "dicke", "lowrank", "bellpairs", "dyadic", "smallamp", "schur",
        "near_product", "near_real", "tiny_odd"]


# ------------------------------------------------------------------------------------------------ configurations

def build(cls, opts, vec):
    import qclib.state_preparation as sp
    klass = getattr(sp, cls)
    if cls == "SVDInitialize":
        return klass(vec)
    return klass(vec, opt_params=opts)


def subsets(n, doc_only):
    out = []
    for size in range(1, n):
        if doc_only and size > n // 2 + (n % 2):
            continue
        out += [list(c) for c in itertools.combinations(range(n), size)]
    return out


def configs_for(rng, n, rich, csd_max=6):
    """list of (class, opts or None, tag).  `rich` = enumerate more option combinations (small n)."""
    cf = []
    cf.append(("TopDownInitialize", None, "default"))
    cf.append(("TopDownInitialize", {"lib": "qiskit"}, "lib=qiskit"))
    cf.append(("TopDownInitialize", {"global_phase": False}, "global_phase=False"))
    if rich:
        cf.append(("TopDownInitialize", {"global_phase": True, "lib": "qclib"}, "explicit"))
    # low rank
    cf.append(("LowRankInitialize", None, "default"))
    combos = [(i, u) for i in ("ccd", "knill") for u in ("qsd", "csd")]
    if n >= 2:
        for (i, u) in (combos if rich else [combos[int(rng.integers(4))]]):
            cf.append(("LowRankInitialize", {"iso_scheme": i, "unitary_scheme": u,
                                             "svd": "regular" if rng.random() < 0.5 else "auto"}, f"{i}/{u}"))
        parts = subsets(n, doc_only=False)
        if not (rich and n <= 4):
            pick = rng.permutation(len(parts))[: (4 if rich else 2)]
            parts = [parts[int(j)] for j in pick]
        for p in parts:
            p = list(p)
            tag = "partition"
            if len(p) > n // 2 + (n % 2):
                tag = "partition>half"
            if len(p) > 1 and rng.random() < 0.4:
                p = [p[int(j)] for j in rng.permutation(len(p))]
                if p != sorted(p):
                    tag += ",shuffled"
            i, u = combos[int(rng.integers(4))]
            o = {"partition": tuple(p) if rng.random() < 0.25 else p, "iso_scheme": i, "unitary_scheme": u}
            if rng.random() < 0.3:
                o["svd"] = "regular"
            if rng.random() < 0.3:
                o["lr"] = 0
            cf.append(("LowRankInitialize", o, tag))
        cf.append(("SVDInitialize", None, "default"))
    cf.append(("UCGInitialize", None, "default"))
    cf.append(("UCGEInitialize", None, "default"))
    cf.append(("IsometryInitialize", None, "default"))
    cf.append(("IsometryInitialize", {"scheme": "ccd"}, "ccd"))
    if n <= csd_max:
        cf.append(("IsometryInitialize", {"scheme": "csd"}, "csd"))
    if n >= 2:
        cf.append(("IsometryInitialize", {"scheme": "knill"}, "knill"))
    # bounded approximation with zero loss
    cf.append(("BaaLowRankInitialize", None, "default"))
    baa = [(s, lr, k) for s in ("greedy", "brute_force", "split", "canonical") for lr in (False, True) for k in (0, 1, 2)]
    sel = baa if (rich and n <= 4) else [baa[int(j)] for j in rng.permutation(len(baa))[: (6 if rich else 3)]]
    for (s, lr, k) in sel:
        i, u = combos[int(rng.integers(4))]
        o = {"max_fidelity_loss": 0.0, "strategy": s, "use_low_rank": lr, "max_combination_size": k,
             "iso_scheme": i, "unitary_scheme": u}
        if rng.random() < 0.3:
            del o["max_fidelity_loss"]
        cf.append(("BaaLowRankInitialize", o, f"{s},lr={int(lr)},k={k}"))
    return cf


# ------------------------------------------------------------------------------------------------ one case

def enc_vec(v):
    return [[float(np.real(x)).hex(), float(np.imag(x)).hex()] for x in np.asarray(v, dtype=complex)]


def dec_vec(e):
    return np.array([complex(float.fromhex(a), float.fromhex(b)) for a, b in e])


def _opts_json(opts):
    if opts is None:
        return None
    o = dict(opts)
    if "partition" in o:
        o["partition_is_tuple"] = isinstance(o["partition"], tuple)
        o["partition"] = [int(p) for p in o["partition"]]
    return o


def _opts_from_json(oj):
    if oj is None:
        return None
    o = dict(oj)
    if o.pop("partition_is_tuple", False):
        o["partition"] = tuple(o["partition"])
    return o


def _as_form(vec, form):
    """the same amplitudes in another Python representation: False/True (ndarray / list of complex) or one of
    'tuple', 'real_list', 'int_list', 'int_array', 'read_only', 'real_array'"""
    if form is True:
        return [complex(x) for x in vec]
    if not form:
        return np.array(vec)
    if form == "tuple":
        return tuple(complex(x) for x in vec)
    if form == "real_list":
        return [float(np.real(x)) for x in vec]
    if form == "real_array":
        return np.array([float(np.real(x)) for x in vec])
    if form == "int_list":
        return [int(round(float(np.real(x)))) for x in vec]
    if form == "int_array":
        return np.array([int(round(float(np.real(x)))) for x in vec])
    if form == "read_only":
        a = np.array(vec)
        a.setflags(write=False)
        return a
    raise ValueError(form)


def _run(cls, opts, vec, as_list):
    """returns (error string or None, max amplitude deviation, exception type name or None)"""
    from qiskit.quantum_info import Statevector
    n = int(np.log2(len(vec)))
    arg = _as_form(vec, as_list)
    o = None if opts is None else dict(opts)
    try:
        gate = build(cls, o, arg)
        if gate.num_qubits != n:
            return f"gate declares {gate.num_qubits} qubits for a vector on {n}", None, None
        circ = gate.definition
        if circ.num_qubits != n:
            return f"definition acts on {circ.num_qubits} qubits for a vector on {n}", None, None
        out = np.asarray(Statevector(circ).data)
    except Exception as exc:
        import traceback
        frames = [f.name for f in traceback.extract_tb(exc.__traceback__)]
        return f"raised {type(exc).__name__}: {str(exc)[:100]}", None, (type(exc).__name__, frames[-12:], str(exc)[:200])
    if opts is not None and opts.get("global_phase") is False:
        ov = np.vdot(vec, out)
        if abs(ov) > 1e-3:
            out = out * np.conj(ov / abs(ov))
    if not np.all(np.isfinite(out)):
        return "prepared state has non-finite amplitudes", float("inf"), None
    err = float(np.abs(out - vec).max())
    if err > TOL:
        return f"prepared state differs from the vector by {err:.3g}", err, None
    return None, err, None


def _fixed_apply_diagonal(self, bit_target, parent, ucg):
    """UCGEInitialize._apply_diagonal with the carried diagonal placed on the qubits it belongs to (control x of the
    reduced multiplexer is bit x - first of the parent index, first = label of the lowest remaining qubit); used ONLY to
    diagnose a failure, never to judge a case."""
    import qiskit
    from qiskit.quantum_info import Operator
    children = parent
    diagonal = np.conj(ucg._get_diagonal())[1::2] if bit_target == "1" else np.conj(ucg._get_diagonal())[::2]
    if ucg.dont_carry:
        size_required = len(ucg.dont_carry) + len(ucg.controls)
        first = self.num_qubits - size_required
        qc = qiskit.QuantumCircuit(size_required)
        qc.unitary(np.diag(diagonal), [x - first for x in ucg.controls])
        diagonal = np.diag(Operator(qc).to_matrix())
    return children * diagonal


def _diagnose(cls, opts, vec, as_list, exc):
    """narrow attribution of a failure (recorded in case["cause"]; known findings are keyed on it):
      qiskit_ucgate_not_unitary   ValueError 'Input matrix is not unitary' raised inside qiskit's UCGate._dec_ucg, or by
                                  UnitaryGate.adjoint when the one-qubit gates that routine produced are inverted (the
                                  gates handed to UCGate by qclib are unitary to 1e-16; UCGate alone fails the same way on
                                  [a, e^{i phi} a exp(i 1e-8 h)])
      qiskit_apply_a2             the case is exact when qiskit's _apply_a2 (called by qclib.unitary) is the identity
      ucge_diagonal_position      the case is exact when UCGEInitialize._apply_diagonal places the carried diagonal on
                                  the un-mirrored qubit positions
      other                       none of these"""
    if (exc is not None and exc[0] == "ValueError" and "not unitary" in exc[2]
            and ("_dec_ucg" in exc[1] or exc[1][-3:] == ["adjoint", "transpose", "__init__"])):
        return "qiskit_ucgate_not_unitary"
    try:
        import qclib.unitary as qu
        orig = qu._apply_a2
        try:
            qu._apply_a2 = lambda circuit: circuit
            msg, _, _ = _run(cls, opts, vec, as_list)
        finally:
            qu._apply_a2 = orig
        if msg is None:
            return "qiskit_apply_a2"
        if cls == "UCGEInitialize":
            from qclib.state_preparation.ucge import UCGEInitialize
            orig = UCGEInitialize._apply_diagonal
            try:
                UCGEInitialize._apply_diagonal = _fixed_apply_diagonal
                msg, _, _ = _run(cls, opts, vec, as_list)
            finally:
                UCGEInitialize._apply_diagonal = orig
            if msg is None:
                return "ucge_diagonal_position"
    except Exception:
        return "undiagnosed"
    return "other"


def eval_case(ctx, cls, opts, vec, family, as_list=False, tag=""):
    vec = np.asarray(vec, dtype=complex)
    n = int(np.log2(len(vec)))
    msg, err, exc = _run(cls, opts, vec, as_list)
    if msg is None:
        return True
    cause = _diagnose(cls, opts, vec, as_list, exc)
    oj = _opts_json(opts)
    case = {"class": cls, "opt_params": oj, "n": n, "family": family, "tag": tag,
            "as_list": as_list if isinstance(as_list, str) else bool(as_list),
            "cause": cause, "exception": None if exc is None else exc[0],
            "raised_in": None if exc is None else exc[1], "vector": enc_vec(vec)}
    for k in ("scheme", "iso_scheme", "unitary_scheme", "strategy", "use_low_rank", "lib", "global_phase", "svd"):
        case[k] = None if oj is None else oj.get(k)
    ctx.violation(f"{cls}(opt_params={oj}) on n={n} [{family}]: {msg}"
                  + f" [cause: {cause}]", case)
    return False


# ------------------------------------------------------------------------------------------------ driver

def evaluate(ctx, deep):
    rng = ctx.rng
    schur_sweep(ctx, deep)
    input_forms(ctx, deep)
    nmax = 8 if deep else 6
    for n in range(1, nmax + 1):
        if deep:
            reps = {1: 3, 2: 4, 3: 4, 4: 3, 5: 2, 6: 2, 7: 1, 8: 1}[n]
        else:
            reps = {1: 2, 2: 3, 3: 3, 4: 2, 5: 1, 6: 1}[n]
        for fam in FAMS:
            for rep in range(reps):
                vec = gen_state(rng, n, fam)
                rich = (n <= 4 and rep == 0) if not deep else (n <= 5 and rep == 0)
                as_list = bool(rng.random() < 0.15)
                for (cls, opts, tag) in configs_for(rng, n, rich, csd_max=6 if deep else 5):
                    if n >= 8 and cls == "IsometryInitialize" and opts and opts.get("scheme") == "knill" and rep > 0:
                        continue
                    short = cls.replace("Initialize", "")
                    sub = tag if cls in ("TopDownInitialize", "IsometryInitialize") else (
                        tag.split(",")[0] if cls == "BaaLowRankInitialize" else
                        ("partition" if tag.startswith("partition") else "schemes" if "/" in tag else tag))
                    ctx.monitor("data:" + fam)
                    ctx.monitor(f"n={n}")
                    ctx.count(f"{short}:{sub}",
                              key=(cls, repr(_opts_json(opts)), n, vec.tobytes()), nontrivial=n >= 2,
                              sample={"class": cls, "opt_params": _opts_json(opts), "n": n, "data": fam,
                                      "vector_head": [complex(x) for x in vec[:4]]} if n == 3 else None)
                    eval_case(ctx, cls, opts, vec, fam, as_list, tag)

    # mid-size registers (9 and 10 qubits: qubit labels beyond 7, register halves of 5 qubits), default configurations
    for n in ((9, 10) if deep else (9,)):
        vec = gen_state(rng, n, "complex" if "complex" in FAMS else FAMS[0])
        for cls in ("LowRankInitialize", "SVDInitialize", "UCGInitialize", "UCGEInitialize", "BaaLowRankInitialize", "TopDownInitialize",
                    "IsometryInitialize"):
            if n > 9 and cls in ("TopDownInitialize", "IsometryInitialize"):
                continue
            ctx.monitor(f"n={n}")
            ctx.count(f"{cls.replace('Initialize', '')}:mid_size", key=(cls, n, vec.tobytes()[:256]), nontrivial=True, sample=None)
            eval_case(ctx, cls, None, vec, "mid_size", False, "default")


def input_forms(ctx, deep):
    """the same vector handed over in other Python representations (tuple, real list / array, integer list / array for
    basis states, read-only array) must give the same exact preparation"""
    rng = ctx.rng
    classes = ["TopDownInitialize", "LowRankInitialize", "SVDInitialize", "UCGInitialize", "UCGEInitialize",
               "IsometryInitialize", "BaaLowRankInitialize"]
    for n in ((1, 2, 3, 4) if deep else (2, 3)):
        N = 2 ** n
        basis = np.zeros(N, complex)
        basis[int(rng.integers(N))] = 1.0
        realv = _unit(rng.normal(size=N))
        signs = _unit(rng.choice([-1.0, 1.0], size=N))
        cplx = _unit(rng.normal(size=N) + 1j * rng.normal(size=N))
        plan = [("int_list", basis), ("int_array", basis), ("real_list", realv), ("real_array", signs), ("tuple", cplx),
                ("read_only", cplx), ("read_only", basis)]
        for cls in classes:
            if n < 2 and cls == "SVDInitialize":
                continue                    # defined from two qubits on (as in the main sweep)
            for form, vec in plan:
                ctx.monitor("form:" + form)
                ctx.count(f"{cls.replace('Initialize', '')}:input_form", key=(cls, form, n, vec.tobytes()), nontrivial=n >= 2,
                          sample={"class": cls, "form": form, "n": n} if n == 2 and cls == "TopDownInitialize" else None)
                eval_case(ctx, cls, None, vec, "input_form:" + form, form, "default")


def schur_sweep(ctx, deep):
    """every Schur vector of unitary completions of Hadamard columns, through the configurations that reach
    qclib.unitary's QSD path (where the known Qiskit _apply_a2 finding lives) and one that does not"""
    import scipy.linalg
    plan = {3: range(0, 4), 4: range(0, 5), 5: range(0, 6), 6: (2, 4, 5)} if deep else {4: range(0, 5), 5: (2, 4)}
    cfgs = [("LowRankInitialize", None, "default"), ("SVDInitialize", None, "default"),
            ("IsometryInitialize", {"scheme": "csd"}, "csd"), ("BaaLowRankInitialize", None, "default"),
            ("LowRankInitialize", {"unitary_scheme": "csd", "iso_scheme": "knill"}, "knill/csd"),
            ("UCGEInitialize", None, "default")]
    for n, ms in plan.items():
        for m in ms:
            iso = _hadamard(n)[:, : 2 ** m].astype(complex)
            u = iso if m == n else np.concatenate([iso, np.conj(scipy.linalg.null_space(iso.T))], axis=1)
            _, z = scipy.linalg.schur(u, output="complex")
            for i in range(2 ** n):
                vec = _unit(z[:, i])
                for (cls, opts, tag) in cfgs:
                    if n >= 6 and cls == "IsometryInitialize":
                        continue
                    ctx.monitor("data:schur_sweep")
                    ctx.monitor(f"n={n}")
                    ctx.count(f"{cls.replace('Initialize', '')}:schur_sweep", key=(cls, tag, n, vec.tobytes()),
                              nontrivial=True, sample=None)
                    eval_case(ctx, cls, opts, vec, "schur_sweep", False, tag)


def replay(ctx, case):
    return eval_case(ctx, case["class"], _opts_from_json(case.get("opt_params")), dec_vec(case["vector"]), case.get("family", "replay"),
                     case.get("as_list", False), case.get("tag", ""))
