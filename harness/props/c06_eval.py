"""C06 - sparse state preparation: MergeInitialize, PivotInitialize (aux / no aux), CvoqramInitialize (aux / no aux,
mcg_method linear / qiskit / barenco).

Direct evaluation: Statevector(gate.definition) over ALL qubits of the definition is compared (1e-6, global phase
included) with the dense embedding of the dictionary: the listed amplitude on the basis state whose data register
holds the key and whose every other qubit is |0>, zero everywhere else.

Register layouts and key bit order (read from the source):
  MergeInitialize        n qubits; key[i] is qubit i                          -> index int(key[::-1], 2)
  PivotInitialize        aux=False: n qubits, key[0] is the most significant  -> index int(key, 2)
                         aux=True : ceil(log2 m)-1 ancillas first, then data  -> index int(key, 2) << n_anc
  CvoqramInitialize      with_aux=True : u, anc[n-1], memory[n]               -> index int(key, 2) << n
                         with_aux=False: u, memory[n]                         -> index int(key, 2) << 1
Preconditions of the property are respected by the generator: n >= 2, distinct keys, unit norm, m >= 2 (m >= 3 for
pivot with aux), patterns sorted by non-decreasing Hamming weight for CVO-QRAM; merge with m = 1 is only checked up
to its phase."""
import itertools
import warnings
import numpy as np
from qiskit.quantum_info import Statevector

warnings.filterwarnings("ignore")

TOL_AMP = 1e-6

# label -> (class, opt_params)
MAIN = {
    "merge": ("MergeInitialize", None),
    "pivot:noaux": ("PivotInitialize", {"aux": False}),
    "pivot:aux": ("PivotInitialize", {"aux": True}),
    "cvo:aux": ("CvoqramInitialize", {"with_aux": True}),
    "cvo:noaux:linear": ("CvoqramInitialize", {"with_aux": False, "mcg_method": "linear"}),
    "cvo:noaux:qiskit": ("CvoqramInitialize", {"with_aux": False, "mcg_method": "qiskit"}),
    "cvo:noaux:barenco": ("CvoqramInitialize", {"with_aux": False, "mcg_method": "barenco"}),
}
# other ways of passing the same options (defaults, empty dict, mcg_method together with aux)
OPTFORMS = {
    "pivot:optforms": [("PivotInitialize", None), ("PivotInitialize", {})],
    "cvo:optforms": [("CvoqramInitialize", None), ("CvoqramInitialize", {}), ("CvoqramInitialize", {"with_aux": False}),
                     ("CvoqramInitialize", {"mcg_method": "qiskit"}), ("CvoqramInitialize", {"with_aux": True, "mcg_method": "barenco"}),
                     ("CvoqramInitialize", {"with_aux": True, "mcg_method": "linear"})],
}

KEY_FAMS = ["random", "low_block", "high_block", "same_weight", "weight_window", "chain", "complement_pairs",
            "hamming_ball", "msb_split", "with_zero_and_ones"]
AMP_FAMS = ["complex", "real_pos", "real_signed", "negative", "uniform", "uniform_phases", "imag", "dominant",
            "two_level", "listed_zero", "float_type", "numpy_type"]


COARSE = {"complex": "complex", "imag": "complex", "uniform_phases": "complex", "two_level": "complex",
          "numpy_type": "complex", "real_pos": "real", "real_signed": "real", "negative": "real", "float_type": "real",
          "uniform": "uniform", "dominant": "dominant", "listed_zero": "listed_zero"}


# ----------------------------------------------------------------------------------------------- encoding
def enc(amps):
    return [[float(np.real(x)).hex(), float(np.imag(x)).hex()] for x in amps]


def dec(l):
    return [complex(float.fromhex(a), float.fromhex(b)) for a, b in l]


def typed(amps, types):
    """the python objects handed to qclib as dictionary values"""
    out = []
    for x in amps:
        x = complex(x)
        if types == "float" and x.imag == 0:
            out.append(float(x.real))
        elif types == "numpy":
            out.append(np.float64(x.real) if x.imag == 0 else np.complex128(x))
        else:
            out.append(x)
    return out


# ----------------------------------------------------------------------------------------------- layout
def effective(cls, opt):
    opt = opt or {}
    if cls == "PivotInitialize":
        aux = opt.get("aux")
        return {"aux": bool(aux) if aux is not None else False, "mcg_method": None}
    if cls == "CvoqramInitialize":
        aux = opt.get("with_aux")
        mcg = opt.get("mcg_method")
        return {"aux": bool(aux) if aux is not None else True, "mcg_method": mcg if mcg is not None else "linear"}
    return {"aux": None, "mcg_method": None}


def layout(cls, eff, n, m):
    """(expected width of the definition, function key -> basis index)"""
    if cls == "MergeInitialize":
        return n, (lambda key: int(key[::-1], 2))
    if cls == "PivotInitialize":
        if eff["aux"]:
            n_anc = int(np.ceil(np.log2(m))) - 1
            return n + n_anc, (lambda key: int(key, 2) << n_anc)
        return n, (lambda key: int(key, 2))
    if cls == "CvoqramInitialize":
        if eff["aux"]:
            return 2 * n, (lambda key: int(key, 2) << n)
        return n + 1, (lambda key: int(key, 2) << 1)
    raise ValueError(cls)

from harness.monitors import time_limit, InstanceTimeout   # noqa: E402
_TIMED_OUT = {}


def make_gate(cls, params, opt):
    from qclib.state_preparation.merge import MergeInitialize
    from qclib.state_preparation.pivot import PivotInitialize
    from qclib.state_preparation.cvoqram import CvoqramInitialize
    if cls == "MergeInitialize":
        return MergeInitialize(params)
    if cls == "PivotInitialize":
        return PivotInitialize(params, opt_params=opt)
    return CvoqramInitialize(params, opt_params=opt)


# ----------------------------------------------------------------------------------------------- evaluation
def eval_case(ctx, cls, opt, n, keys, amps, types="complex", meta=None):
    """True iff C06 holds on this dictionary.  keys: list of n-bit strings in dictionary order, amps: complex list."""
    meta = meta or {}
    keys = [str(k) for k in keys]
    amps = [complex(a) for a in amps]
    m = len(keys)
    eff = effective(cls, opt)
    case = {"class": cls, "opt_params": opt, "aux": eff["aux"], "mcg_method": eff["mcg_method"], "n": n, "m": m,
            "keys": keys, "amps": enc(amps), "types": types,
            "listed_zeros": int(sum(1 for a in amps if a == 0)),
            "family": meta.get("family", "replay"), "key_family": meta.get("key_family"),
            "amp_family": meta.get("amp_family"), "order": meta.get("order")}
    # preconditions of the property (generator bugs must not become alarms)
    assert n >= 2 and len(set(keys)) == m and all(len(k) == n for k in keys)
    assert abs(sum(abs(a) ** 2 for a in amps) - 1) < 1e-12
    if cls == "CvoqramInitialize":
        w = [k.count("1") for k in keys]
        assert w == sorted(w) and m >= 2
    if cls == "PivotInitialize":
        assert m >= (3 if eff["aux"] else 2)
    params = dict(zip(keys, typed(amps, types)))
    if _TIMED_OUT.get(cls, 0) >= 2:
        return True                  # already reported twice as non-terminating: do not spend 300 s on every further case
    try:
        with time_limit(300):
            gate = make_gate(cls, params, opt)
            definition = gate.definition
            width = definition.num_qubits
            exp_width, index_of = layout(cls, eff, n, m)
        if width != exp_width:
            ctx.violation(f"{cls}: definition has {width} qubits, the register layout in the source gives {exp_width}", case)
            return False
        sv = np.asarray(Statevector(definition).data)
    except InstanceTimeout:
        _TIMED_OUT[cls] = _TIMED_OUT.get(cls, 0) + 1
        ctx.violation(f"{cls}: the construction did not terminate within 300 s (instances of this size take about a second)", case)
        return False
    except Exception as exc:
        if type(exc).__name__ == "QiskitError" and "TwoQubitWeylDecomposition" in str(exc):
            # Qiskit's private _apply_a2 (two-qubit re-synthesis inside qclib.unitary, reached by the dense low-rank stage): the same
            # defect as C01-qiskit-apply-a2 if the same construction is exact once _apply_a2 is the identity
            import qclib.unitary as qu
            orig = qu._apply_a2
            try:
                qu._apply_a2 = lambda circuit: circuit
                d2 = make_gate(cls, params, opt).definition
                sv2 = np.asarray(Statevector(d2).data)
                _, index_of2 = layout(cls, eff, n, m)
                ref2 = np.zeros(len(sv2), dtype=complex)
                for k_, a_ in zip(keys, amps):
                    ref2[index_of2(k_)] = a_
                if float(np.abs(sv2 - ref2).max()) < 1e-9:
                    case["cause"] = "qiskit_apply_a2"
            except (KeyboardInterrupt, SystemExit):
                raise
            except BaseException:  # noqa: BLE001
                pass
            finally:
                qu._apply_a2 = orig
        ctx.violation(f"{cls} raised {type(exc).__name__}: {str(exc)[:120]}"
                      + (" [cause: exact when qiskit's _apply_a2 is the identity]" if case.get("cause") == "qiskit_apply_a2" else ""), case)
        return False
    if not np.all(np.isfinite(sv)):
        ctx.violation(f"{cls}: output state contains NaN/inf", case)
        return False
    ref = np.zeros(2 ** width, dtype=complex)
    for k, a in zip(keys, amps):
        ref[index_of(k)] = a
    if cls == "MergeInitialize" and m == 1:
        sv_c, ref_c = np.abs(sv), np.abs(ref)        # a single basis state is prepared up to its phase
    else:
        sv_c, ref_c = sv, ref
    diff = np.abs(sv_c - ref_c)
    err = float(diff.max())
    if err >= TOL_AMP:
        worst = int(diff.argmax())
        data_mask = index_of("1" * n)
        if worst & ~data_mask:
            where = "an auxiliary qubit is not back in |0>"
        elif ref[worst] != 0:
            where = "listed amplitude wrong"
        else:
            where = "non-zero amplitude on an unlisted basis state"
        extra = {"err": err, "index": worst}
        if cls == "PivotInitialize" and err < 1e-4:
            extra.update(_pivot_dense_stage_diagnostic(definition, err))
        ctx.violation(f"{cls}: output differs from the dictionary by {err:.3g} at index {worst} ({where})",
                      dict(case, **extra))
        return False
    return True


def _pivot_dense_stage_diagnostic(definition, err):
    """Classification of an already failed PivotInitialize case (not part of the verdict): the circuit is one dense
    LowRankInitialize gate followed by X / CX / multi-controlled X gates, which only permute amplitudes.  If the
    dense gate alone misses its own parameter vector by the same amount, the deviation comes from the dense stage
    (qclib.unitary.unitary hands 4x4 blocks to Qiskit's two-qubit synthesis, which approximates to fidelity 1-1e-9)."""
    try:
        for inst in definition.data:
            if inst.operation.name == "low_rank":
                want = np.asarray(inst.operation.params, dtype=complex)
                got = np.asarray(Statevector(inst.operation.definition).data)
                dense_err = float(np.abs(got - want).max())
                cause = "dense_stage" if abs(dense_err - err) < 1e-9 else "other"
                return {"cause": cause, "dense_stage_err": dense_err}
    except Exception:       # diagnostic only
        pass
    return {"cause": "unknown"}


# ----------------------------------------------------------------------------------------------- generators
def weight(x):
    return bin(x).count("1")


def gen_keys(rng, n, m, fam):
    """m distinct integers below 2^n (as a list, in a family-specific raw order)"""
    N = 2 ** n
    full = (1 << n) - 1
    if fam == "low_block":
        vals = list(range(m))
    elif fam == "high_block":
        vals = list(range(N - m, N))
    elif fam == "same_weight":
        from math import comb
        ws = [w for w in range(n + 1) if comb(n, w) >= m]
        if ws:
            w = int(rng.choice(ws))
            pool = [x for x in range(N) if weight(x) == w]
            vals = [int(x) for x in rng.choice(pool, size=m, replace=False)]
        else:
            vals = [int(x) for x in rng.choice(N, size=m, replace=False)]
    elif fam == "weight_window":
        order = sorted(range(N), key=lambda x: (weight(x), int(rng.integers(1 << 30))))
        start = int(rng.integers(0, N - m + 1))
        vals = order[start:start + m]
    elif fam == "chain":
        perm = [int(p) for p in rng.permutation(n)]
        vals, x = [0], 0
        for p in perm:
            x |= 1 << p
            vals.append(x)
        vals = vals[int(rng.integers(0, 2)):][:m]
        pool = [x for x in range(N) if x not in vals]
        extra = m - len(vals)
        if extra > 0:
            vals += [int(x) for x in rng.choice(pool, size=extra, replace=False)]
    elif fam == "complement_pairs":
        vals = []
        pool = [int(p) for p in rng.permutation(N)]
        for x in pool:
            if len(vals) >= m:
                break
            if x not in vals:
                vals.append(x)
                if len(vals) < m and (x ^ full) not in vals:
                    vals.append(x ^ full)
    elif fam == "hamming_ball":
        c = int(rng.integers(N))
        order = sorted(range(N), key=lambda x: (weight(x ^ c), int(rng.integers(1 << 30))))
        vals = order[:m]
    elif fam == "msb_split":
        bit = 1 << int(rng.integers(n))
        half = (m + 1) // 2
        pool = [x for x in range(N) if not x & bit]
        base = [int(x) for x in rng.choice(pool, size=half, replace=False)]
        vals = base + [b | bit for b in base][:m - half]
    elif fam == "with_zero_and_ones":
        vals = [0, full][:m]
        pool = [x for x in range(1, N - 1)]
        if m > 2:
            vals += [int(x) for x in rng.choice(pool, size=m - 2, replace=False)]
    else:
        vals = [int(x) for x in rng.choice(N, size=m, replace=False)]
    vals = [int(v) for v in vals]
    assert len(set(vals)) == m and all(0 <= v < N for v in vals), (fam, n, m, vals)
    return vals


def order_keys(rng, vals, order):
    vals = list(vals)
    if order == "asc":
        vals.sort()
    elif order == "desc":
        vals.sort(reverse=True)
    else:
        vals = [vals[i] for i in rng.permutation(len(vals))]
    return vals


def gen_amps(rng, m, fam):
    """(unit complex vector as a list, types)"""
    types = "complex"
    if fam == "complex":
        a = rng.normal(size=m) + 1j * rng.normal(size=m)
    elif fam == "real_pos":
        a = np.abs(rng.normal(size=m)) + 0.02 + 0j
    elif fam in ("real_signed", "float_type"):
        a = rng.normal(size=m)
        a = np.where(np.abs(a) < 0.02, 0.02, a) + 0j
        if fam == "float_type":
            types = "float"
    elif fam == "negative":
        a = -np.abs(rng.normal(size=m)) - 0.02 + 0j
    elif fam == "uniform":
        a = np.ones(m, dtype=complex) * [1, -1, 1j, -1j][int(rng.integers(4))]
    elif fam == "uniform_phases":
        a = np.exp(1j * rng.uniform(-np.pi, np.pi, m))
    elif fam == "imag":
        a = 1j * (rng.normal(size=m))
        a = np.where(np.abs(a) < 0.02, 0.02j, a)
    elif fam == "dominant":
        a = rng.uniform(1e-3, 1e-2, m) * np.exp(1j * rng.uniform(-np.pi, np.pi, m))
        a[int(rng.integers(m))] = np.exp(1j * rng.uniform(-np.pi, np.pi))
    elif fam == "two_level":
        a = np.where(rng.random(m) < 0.5, 1.0, 0.25) * np.exp(1j * rng.choice([0, np.pi / 2, np.pi, -np.pi / 2], m))
    elif fam == "listed_zero":          # some listed amplitudes are exactly zero
        a = rng.normal(size=m) + 1j * rng.normal(size=m)
        nz = int(rng.integers(1, max(2, m // 2 + 1)))
        a[rng.choice(m, size=min(nz, m - 1), replace=False)] = 0
    elif fam == "numpy_type":
        a = rng.normal(size=m) + 1j * rng.normal(size=m) * (rng.random(m) < 0.5)
        a = np.where(np.abs(a) < 0.02, 0.02, a)
        types = "numpy"
    else:
        raise ValueError(fam)
    a = np.asarray(a, dtype=complex)
    a = a / np.linalg.norm(a)
    a = a / np.linalg.norm(a)
    return [complex(x) for x in a], types


def admissible(label_or_cls, eff_aux, m):
    if label_or_cls == "PivotInitialize":
        return m >= (3 if eff_aux else 2)
    return m >= 2


def run_variants(ctx, n, vals, order, key_fam, amp_fam, labels, sample=False):
    """one dictionary (keys + amplitudes) through the given variants"""
    rng = ctx.rng
    m = len(vals)
    amps, types = gen_amps(rng, m, amp_fam)
    plain = order_keys(rng, vals, order)
    sorted_ = sorted(plain, key=weight)     # stable: tie order inside a weight class comes from `order`
    for label in labels:
        if label in MAIN:
            cls, opt = MAIN[label]
        else:
            forms = OPTFORMS[label]
            cls, opt = forms[int(rng.integers(len(forms)))]
        eff = effective(cls, opt)
        if not admissible(cls, eff["aux"], m):
            continue
        kv = sorted_ if cls == "CvoqramInitialize" else plain
        keys = [f"{v:0{n}b}" for v in kv]
        family = f"{label}:{COARSE[amp_fam]}"
        ctx.count(family, key=(cls, repr(opt), n, tuple(keys), tuple(amps), types), nontrivial=True,
                  sample={"class": cls, "opt_params": opt, "n": n, "dictionary": {k: a for k, a in zip(keys[:6], amps[:6])}}
                  if (sample and n == 3 and 3 <= m <= 5) else None)
        eval_case(ctx, cls, opt, n, keys, amps, types,
                  {"family": family, "key_family": key_fam, "amp_family": amp_fam, "order": order})


def m_choices(rng, n, extra):
    N = 2 ** n
    base = {2, 3, 4, 5, N // 2, N // 2 + 1, N - 1, N}
    for _ in range(extra):
        base.add(int(rng.integers(2, N + 1)))
    return sorted(x for x in base if 2 <= x <= N)


def _limit_blas_threads(n_threads=2):
    """OpenBLAS threading does not speed these small tensor contractions up but occupies every core; cap it (best
    effort, silently skipped when the bundled library or symbol is not found)."""
    try:
        import ctypes
        import glob
        import os
        libdir = os.path.join(os.path.dirname(os.path.dirname(np.__file__)), "numpy.libs")
        for path in glob.glob(os.path.join(libdir, "*openblas*")):
            lib = ctypes.CDLL(path)
            for name in ("scipy_openblas_set_num_threads64_", "openblas_set_num_threads64_",
                         "scipy_openblas_set_num_threads", "openblas_set_num_threads"):
                if hasattr(lib, name):
                    getattr(lib, name)(int(n_threads))
                    break
    except Exception:
        pass


def evaluate(ctx, deep):
    _limit_blas_threads()
    rng = ctx.rng
    main = list(MAIN)
    allv = main + list(OPTFORMS)

    # (1) exhaustive small dictionaries: every subset and every dictionary order
    #     n = 2: all subsets with m >= 2 in all orders; n = 3: m = 2, 3 in all orders (deep) or one random order (quick)
    for sub_m in (2, 3, 4):
        for sub in itertools.combinations(range(4), sub_m):
            for perm in itertools.permutations(sub):
                amp_fam = AMP_FAMS[int(rng.integers(len(AMP_FAMS)))]
                _run_fixed(ctx, 2, list(perm), "exhaustive", amp_fam, main)
    for sub_m in (2, 3):
        for sub in itertools.combinations(range(8), sub_m):
            perms = list(itertools.permutations(sub))
            if not deep:
                perms = [perms[int(rng.integers(len(perms)))]]
            for perm in perms:
                amp_fam = AMP_FAMS[int(rng.integers(len(AMP_FAMS)))]
                _run_fixed(ctx, 3, list(perm), "exhaustive", amp_fam, main)

    # (2) merge with a single basis state (phase free)
    for n in (2, 3, 4):
        for _ in range(3):
            v = int(rng.integers(2 ** n))
            a = complex(np.exp(1j * rng.uniform(-np.pi, np.pi)))
            keys = [f"{v:0{n}b}"]
            ctx.count("merge:single", key=("merge1", n, v, a), nontrivial=False)
            eval_case(ctx, "MergeInitialize", None, n, keys, [a / abs(a)], "complex",
                      {"family": "merge:single", "key_family": "single", "amp_family": "single", "order": "asc"})

    # (3) structured families
    nmax = 9 if deep else 6
    for n in range(2, nmax + 1):
        N = 2 ** n
        ms = m_choices(rng, n, 3 if deep else 1)
        if not deep and n >= 6:
            ms = [m for m in ms if m != N - 1]
        if n >= 7:
            ms = [m for m in ms if m <= 40] + ([N] if (n == 7 and deep) else [])
        for m in ms:
            heavy = m > 64
            key_fams = KEY_FAMS
            if not deep and n >= 6 and m > 40:      # the densest quick dictionaries: three key families only
                key_fams = [KEY_FAMS[i] for i in rng.choice(len(KEY_FAMS), size=3, replace=False)]
            for key_fam in key_fams:
                n_amp = (3 if n <= 6 else 1) if deep else (2 if n <= 4 else 1)
                if heavy:
                    n_amp = 1
                amp_choices = [AMP_FAMS[i] for i in rng.choice(len(AMP_FAMS), size=n_amp, replace=False)]
                for amp_fam in amp_choices:
                    order = ["random", "asc", "desc"][int(rng.integers(3))]
                    vals = gen_keys(rng, n, m, key_fam)
                    labels = list(allv)
                    if n >= 8:          # the 2n-qubit variant gets expensive: keep it for the small dictionaries
                        if m > 8:
                            labels = [l for l in labels if l not in ("cvo:aux", "cvo:optforms")]
                        elif rng.random() < 0.5:
                            labels = [l for l in labels if l not in ("cvo:aux", "cvo:optforms")]
                    if heavy and rng.random() < 0.5:
                        labels = [l for l in labels if l != "cvo:noaux:qiskit"]
                    run_variants(ctx, n, vals, order, key_fam, amp_fam, labels, sample=True)
        # every amplitude family at least once per n on random keys, all variants
        for amp_fam in AMP_FAMS:
            m = int(rng.integers(3, min(N, 12) + 1))
            vals = gen_keys(rng, n, m, "random")
            labels = list(allv)
            if n >= 8 and rng.random() < 0.7:
                labels = [l for l in labels if l not in ("cvo:aux", "cvo:optforms")]
            run_variants(ctx, n, vals, "random", "random", amp_fam, labels)


def _run_fixed(ctx, n, vals_in_order, key_fam, amp_fam, labels):
    """dictionary order given explicitly (CVO-QRAM: stably sorted by weight)"""
    rng = ctx.rng
    m = len(vals_in_order)
    amps, types = gen_amps(rng, m, amp_fam)
    for label in labels:
        cls, opt = MAIN[label]
        eff = effective(cls, opt)
        if not admissible(cls, eff["aux"], m):
            continue
        kv = sorted(vals_in_order, key=weight) if cls == "CvoqramInitialize" else list(vals_in_order)
        keys = [f"{v:0{n}b}" for v in kv]
        family = f"{label}:{COARSE[amp_fam]}"
        ctx.count(family, key=(cls, repr(opt), n, tuple(keys), tuple(amps), types), nontrivial=True)
        eval_case(ctx, cls, opt, n, keys, amps, types,
                  {"family": family, "key_family": key_fam, "amp_family": amp_fam, "order": "explicit"})


def replay(ctx, case):
    return eval_case(ctx, case["class"], case.get("opt_params"), case["n"], case["keys"], dec(case["amps"]),
                     case.get("types", "complex"),
                     {"family": case.get("family", "replay"), "key_family": case.get("key_family"),
                      "amp_family": case.get("amp_family"), "order": case.get("order")})
