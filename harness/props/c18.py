"""C18 - function-points preparation (FnPointsInitialize)."""
import numpy as np
from harness.coqcases import run_bool_cases
from harness.flatten import coq_list, coq_bool
from harness.props._common import run_eval, replay_eval

PROPS_FILE = "P_C18"
COQ_TARGETS = ["CaseLib", "FnPointsModel", "FnLoop"]
RULE = ("correspondence: the instruction list of FnPointsInitialize(...).definition (x, cx, ccx, cu) is compared inside Coq with "
        "FnPointsModel.fn_gates for dictionaries in every order (m <= 3) or random orders, n = 2..6/10; a cu gate is accepted as gate "
        "(idx_p, s) only if its four parameters are bit-identical to -2 acos sqrt(p/(p+1)), 2 pi s/N', -2 pi s/N', 0, and the matrix "
        "Qiskit gives that gate is compared (1e-12) with the controlled FnSem.Umat of the theorem; direct evaluation "
        "(harness/props/c18_eval.py): full state vs the closed form. distinct = distinct (dictionary order, N); non-trivial = m >= 2")
ASSUMPTIONS = ["Qiskit's x, cx, ccx are the permutation gates of FnSem.fapp; cu(theta, phi, lambda, 0) is the controlled FnSem.Umat "
               "(its matrix is compared numerically on every cu gate met)",
               "N' = max(requested, largest output - 1) is computed by the constructor (checked by the direct evaluation only; the "
               "theorem holds for every N')"]
TRUSTED = ["top-level instruction list of the definition"]
HEADER = ("From Coq Require Import List Bool Arith ZArith.\nFrom QV Require Import FnPointsModel CaseLib.\nImport ListNotations.\n"
          "Definition fgate_eqb (g h : fgate) : bool := match g, h with\n"
          " | FX a, FX b => Nat.eqb a b | FCX a b, FCX c d => Nat.eqb a c && Nat.eqb b d\n"
          " | FCCX a b c, FCCX a' b' c' => Nat.eqb a a' && Nat.eqb b b' && Nat.eqb c c'\n"
          " | FCU p s c t, FCU p' s' c' t' => Nat.eqb p p' && Z.eqb s s' && Nat.eqb c c' && Nat.eqb t t' | _, _ => false end.\n")


def correspondence(ctx):
    from qclib.state_preparation.fnpoints import FnPointsInitialize
    import itertools
    nmax = 6 if ctx.quick else 10
    cases, lines = [], []
    for n in range(2, nmax + 1):
        for m in sorted({1, 2, 3, min(2 ** n, 5), min(2 ** n, 8)}):
            for rep in range(2):
                ins = [int(x) for x in ctx.rng.choice(2 ** n, size=m, replace=False)]
                N = int(ctx.rng.integers(2, 6))
                outs = [int(ctx.rng.integers(0, N)) for _ in ins]
                orders = list(itertools.permutations(range(m))) if m <= 3 else [tuple(ctx.rng.permutation(m)) for _ in range(2)]
                for od in orders:
                    d = {format(ins[i], f"0{n}b"): outs[i] for i in od}
                    g = FnPointsInitialize(d, opt_params={"n_output_values": N})
                    Np = g.n_output_values
                    c = g.definition
                    idx_of = {k: i for i, k in enumerate(d)}
                    items = []
                    cu_seen = []
                    for inst in c.data:
                        op = inst.operation
                        qs = [c.find_bit(q).index for q in inst.qubits]
                        if op.name == "x":
                            items.append(f"FX {qs[0]}")
                        elif op.name == "cx":
                            items.append(f"FCX {qs[0]} {qs[1]}")
                        elif op.name == "ccx":
                            items.append(f"FCCX {qs[0]} {qs[1]} {qs[2]}")
                        elif op.name == "cu":
                            th, ph, la, ga = [float(p) for p in op.params]
                            found = None
                            for key, s in d.items():
                                p = idx_of[key]
                                if th == -2 * np.arccos(np.sqrt(p / (p + 1))) and la == -float(s) * 2 * np.pi / Np and ph == -la and ga == 0.0 \
                                        and (p, s) not in cu_seen:
                                    found = (p, s)
                                    break
                            if found:
                                # the matrix the theorem assumes for this gate: control = first qubit (little endian), U on the second
                                ctx.monitor("qiskit_cu_matrix")
                                p_, s_ = found
                                cth, sth = np.cos(th / 2), np.sin(th / 2)
                                phi_ = 2 * np.pi * s_ / Np
                                U = np.array([[cth, -np.exp(-1j * phi_) * sth], [np.exp(1j * phi_) * sth, cth]])
                                ref = np.eye(4, dtype=complex)
                                ref[np.ix_([1, 3], [1, 3])] = U
                                if np.abs(np.asarray(op.to_matrix()) - ref).max() > 1e-12:
                                    ctx.mismatch("C18 contract: Qiskit's cu(theta, phi, lambda, 0) is not the controlled Umat of the theorem",
                                                 {"theta": th, "phi": ph, "lambda": la})
                                cu_seen.append(found)
                                items.append(f"FCU {found[0]} ({found[1]})%Z {qs[0]} {qs[1]}")
                            else:
                                items.append("FX 99999")
                        else:
                            items.append("FX 99998")
                    case = {"n": n, "m": m, "dict": d, "n_output_values": N}
                    cases.append(case)
                    ctx.max_struct_qubits = max(ctx.max_struct_qubits, c.num_qubits)
                    ctx.count("corr:fnpoints", key=(n, tuple(d.items()), N), nontrivial=m >= 2,
                              sample=dict(case, gates=len(items)) if n == 3 and m == 3 else None)
                    ps = coq_list([f"({coq_list([coq_bool(ch == '1') for ch in key])}, ({s})%Z)" for key, s in d.items()])
                    lines.append(f"(list_eqb fgate_eqb (fn_gates {n} {ps}) {coq_list(items)})")

    def on_fail(c):
        ctx.mismatch("C18 correspondence: instruction list of FnPointsInitialize differs from the Coq model FnPointsModel.fn_gates", c)
    run_bool_cases(ctx, "c18_fn", HEADER, lines, cases, on_fail, shard=40)


def run(ctx):
    correspondence(ctx)
    run_eval(ctx, "C18")


def search(ctx):
    run_eval(ctx, "C18", deep=True)


def replay(ctx, case):
    return replay_eval(ctx, "C18", case)


MANIFEST = dict(
    text="Proof: C18_fn_state - for every n >= 2, every non-empty list of pairwise distinct n-bit inputs in any order, every output assignment and every N', the gate list FnPointsModel.fn_gates run from |0..0> has amplitude -(1/sqrt m) e^{2 pi i s/N'} on the basis state holding the input in the x register with all work qubits 0 (C18_target_bits) and 0 elsewhere; every such coefficient has squared modulus 1/m (C18_uniform_magnitude); proved by a sound sparse simulation (FnSem.sim_sound) and an invariant over the points; C18_theta / C18_split are the S-matrix bookkeeping. Tie: the instruction list of FnPointsInitialize is compared inside Coq with FnPointsModel.fn_gates for dictionaries in every order (cu parameters bit-identical to the closed forms, cu matrix compared with the theorem's). The full state is also evaluated.",
    note="Modelled, not verified: Qiskit's x/cx/ccx/cu matrices (cu compared numerically); the constructor's choice of N'.",
    technique='Coq proof (sparse-simulation soundness + loop invariant over the points, all n) + instruction-list correspondence (vm_compute) + state-vector evaluation',
    design_ref='DESIGN.md section 4, C18')
