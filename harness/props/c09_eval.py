"""C09 - direct evaluation of qclib.entanglement.schmidt_decomposition / schmidt_composition /
_separation_matrix / _undo_separation_matrix.

What is demanded (properties.jsonl, C09), for every unit vector v on n >= 2 qubits, every non-empty proper subset P
of the qubits given in ANY order (list / tuple), every requested rank r and svd in {auto, regular}:

  (a) reshape:   M = _separation_matrix(n, v, P) has shape (2^(n-|P|), 2^|P|), is a re-arrangement of the entries of v
                 in which all entries of one column share the values of the P-qubits and all entries of one row share
                 the values of the other qubits (checked on the index vector 0..2^n-1, i.e. independent of any row /
                 column ordering convention), and _undo_separation_matrix(n, M, P) is v bit for bit; also
                 _separation_matrix(_undo_separation_matrix(M')) == M' for an arbitrary matrix M'.
  (b) decompose: (k, U, s, Vh) = schmidt_decomposition(v, P, r, svd): k == len(s) is a power of two and equals the
                 least power of two >= min(r or inf, Schmidt rank) (the Schmidt rank is computed independently and the
                 formula is only demanded when no coefficient lies near the 1e-7 cut), U (rows x k) and Vh (k x cols)
                 have orthonormal columns / rows, s is non-negative and non-increasing and equals the k leading
                 singular values of an independently built bipartition matrix.
  (c) compose:   w = schmidt_composition(U, Vh, s, P): w == v when k >= Schmidt rank; otherwise <w|v> == sum s_i^2
                 == |w|^2 (orthogonal projection onto the k leading terms) and the Schmidt rank of w is <= k.

Qubit labelling: entry p of the partition designates axis p of v.reshape((2,)*n), i.e. qclib's big-endian qubit label
(bit n-1-p of the amplitude index).  This is the labelling used consistently by qclib (LowRankInitialize / the bounded
approximation convert to Qiskit's order by reverse_bits); the property itself is symmetric under relabelling because it
quantifies over all subsets.  The reference below uses plain index arithmetic, not numpy.moveaxis.
"""
import itertools
import numpy as np

TOL = 1e-8
CUT = 1e-7            # qclib's effective-rank threshold


# ------------------------------------------------------------------------------------------------ reference

def ref_matrix(n, v, part):
    """bipartition matrix by explicit index arithmetic: rows = qubits outside `part` (ascending label, first label most
    significant), columns = qubits of `part` (ascending label).  Label p <-> bit n-1-p of the amplitude index."""
    ps = sorted(int(p) for p in part)
    cs = [q for q in range(n) if q not in ps]
    rows, cols = 2 ** len(cs), 2 ** len(ps)
    idx = np.zeros((rows, cols), dtype=np.int64)
    a = np.arange(rows)
    b = np.arange(cols)
    for j, q in enumerate(cs):
        bit = (a >> (len(cs) - 1 - j)) & 1
        idx += (bit << (n - 1 - q))[:, None]
    for j, q in enumerate(ps):
        bit = (b >> (len(ps) - 1 - j)) & 1
        idx += (bit << (n - 1 - q))[None, :]
    return np.asarray(v)[idx], idx


def pmask(n, part):
    m = 0
    for p in part:
        m |= 1 << (n - 1 - int(p))
    return m


def is_pow2(k):
    return k >= 1 and (k & (k - 1)) == 0


def expected_rank(sref, r):
    eff = int(np.sum(sref > CUT))
    if 0 < r < eff:
        eff = r
    k = 1
    while k < eff:
        k *= 2
    return k


# ------------------------------------------------------------------------------------------------ input families

def _unit(v):
    v = np.asarray(v, dtype=complex)
    return v / np.linalg.norm(v)


def _cgauss(rng, m):
    return rng.normal(size=m) + 1j * rng.normal(size=m)


def gen_state(rng, n, fam, part):
    """unit vector of 2^n amplitudes; `part` lets the rank-structured families be built relative to the bipartition"""
    N = 2 ** n
    if fam == "complex":
        return _unit(_cgauss(rng, N))
    if fam == "real":
        return _unit(rng.normal(size=N))
    if fam == "negative":
        return _unit(-np.abs(rng.normal(size=N)) - 0.05)
    if fam == "basis":
        v = np.zeros(N, complex)
        v[int(rng.integers(N))] = [1, -1, 1j, np.exp(1j * rng.uniform(0, 6))][int(rng.integers(4))]
        return v
    if fam == "sparse":
        v = _cgauss(rng, N)
        v[rng.random(N) < 0.6] = 0
        if not v.any():
            v[int(rng.integers(N))] = 1
        return _unit(v)
    if fam == "product":
        v = np.array([1.0 + 0j])
        for _ in range(n):
            c = int(rng.integers(6))
            q = [np.array([1, 0]), np.array([0, 1]), np.array([1, 1]), np.array([1, -1]), None, None][c]
            if q is None:
                q = _cgauss(rng, 2)
            v = np.kron(v, _unit(q))
        return _unit(v)
    if fam == "uniform":
        return _unit(np.ones(N) * np.exp(1j * [0, np.pi, 0.7][int(rng.integers(3))]))
    if fam == "hadamard":
        k = int(rng.integers(N))
        v = np.array([(-1.0) ** bin(i & k).count("1") for i in range(N)])
        return _unit(v)
    if fam == "ghz":
        v = np.zeros(N, complex)
        v[0] = 1
        v[-1] = np.exp(1j * rng.uniform(0, 6)) if rng.random() < 0.5 else -1
        return _unit(v)
    if fam == "w":
        v = np.zeros(N, complex)
        for q in range(n):
            v[1 << q] = 1
        return _unit(v)
    if fam == "phase4":
        return _unit(np.array([1, 1j, -1, -1j])[rng.integers(0, 4, N)])
    if fam == "blockprod":
        # product of two entangled blocks over a random split of the qubits (unrelated to `part`)
        k = int(rng.integers(1, n))
        a, b = _unit(_cgauss(rng, 2 ** k)), _unit(_cgauss(rng, 2 ** (n - k)))
        sub = sorted(int(x) for x in rng.permutation(n)[:k])
        _, idx = ref_matrix(n, np.zeros(N), sub)
        v = np.zeros(N, complex)
        v[idx] = np.outer(b, a)
        return _unit(v)
    if fam in ("rank1", "rank2", "rank3", "rank5", "degenerate"):
        # sum of k product terms ACROSS the bipartition `part` (Schmidt rank <= k); degenerate = equal coefficients
        ps = sorted(part)
        rows, cols = 2 ** (n - len(ps)), 2 ** len(ps)
        k = {"rank1": 1, "rank2": 2, "rank3": 3, "rank5": 5, "degenerate": min(rows, cols)}[fam]
        k = min(k, rows, cols)
        qa, _ = np.linalg.qr(_cgauss(rng, rows * k).reshape(rows, k))
        qb, _ = np.linalg.qr(_cgauss(rng, cols * k).reshape(cols, k))
        if fam == "degenerate":
            s = np.ones(k)
            if rng.random() < 0.5:      # partially degenerate: two distinct values, each repeated
                s[k // 2:] = 0.5
        else:
            s = rng.uniform(0.3, 1.0, k)
        M = (qa[:, :k] * s) @ qb[:, :k].T
        _, idx = ref_matrix(n, np.zeros(N), ps)
        v = np.zeros(N, complex)
        v[idx] = M
        return _unit(v)
    raise ValueError(fam)


FAMS = ["complex", "real", "negative", "basis", "sparse", "product", "uniform", "hadamard", "ghz", "w", "phase4", "blockprod",
        "rank1", "rank2", "rank3", "rank5", "degenerate"]


# ------------------------------------------------------------------------------------------------ one case

def enc_vec(v):
    return [[float(np.real(x)).hex(), float(np.imag(x)).hex()] for x in np.asarray(v, dtype=complex)]


def dec_vec(e):
    return np.array([complex(float.fromhex(a), float.fromhex(b)) for a, b in e])


def eval_case(ctx, n, vec, part, rank, svd, family, as_list=False, part_tuple=False):
    """True iff C09 holds on this input"""
    from qclib.entanglement import (schmidt_decomposition, schmidt_composition, _separation_matrix,
                                    _undo_separation_matrix)
    vec = np.asarray(vec, dtype=complex)
    part = [int(p) for p in part]
    bad = []
    if as_list == "real":
        arg_v = np.array(np.real(vec), dtype=float)          # a real-valued vector handed over as float64
    else:
        arg_v = [complex(x) for x in vec] if as_list else vec.copy()
    arg_p = tuple(part) if part_tuple else list(part)
    N = 2 ** n
    rows, cols = 2 ** (n - len(part)), 2 ** len(part)
    Mref, idx = ref_matrix(n, vec, part)
    sref = np.linalg.svd(Mref, compute_uv=False)
    try:
        # (a) reshape and back, on the index vector (convention independent) and on the data
        ivec = np.arange(N, dtype=float)
        Mi = np.asarray(_separation_matrix(n, ivec, arg_p))
        if Mi.shape != (rows, cols):
            bad.append(f"_separation_matrix shape {Mi.shape} != {(rows, cols)}")
        else:
            Ii = Mi.astype(np.int64)
            pm = pmask(n, part)
            if sorted(Ii.reshape(-1).tolist()) != list(range(N)):
                bad.append("_separation_matrix is not a re-arrangement of the entries")
            elif (np.any((Ii & pm) != (Ii[0:1, :] & pm)) or np.any((Ii & ~pm) != (Ii[:, 0:1] & ~pm))
                  or len(set((Ii[0, :] & pm).tolist())) != cols or len(set((Ii[:, 0] & ~pm).tolist())) != rows):
                bad.append("_separation_matrix: rows/columns do not separate the partition qubits from the others")
            back = np.asarray(_undo_separation_matrix(n, Mi, arg_p))
            if back.shape != (N,) or not np.array_equal(back, ivec):
                bad.append("_undo_separation_matrix(_separation_matrix(v)) != v")
        Mv = np.asarray(_separation_matrix(n, arg_v, arg_p))
        backv = np.asarray(_undo_separation_matrix(n, Mv, arg_p))
        if backv.shape != (N,) or not np.array_equal(backv, vec):
            bad.append("_undo_separation_matrix(_separation_matrix(v)) != v on the data vector")
        Mp = np.arange(N, dtype=float).reshape(rows, cols) * (1 + 0.5j)
        again = np.asarray(_separation_matrix(n, _undo_separation_matrix(n, Mp, arg_p), arg_p))
        if again.shape != Mp.shape or not np.array_equal(again, Mp):
            bad.append("_separation_matrix(_undo_separation_matrix(M)) != M")
        if Mv.shape == (rows, cols):
            sv_impl = np.linalg.svd(Mv, compute_uv=False)
            if np.abs(sv_impl - sref).max() > TOL:
                bad.append("singular values of _separation_matrix differ from the reference bipartition matrix")

        # (b) decomposition
        k, U, s, Vh = schmidt_decomposition(arg_v, arg_p, rank=rank, svd=svd)
        U, s, Vh = np.asarray(U), np.asarray(s), np.asarray(Vh)
        k = int(k)
        if not is_pow2(k):
            bad.append(f"number of coefficients {k} is not a power of two")
        if len(s) != k or U.shape != (rows, k) or Vh.shape != (k, cols):
            bad.append(f"shapes U{U.shape} s{s.shape} Vh{Vh.shape} inconsistent with rank {k} and {(rows, cols)}")
        else:
            near_cut = np.any((sref > CUT * 1e-3) & (sref < CUT * 1e3))
            if not near_cut and k != expected_rank(sref, rank):
                bad.append(f"rank {k} != least power of two >= min(r, Schmidt rank) = {expected_rank(sref, rank)}")
            gu = np.abs(U.conj().T @ U - np.eye(k)).max()
            gv = np.abs(Vh @ Vh.conj().T - np.eye(k)).max()
            if gu > TOL:
                bad.append(f"left vectors not orthonormal ({gu:.3g})")
            if gv > TOL:
                bad.append(f"right vectors not orthonormal ({gv:.3g})")
            if np.any(np.asarray(s).imag != 0) or np.any(s.real < 0):
                bad.append("coefficients not real non-negative")
            if np.any(np.diff(s.real) > 0):
                bad.append("coefficients not non-increasing")
            if np.abs(s.real - sref[:k]).max() > TOL:
                bad.append(f"coefficients differ from the reference singular values by {np.abs(s.real - sref[:k]).max():.3g}")
            # (c) composition
            w = np.asarray(schmidt_composition(U, Vh, s, arg_p))
            if w.shape != (N,):
                bad.append(f"schmidt_composition shape {w.shape}")
            else:
                tail = float(np.sum(sref[k:] ** 2))
                if tail < 1e-20 or k >= int(np.sum(sref > 1e-12)):
                    err = np.abs(w - vec).max()
                    if err > max(TOL, 10 * np.sqrt(tail)):
                        bad.append(f"composition differs from the input by {err:.3g} (no truncation)")
                else:
                    head = float(np.sum(sref[:k] ** 2))
                    ov = np.vdot(vec, w)
                    if abs(ov - head) > TOL or abs(np.vdot(w, w).real - head) > TOL:
                        bad.append(f"truncated composition is not the projection on the {k} leading terms "
                                   f"(<v|w>={ov:.6g}, <w|w>={np.vdot(w, w).real:.6g}, expected {head:.6g})")
                    Mw, _ = ref_matrix(n, w, part)
                    sw = np.linalg.svd(Mw, compute_uv=False)
                    if np.sum(sw > 1e-7) > k:
                        bad.append("truncated composition has Schmidt rank above the returned rank")
    except Exception as exc:  # construction must not fail on a valid input
        bad.append(f"raised {type(exc).__name__}: {str(exc)[:120]}")
    if bad:
        case = {"function": "schmidt_decomposition", "n": n, "partition": part, "size": len(part), "rank": int(rank),
                "svd": svd, "family": family, "as_list": (as_list if as_list == "real" else bool(as_list)), "part_tuple": bool(part_tuple),
                "sorted": part == sorted(part), "vector": enc_vec(vec)}
        ctx.violation(f"schmidt_decomposition/composition n={n} partition={part} rank={rank} svd={svd}: " + "; ".join(bad[:3]), case)
        return False
    return True


# ------------------------------------------------------------------------------------------------ driver

def all_subsets(n):
    for size in range(1, n):
        for c in itertools.combinations(range(n), size):
            yield list(c)


def evaluate(ctx, deep):
    rng = ctx.rng
    nmax_all = 9 if deep else 8        # every subset x every family up to here
    nmax = 11 if deep else 10           # every subset, rotating families above
    for n in range(2, nmax + 1):
        subsets = list(all_subsets(n))
        for si, part in enumerate(subsets):
            if n <= nmax_all:
                fams = FAMS
            else:
                fams = [FAMS[(si + j * 5) % len(FAMS)] for j in range(4 if deep else 3)]
            for fam in fams:
                rows, cols = 2 ** (n - len(part)), 2 ** len(part)
                maxr = min(rows, cols)
                vec = gen_state(rng, n, fam, part)
                p = list(part)
                order = "sorted"
                if len(p) > 1 and rng.random() < 0.6:
                    p = [p[i] for i in rng.permutation(len(p))]
                    order = "sorted" if p == sorted(p) else "shuffled"
                # ranks: 0 (no cap) always, plus a rotating choice of requested ranks, all of 0..max+1 for small cases
                if maxr <= 4 and n <= 5:
                    ranks = list(range(0, maxr + 2))
                else:
                    ranks = sorted({0, int(rng.integers(1, maxr + 1)), [1, 2, 3, maxr, maxr + 1][int(rng.integers(5))]})
                for r in ranks:
                    svd = "regular" if rng.random() < 0.3 else "auto"
                    as_list = bool(rng.random() < 0.2)
                    if not as_list and float(np.abs(np.imag(vec)).max()) == 0.0 and rng.random() < 0.5:
                        as_list = "real"
                    pt = bool(rng.random() < 0.2)
                    ctx.count(f"{fam}|{order}",
                              key=(n, tuple(p), r, svd, fam, vec.tobytes()), nontrivial=True,
                              sample={"n": n, "partition": p, "rank": r, "svd": svd,
                                      "vector_head": [complex(x) for x in vec[:4]]} if (n == 3 and len(p) == 2) else None)
                    eval_case(ctx, n, vec, p, r, svd, fam, as_list, pt)
    ctx.note("C09: partition entry p designates axis p of v.reshape((2,)*n) (bit n-1-p of the amplitude index)")


def replay(ctx, case):
    return eval_case(ctx, case["n"], dec_vec(case["vector"]), case["partition"], case["rank"], case["svd"],
                     case.get("family", "replay"), case.get("as_list", False), case.get("part_tuple", False))
