#!/bin/bash
# developer helper: hermetic quick pass over all claimed checks for several values of VERIF_SEED (robustness against the
# random families: an alarm on the unchanged tree for some seed is a false alarm or an unrecorded finding)
S=/tmp/vs; rm -rf $S/verif; git -C /repo worktree remove --force $S/repo 2>/dev/null; mkdir -p $S
git -C /repo worktree add -q --detach $S/repo HEAD || exit 2
rsync -a --exclude .work --exclude replays --exclude .git /verif/ $S/verif/
export VERIF_HOME=$S/verif VERIF_REPO=$S/repo
cd $S/verif && ./check --setup > $S/log 2>&1
for seed in "$@"; do
  echo "== seed $seed" >> $S/log
  VERIF_SEED=$seed ./checkall quick 4 >> $S/log 2>&1
  mkdir -p $S/replays_$seed; cp -r $S/verif/replays/. $S/replays_$seed/ 2>/dev/null; rm -rf $S/verif/replays
done
echo "DONE $(date)" >> $S/log
