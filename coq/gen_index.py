#!/usr/bin/env python3
"""Regenerates coq/INDEX.md from the headers of coq/theories/*.v (developer helper)."""
import glob, os, re
here = os.path.dirname(os.path.abspath(__file__))
rows = []
total = 0
for f in sorted(glob.glob(os.path.join(here, "theories", "*.v"))):
    s = open(f).read()
    n = len(re.findall(r"^\s*(?:Theorem|Lemma|Corollary)\s", s, re.M))
    total += n
    m = re.match(r"\s*\(\*(.*?)\*\)", s, re.S)
    head = " ".join(m.group(1).split()) if m else ""
    if len(head) > 180:
        head = head[:177] + "..."
    rows.append(f"| `{os.path.basename(f)}` | {n} | {head.replace('|', '/')} |")
out = ["## 8b. Index of the Coq development (generated from the file headers; statements counted = Theorem / Lemma / Corollary)", "",
       "| file | statements | header |", "|---|---|---|"] + rows + ["", f"{len(rows)} files, {total} statements."]
open(os.path.join(here, "INDEX.md"), "w").write("\n".join(out) + "\n")
print(len(rows), total)
