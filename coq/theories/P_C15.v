(* Property C15: composition.  PARTIAL: on the circuit IR of the multi-controlled-X generators the inverse law (both
   orders) and the spectator law (the circuit acts as the identity on every qubit it does not mention, whatever state that
   qubit is in) are theorems; declared widths of the ancilla-tree initializers are C11's theorems.  Arbitrary placement,
   inverse and width of every other class, "inputs untouched" and "deterministic" are evaluated on the implementation. *)
From Coq Require Import Reals List Bool Arith.
From Coquelicot Require Import Complex.
From QV Require Import Sem Mat2 Toff2 Chain McxModel IrProps IrPropsRot.
From QV Require LdmcuCore Placed.
Import ListNotations.
Open Scope nat_scope.

Theorem C15_inverse_right : forall c, Forall swf c -> forall psi, srun (c ++ sinv_list c) psi = psi.
Proof. exact inverse_right. Qed.
Print Assumptions C15_inverse_right.

Theorem C15_inverse_left : forall c, Forall swf c -> forall psi, srun (sinv_list c ++ c) psi = psi.
Proof. exact inverse_left. Qed.
Print Assumptions C15_inverse_left.

Theorem C15_spectator : forall c q v, (forall g, In g c -> ~ In q (squbits g)) ->
  forall psi, srun c (setq q v psi) = setq q v (srun c psi).
Proof. exact spectator. Qed.
Print Assumptions C15_spectator.

(* the same laws on the rotation / entangler IR of the multiplexer and top-down models *)
Theorem C15_rot_inverse_right : forall c, Forall gwf2 c -> forall psi, run (c ++ ginv_list c) psi = psi.
Proof. exact ginverse_right. Qed.
Print Assumptions C15_rot_inverse_right.
Theorem C15_rot_inverse_left : forall c, Forall gwf2 c -> forall psi, run (ginv_list c ++ c) psi = psi.
Proof. exact ginverse_left. Qed.
Print Assumptions C15_rot_inverse_left.
Theorem C15_rot_spectator : forall c q v, (forall g, In g c -> ~ In q (gqubits g)) ->
  forall psi, run c (setq q v psi) = setq q v (run c psi).
Proof. exact gspectator. Qed.
Print Assumptions C15_rot_spectator.

Example ex_wf : Forall swf (toffoli CNone 0 1 2) /\ ~ In 5 (squbits (SCX 0 2)).
Proof. split. repeat constructor; simpl; auto. simpl. intros [H|[H|H]]; auto; discriminate. Qed.

(* the alphabet of Ldmcu (controlled powers E t z of a one-parameter group per target): reversed order with negated exponents
   undoes a gate list, for every family E with E t (a + b) = E t a * E t b, E t 0 = 1 *)
Theorem C15_ldmcu_ir_inverse : forall (E : nat -> BinNums.Z -> mat2),
  (forall t a b, E t (BinInt.Z.add a b) = mmul (E t a) (E t b)) -> (forall t, E t BinNums.Z0 = I2) ->
  forall l, Forall (fun g => LdmcuCore.gc g <> LdmcuCore.gt g) l ->
  forall psi, LdmcuCore.lrun E (l ++ LdmcuCore.linv_list l) psi = psi.
Proof. exact LdmcuCore.linverse_right. Qed.
Print Assumptions C15_ldmcu_ir_inverse.

(* placement (composition into a larger circuit): a circuit of the mcx IR re-labelled through any injective map acts on the local
   bits read through the map and leaves every other qubit of the basis state as it was *)
Theorem C15_placed_any : forall (f : nat -> nat) (w : nat), (forall i j, i < w -> j < w -> f i = f j -> i = j) ->
  forall c, Forall (Placed.bndw w) c -> forall Psi b,
  srun (map (Placed.relabelf f) c) Psi b = srun c (fun y => Psi (Placed.push f w b y)) (Placed.pull f w b).
Proof. exact Placed.srun_placed. Qed.
Print Assumptions C15_placed_any.
