(* C09: executable index-level model of entanglement._separation_matrix / _undo_separation_matrix.
   Axis j of the [2]*n reshape is the j-th big-endian digit of the amplitude index; partition entries are axes;
   rows = complement axes in order, columns = sorted partition axes (first = most significant). *)
From Coq Require Import List Bool Arith NArith Lia.
From QV Require Import Sep.
Import ListNotations.

Fixpoint undigits_acc (acc : N) (l : list bool) : N :=
  match l with [] => acc | d :: l' => undigits_acc (2 * acc + (if d then 1 else 0))%N l' end.
Definition undigits := undigits_acc 0.
(* big-endian digits, most significant first *)
Fixpoint digits (n : nat) (k : N) : list bool :=
  match n with O => [] | S n' => digits n' (N.div2 k) ++ [N.odd k] end.

Lemma undigits_acc_app l : forall acc d, undigits_acc acc (l ++ [d]) = (2 * undigits_acc acc l + (if d then 1 else 0))%N.
Proof. induction l as [|x l IH]; intros acc d; simpl. reflexivity. apply IH. Qed.
Lemma digits_length n : forall k, length (digits n k) = n.
Proof. induction n; intros k; simpl. reflexivity. rewrite app_length, IHn. simpl. lia. Qed.
Lemma undigits_digits n : forall k, (k < 2 ^ N.of_nat n)%N -> undigits (digits n k) = k.
Proof.
  induction n as [|n IH]; intros k Hk.
  - simpl in *. unfold undigits. simpl. lia.
  - cbn [digits]. unfold undigits in *. rewrite undigits_acc_app, IH.
    + rewrite (N.div2_odd k) at 3. destruct (N.odd k); simpl N.b2n; lia.
    + rewrite Nat2N.inj_succ, N.pow_succ_r' in Hk. rewrite N.div2_div.
      apply N.div_lt_upper_bound; lia.
Qed.

Definition sep_index (n : nat) (partition : list nat) (k : N) : N * N :=
  let rc := sep (mask_of n partition) (digits n k) in (undigits (fst rc), undigits (snd rc)).
Definition undo_digits (n : nat) (partition : list nat) (rows cols : list bool) : N :=
  undigits (undo (mask_of n partition) (rows, cols)).

(* reshaping an index to (row, column) digits and back is the identity, for every list of axes *)
Theorem undo_sep_index n partition k : (k < 2 ^ N.of_nat n)%N ->
  let rc := sep (mask_of n partition) (digits n k) in
  undo_digits n partition (fst rc) (snd rc) = k.
Proof.
  intros Hk rc. unfold undo_digits. replace (fst rc, snd rc) with rc by (destruct rc; reflexivity).
  unfold rc. rewrite undo_sep.
  - now apply undigits_digits.
  - rewrite digits_length. unfold mask_of. now rewrite map_length, seq_length.
Qed.
