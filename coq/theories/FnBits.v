(* C18, bit level: what the classical blocks of FnPointsModel.point do to the basis states that occur in the run.
   E x c0v c1v : x register = x (bit j of x on qubit rx j), work qubits g = 0, flags c0, c1 as given.
   Eg x z k .. : additionally the first k ladder qubits hold the prefix conjunctions "x agrees with z on bits 0..i+1". *)
From Coq Require Import Reals List Bool Arith Lia NArith ZArith.
From Coquelicot Require Import Complex.
From QV Require Import Sem Mat2 Toff2 Chain Vchain Cvoqram FnPointsModel FnSem.
Import ListNotations.
Open Scope nat_scope.

Fixpoint mk (f : nat -> bool) (B : nat) : asg :=
  match B with O => 0%N | S B' => upd (mk f B') B' (f B') end.
Lemma get_mk f B q : get (mk f B) q = if q <? B then f q else false.
Proof.
  induction B as [|B IH]; simpl. apply get_0.
  destruct (Nat.eq_dec q B) as [->|H].
  - rewrite get_upd_same. now rewrite (proj2 (Nat.ltb_lt B (S B))) by lia.
  - rewrite get_upd_other, IH by auto.
    destruct (Nat.ltb_spec q B); destruct (Nat.ltb_spec q (S B)); auto; lia.
Qed.

Lemma get_flipq t b q : get (flipq t b) q = if q =? t then negb (get b t) else get b q.
Proof.
  destruct (Nat.eqb_spec q t) as [->|H]. apply flq_same. now apply flq_other.
Qed.

Section Bits.
Variable n : nat.
Hypothesis Hn : 2 <= n.
Notation rx := (rx n).
Notation g := (g n).
Notation c0 := (c0 n).
Notation c1 := (c1 n).

Definition andz (x z : list bool) (i : nat) : bool :=
  forallb (fun j => Bool.eqb (bit x j) (bit z j)) (seq 0 (S i)).
Lemma andz_S x z i : andz x z (S i) = andz x z i && Bool.eqb (bit x (S i)) (bit z (S i)).
Proof.
  unfold andz. rewrite (seq_S (S i) 0), forallb_app. simpl forallb at 2. now rewrite andb_true_r.
Qed.
Lemma andz_0 x z : andz x z 0 = Bool.eqb (bit x 0) (bit z 0).
Proof. unfold andz. simpl. now rewrite andb_true_r. Qed.

Definition ebits (x z : list bool) (gk : nat) (c0v c1v : bool) (q : nat) : bool :=
  if q <? n then bit x (n - 1 - q)
  else if q <? 2 * n - 1 then (q - n <? gk) && andz x z (q - n + 1)
  else if q =? 2 * n - 1 then c0v else if q =? 2 * n then c1v else false.
Definition Eg (x z : list bool) (gk : nat) (c0v c1v : bool) : asg := mk (ebits x z gk c0v c1v) (2 * n + 1).
Definition E (x : list bool) (c0v c1v : bool) : asg := Eg x [] 0 c0v c1v.

Lemma get_Eg x z gk c0v c1v q : get (Eg x z gk c0v c1v) q = ebits x z gk c0v c1v q.
Proof.
  unfold Eg. rewrite get_mk. destruct (Nat.ltb_spec q (2 * n + 1)); auto.
  unfold ebits. destruct (Nat.ltb_spec q n); [lia|]. destruct (Nat.ltb_spec q (2 * n - 1)); [lia|].
  destruct (Nat.eqb_spec q (2 * n - 1)); [lia|]. destruct (Nat.eqb_spec q (2 * n)); [lia|]. reflexivity.
Qed.
Lemma Eg_ext x z gk c0v c1v x' z' gk' c0v' c1v' :
  (forall q, ebits x z gk c0v c1v q = ebits x' z' gk' c0v' c1v' q) -> Eg x z gk c0v c1v = Eg x' z' gk' c0v' c1v'.
Proof. intros H. apply asg_ext. intros q. rewrite !get_Eg. apply H. Qed.
Lemma asg_is_Eg b x z gk c0v c1v : (forall q, get b q = ebits x z gk c0v c1v q) -> b = Eg x z gk c0v c1v.
Proof. intros H. apply asg_ext. intros q. rewrite get_Eg. apply H. Qed.

Lemma Eg_0_z x z z' c0v c1v : Eg x z 0 c0v c1v = Eg x z' 0 c0v c1v.
Proof.
  apply Eg_ext. intros q. unfold ebits. destruct (q <? n); reflexivity.
Qed.

(* reading the registers *)
Lemma get_rx x z gk c0v c1v j : j < n -> get (Eg x z gk c0v c1v) (rx j) = bit x j.
Proof.
  intros Hj. rewrite get_Eg. unfold ebits, FnPointsModel.rx.
  rewrite (proj2 (Nat.ltb_lt _ _)) by lia. f_equal. lia.
Qed.
Lemma get_g x z gk c0v c1v k : k < n - 1 -> get (Eg x z gk c0v c1v) (g k) = (k <? gk) && andz x z (k + 1).
Proof.
  intros Hk. rewrite get_Eg. unfold ebits, FnPointsModel.g.
  rewrite (proj2 (Nat.ltb_ge _ _)) by lia. rewrite (proj2 (Nat.ltb_lt (n + k) _)) by lia.
  replace (n + k - n) with k by lia. reflexivity.
Qed.
Lemma get_c0 x z gk c0v c1v : get (Eg x z gk c0v c1v) c0 = c0v.
Proof.
  rewrite get_Eg. unfold ebits, FnPointsModel.c0.
  rewrite (proj2 (Nat.ltb_ge _ _)) by lia. rewrite (proj2 (Nat.ltb_ge (2 * n - 1) _)) by lia.
  now rewrite Nat.eqb_refl.
Qed.
Lemma get_c1 x z gk c0v c1v : get (Eg x z gk c0v c1v) c1 = c1v.
Proof.
  rewrite get_Eg. unfold ebits, FnPointsModel.c1.
  rewrite (proj2 (Nat.ltb_ge _ _)) by lia. rewrite (proj2 (Nat.ltb_ge (2 * n) _)) by lia.
  rewrite (proj2 (Nat.eqb_neq _ _)) by lia. now rewrite Nat.eqb_refl.
Qed.

(* writing the flags *)
Lemma upd_c1 x z gk c0v c1v v : upd (Eg x z gk c0v c1v) c1 v = Eg x z gk c0v v.
Proof.
  apply asg_is_Eg. intros q. destruct (Nat.eq_dec q c1) as [->|H].
  - rewrite get_upd_same. symmetry. rewrite <- get_Eg. apply get_c1.
  - rewrite get_upd_other, get_Eg by auto. unfold ebits, FnPointsModel.c1 in *.
    destruct (q <? n); auto. destruct (q <? 2 * n - 1); auto. destruct (q =? 2 * n - 1); auto.
    now rewrite (proj2 (Nat.eqb_neq q (2 * n))) by lia.
Qed.
Lemma flip_c1 x z gk c0v c1v : flipq c1 (Eg x z gk c0v c1v) = Eg x z gk c0v (negb c1v).
Proof. unfold flipq. now rewrite get_c1, upd_c1. Qed.
Lemma flip_c0 x z gk c0v c1v : flipq c0 (Eg x z gk c0v c1v) = Eg x z gk (negb c0v) c1v.
Proof.
  apply asg_is_Eg. intros q. rewrite get_flipq, get_c0.
  destruct (Nat.eqb_spec q c0) as [->|H].
  - symmetry. rewrite <- get_Eg. apply get_c0.
  - rewrite get_Eg. unfold ebits, FnPointsModel.c0 in *.
    destruct (q <? n); auto. destruct (q <? 2 * n - 1); auto.
    now rewrite (proj2 (Nat.eqb_neq q (2 * n - 1))) by lia.
Qed.

(* ---------- the CX fan of the generator move ---------- *)
Definition fan (z0 z : list bool) (js : list nat) : list fgate :=
  flat_map (fun j => if xorb (bit z0 j) (bit z j) then [FCX c1 (rx j)] else []) js.
Lemma fan_off z0 z js b : get b c1 = false -> cls (fan z0 z js) b = b.
Proof.
  induction js as [|j js IH]; intros H. reflexivity.
  unfold fan in *. cbn [flat_map]. rewrite cls_app.
  assert (F : cls (if xorb (bit z0 j) (bit z j) then [FCX c1 (rx j)] else []) b = b).
  { destruct (xorb (bit z0 j) (bit z j)); unfold cls; simpl; auto. now rewrite H. }
  rewrite F. now apply IH.
Qed.
Definition fanx (z0 z : list bool) (js : list nat) (q : nat) : bool :=
  fold_right (fun j acc => xorb ((rx j =? q) && xorb (bit z0 j) (bit z j)) acc) false js.
Lemma fan_on z0 z js : (forall j, In j js -> j < n) -> forall b, get b c1 = true ->
  forall q, get (cls (fan z0 z js) b) q = xorb (get b q) (fanx z0 z js q).
Proof.
  induction js as [|j js IH]; intros Hjs b H q. simpl. now rewrite xorb_false_r.
  unfold fan in *. cbn [flat_map]. rewrite cls_app.
  assert (Hj : j < n) by (apply Hjs; now left).
  assert (Hc : rx j <> c1) by (unfold FnPointsModel.rx, FnPointsModel.c1; lia).
  cbn [fanx fold_right].
  destruct (xorb (bit z0 j) (bit z j)) eqn:D.
  - unfold cls at 2. simpl. rewrite H.
    rewrite IH; [|intros; apply Hjs; now right|rewrite flq_other; auto].
    rewrite get_flipq. rewrite andb_true_r. rewrite (Nat.eqb_sym (rx j) q).
    destruct (Nat.eqb_spec q (rx j)) as [->|Hq].
    + unfold fanx. match goal with |- context [fold_right ?f ?a ?l] => generalize (fold_right f a l) end.
      intros v. destruct (get b (rx j)), v; reflexivity.
    + unfold fanx. now rewrite xorb_false_l.
  - unfold cls at 2. simpl. rewrite IH by (auto; intros; apply Hjs; now right).
    rewrite andb_false_r. unfold fanx. now rewrite xorb_false_l.
Qed.
Lemma fanx_seq z0 z q : forall r a, a + r <= n ->
  fanx z0 z (seq a r) q = (q <? n) && (a <=? n - 1 - q) && (n - 1 - q <? a + r)
                          && xorb (bit z0 (n - 1 - q)) (bit z (n - 1 - q)).
Proof.
  induction r as [|r IH]; intros a Ha.
  - cbn [seq fanx fold_right].
    destruct (Nat.ltb_spec q n); destruct (Nat.leb_spec a (n - 1 - q)); destruct (Nat.ltb_spec (n - 1 - q) (a + 0));
      try reflexivity; lia.
  - cbn [seq]. unfold fanx. cbn [fold_right]. fold (fanx z0 z (seq (S a) r) q). rewrite IH by lia.
    unfold FnPointsModel.rx.
    destruct (Nat.eqb_spec (n - 1 - a) q) as [Eq|Eq].
    + assert (Ea : n - 1 - q = a) by lia. rewrite Ea.
      rewrite (proj2 (Nat.ltb_lt q n)) by lia. rewrite Nat.leb_refl.
      rewrite (proj2 (Nat.leb_gt (S a) a)) by lia. rewrite (proj2 (Nat.ltb_lt a (a + S r))) by lia.
      cbn [andb]. now rewrite xorb_false_r.
    + cbn [andb]. rewrite xorb_false_l.
      destruct (Nat.ltb_spec q n); cbn [andb]; auto.
      destruct (Nat.leb_spec (S a) (n - 1 - q)); destruct (Nat.leb_spec a (n - 1 - q)); try lia; cbn [andb]; auto.
      replace (a + S r) with (S a + r) by lia. reflexivity.
Qed.

(* generator move:  X c1 ; fan ; CX c1 c0 ; X c1 *)
Definition genblock (z0 z : list bool) : list fgate :=
  [FX c1] ++ fan z0 z (seq 0 n) ++ [FCX c1 c0; FX c1].
Lemma genblock_saved z0 z x c0v : cls (genblock z0 z) (E x c0v true) = E x c0v true.
Proof.
  unfold genblock. rewrite !cls_app. unfold cls at 3. cbn [fold_left fperm]. unfold E. rewrite flip_c1. cbn [negb].
  rewrite fan_off by apply get_c1.
  unfold cls. cbn [fold_left fperm]. rewrite get_c1, flip_c1. reflexivity.
Qed.
Lemma genblock_gen z0 z c0v : cls (genblock z0 z) (E z0 c0v false) = E z (negb c0v) false.
Proof.
  unfold genblock. rewrite !cls_app. unfold cls at 3. cbn [fold_left fperm]. unfold E. rewrite flip_c1. cbn [negb].
  assert (F : cls (fan z0 z (seq 0 n)) (Eg z0 [] 0 c0v true) = Eg z [] 0 c0v true).
  { apply asg_is_Eg. intros q.
    rewrite fan_on; [|intros j Hj; apply in_seq in Hj; lia|apply get_c1].
    rewrite fanx_seq by lia. rewrite get_Eg. unfold ebits.
    destruct (Nat.ltb_spec q n); cbn [andb].
    - rewrite (proj2 (Nat.ltb_lt (n - 1 - q) (0 + n))) by lia. rewrite (proj2 (Nat.leb_le 0 (n - 1 - q))) by lia. cbn [andb].
      destruct (bit z0 (n - 1 - q)), (bit z (n - 1 - q)); reflexivity.
    - now rewrite xorb_false_r. }
  rewrite F. unfold cls. cbn [fold_left fperm]. rewrite get_c1, flip_c0, flip_c1. reflexivity.
Qed.

(* ---------- the comparison ladder ---------- *)
Lemma flipq_comm q t b : q <> t -> flipq q (flipq t b) = flipq t (flipq q b).
Proof.
  intros H. apply asg_ext. intros x. rewrite !get_flipq.
  destruct (Nat.eq_dec x q) as [Eq|Hq]; destruct (Nat.eq_dec x t) as [Et|Ht]; subst; try congruence.
  - now rewrite Nat.eqb_refl, (proj2 (Nat.eqb_neq q t)) by auto.
  - now rewrite Nat.eqb_refl, (proj2 (Nat.eqb_neq t q)) by auto.
  - now rewrite (proj2 (Nat.eqb_neq x q)), (proj2 (Nat.eqb_neq x t)) by auto.
Qed.

(* a Toffoli with prescribed control polarities, as obtained by conjugating with X gates *)
Definition ccxp (a : nat) (pa : bool) (b' : nat) (pb : bool) (t : nat) (b : asg) : asg :=
  if Bool.eqb (get b a) pa && Bool.eqb (get b b') pb then flipq t b else b.
Lemma ccxp_true a b' t b : fperm (FCCX a b' t) b = ccxp a true b' true t b.
Proof. unfold ccxp. simpl. now destruct (get b a), (get b b'). Qed.
Lemma ccxp_conj_a a pa b' pb t b : a <> b' -> a <> t ->
  flipq a (ccxp a pa b' pb t (flipq a b)) = ccxp a (negb pa) b' pb t b.
Proof.
  intros Hab Hat. unfold ccxp. rewrite flq_same, flq_other by auto.
  replace (Bool.eqb (negb (get b a)) pa) with (Bool.eqb (get b a) (negb pa)) by (destruct (get b a), pa; reflexivity).
  destruct (Bool.eqb (get b a) (negb pa) && Bool.eqb (get b b') pb).
  - rewrite (flipq_comm a t) by auto. now rewrite flipq_flipq.
  - apply flipq_flipq.
Qed.
Lemma ccxp_conj_b a pa b' pb t b : a <> b' -> b' <> t ->
  flipq b' (ccxp a pa b' pb t (flipq b' b)) = ccxp a pa b' (negb pb) t b.
Proof.
  intros Hab Hbt. unfold ccxp. rewrite flq_same, flq_other by auto.
  replace (Bool.eqb (negb (get b b')) pb) with (Bool.eqb (get b b') (negb pb)) by (destruct (get b b'), pb; reflexivity).
  destruct (Bool.eqb (get b a) pa && Bool.eqb (get b b') (negb pb)).
  - rewrite (flipq_comm b' t) by auto. now rewrite flipq_flipq.
  - apply flipq_flipq.
Qed.

Definition headblock (z : list bool) : list fgate := ff n z ++ [FCCX (rx 0) (rx 1) (g 0)] ++ ff n z.
Lemma headblock_perm z b : cls (headblock z) b = ccxp (rx 0) (bit z 0) (rx 1) (bit z 1) (g 0) b.
Proof.
  assert (R01 : rx 0 <> rx 1) by (unfold FnPointsModel.rx; lia).
  assert (R0g : rx 0 <> g 0) by (unfold FnPointsModel.rx, FnPointsModel.g; lia).
  assert (R1g : rx 1 <> g 0) by (unfold FnPointsModel.rx, FnPointsModel.g; lia).
  unfold headblock, ff. destruct (bit z 0), (bit z 1); unfold cls; cbn [app fold_left]; rewrite ccxp_true.
  - reflexivity.
  - cbn [fperm]. now rewrite ccxp_conj_b.
  - cbn [fperm]. now rewrite ccxp_conj_a.
  - cbn [fperm]. rewrite (flipq_comm (rx 1) (rx 0)) by auto.
    rewrite ccxp_conj_b by auto. now rewrite ccxp_conj_a.
Qed.
Lemma ladder_perm z k b : 2 <= k -> k < n ->
  cls (ladder_step n z k) b = ccxp (rx k) (bit z k) (g (k - 2)) true (g (k - 1)) b.
Proof.
  intros H2 Hk.
  assert (A : rx k <> g (k - 2)) by (unfold FnPointsModel.rx, FnPointsModel.g; lia).
  assert (B : rx k <> g (k - 1)) by (unfold FnPointsModel.rx, FnPointsModel.g; lia).
  unfold ladder_step. destruct (bit z k); unfold cls; cbn [app fold_left]; rewrite ccxp_true.
  - reflexivity.
  - cbn [fperm]. now rewrite ccxp_conj_a.
Qed.

Lemma Eg_step x z k c0v c1v : k < n - 1 ->
  Eg x z (S k) c0v c1v = if andz x z (k + 1) then flipq (g k) (Eg x z k c0v c1v) else Eg x z k c0v c1v.
Proof.
  intros Hk. symmetry. apply asg_is_Eg. intros q.
  destruct (Nat.eq_dec q (g k)) as [->|Hq].
  - rewrite <- get_Eg, get_g by auto. rewrite (proj2 (Nat.ltb_lt k (S k))) by lia. simpl.
    destruct (andz x z (k + 1)) eqn:A.
    + rewrite flq_same, get_g by auto. now rewrite Nat.ltb_irrefl.
    + rewrite get_g by auto. now rewrite Nat.ltb_irrefl.
  - assert (Eb : get (Eg x z k c0v c1v) q = ebits x z (S k) c0v c1v q).
    { rewrite get_Eg. unfold ebits. destruct (Nat.ltb_spec q n); auto. destruct (Nat.ltb_spec q (2 * n - 1)); auto.
      unfold FnPointsModel.g in Hq.
      destruct (Nat.ltb_spec (q - n) k); destruct (Nat.ltb_spec (q - n) (S k)); auto; lia. }
    destruct (andz x z (k + 1)); [rewrite flq_other by auto|]; exact Eb.
Qed.

Lemma tog_up x z k c0v c1v : k < n - 1 ->
  (if andz x z (k + 1) then flipq (g k) (Eg x z k c0v c1v) else Eg x z k c0v c1v) = Eg x z (S k) c0v c1v.
Proof. intros H. now rewrite (Eg_step x z k). Qed.
Lemma tog_down x z k c0v c1v : k < n - 1 ->
  (if andz x z (k + 1) then flipq (g k) (Eg x z (S k) c0v c1v) else Eg x z (S k) c0v c1v) = Eg x z k c0v c1v.
Proof.
  intros H. rewrite (Eg_step x z k) by auto. destruct (andz x z (k + 1)); auto. apply flipq_flipq.
Qed.

Lemma head_up x z c0v c1v : cls (headblock z) (Eg x z 0 c0v c1v) = Eg x z 1 c0v c1v.
Proof.
  rewrite headblock_perm. unfold ccxp. rewrite !get_rx by lia.
  rewrite <- (tog_up x z 0) by lia. simpl. rewrite andz_S, andz_0. reflexivity.
Qed.
Lemma head_down x z c0v c1v : cls (headblock z) (Eg x z 1 c0v c1v) = Eg x z 0 c0v c1v.
Proof.
  rewrite headblock_perm. unfold ccxp. rewrite !get_rx by lia.
  rewrite <- (tog_down x z 0) by lia. simpl. rewrite andz_S, andz_0. reflexivity.
Qed.
Lemma ladder_cond x z k gk c0v c1v : 2 <= k -> k < n -> k - 2 < gk ->
  Bool.eqb (get (Eg x z gk c0v c1v) (rx k)) (bit z k) && Bool.eqb (get (Eg x z gk c0v c1v) (g (k - 2))) true
  = andz x z (k - 1 + 1).
Proof.
  intros H2 Hk Hg. rewrite get_rx, get_g by lia. rewrite (proj2 (Nat.ltb_lt (k - 2) gk)) by lia. simpl.
  replace (k - 1 + 1) with (S (k - 2 + 1)) by lia. rewrite andz_S.
  replace (S (k - 2 + 1)) with k by lia.
  destruct (andz x z (k - 2 + 1)), (Bool.eqb (bit x k) (bit z k)); reflexivity.
Qed.
Lemma ladder_up x z k c0v c1v : 2 <= k -> k < n ->
  cls (ladder_step n z k) (Eg x z (k - 1) c0v c1v) = Eg x z k c0v c1v.
Proof.
  intros H2 Hk. rewrite ladder_perm by auto. unfold ccxp. rewrite ladder_cond by lia.
  replace (Eg x z k c0v c1v) with (Eg x z (S (k - 1)) c0v c1v) by (f_equal; lia).
  apply tog_up. lia.
Qed.
Lemma ladder_down x z k c0v c1v : 2 <= k -> k < n ->
  cls (ladder_step n z k) (Eg x z k c0v c1v) = Eg x z (k - 1) c0v c1v.
Proof.
  intros H2 Hk. rewrite ladder_perm by auto. unfold ccxp. rewrite ladder_cond by lia.
  replace (Eg x z k c0v c1v) with (Eg x z (S (k - 1)) c0v c1v) by (f_equal; lia).
  apply tog_down. lia.
Qed.

Lemma compute_chain x z c0v c1v : forall r k, 1 <= k -> k + r <= n - 1 ->
  cls (flat_map (ladder_step n z) (seq (S k) r)) (Eg x z k c0v c1v) = Eg x z (k + r) c0v c1v.
Proof.
  induction r as [|r IH]; intros k H1 Hk. simpl. now rewrite Nat.add_0_r.
  cbn [seq flat_map]. rewrite cls_app.
  replace (Eg x z k c0v c1v) with (Eg x z (S k - 1) c0v c1v) by (f_equal; lia).
  rewrite ladder_up by lia. rewrite IH by lia. f_equal. lia.
Qed.
Lemma uncompute_chain x z c0v c1v k : 1 <= k -> forall r, k + r <= n - 1 ->
  cls (flat_map (ladder_step n z) (rev (seq (S k) r))) (Eg x z (k + r) c0v c1v) = Eg x z k c0v c1v.
Proof.
  intros H1. induction r as [|r IH]; intros Hk. simpl. now rewrite Nat.add_0_r.
  rewrite seq_S, rev_app_distr. cbn [rev app flat_map]. rewrite cls_app.
  replace (k + S r) with (S k + r) by lia.
  rewrite ladder_down by lia. replace (S k + r - 1) with (k + r) by lia. apply IH. lia.
Qed.

Definition resetblock (z : list bool) : list fgate :=
  headblock z ++ flat_map (ladder_step n z) (seq 2 (n - 2)) ++ [FCX (g (n - 2)) c0]
  ++ flat_map (ladder_step n z) (rev (seq 2 (n - 2))) ++ headblock z.
Definition eqx (x z : list bool) : bool := andz x z (n - 1).

Lemma reset_E x z c0v c1v : cls (resetblock z) (E x c0v c1v) = E x (xorb c0v (eqx x z)) c1v.
Proof.
  unfold resetblock, E. rewrite (Eg_0_z x [] z). rewrite !cls_app.
  rewrite head_up. rewrite (compute_chain x z c0v c1v (n - 2) 1) by lia.
  replace (1 + (n - 2)) with (n - 1) by lia.
  unfold cls at 3. cbn [fold_left fperm]. rewrite get_g by lia.
  rewrite (proj2 (Nat.ltb_lt (n - 2) (n - 1))) by lia. replace (n - 2 + 1) with (n - 1) by lia. simpl.
  fold (eqx x z).
  assert (F : (if eqx x z then flipq c0 (Eg x z (n - 1) c0v c1v) else Eg x z (n - 1) c0v c1v)
              = Eg x z (n - 1) (xorb c0v (eqx x z)) c1v).
  { destruct (eqx x z). rewrite flip_c0. now rewrite xorb_true_r. now rewrite xorb_false_r. }
  rewrite F.
  replace (Eg x z (n - 1) (xorb c0v (eqx x z)) c1v) with (Eg x z (1 + (n - 2)) (xorb c0v (eqx x z)) c1v)
    by (f_equal; lia).
  rewrite (uncompute_chain x z _ c1v 1) by lia. rewrite head_down. apply Eg_0_z.
Qed.

Lemma point_blocks z0 z idx s : point n z0 z idx s = genblock z0 z ++ [FCU idx s c0 c1] ++ resetblock z.
Proof.
  unfold point, genblock, resetblock, headblock, fan. rewrite <- !app_assoc. reflexivity.
Qed.
End Bits.
