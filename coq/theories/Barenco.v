From Coq Require Import Reals Lra List Bool Arith Lia NArith FunctionalExtensionality.
From Coquelicot Require Import Complex.
From QV Require Import Sem Mat2 Toff2 Chain.
Import ListNotations.
Open Scope R_scope.

(* Barenco Lemma 7.5 step, pointwise: CV ; M ; CV^dag ; M ; CCV  =  controlled-U on (rest /\ c) *)
Section Barenco.
Variables c t : nat.
Hypothesis c_t : c <> t.
Variable R : asg -> bool.                  (* "all remaining controls match" *)
Hypothesis R_c : forall b v, R (upd b c v) = R b.
Hypothesis R_t : forall b v, R (upd b t v) = R b.
Variables U V Vd : mat2.
Hypothesis VV : mmul V V = U.
Hypothesis VVd : mmul V Vd = I2.
Hypothesis VdV : mmul Vd V = I2.

Definition mpow (m : mat2) (x : bool) : mat2 := if x then m else I2.
Definition CV  (psi : state) : state := appf (fun b => mpow V (get b c)) t psi.
Definition CVd (psi : state) : state := appf (fun b => mpow Vd (get b c)) t psi.
Definition CCV (psi : state) : state := appf (fun b => mpow V (R b)) t psi.      (* inductive hypothesis: V on rest *)
Definition pi (b : asg) : asg := if R b then flipq c b else b.
Definition M (psi : state) : state := fun b => psi (pi b).                       (* MCX rest -> c *)

Lemma flipq_upd_comm q r b v : q <> r -> flipq q (upd b r v) = upd (flipq q b) r v.
Proof. intros H. unfold flipq. rewrite get_upd_other by auto. apply upd_comm. auto. Qed.
Lemma pi_upd_t b v : pi (upd b t v) = upd (pi b) t v.
Proof. unfold pi. rewrite R_t. destruct (R b); auto. now apply flipq_upd_comm. Qed.
Lemma R_pi b : R (pi b) = R b.
Proof. unfold pi. destruct (R b) eqn:E; auto. unfold flipq. now rewrite R_c. Qed.
Lemma pi_pi b : pi (pi b) = b.
Proof.
  unfold pi at 1. rewrite R_pi. unfold pi. destruct (R b); auto.
  unfold flipq. rewrite get_upd_same, upd_upd, negb_involutive. apply upd_get.
Qed.
Lemma get_pi_c b : get (pi b) c = xorb (get b c) (R b).
Proof.
  unfold pi. destruct (R b). unfold flipq. rewrite get_upd_same. now destruct (get b c).
  now rewrite xorb_false_r.
Qed.
Lemma get_pi_t b : get (pi b) t = get b t.
Proof. unfold pi. destruct (R b); auto. unfold flipq. apply get_upd_other. auto. Qed.

(* pushing an operator on t through the permutation *)
Lemma appf_M f psi : appf f t (M psi) = M (appf (fun b => f (pi b)) t psi).
Proof.
  apply functional_extensionality; intros b. unfold appf, M, app1.
  rewrite !pi_upd_t, get_pi_t, pi_pi. reflexivity.
Qed.
Lemma M_M psi : M (M psi) = psi.
Proof. apply functional_extensionality; intros b. unfold M. now rewrite pi_pi. Qed.

Theorem barenco_step psi :
  CCV (M (CVd (M (CV psi)))) = appf (fun b => mpow U (R b && get b c)) t psi.
Proof.
  unfold CVd. rewrite appf_M, M_M. unfold CV, CCV.
  rewrite !appf_appf.
  - f_equal. apply functional_extensionality; intros b.
    rewrite get_pi_c. destruct (R b), (get b c); simpl;
    rewrite ?mmul_I2_l, ?mmul_I2_r; auto.
  - intros b v. now rewrite get_upd_other.
  - intros b v. rewrite pi_upd_t, !get_upd_other by auto. reflexivity.
Qed.
End Barenco.
Print Assumptions barenco_step.
