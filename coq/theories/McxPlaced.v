(* C05: V-chain theorems for ARBITRARY qubit placements (bounded distinctness hypotheses), the behaviour of `relabel`
   on the model, and the LinearMcx theorem: for k >= 6 controls the four alternating V-chains of McxModel.linear_mcx
   are the exact multi-controlled X, restoring the borrowed ancilla and every control, for every input state. *)
From Coq Require Import Reals Lra List Bool Arith Lia NArith FunctionalExtensionality.
From Coquelicot Require Import Complex.
From QV Require Import Sem Mat2 Toff2 Chain Vchain RelPhase McxModel.
Import ListNotations.
Open Scope nat_scope.

(* ---------- the general branch on an arbitrary placement ---------- *)
Section Placed.
Variables cq aq : nat -> nat.
Variable tq : nat.
Variable j : nat.

Definition chain_gates_p : list sgate :=
  flat_map (fun i => toffoli CRight (cq (j + 2 - i)) (aq (j - i)) (aq (j + 1 - i))) (seq 1 j)
  ++ toffoli CNone (cq 0) (cq 1) (aq 0)
  ++ flat_map (fun i => toffoli CLeft (cq (2 + i)) (aq i) (aq (S i))) (seq 0 j).
Definition first1 (rel second : bool) : list sgate :=
  if rel then toffoli (if second then CLeft else CRight) (cq (j + 2)) (aq j) tq
  else [SMCX [cq (j + 2); aq j] tq].
Definition general1_p (rel : bool) : list sgate :=
  first1 rel false ++ chain_gates_p ++ first1 rel true ++ chain_gates_p.
End Placed.

Lemma chain_gates_p_chain cq aq : forall m,
  flat_map s2t (chain_gates_p cq aq m) = chain cq aq m.
Proof.
  unfold chain_gates_p. induction m as [|m IH].
  - cbn [seq flat_map app]. rewrite app_nil_r. reflexivity.
  - set (fR' := fun i => toffoli CRight (cq (S m + 2 - i)) (aq (S m - i)) (aq (S m + 1 - i))).
    set (fR := fun i => toffoli CRight (cq (m + 2 - i)) (aq (m - i)) (aq (m + 1 - i))).
    set (fL := fun i => toffoli CLeft (cq (2 + i)) (aq i) (aq (S i))).
    assert (HR : flat_map fR' (seq 1 (S m))
                 = toffoli CRight (cq (S (S m))) (aq m) (aq (S m)) ++ flat_map fR (seq 1 m)).
    { cbn [seq flat_map]. f_equal.
      - unfold fR'. replace (S m + 2 - 1) with (S (S m)) by lia. replace (S m - 1) with m by lia.
        replace (S m + 1 - 1) with (S m) by lia. reflexivity.
      - rewrite flat_map_seq_shift. apply flat_map_ext. intros i. unfold fR', fR.
        replace (S m + 2 - S i) with (m + 2 - i) by lia.
        replace (S m - S i) with (m - i) by lia. replace (S m + 1 - S i) with (m + 1 - i) by lia.
        reflexivity. }
    assert (HL : flat_map fL (seq 0 (S m))
                 = flat_map fL (seq 0 m) ++ toffoli CLeft (cq (S (S m))) (aq m) (aq (S m))).
    { rewrite seq_S, flat_map_app. cbn [flat_map]. rewrite app_nil_r. reflexivity. }
    rewrite HR, HL. cbn [chain]. rewrite <- IH. fold fR fL.
    rewrite !flat_map_app, toffoli_R, toffoli_L. rewrite <- !app_assoc. reflexivity.
Qed.

Lemma chain_gates_p_tlike cq aq m : Forall tlike (chain_gates_p cq aq m).
Proof.
  unfold chain_gates_p. apply Forall_app; split; [|apply Forall_app; split].
  - induction (seq 1 m) as [|a l IHl]; cbn [flat_map]. constructor. apply Forall_app; split; auto. apply toffoli_tlike.
  - apply toffoli_tlike.
  - induction (seq 0 m) as [|a l IHl]; cbn [flat_map]. constructor. apply Forall_app; split; auto. apply toffoli_tlike.
Qed.
Lemma chain_gates_p_sem cq aq m psi : srun (chain_gates_p cq aq m) psi = trun (chain cq aq m) psi.
Proof. rewrite srun_trun by apply chain_gates_p_tlike. now rewrite chain_gates_p_chain. Qed.

(* relabel distributes over the model *)
Lemma relabel_toffoli l cn c0 c1 t :
  map (relabel l) (toffoli cn c0 c1 t) = toffoli cn (nth c0 l 0) (nth c1 l 0) (nth t l 0).
Proof. destruct cn; reflexivity. Qed.
Lemma relabel_chain l j :
  map (relabel l) (chain_gates j) = chain_gates_p (fun i => nth i l 0) (fun i => nth (j + 3 + i) l 0) j.
Proof.
  unfold chain_gates, TRs, TLs, chain_gates_p. rewrite !map_app, relabel_toffoli. unfold cq0, aq0.
  f_equal; [|f_equal].
  - rewrite flat_map_concat_map, concat_map, map_map, <- flat_map_concat_map.
    apply flat_map_ext. intros i. now rewrite relabel_toffoli.
  - rewrite flat_map_concat_map, concat_map, map_map, <- flat_map_concat_map.
    apply flat_map_ext. intros i. now rewrite relabel_toffoli.
Qed.
Lemma relabel_general1 l j rel :
  map (relabel l) (general j 1 rel false)
  = general1_p (fun i => nth i l 0) (fun i => nth (j + 3 + i) l 0) (nth (j + 3 + (j + 1)) l 0) j rel.
Proof.
  unfold general, general1_p, first_gate, first1. rewrite !map_app, !relabel_chain.
  unfold cq0, aq0. replace (j + 3 - 1) with (j + 2) by lia. replace (j + 1 - 1) with j by lia.
  destruct rel.
  - rewrite !relabel_toffoli. reflexivity.
  - unfold toffoli_mt, targets, fan_l, fan_r. cbn [seq map length Nat.sub app nth relabel].
    replace (j + 3 + (j + 1) + 0) with (j + 3 + (j + 1)) by lia. reflexivity.
Qed.

(* ---------- bounded hypotheses -> the global ones of Chain/Vchain by extension ---------- *)
Lemma forallb_flip l q b : ~ In q l -> forallb (fun c => get (flipq q b) c) l = forallb (fun c => get b c) l.
Proof.
  induction l as [|c l IH]; intros H; simpl; auto.
  rewrite flipq_get_other by (intro E; apply H; left; auto). f_equal. apply IH. intro E. apply H. now right.
Qed.
Lemma nodup_app_l {A} (l m : list A) : NoDup (l ++ m) -> NoDup l.
Proof. induction l as [|x l IH]; intros H. constructor. inversion H; subst. constructor. intro I; apply H2; apply in_or_app; now left. auto. Qed.
Lemma nodup_app_disj {A} (l m : list A) x : NoDup (l ++ m) -> In x l -> In x m -> False.
Proof.
  induction l as [|y l IH]; intros H I1 I2. contradiction. inversion H; subst. destruct I1 as [->|I1].
  - apply H2. apply in_or_app. now right.
  - eauto.
Qed.
Lemma nodup_app_r {A} (l m : list A) : NoDup (l ++ m) -> NoDup m.
Proof. induction l as [|x l IH]; intros H. exact H. inversion H; subst. auto. Qed.

Section Extend.
Variables cq aq : nat -> nat.
Variable tq j : nat.
Definition used_c := map cq (seq 0 (j + 3)).
Definition used_a := map aq (seq 0 (j + 1)).
Hypothesis ND : NoDup (used_c ++ used_a ++ [tq]).
Let M := S (list_max (used_c ++ used_a ++ [tq])).

Lemma used_lt q : In q (used_c ++ used_a ++ [tq]) -> q < M.
Proof.
  intros H. unfold M. assert (F : Forall (fun x => x <= list_max (used_c ++ used_a ++ [tq])) (used_c ++ used_a ++ [tq]))
    by (apply list_max_le; lia).
  rewrite Forall_forall in F. specialize (F q H). lia.
Qed.
Lemma in_c i : i < j + 3 -> In (cq i) (used_c ++ used_a ++ [tq]).
Proof. intros H. apply in_or_app. left. unfold used_c. apply in_map. apply in_seq. lia. Qed.
Lemma in_a i : i < j + 1 -> In (aq i) (used_c ++ used_a ++ [tq]).
Proof. intros H. apply in_or_app. right. apply in_or_app. left. unfold used_a. apply in_map. apply in_seq. lia. Qed.
Lemma in_t : In tq (used_c ++ used_a ++ [tq]).
Proof. apply in_or_app. right. apply in_or_app. right. now left. Qed.

Lemma nodup_map_inj {A} (f : nat -> A) n a b : NoDup (map f (seq 0 n)) -> a < n -> b < n -> f a = f b -> a = b.
Proof.
  intros H Ha Hb E.
  assert (Ha' : nth_error (map f (seq 0 n)) a = Some (f a)).
  { rewrite nth_error_map. rewrite (nth_error_nth' _ 0) by (rewrite seq_length; lia). now rewrite seq_nth by lia. }
  assert (Hb' : nth_error (map f (seq 0 n)) b = Some (f b)).
  { rewrite nth_error_map. rewrite (nth_error_nth' _ 0) by (rewrite seq_length; lia). now rewrite seq_nth by lia. }
  rewrite E in Ha'. rewrite <- Hb' in Ha'.
  apply (proj1 (NoDup_nth_error _) H) in Ha'; auto. rewrite map_length, seq_length. lia.
Qed.

Lemma c_inj a b : a < j + 3 -> b < j + 3 -> cq a = cq b -> a = b.
Proof. apply nodup_map_inj. apply nodup_app_l in ND. exact ND. Qed.
Lemma a_inj a b : a < j + 1 -> b < j + 1 -> aq a = aq b -> a = b.
Proof.
  apply nodup_map_inj. apply nodup_app_r in ND. apply nodup_app_l in ND. exact ND.
Qed.
Lemma c_a_ne a b : a < j + 3 -> b < j + 1 -> cq a <> aq b.
Proof.
  intros Ha Hb E. apply (nodup_app_disj _ _ (cq a) ND).
  - unfold used_c; apply in_map, in_seq; lia.
  - rewrite E; apply in_or_app; left; unfold used_a; apply in_map, in_seq; lia.
Qed.
Lemma t_c_ne a : a < j + 3 -> tq <> cq a.
Proof.
  intros Ha E. apply (nodup_app_disj _ _ tq ND).
  - rewrite E; unfold used_c; apply in_map, in_seq; lia.
  - apply in_or_app; right; now left.
Qed.
Lemma t_a_ne a : a < j + 1 -> tq <> aq a.
Proof.
  intros Ha E. assert (N2 : NoDup (used_a ++ [tq])) by (apply nodup_app_r in ND; exact ND).
  apply (nodup_app_disj _ _ tq N2).
  - rewrite E; unfold used_a; apply in_map, in_seq; lia.
  - now left.
Qed.

(* total placements that agree with cq/aq on the used range *)
Definition cqx (i : nat) := if i <? j + 3 then cq i else M + 2 * i.
Definition aqx (i : nat) := if i <? j + 1 then aq i else M + 2 * i + 1.
(* the same with the target as ancilla number j+1 (relative-phase chain) *)
Definition aqy (i : nat) := if i <? j + 1 then aq i else if i =? j + 1 then tq else M + 2 * i + 1.

Lemma cqx_aqx i i' : cqx i <> aqx i'.
Proof.
  unfold cqx, aqx. destruct (Nat.ltb_spec i (j + 3)), (Nat.ltb_spec i' (j + 1)).
  - now apply c_a_ne. - pose proof (used_lt _ (in_c i H)). lia.
  - pose proof (used_lt _ (in_a i' H0)). lia. - lia.
Qed.
Lemma aqx_inj i i' : aqx i = aqx i' -> i = i'.
Proof.
  unfold aqx. destruct (Nat.ltb_spec i (j + 1)), (Nat.ltb_spec i' (j + 1)); intros E.
  - now apply a_inj. - pose proof (used_lt _ (in_a i H)). lia.
  - pose proof (used_lt _ (in_a i' H0)). lia. - lia.
Qed.
Lemma tq_cqx i : tq <> cqx i.
Proof. unfold cqx. destruct (Nat.ltb_spec i (j + 3)). now apply t_c_ne. pose proof (used_lt _ in_t). lia. Qed.
Lemma tq_aqx i : tq <> aqx i.
Proof. unfold aqx. destruct (Nat.ltb_spec i (j + 1)). now apply t_a_ne. pose proof (used_lt _ in_t). lia. Qed.
Lemma cqx_aqy i i' : cqx i <> aqy i'.
Proof.
  unfold aqy. destruct (Nat.ltb_spec i' (j + 1)).
  - pose proof (cqx_aqx i i') as P. unfold aqx in P. destruct (Nat.ltb_spec i' (j + 1)); [exact P | lia].
  - destruct (Nat.eqb_spec i' (j + 1)).
    + intro E. apply (tq_cqx i). auto.
    + pose proof (cqx_aqx i i') as P. unfold aqx in P. destruct (Nat.ltb_spec i' (j + 1)); [lia | exact P].
Qed.
Lemma aqy_inj i i' : aqy i = aqy i' -> i = i'.
Proof.
  unfold aqy. destruct (Nat.ltb_spec i (j + 1)), (Nat.ltb_spec i' (j + 1)); intros E.
  - now apply a_inj.
  - destruct (Nat.eqb_spec i' (j + 1)). exfalso. apply (t_a_ne i); auto. pose proof (used_lt _ (in_a i H)). lia.
  - destruct (Nat.eqb_spec i (j + 1)). exfalso. apply (t_a_ne i'); auto. pose proof (used_lt _ (in_a i' H0)). lia.
  - destruct (Nat.eqb_spec i (j + 1)), (Nat.eqb_spec i' (j + 1)); try lia.
    + pose proof (used_lt _ in_t). lia. + pose proof (used_lt _ in_t). lia.
Qed.

Lemma chain_x : chain cq aq j = chain cqx aqx j.
Proof.
  apply chain_ext.
  - intros i Hi. unfold cqx. destruct (Nat.ltb_spec i (j + 3)); auto; lia.
  - intros i Hi. unfold aqx. destruct (Nat.ltb_spec i (j + 1)); auto; lia.
Qed.
Lemma chain_y : chain cq aq j = chain cqx aqy j.
Proof.
  apply chain_ext.
  - intros i Hi. unfold cqx. destruct (Nat.ltb_spec i (j + 3)); auto; lia.
  - intros i Hi. unfold aqy. destruct (Nat.ltb_spec i (j + 1)); auto; lia.
Qed.

Definition all_c (b : asg) : bool := forallb (fun c => get b c) used_c.

Lemma allc_cqx : forall m, m < j + 3 -> forall b, allc cqx m b = forallb (fun c => get b c) (map cq (seq 0 (S m))).
Proof.
  induction m as [|m IH]; intros Hm b.
  - simpl. unfold cqx. destruct (Nat.ltb_spec 0 (j + 3)); try lia. now rewrite andb_true_r.
  - cbn [allc]. rewrite IH by lia. rewrite (seq_S (S m)), map_app, forallb_app. simpl.
    unfold cqx. destruct (Nat.ltb_spec (S m) (j + 3)); try lia. now rewrite andb_true_r.
Qed.

(* exact mode *)
Theorem general1_exact psi b :
  srun (general1_p cq aq tq j false) psi b = psi (if all_c b then flipq tq b else b).
Proof.
  unfold general1_p, first1. cbn [app]. rewrite srun_cons, srun_app, srun_cons.
  rewrite !chain_gates_p_sem, chain_x, !smcx2_ccx.
  replace (cq (j + 2)) with (cqx (S (S j))) by (unfold cqx; destruct (Nat.ltb_spec (S (S j)) (j + 3)); [f_equal|]; lia).
  replace (aq j) with (aqx j) by (unfold aqx; destruct (Nat.ltb_spec j (j + 1)); [reflexivity|lia]).
  change (trun (chain cqx aqx j) (ccx (cqx (S (S j))) (aqx j) tq (trun (chain cqx aqx j) (ccx (cqx (S (S j))) (aqx j) tq psi))) b)
    with (round cqx aqx tq j (round cqx aqx tq j psi) b).
  rewrite (two_rounds cqx aqx tq cqx_aqx aqx_inj tq_cqx tq_aqx).
  unfold isX. rewrite (allc_cqx (S j)) by lia. unfold all_c, used_c.
  replace (j + 3) with (S (S (S j))) by lia.
  rewrite (seq_S (S (S j)) 0), map_app, forallb_app. cbn [map forallb Nat.add].
  assert (E : cqx (S (S j)) = cq (S (S j))) by (unfold cqx; destruct (Nat.ltb_spec (S (S j)) (j + 3)); [reflexivity|lia]).
  now rewrite E, andb_true_r.
Qed.

(* relative-phase mode: the sign reads the target only when every control but the last is set and the last is not *)
Definition zpred (b : asg) : bool := isZ cqx (S j) b.
Theorem general1_rel psi b :
  srun (general1_p cq aq tq j true) psi b =
  ((if zpred b then sgn (get b tq) else RtoC 1) * psi (if all_c b then flipq tq b else b))%C.
Proof.
  unfold general1_p, first1. rewrite !srun_app, !chain_gates_p_sem.
  rewrite !srun_trun by apply toffoli_tlike. rewrite toffoli_R, toffoli_L, chain_y.
  assert (E1 : cq (j + 2) = cqx (S (S j))) by (unfold cqx; destruct (Nat.ltb_spec (S (S j)) (j + 3)); [f_equal|]; lia).
  assert (E2 : aq j = aqy j) by (unfold aqy; destruct (Nat.ltb_spec j (j + 1)); [reflexivity|lia]).
  assert (E3 : tq = aqy (S j)).
  { unfold aqy. destruct (Nat.ltb_spec (S j) (j + 1)); try lia. destruct (Nat.eqb_spec (S j) (j + 1)); [reflexivity|lia]. }
  rewrite E1, E2.
  assert (C : forall phi, trun (chain cqx aqy (S j)) phi
              = trun (T_L (cqx (S (S j))) (aqy j) tq) (trun (chain cqx aqy j) (trun (T_R (cqx (S (S j))) (aqy j) tq) phi))).
  { intros phi. cbn [chain]. rewrite !trun_app, <- E3. reflexivity. }
  rewrite <- C.
  rewrite (relphase_spec cqx aqy cqx_aqy aqy_inj). rewrite <- E3.
  unfold zpred. f_equal. f_equal.
  unfold isX. rewrite (allc_cqx (S (S j))) by lia. unfold all_c, used_c.
  replace (j + 3) with (S (S (S j))) by lia. reflexivity.
Qed.

(* predicates do not read the target / any qubit outside the controls *)
Lemma all_c_flip q b : ~ In q used_c -> all_c (flipq q b) = all_c b.
Proof. intros H. unfold all_c. now apply forallb_flip. Qed.
Lemma allc_flip m q b : (forall i, i <= m -> q <> cqx i) -> allc cqx m (flipq q b) = allc cqx m b.
Proof.
  induction m as [|m IH]; intros H; simpl.
  - apply flipq_get_other. intro E. apply (H 0); auto.
  - rewrite IH by (intros; apply H; lia). f_equal. apply flipq_get_other. intro E. apply (H (S m)); auto.
Qed.
Lemma zpred_flip q b : ~ In q used_c -> zpred (flipq q b) = zpred b.
Proof.
  intros H. unfold zpred, isZ.
  assert (Q : forall i, i <= S (S j) -> q <> cqx i).
  { intros i Hi E. apply H. unfold used_c. rewrite E. unfold cqx. destruct (Nat.ltb_spec i (j + 3)); try lia.
    apply in_map, in_seq. lia. }
  rewrite allc_flip by (intros; apply Q; lia). f_equal. f_equal. apply flipq_get_other. intro E. apply (Q (S (S j))); auto.
Qed.
Lemma zpred_excl b : zpred b = true -> all_c b = false.
Proof.
  unfold zpred, isZ. intros H. apply andb_prop in H as [_ H]. apply negb_true_iff in H.
  unfold all_c, used_c. replace (j + 3) with (S (S (S j))) by lia.
  rewrite (seq_S (S (S j)) 0), map_app, forallb_app. cbn [map forallb Nat.add].
  assert (E : cqx (S (S j)) = cq (S (S j))) by (unfold cqx; destruct (Nat.ltb_spec (S (S j)) (j + 3)); [reflexivity|lia]).
  rewrite E in H. rewrite H. now rewrite andb_false_r.
Qed.
End Extend.
