(* Property C12 (plain UCGInitialize, and the UCG part of C01): induction over the levels of the disentangling circuit.
   level k f d = the multiplexer f on qubit k (matrix chosen by the other qubits) followed by the phases d, which is what
   UCGate(mux, up_to_diagonal=True) implements with d = conj(_get_diagonal()) (contract monitored on every run).
   If at every level the 2x2 matrices map each pair of children to the parent on the target bit (the statements of
   P_C12mx, monitored on every operator list built) and the next children are d * parent (what _apply_diagonal computes,
   monitored), then the n levels map the vector to (last child) * |t>: C12_levels_target.  The circuit returned is the
   inverse of these levels (Qiskit's inverse(); inverse theorems of C15).  The preserve option and UCGE are evaluated. *)
From Coq Require Import Reals List NArith.
From Coquelicot Require Import Complex.
From QV Require Import Sem Mat2 Chain UcgLevels.
From QV Require UcgPreserve.
Import ListNotations.

Theorem C12_level_step : forall (tb : nat -> bool) (k : nat) (f : asg -> mat2) (d : asg -> C) (c p : state),
  disentangles tb k f c p ->
  level k f d (lstate tb k c) = lstate tb (S k) (fun b => (d b * p b)%C).
Proof. exact level_step. Qed.
Print Assumptions C12_level_step.

Theorem C12_levels_target : forall (tb : nat -> bool) (n : nat) (ls : list ((asg -> mat2) * (asg -> C) * state)) (c : state),
  length ls = n -> chain_ok tb 0 ls c -> hi_zero n (last_children ls c) ->
  forall b, levels 0 ls c b = if N.eqb b (tidx tb n) then last_children ls c b else RtoC 0.
Proof. exact levels_target. Qed.
Print Assumptions C12_levels_target.

(* the preserve option: in preserve mode level k applies  f' b = if the qubits above k hold the target bits then (if the qubits below
   k do too then gp k else 1) else mux k b.  If (a) every mux k is the identity wherever the qubits above k spell a number below the
   target's and (b) gp k sends |0> to a multiple of |0> whenever target bit k is 1 - both consequences of the vector vanishing below
   the target index, checked on the matrices of every run - then every basis state below the target index is mapped to itself times
   the product of the carried phases and diagonal entries, for every number of qubits. *)
Theorem C12_preserve_below_target : forall (tb : nat -> bool) (n : nat) (ms : list ((asg -> mat2) * mat2 * (asg -> C))) (k h : nat)
  (b : asg) (s : C), (k + length ms <= n)%nat -> UcgPreserve.below_t tb n h b -> UcgPreserve.pres_ok tb n k ms ->
  levels k (UcgPreserve.plevels tb n k ms) (UcgPreserve.bs s b)
  = UcgPreserve.bs (s * UcgPreserve.pfac k (UcgPreserve.plevels tb n k ms) b)%C b.
Proof. exact UcgPreserve.preserve_below_target. Qed.
Print Assumptions C12_preserve_below_target.

(* any basis state on which every level's gate has a diagonal column stays itself up to the product of those entries and phases *)
Theorem C12_levels_keep_basis : forall (ls : list ((asg -> mat2) * (asg -> C) * state)) (k : nat) (s : C) (b : asg),
  UcgPreserve.cols_ok k ls b -> levels k ls (UcgPreserve.bs s b) = UcgPreserve.bs (s * UcgPreserve.pfac k ls b)%C b.
Proof. exact UcgPreserve.levels_keep_basis. Qed.
Print Assumptions C12_levels_keep_basis.

(* the collected factor is a phase: modulus one when every carried phase and every diagonal entry met has modulus one *)
Theorem C12_preserve_factor_unit : forall (ls : list ((asg -> mat2) * (asg -> C) * state)) (k : nat) (b : asg),
  UcgPreserve.unit_ok k ls b -> Cmod (UcgPreserve.pfac k ls b) = 1%R.
Proof. exact UcgPreserve.pfac_unit. Qed.
Print Assumptions C12_preserve_factor_unit.
