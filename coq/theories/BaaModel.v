(* C08: decision logic of the bounded-approximation search (qclib/state_preparation/util/baa.py).
   - search_best : model of _search_best (first maximum of saved CNOTs, then first minimum of the largest block, then
     first minimum of the accounted loss), executable on the logged leaves (losses as the exact rationals of the floats);
   - build : the tree construction over an ARBITRARY candidate oracle with the two acceptance guards of
     _build_approximation_tree; every node it contains respects the loss budget and saves CNOTs. *)
From Coq Require Import List Bool Arith ZArith QArith Lia.
Import ListNotations.

Record leaf := { saved : Z; depth : nat; loss : Q }.

(* Python's max(list, key) / min(list, key): FIRST extremal element *)
Fixpoint first_max_saved (l : list leaf) (best : Z) : Z :=
  match l with [] => best | x :: l' => first_max_saved l' (if (best <? saved x)%Z then saved x else best) end.
Fixpoint first_min_depth (l : list leaf) (best : nat) : nat :=
  match l with [] => best | x :: l' => first_min_depth l' (if (depth x <? best)%nat then depth x else best) end.
Fixpoint first_min_loss (l : list (nat * leaf)) (best : nat * leaf) : nat * leaf :=
  match l with [] => best | x :: l' => first_min_loss l' (if Qlt_le_dec (loss (snd x)) (loss (snd best)) then x else best) end.

Definition search_best (ls : list leaf) : option (nat * leaf) :=
  match ls with
  | [] => None
  | x :: _ =>
    let ms := first_max_saved ls (saved x) in
    let c1 := filter (fun p => (saved (snd p) =? ms)%Z) (combine (seq 0 (length ls)) ls) in
    match c1 with
    | [] => None
    | y :: _ =>
      let md := first_min_depth (map snd c1) (depth (snd y)) in
      let c2 := filter (fun p => (depth (snd p) =? md)%nat) c1 in
      match c2 with [] => None | z :: c2' => Some (first_min_loss c2' z) end
    end
  end.

Lemma first_min_loss_in l : forall best, In (first_min_loss l best) (best :: l).
Proof.
  induction l as [|x l IH]; intros best; simpl. auto.
  destruct (Qlt_le_dec (loss (snd x)) (loss (snd best))).
  - destruct (IH x) as [E|E]; [right; left; auto | right; right; auto].
  - destruct (IH best) as [E|E]; [left; auto | right; right; auto].
Qed.

Lemma combine_seq_nth {A} (ls : list A) : forall s i x,
  In (i, x) (combine (seq s (length ls)) ls) -> (s <= i)%nat /\ nth_error ls (i - s) = Some x.
Proof.
  induction ls as [|a ls IH]; intros s i x I; simpl in I. contradiction.
  destruct I as [I|I].
  - injection I as <- <-. split. lia. now rewrite Nat.sub_diag.
  - apply IH in I as [L N]. split. lia. replace (i - s)%nat with (S (i - S s)) by lia. exact N.
Qed.

(* the selected leaf is one of the given leaves, at the reported position *)
Theorem search_best_in ls i x : search_best ls = Some (i, x) -> nth_error ls i = Some x.
Proof.
  unfold search_best. destruct ls as [|x0 ls0]; [discriminate|].
  set (ls := x0 :: ls0).
  set (c1 := filter _ _). destruct c1 as [|y c1'] eqn:E1; [discriminate|].
  set (c2 := filter _ _). destruct c2 as [|z c2'] eqn:E2; [discriminate|].
  intros H. injection H as H.
  assert (I : In (i, x) (z :: c2')) by (rewrite <- H; apply first_min_loss_in).
  rewrite <- E2 in I. unfold c2 in I. apply filter_In in I as [I _]. rewrite <- E1 in I. unfold c1 in I.
  apply filter_In in I as [I _]. apply combine_seq_nth in I as [_ N]. now rewrite Nat.sub_0_r in N.
Qed.

(* hence any property shared by all leaves (such as "accounted loss <= budget") holds of the plan that is returned *)
Corollary search_best_preserves (P : leaf -> Prop) ls i x :
  Forall P ls -> search_best ls = Some (i, x) -> P x.
Proof.
  intros F H. apply search_best_in in H. apply nth_error_In in H. rewrite Forall_forall in F. auto.
Qed.

(* ---------- tree construction over an arbitrary oracle ---------- *)
Section Build.
Variable state : Type.
Variable budget : Q.
Variable comb : Q -> Q -> Q.                       (* 1 - (1 - node_loss) (1 - parent_total_loss) *)
Variable oracle : state -> list (state * Q * Z).   (* candidates: next state, node loss, node saved CNOTs *)
Variable is_leaf : state -> bool.
Variable greedy : bool.
Variable pick : list (state * Q * Z) -> list (state * Q * Z).   (* greedy / canonical keep one element of the list *)
Hypothesis pick_sub : forall l x, In x (pick l) -> In x l.

Inductive tree := T (st : state) (tl : Q) (ts : Z) (kids : list tree).

Definition accepted (tl : Q) (ts : Z) (c : state * Q * Z) : bool :=
  let '(_, nl, ns) := c in Qle_bool (comb nl tl) budget && (0 <? ts + ns)%Z.

Fixpoint build (fuel : nat) (st : state) (tl : Q) (ts : Z) : tree :=
  match fuel with
  | O => T st tl ts []
  | S fuel' =>
    let kids0 := filter (accepted tl ts) (oracle st) in
    let kids1 := if greedy then pick kids0 else kids0 in
    T st tl ts (map (fun c => let '(st', nl, ns) := c in
                     if is_leaf st' then T st' (comb nl tl) (ts + ns) [] else build fuel' st' (comb nl tl) (ts + ns)) kids1)
  end.

Inductive node_in : tree -> Q -> Z -> Prop :=
  | ni_kid st tl ts kids k tl' ts' st' kk : In k kids -> k = T st' tl' ts' kk -> node_in (T st tl ts kids) tl' ts'
  | ni_deep st tl ts kids k tl' ts' : In k kids -> node_in k tl' ts' -> node_in (T st tl ts kids) tl' ts'.

(* every non-root node of the tree is within the loss budget and has a positive number of saved CNOTs *)
Theorem build_inv fuel : forall st tl ts tl' ts',
  node_in (build fuel st tl ts) tl' ts' -> Qle_bool tl' budget = true /\ (0 < ts')%Z.
Proof.
  induction fuel as [|fuel IH]; intros st tl ts tl' ts' H; cbn [build] in H.
  - inversion H; subst; contradiction.
  - set (kids0 := filter (accepted tl ts) (oracle st)) in *.
    set (kids1 := if greedy then pick kids0 else kids0) in *.
    assert (K : forall c, In c kids1 -> accepted tl ts c = true).
    { intros c Hc. assert (In c kids0) by (unfold kids1 in Hc; destruct greedy; auto).
      unfold kids0 in H0. now apply filter_In in H0 as [_ ?]. }
    inversion H as [? ? ? ? k ? ? ? kk Hin Hk | ? ? ? ? k ? ? Hin Hd]; subst.
    + apply in_map_iff in Hin as [[[st2 nl] ns] [Hk Hc]]. specialize (K _ Hc). cbn [accepted] in K.
      apply andb_prop in K as [K1 K2]. apply Z.ltb_lt in K2.
      destruct (is_leaf st2).
      * injection Hk as _ <- <- _. auto.
      * destruct fuel; cbn [build] in Hk; injection Hk as _ <- <- _; auto.
    + apply in_map_iff in Hin as [[[st2 nl] ns] [Hk Hc]].
      destruct (is_leaf st2).
      * subst k. inversion Hd; subst; contradiction.
      * subst k. eapply IH; eauto.
Qed.
End Build.
