(* C04, LdMcSpecialUnitary (Barenco Lemma 7.9 with the optimisations of Iten et al. Theorem 5): for U = A X B X C with A B C = 1,
   controlled-C from the last control ; MCX(first k-1 controls -> target, last control as dirty ancilla) ; controlled-B ;
   the inverse MCX ; controlled-A.  The MCX is LinearMcx (action_only from 6 controls on); each controlled gate is itself an
   A' X B' X C' block around two CNOTs. *)
From Coq Require Import Reals Lra List Bool Arith Lia NArith FunctionalExtensionality.
From Coquelicot Require Import Complex.
From QV Require Import Sem Mat2 Toff2 Chain Vchain Cvoqram SumQ McxModel McxMulti LinearMcx IrProps RelabelSwap2 QdmcuModel.
From QV Require LdmcsuModel.
Import ListNotations.
Open Scope nat_scope.

Inductive ag := AS (g : sgate) | AU (i t : nat).

Definition ctl (anc T c b a : nat) : list ag := [AU c T; AS (SCX anc T); AU b T; AS (SCX anc T); AU a T].
Definition lmx (k' : nat) (ao : bool) : list sgate := map (rsw2 k' (k' + 1)) (linear_mcx k' [] ao).
Definition abc_core (k : nat) : list ag :=
  let ao := 6 <=? k in
  ctl (k - 1) k 8 7 6 ++ map AS (lmx (k - 1) ao) ++ ctl (k - 1) k 5 4 3 ++ map AS (sinv_list (lmx (k - 1) ao)) ++ ctl (k - 1) k 2 1 0.
Definition mcxg (k : nat) : sgate := if k =? 1 then SCX 0 1 else SMCX (seq 0 k) k.
Definition abc_small (k : nat) : list ag := [AU 11 k; AS (mcxg k); AU 10 k; AS (mcxg k); AU 9 k].
Definition abc (k : nat) (pat : list bool) : list ag :=
  map AS (xs pat k) ++ (if k <? 3 then abc_small k else abc_core k) ++ map AS (xs pat k).

Lemma Xm_Xm : mmul Xm Xm = I2.
Proof. unfold Xm, I2. apply mat2_eq; simpl; ring. Qed.

Section Abc.
Variable M : nat -> mat2.
Definition aapp (g : ag) (psi : state) : state :=
  match g with AS s => sapp s psi | AU i t => appf (fun _ => M i) t psi end.
Definition arun (l : list ag) (psi : state) : state := fold_left (fun s g => aapp g s) l psi.
Lemma arun_app l1 l2 psi : arun (l1 ++ l2) psi = arun l2 (arun l1 psi).
Proof. unfold arun. now rewrite fold_left_app. Qed.
Lemma arun_AS l psi : arun (map AS l) psi = srun l psi.
Proof. revert psi. induction l as [|g l IH]; intros psi; auto. cbn [map arun fold_left aapp]. apply IH. Qed.

(* A' ; X^Q ; B' ; X^Q ; C' on one target, Q a predicate of the other qubits *)
Lemma block_sem (Q : asg -> bool) (T c b a : nat) (W : mat2) psi : indep T Q ->
  mmul (M a) (mmul Xm (mmul (M b) (mmul Xm (M c)))) = W -> mmul (M a) (mmul (M b) (M c)) = I2 ->
  appf (fun _ => M a) T (appf (fun x => Xpow (Q x)) T (appf (fun _ => M b) T (appf (fun x => Xpow (Q x)) T (appf (fun _ => M c) T psi))))
  = appf (fun x => if Q x then W else I2) T psi.
Proof.
  intros HQ H1 H2.
  rewrite (appf_appf (fun x => Xpow (Q x)) (fun _ => M c)) by (intros x v; reflexivity).
  rewrite (appf_appf (fun _ => M b)) by (intros x v; now rewrite HQ).
  rewrite (appf_appf (fun x => Xpow (Q x))) by (intros x v; now rewrite HQ).
  rewrite (appf_appf (fun _ => M a)) by (intros x v; now rewrite HQ).
  f_equal. apply functional_extensionality; intros x. destruct (Q x); unfold Xpow; auto.
  now rewrite !mmul_I2_l.
Qed.
Lemma ctl_sem anc T c b a W psi : anc <> T ->
  mmul (M a) (mmul Xm (mmul (M b) (mmul Xm (M c)))) = W -> mmul (M a) (mmul (M b) (M c)) = I2 ->
  arun (ctl anc T c b a) psi = appf (fun x => if get x anc then W else I2) T psi.
Proof.
  intros H H1 H2. unfold ctl. cbn [arun fold_left aapp sapp].
  apply (block_sem (fun x => get x anc)); auto. intros x v. now rewrite get_upd_other by auto.
Qed.

(* ---------- the placed LinearMcx: controls 0..k'-1, target k'+1, dirty ancilla k' ---------- *)
Section Placed.
Variable k' : nat.
Hypothesis Hk' : 1 <= k'.
Definition onesp (x : asg) : bool := pmatch [] k' x.
Definition MxT (psi : state) : state := fun x => psi (if onesp x then flipq (k' + 1) x else x).
Let tau := tau2 k' (k' + 1).
Lemma aK : k' <> k' + 1. Proof. lia. Qed.

Lemma onesp_tau x : onesp (tau x) = onesp x.
Proof.
  unfold onesp, pmatch. apply LdmcsuModel.forallb_ext_in'. intros i I. apply in_seq in I. unfold tau. rewrite (get_tau2 _ _ aK).
  unfold sg2. now rewrite (proj2 (Nat.eqb_neq i k')), (proj2 (Nat.eqb_neq i (k' + 1))) by lia.
Qed.
Lemma tau_flip x : tau (flipq k' (tau x)) = flipq (k' + 1) x.
Proof.
  unfold flipq, tau. rewrite (tau2_upd _ _ aK). rewrite (get_tau2 _ _ aK). unfold sg2. now rewrite Nat.eqb_refl.
Qed.
Lemma lmx_exact psi : srun (lmx k' false) psi = MxT psi.
Proof.
  apply functional_extensionality; intros x. unfold lmx, MxT.
  rewrite (srun_rsw2 _ _ aK). rewrite lm_exact by auto. fold tau. fold (onesp (tau x)). rewrite onesp_tau.
  destruct (onesp x). now rewrite tau_flip. unfold tau. now rewrite (tau2_tau2 _ _ aK).
Qed.
Lemma lmx_swf ao : Forall swf (lmx k' ao).
Proof.
  unfold lmx. apply Forall_forall. intros g Hg. apply in_map_iff in Hg as [g0 [<- Hg0]].
  apply swf_rsw2. lia. pose proof (lm_swf k' [] Hk' ao) as F. rewrite Forall_forall in F. auto.
Qed.
Lemma lmx_split ao : exists Cl : list sgate, ctl_only k' Cl /\ Forall swf Cl /\
  forall psi, MxT psi = srun Cl (srun (lmx k' ao) psi).
Proof.
  destruct ao.
  2:{ exists []. split; [intros g p []|]. split; [constructor|]. intros psi. now rewrite lmx_exact. }
  destruct (lm_split k' [] Hk') as [Cl [Hc [Hw Hs]]]. exists Cl. split; auto. split; auto.
  intros psi. rewrite <- lmx_exact. apply functional_extensionality; intros x. unfold lmx.
  rewrite (srun_rsw2 _ _ aK). rewrite Hs.
  assert (Id : map (rsw2 k' (k' + 1)) Cl = Cl).
  { rewrite <- (map_id Cl) at 2. apply map_ext_in. intros g Hg. apply rsw2_low. intros p Hp. pose proof (Hc g p Hg Hp). lia. }
  rewrite <- Id at 2. rewrite (srun_rsw2 _ _ aK). f_equal. f_equal.
  apply functional_extensionality; intros y. rewrite (srun_rsw2 _ _ aK). now rewrite (tau2_tau2 _ _ aK).
Qed.

Lemma MxT_MxT psi : MxT (MxT psi) = psi.
Proof.
  apply functional_extensionality; intros x. unfold MxT. destruct (onesp x) eqn:E.
  - unfold onesp, flipq at 1. rewrite pmatch_upd_high by lia. fold (onesp x). rewrite E. now rewrite flipq_flipq.
  - now rewrite E.
Qed.
Lemma MxT_appf psi : MxT psi = appf (fun x => Xpow (onesp x)) (k' + 1) psi.
Proof.
  apply functional_extensionality; intros x. unfold MxT, appf. destruct (onesp x); unfold Xpow.
  now rewrite app1_X. now rewrite app1_I2.
Qed.

(* the conjugated middle: a gate on the target that reads no qubit below k' *)
Lemma middle_abc ao f psi : (forall q, q < k' -> indep q f) ->
  srun (sinv_list (lmx k' ao)) (appf f (k' + 1) (srun (lmx k' ao) psi)) = MxT (appf f (k' + 1) (MxT psi)).
Proof.
  intros f_low. destruct (lmx_split ao) as [Cl [Hc [Hw Hs]]].
  pose proof (lmx_swf ao) as Wl.
  assert (Cli : forall x, srun (sinv_list Cl) (srun Cl x) = x) by (intros x; rewrite <- srun_app; now apply inverse_right).
  assert (Clr : forall x, srun Cl (srun (sinv_list Cl) x) = x) by (intros x; rewrite <- srun_app; now apply inverse_left).
  assert (LM : forall x, srun (lmx k' ao) x = srun (sinv_list Cl) (MxT x)) by (intros x; now rewrite Hs, Cli).
  assert (LMi : forall y, srun (sinv_list (lmx k' ao)) y = MxT (srun Cl y)).
  { intros y. set (z := MxT (srun Cl y)).
    assert (E : srun (lmx k' ao) z = y) by (unfold z; now rewrite LM, MxT_MxT, Cli).
    rewrite <- E. rewrite <- srun_app. now apply inverse_right. }
  rewrite LMi, LM. f_equal. rewrite srun_appf_comm.
  - now rewrite Clr.
  - intros g Hg I. pose proof (Hc g (k' + 1) Hg I). lia.
  - intros g Hg. apply f_low. apply (Hc g (stgt g) Hg). apply stgt_in.
Qed.
End Placed.

Variables MA MB MC U : mat2.
Hypothesis HA : mmul (M 0) (mmul Xm (mmul (M 1) (mmul Xm (M 2)))) = MA.
Hypothesis HA1 : mmul (M 0) (mmul (M 1) (M 2)) = I2.
Hypothesis HB : mmul (M 3) (mmul Xm (mmul (M 4) (mmul Xm (M 5)))) = MB.
Hypothesis HB1 : mmul (M 3) (mmul (M 4) (M 5)) = I2.
Hypothesis HC : mmul (M 6) (mmul Xm (mmul (M 7) (mmul Xm (M 8)))) = MC.
Hypothesis HC1 : mmul (M 6) (mmul (M 7) (M 8)) = I2.
Hypothesis HU : mmul MA (mmul Xm (mmul MB (mmul Xm MC))) = U.
Hypothesis HU1 : mmul MA (mmul MB MC) = I2.

Theorem abc_core_sem k psi : 3 <= k ->
  arun (abc_core k) psi = appf (fun x => if pmatch [] k x then U else I2) k psi.
Proof.
  intros Hk. unfold abc_core. set (k' := k - 1). assert (Ek : k = k' + 1) by (unfold k'; lia).
  rewrite !arun_app, !arun_AS.
  rewrite (ctl_sem k' k 8 7 6 MC), (ctl_sem k' k 5 4 3 MB), (ctl_sem k' k 2 1 0 MA) by (auto; lia).
  pose proof (middle_abc k' ltac:(lia) (6 <=? k) (fun x => if get x k' then MB else I2)
                (appf (fun x => if get x k' then MC else I2) k psi)
                ltac:(intros q Hq x v; now rewrite get_upd_other by lia)) as MID.
  rewrite !(MxT_appf k') in MID by lia. rewrite <- Ek in MID. rewrite MID. clear MID.
  repeat (rewrite appf_appf by (intros x v; unfold onesp; rewrite ?pmatch_upd_high by lia; rewrite ?get_upd_other by lia; reflexivity)).
  f_equal. apply functional_extensionality; intros x.
  rewrite Ek at 1. rewrite Nat.add_1_r, pmatch_S. fold (onesp k' x). cbn [nth]. destruct k'; cbn [nth].
  all: destruct (get x _), (onesp _ x); unfold Xpow; simpl; rewrite ?mmul_I2_l, ?mmul_I2_r; rewrite <- ?mmul_assoc; auto using Xm_Xm.
Qed.

(* fewer than three controls: C ; mcx ; B ; mcx ; A with Qiskit's cx / ccx *)
Hypothesis HS : mmul (M 9) (mmul Xm (mmul (M 10) (mmul Xm (M 11)))) = U.
Hypothesis HS1 : mmul (M 9) (mmul (M 10) (M 11)) = I2.
Lemma pmatch_nil k x : pmatch [] k x = forallb (fun c => get x c) (seq 0 k).
Proof.
  unfold pmatch. apply LdmcsuModel.forallb_ext_in'. intros i _. replace (nth i [] true) with true by (now destruct i).
  now destruct (get x i).
Qed.
Lemma mcxg_sem k psi : 1 <= k -> k < 3 -> sapp (mcxg k) psi = appf (fun x => Xpow (pmatch [] k x)) k psi.
Proof.
  intros H1 H3. assert (D : k = 1 \/ k = 2) by lia. destruct D as [->| ->]; cbn [mcxg Nat.eqb sapp seq].
  - f_equal. apply functional_extensionality; intros x. rewrite pmatch_nil. simpl. now rewrite andb_true_r.
  - f_equal. apply functional_extensionality; intros x. rewrite pmatch_nil. reflexivity.
Qed.
Theorem abc_small_sem k psi : 1 <= k -> k < 3 ->
  arun (abc_small k) psi = appf (fun x => if pmatch [] k x then U else I2) k psi.
Proof.
  intros H1 H3. unfold abc_small. cbn [arun fold_left aapp]. rewrite !mcxg_sem by auto.
  apply (block_sem (fun x => pmatch [] k x)); auto.
  intros x v. now rewrite pmatch_upd_high by lia.
Qed.

Lemma xflip_upd' pat k q b v : k <= q -> xflip pat k (upd b q v) = upd (xflip pat k b) q v.
Proof.
  intros H. apply asg_ext. intros x. destruct (Nat.eq_dec x q) as [->|Hx].
  - rewrite get_upd_same, xflip_get_ge by auto. now rewrite get_upd_same.
  - rewrite get_upd_other by auto. destruct (Nat.lt_ge_cases x k).
    + rewrite !xflip_get_lt by auto. now rewrite get_upd_other by auto.
    + rewrite !xflip_get_ge by auto. now rewrite get_upd_other by auto.
Qed.
Lemma xs_conj k pat W psi :
  srun (xs pat k) (appf (fun x => if pmatch [] k x then W else I2) k (srun (xs pat k) psi))
  = appf (fun x => if pmatch pat k x then W else I2) k psi.
Proof.
  apply functional_extensionality; intros b. rewrite xs_sem. unfold appf, app1.
  rewrite xflip_get_ge by lia.
  assert (P : forall v, srun (xs pat k) psi (upd (xflip pat k b) k v) = psi (upd b k v)).
  { intros v. rewrite xs_sem, xflip_upd' by lia. now rewrite xflip_invol. }
  rewrite !P. rewrite pmatch_nil, pmatch_xflip. reflexivity.
Qed.

Theorem abc_sem k pat psi : 1 <= k ->
  arun (abc k pat) psi = appf (fun x => if pmatch pat k x then U else I2) k psi.
Proof.
  intros Hk. unfold abc. rewrite !arun_app, !arun_AS. destruct (Nat.ltb_spec k 3).
  - rewrite abc_small_sem by lia. apply xs_conj.
  - rewrite abc_core_sem by lia. apply xs_conj.
Qed.
End Abc.
