(* C06: executable gate-list model of CvoqramInitialize._define_initialize (structure only; the rotation angles of
   the j-th pattern are the abstract gate number j, tied to the amplitudes by the runtime contract of the check).
   Layout: aux/flag qubit 0; with_aux: ancillas 1..n-1, memory n..2n-1; without: memory 1..n. *)
From Coq Require Import List Bool Arith Lia.
Import ListNotations.

Inductive cgate :=
  | CX0 (q : nat)                               (* x *)
  | CCX (c t : nat)                             (* cx *)
  | CRCCX (a b t : nat)                         (* Qiskit rccx *)
  | CU (j : nat) (cs : list nat) (t : nat).     (* gate j = U(theta_j, phi_j, lambda_j) on t controlled on cs (all ones) *)

Section Model.
Variable n : nat.
Variable with_aux : bool.
Definition aux := 0.
Definition anc (i : nat) := 1 + i.
Definition mem (k : nat) := if with_aux then n + k else 1 + k.

(* control = positions of '1' read from the END of the key string; pattern given as list indexed by memory qubit *)
Definition controls_of (pat : list bool) : list nat :=
  filter (fun k => nth k pat false) (seq 0 n).
Definition flip_flop (ctl : list nat) : list cgate := map (fun k => CCX aux (mem k)) ctl.

(* _mcuvchain *)
Definition mcuvchain (j : nat) (ctl : list nat) : list cgate :=
  let r := rev ctl in
  let len := length ctl in
  let first := CRCCX (mem (nth 0 r 0)) (mem (nth 1 r 0)) (anc (n - 2)) in
  let down := map (fun p => CRCCX (anc (n - 2 - p)) (mem (nth (2 + p) r 0)) (anc (n - 3 - p))) (seq 0 (len - 2)) in
  let top := n - 2 - (len - 2) in          (* anc[i-1] after the loop, i = n-1-(len-2) *)
  let up := map (fun q => let p := len - 3 - q in CRCCX (anc (n - 2 - p)) (mem (nth q ctl 0)) (anc (n - 3 - p)))
                (seq 0 (len - 2)) in
  let last := CRCCX (mem (nth (len - 1) ctl 0)) (mem (nth (len - 2) ctl 0)) (anc (n - 2)) in
  [first] ++ down ++ [CU j [anc top] aux] ++ up ++ [last].

Definition load (j : nat) (ctl : list nat) : list cgate :=
  match ctl with
  | [] => [CU j [] aux]
  | [c] => [CU j [mem c] aux]
  | _ => if with_aux then mcuvchain j ctl else [CU j (map mem ctl) aux]
  end.

Fixpoint patterns (j : nat) (pats : list (list bool)) : list cgate :=
  match pats with
  | [] => []
  | [p] => let ctl := controls_of p in flip_flop ctl ++ load j ctl
  | p :: rest => let ctl := controls_of p in flip_flop ctl ++ load j ctl ++ flip_flop ctl ++ patterns (S j) rest
  end.
Definition cvo_gates (pats : list (list bool)) : list cgate := CX0 aux :: patterns 0 pats.
End Model.
