(* Re-labelling a circuit by a transposition (a K) of qubit indices = conjugation by the swap of the bits a and K.
   (RelabelSwap.v is the special case where K is fresh.) *)
From Coq Require Import Reals Lra List Bool Arith Lia NArith FunctionalExtensionality.
From Coquelicot Require Import Complex.
From QV Require Import Sem Mat2 Toff2 Chain Vchain Cvoqram SumQ McxModel McxMulti IrProps.
Import ListNotations.
Open Scope nat_scope.

Section Swap2.
Variables a K : nat.
Hypothesis aK : a <> K.
Definition sg2 (q : nat) : nat := if q =? a then K else if q =? K then a else q.
Definition tau2 (b : asg) : asg := swapq a K b.
Definition rsw2 (g : sgate) : sgate :=
  match g with SX q => SX (sg2 q) | SU n t => SU n (sg2 t) | SCX c t => SCX (sg2 c) (sg2 t) | SMCX cs t => SMCX (map sg2 cs) (sg2 t) end.

Lemma sg2_sg2 q : sg2 (sg2 q) = q.
Proof.
  unfold sg2. destruct (Nat.eqb_spec q a) as [->|Ha].
  - rewrite (proj2 (Nat.eqb_neq K a)) by auto. now rewrite Nat.eqb_refl.
  - destruct (Nat.eqb_spec q K) as [->|HK]. now rewrite Nat.eqb_refl.
    rewrite (proj2 (Nat.eqb_neq q a)), (proj2 (Nat.eqb_neq q K)) by auto. reflexivity.
Qed.
Lemma get_tau2 b q : get (tau2 b) q = get b (sg2 q).
Proof.
  unfold tau2, sg2. rewrite get_swapq by auto.
  destruct (Nat.eqb_spec q a); auto. destruct (Nat.eqb_spec q K); auto.
Qed.
Lemma tau2_tau2 b : tau2 (tau2 b) = b.
Proof. apply asg_ext. intros q. now rewrite !get_tau2, sg2_sg2. Qed.
Lemma tau2_upd b q v : tau2 (upd (tau2 b) q v) = upd b (sg2 q) v.
Proof.
  apply asg_ext. intros x. rewrite get_tau2.
  destruct (Nat.eq_dec x (sg2 q)) as [->|Hx].
  - now rewrite sg2_sg2, !get_upd_same.
  - rewrite !get_upd_other; auto.
    + rewrite get_tau2. now rewrite sg2_sg2.
    + intro E. apply Hx. now rewrite <- E, sg2_sg2.
Qed.
Lemma allq_tau2 cs b : allq cs (tau2 b) = allq (map sg2 cs) b.
Proof. unfold allq. induction cs as [|c cs IH]; auto. simpl. now rewrite get_tau2, IH. Qed.

Lemma sapp_rsw2 g psi : sapp (rsw2 g) psi = fun b => sapp g (fun x => psi (tau2 x)) (tau2 b).
Proof.
  apply functional_extensionality; intros b.
  destruct g as [q|n t|c t|cs t]; cbn [rsw2 sapp]; unfold appf, app1;
    rewrite ?get_tau2, ?tau2_upd, ?allq_tau2; reflexivity.
Qed.
Theorem srun_rsw2 c : forall psi b, srun (map rsw2 c) psi b = srun c (fun x => psi (tau2 x)) (tau2 b).
Proof.
  induction c as [|g c IH]; intros psi b.
  - simpl. now rewrite tau2_tau2.
  - cbn [map]. rewrite !srun_cons. rewrite IH. f_equal.
    rewrite sapp_rsw2. apply functional_extensionality; intros x. now rewrite tau2_tau2.
Qed.
End Swap2.

Lemma swf_rsw2 a K g : a <> K -> swf g -> swf (rsw2 a K g).
Proof.
  intros aK. destruct g as [q|n t|c t|cs t]; cbn [rsw2 swf]; auto.
  - intros H E. apply H. rewrite <- (sg2_sg2 a K aK c), <- (sg2_sg2 a K aK t). now rewrite E.
  - intros H I. apply in_map_iff in I as [c [E Hc]]. apply H.
    rewrite <- (sg2_sg2 a K aK t), <- E, sg2_sg2; auto.
Qed.
Lemma rsw2_low a K g : (forall p, In p (sq g) -> p <> a /\ p <> K) -> rsw2 a K g = g.
Proof.
  assert (S : forall p, p <> a /\ p <> K -> sg2 a K p = p).
  { intros p [H1 H2]. unfold sg2. now rewrite (proj2 (Nat.eqb_neq p a)), (proj2 (Nat.eqb_neq p K)) by auto. }
  destruct g as [q|n t|c t|cs t]; cbn [rsw2 sq]; intros H.
  - now rewrite S by (apply H; now left).
  - now rewrite S by (apply H; now left).
  - now rewrite !S by (apply H; simpl; auto).
  - rewrite S by (apply H; now left). f_equal. rewrite <- (map_id cs) at 2. apply map_ext_in. intros c Hc. apply S. apply H. now right.
Qed.
