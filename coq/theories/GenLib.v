(* Library for translator output (Gen_*.v): the Gallina meaning of the Python idioms the translator accepts. *)
From Coq Require Import ZArith List Bool Arith Lia Sorting.Mergesort Orders.
Import ListNotations.
Open Scope Z_scope.

(* range(a, b) *)
Definition zrange (a b : Z) : list Z := map (fun i => a + Z.of_nat i) (seq 0 (Z.to_nat (b - a))).
(* sum(...) *)
Definition zsum (l : list Z) : Z := fold_left Z.add l 0.
(* len(...) *)
Definition zlen {A} (l : list A) : Z := Z.of_nat (length l).
(* int(ceil(n/d)) for a positive denominator *)
Definition ceil_div (n d : Z) : Z := (n + d - 1) / d.
(* math.comb *)
Fixpoint binom (n k : nat) : nat :=
  match n, k with
  | _, O => 1%nat
  | O, S _ => 0%nat
  | S n', S k' => (binom n' k' + binom n' k)%nat
  end.
(* executable binomial: Pascal rows over Z (binom on nat is unary and unusable beyond n ~ 25) *)
Fixpoint next_row (r : list Z) (prev : Z) : list Z :=
  match r with [] => [prev] | x :: r' => (prev + x) :: next_row r' x end.
Fixpoint pascal_row (n : nat) : list Z := match n with O => [1] | S n' => next_row (pascal_row n') 0 end.
Definition binomZ (n k : Z) : Z :=
  if (k <? 0) || (n <? 0) then 0 else nth (Z.to_nat k) (pascal_row (Z.to_nat n)) 0.
(* f"{k:0{w}b}" and s[q] == "1" : big-endian bit test on a zero-padded binary string of width >= w *)
Definition mk_bstr (k w : Z) : Z * Z := (k, Z.max w (Z.log2 k + 1)).
Definition bstr_bit (s : Z * Z) (q : Z) : bool := Z.testbit (fst s) (snd s - 1 - q).

Module ZOrder <: TotalLeBool.
  Definition t := Z.
  Definition leb := Z.leb.
  Lemma leb_total : forall a b, leb a b = true \/ leb b a = true.
  Proof. intros a b. unfold leb. destruct (Z.leb_spec a b); auto. right. apply Z.leb_le. lia. Qed.
End ZOrder.
Module ZSort := Sort ZOrder.
Definition zsort := ZSort.sort.

Lemma zrange_length a b : length (zrange a b) = Z.to_nat (b - a).
Proof. unfold zrange. now rewrite map_length, seq_length. Qed.
Lemma zrange_S a n : zrange a (a + Z.of_nat (S n)) = zrange a (a + Z.of_nat n) ++ [a + Z.of_nat n].
Proof.
  unfold zrange. replace (a + Z.of_nat (S n) - a) with (Z.of_nat (S n)) by lia.
  replace (a + Z.of_nat n - a) with (Z.of_nat n) by lia. rewrite !Nat2Z.id.
  rewrite seq_S, map_app. reflexivity.
Qed.
Lemma zrange_nil a b : b <= a -> zrange a b = [].
Proof. intros H. unfold zrange. replace (Z.to_nat (b - a)) with O by lia. reflexivity. Qed.
Lemma fold_add_acc l : forall z, fold_left Z.add l z = z + fold_left Z.add l 0.
Proof. induction l as [|x l IH]; simpl; intros z. lia. rewrite IH, (IH x). lia. Qed.
Lemma zsum_app l m : zsum (l ++ m) = zsum l + zsum m.
Proof. unfold zsum. rewrite fold_left_app. apply fold_add_acc. Qed.
Lemma zsum_cons x l : zsum (x :: l) = x + zsum l.
Proof. change (x :: l) with ([x] ++ l). rewrite zsum_app. unfold zsum at 1. simpl. lia. Qed.

Lemma next_row_nth r : forall p k,
  nth k (next_row r p) 0 = (match k with O => p | S k' => nth k' r 0 end) + nth k r 0.
Proof.
  induction r as [|x r IH]; intros p k; simpl.
  - destruct k as [|[|k]]; simpl; lia.
  - destruct k as [|k]; simpl. lia. rewrite IH. destruct k; simpl; lia.
Qed.
Lemma pascal_row_spec n : forall k, nth k (pascal_row n) 0 = Z.of_nat (binom n k).
Proof.
  induction n as [|n IH]; intros k; simpl pascal_row.
  - destruct k as [|[|k]]; reflexivity.
  - rewrite next_row_nth. destruct k as [|k].
    + rewrite IH. destruct n; simpl; lia.
    + rewrite !IH. simpl binom. lia.
Qed.
Lemma binomZ_nat n k : binomZ (Z.of_nat n) (Z.of_nat k) = Z.of_nat (binom n k).
Proof.
  unfold binomZ. replace (Z.of_nat k <? 0) with false by (symmetry; apply Z.ltb_ge; lia).
  replace (Z.of_nat n <? 0) with false by (symmetry; apply Z.ltb_ge; lia).
  simpl. rewrite !Nat2Z.id. apply pascal_row_spec.
Qed.
Lemma binom_gt n : forall k, (n < k)%nat -> binom n k = 0%nat.
Proof. induction n; intros [|k] H; simpl; try lia. rewrite !IHn; lia. Qed.
Lemma binom_nn n : binom n n = 1%nat.
Proof. induction n; simpl; auto. rewrite IHn, binom_gt; lia. Qed.
Lemma zrange_0_nat n : zrange 0 (Z.of_nat n) = map Z.of_nat (seq 0 n).
Proof. unfold zrange. replace (Z.of_nat n - 0) with (Z.of_nat n) by lia. rewrite Nat2Z.id. apply map_ext. intros; lia. Qed.
