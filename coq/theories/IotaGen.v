(* C20: entanglement._get_iota (translated from the source: Gen_iota) selects bit j and deletes it. *)
From Coq Require Import ZArith Lia Bool.
From QV Require Import GenLib Gen_iota.
Open Scope Z_scope.

Lemma full_mask_ones n : 0 <= n -> 2 ^ n - 1 = Z.ones n.
Proof. intros H. rewrite Z.ones_equiv. lia. Qed.

Lemma testbit_ones n i : 0 <= n -> 0 <= i -> Z.testbit (Z.ones n) i = (i <? n).
Proof.
  intros Hn Hi. destruct (Z.ltb_spec i n).
  - apply Z.ones_spec_low. lia.
  - apply Z.ones_spec_high. lia.
Qed.

Theorem iota_delta_spec j n s b : 0 <= j -> 0 <= b ->
  iota_delta j n s b = (Z.b2z (Z.testbit b j) =? s).
Proof.
  intros Hj Hb. unfold iota_delta. cbv zeta. f_equal.
  apply Z.bits_inj'. intros i Hi.
  rewrite Z.shiftr_spec, Z.land_spec, Z.shiftl_spec by lia.
  destruct (Z.eq_dec i 0) as [->|Hne].
  - replace (0 + j - j) with 0 by lia. replace (0 + j) with j by lia. simpl (Z.testbit 1 0).
    rewrite andb_true_l. destruct (Z.testbit b j); reflexivity.
  - replace (Z.testbit 1 (i + j - j)) with false.
    2:{ replace (i + j - j) with i by lia. symmetry. change 1 with (Z.ones 1). apply Z.ones_spec_high. lia. }
    rewrite andb_false_l. destruct (Z.testbit b j); simpl Z.b2z.
    + symmetry. change 1 with (Z.ones 1). apply Z.ones_spec_high. lia.
    + symmetry. apply Z.testbit_0_l.
Qed.

(* bit i of the new index is bit i of b below j, and bit i+1 of b from j on (and nothing at or above n-1) *)
Theorem iota_index_bits j n s b i : 0 <= j < n -> 0 <= b -> 0 <= i ->
  Z.testbit (iota_index j n s b) i =
  if i <? j then Z.testbit b i else (Z.testbit b (i + 1) && (i + 1 <? n)).
Proof.
  intros Hj Hb Hi. unfold iota_index. cbv zeta.
  rewrite full_mask_ones by lia.
  set (hi := Z.shiftr (Z.land b (Z.land (Z.ones n) (Z.shiftl (Z.ones n) (j + 1)))) 1).
  set (lo := Z.land b (Z.shiftr (Z.ones n) (n - j))).
  assert (Hhi : forall k, 0 <= k -> Z.testbit hi k = Z.testbit b (k + 1) && ((k + 1 <? n) && (j <=? k))).
  { intros k Hk. unfold hi. rewrite Z.shiftr_spec, !Z.land_spec, Z.shiftl_spec by lia.
    rewrite (testbit_ones n (k + 1)) by lia. f_equal.
    destruct (Z.ltb_spec (k + 1) n); [|reflexivity]. rewrite !andb_true_l.
    destruct (Z.leb_spec j k).
    - rewrite testbit_ones by lia. apply Z.ltb_lt. lia.
    - apply Z.testbit_neg_r. lia. }
  assert (Hlo : forall k, 0 <= k -> Z.testbit lo k = Z.testbit b k && (k <? j)).
  { intros k Hk. unfold lo. rewrite Z.land_spec, Z.shiftr_spec, testbit_ones by lia. f_equal.
    destruct (Z.ltb_spec (k + (n - j)) n), (Z.ltb_spec k j); lia. }
  assert (D : Z.land hi lo = 0).
  { apply Z.bits_inj'. intros k Hk. rewrite Z.land_spec, Hhi, Hlo, Z.bits_0 by lia.
    destruct (Z.leb_spec j k), (Z.ltb_spec k j); try lia; rewrite ?andb_false_r; auto. }
  rewrite (Z.add_nocarry_lxor _ _ D), Z.lxor_spec, Hhi, Hlo by lia.
  destruct (Z.ltb_spec i j).
  - replace (j <=? i) with false by (symmetry; apply Z.leb_gt; lia).
    rewrite !andb_false_r, andb_true_r. apply xorb_false_l.
  - replace (j <=? i) with true by (symmetry; apply Z.leb_le; lia).
    rewrite !andb_true_r, andb_false_r, xorb_false_r. reflexivity.
Qed.
