(* C04, Ldmcsu, the branch for SU(2) matrices whose diagonals are both complex (U = V D V^dagger):
   half_linear_depth_mcv(inverse) ; linear_depth_mcv(D, general_su2_optimization) ; half_linear_depth_mcv.
   Two of the V-chains are action_only and their residues cancel across the one-qubit gates that sit between them. *)
From Coq Require Import Reals Lra List Bool Arith Lia NArith FunctionalExtensionality.
From Coquelicot Require Import Complex.
From QV Require Import Sem Mat2 Toff2 Chain Vchain Cvoqram SumQ McxModel McxPlaced McxMulti McxAll LinearMcx IrProps LdmcsuModel QdmcuModel AbcModel.
Import ListNotations.
Open Scope nat_scope.

Definition mcx2ao (k : nat) (pat : list bool) : list sgate := map (relabel (L2 k)) (vchain (k2 k) 1 (pat2 k pat) false true).
(* one-qubit gates on the target: 0 H, 1 S, 2 S^dagger, 3 the Hadamard-like gate of the paper, 4 A, 5 A^dagger *)
Definition eig (k : nat) (pat : list bool) : list ag :=
  [AU 0 k; AU 1 k] ++ map AS (mcx2ao k pat) ++ [AU 2 k; AU 3 k]
  ++ [AU 4 k] ++ map AS (sinv_list (mcx2ao k pat)) ++ [AU 5 k] ++ map AS (mcx1 k pat) ++ [AU 4 k] ++ map AS (mcx2 k pat) ++ [AU 5 k]
  ++ map AS (mcx1 k pat) ++ [AU 3 k; AU 1 k] ++ map AS (mcx2 k pat) ++ [AU 2 k; AU 0 k].

Section Eig.
Variable k : nat.
Hypothesis Hk : 2 <= k.
Variable pat : list bool.

Lemma vchain_ao_lwf kk p : 1 <= kk -> Forall (lwf (tpos kk + 1)) (vchain kk 1 p false true).
Proof.
  intros H. unfold vchain. apply Forall_app; split; [|apply Forall_app; split];
    try (apply xs_lwf; unfold tpos; destruct (kk <=? 2); lia).
  destruct kk as [|[|[|[|j]]]]; try lia.
  - cbn. repeat constructor; lia.
  - unfold toffoli_mt, fan_l, fan_r. cbn. repeat constructor; lia.
  - cbn. repeat constructor; lia.
  - cbn [negb andb Nat.eqb].
    replace (tpos (S (S (S (S j)))) + 1) with (2 * S j + 5).
    apply general_lwf_all.
    unfold tpos. replace (S (S (S (S j))) <=? 2) with false by (symmetry; apply Nat.leb_gt; lia). lia.
Qed.
Lemma mcx2ao_swf : Forall swf (mcx2ao k pat).
Proof.
  pose proof (k12 k Hk) as K.
  apply Forall_forall. intros g I. unfold mcx2ao in I. apply in_map_iff in I as [g0 [<- I0]].
  apply (lwf_relabel (L2 k) (tpos (k2 k) + 1)); [apply L2_nodup | apply L2_len |]; auto.
  pose proof (vchain_ao_lwf (k2 k) (pat2 k pat) ltac:(lia)) as F. rewrite Forall_forall in F. auto.
Qed.

Definition f2 (i : nat) : nat := nth i (L2 k) 0.
Lemma f2_inj i j : i < tpos (k2 k) + 1 -> j < tpos (k2 k) + 1 -> f2 i = f2 j -> i = j.
Proof.
  intros Hi Hj E. apply (nodup_nth_inj (L2 k)); auto. apply L2_nodup; auto.
  all: rewrite L2_len by auto; lia.
Qed.

(* exact = action_only followed by a residue R that never touches the target *)
Lemma mcx2_split : exists R : list sgate, (forall g, In g R -> ~ In k (sq g)) /\ Forall swf R /\
  forall psi, srun (mcx2 k pat) psi = srun R (srun (mcx2ao k pat) psi).
Proof.
  pose proof (k12 k Hk) as K. set (kk := k2 k) in *.
  destruct (le_lt_dec kk 3) as [Hs|Hb].
  - exists []. split; [intros g []|]. split; [constructor|]. intros psi.
    assert (E : vchain kk 1 (pat2 k pat) false true = vchain kk 1 (pat2 k pat) false false).
    { unfold vchain. destruct kk as [|[|[|[|j]]]]; try lia; reflexivity. }
    unfold mcx2ao, mcx2. fold kk. now rewrite E.
  - destruct kk as [|[|[|j]]] eqn:EK; try lia. assert (Hj : 1 <= j) by lia.
    set (p := pat2 k pat) in *. set (X := xs p (S (S (S j)))).
    assert (Eex : vchain (S (S (S j))) 1 p false false = X ++ general j 1 false true ++ chain_gates j ++ X).
    { unfold vchain. cbn [negb andb]. replace (j =? 0) with false by (symmetry; apply Nat.eqb_neq; lia).
      cbn [andb]. rewrite general_ao_split. now rewrite <- !app_assoc. }
    assert (Eao : vchain (S (S (S j))) 1 p false true = X ++ general j 1 false true ++ X).
    { unfold vchain. cbn [negb andb]. replace (j =? 0) with false by (symmetry; apply Nat.eqb_neq; lia). reflexivity. }
    exists (map (relabel (L2 k)) (X ++ chain_gates j ++ X)).
    assert (TP : tpos (S (S (S j))) = 2 * j + 4) by (unfold tpos; cbn; lia).
    assert (FI : forall a b, a < S (S (S j)) -> b < S (S (S j)) -> f2 a = f2 b -> a = b).
    { intros a b Ha Hb'. apply f2_inj; fold kk; rewrite EK, TP; lia. }
    split; [|split].
    + (* the residue stays below the target position *)
      intros g Hg I. apply in_map_iff in Hg as [g0 [<- Hg0]].
      assert (B : forall q, In q (sq g0) -> q < 2 * j + 4).
      { intros q Hq. apply in_app_or in Hg0 as [H0|H0]; [|apply in_app_or in H0 as [H0|H0]].
        - pose proof (xs_ctl (S (S (S j))) p ltac:(lia) g0 q H0 Hq). lia.
        - pose proof (chain_bounded j 1 ltac:(lia)) as CB. rewrite Forall_forall in CB. pose proof (CB g0 H0 q Hq). lia.
        - pose proof (xs_ctl (S (S (S j))) p ltac:(lia) g0 q H0 Hq). lia. }
      apply sq_relabel in I as [q [Hq E]].
      pose proof (L2_tgt k Hk) as T. fold kk in T. rewrite EK, TP in T.
      assert (q = 2 * j + 4).
      { apply (nodup_nth_inj (L2 k)); [apply L2_nodup; auto | | | congruence];
          rewrite L2_len by auto; fold kk; rewrite EK, TP; pose proof (B q Hq); lia. }
      pose proof (B q Hq). lia.
    + apply Forall_forall. intros g I. apply in_map_iff in I as [g0 [<- I0]].
      apply (lwf_relabel (L2 k) (tpos kk + 1)); [apply L2_nodup | apply L2_len |]; auto.
      rewrite EK, TP. replace (2 * j + 4 + 1) with (2 * j + 5) by lia.
      assert (F : Forall (lwf (2 * j + 5)) (X ++ chain_gates j ++ X)).
      { apply Forall_app; split; [apply xs_lwf; lia|]. apply Forall_app; split; [apply chain_gates_lwf | apply xs_lwf; lia]. }
      rewrite Forall_forall in F. auto.
    + intros psi. unfold mcx2, mcx2ao. fold kk. rewrite EK. fold p. rewrite Eex, Eao.
      rewrite !map_app, !srun_app. unfold X. rewrite !relabel_xs. fold f2.
      assert (XX : forall phi, srun (xs_p f2 (S (S (S j))) p) (srun (xs_p f2 (S (S (S j))) p) phi) = phi).
      { intros phi. apply functional_extensionality; intros b. rewrite !(xs_p_sem f2 _ FI).
        now rewrite (xflip_p_invol f2 _ FI). }
      now rewrite XX.
Qed.

Definition MX2 (psi : state) : state := MX k (Q2 k pat) psi.
Lemma MX2_MX2 psi : MX2 (MX2 psi) = psi.
Proof.
  unfold MX2, MX. rewrite appf_appf by (intros b v; cbn beta; now rewrite (Q2_indep k Hk pat b v)).
  apply functional_extensionality; intros b. unfold appf. destruct (Q2 k pat b); cbn [Xpow]; rewrite ?mmul_I2_l.
  - rewrite Xm_Xm. apply app1_I2.
  - apply app1_I2.
Qed.

(* a gate on the target between the action_only chain and its inverse *)
Lemma middle_eig (G : mat2) psi :
  srun (sinv_list (mcx2ao k pat)) (appf (fun _ => G) k (srun (mcx2ao k pat) psi)) = MX2 (appf (fun _ => G) k (MX2 psi)).
Proof.
  destruct mcx2_split as [R [Hc [Hw Hs]]]. pose proof mcx2ao_swf as Wl.
  assert (Ri : forall x, srun (sinv_list R) (srun R x) = x) by (intros x; rewrite <- srun_app; now apply inverse_right).
  assert (Rr : forall x, srun R (srun (sinv_list R) x) = x) by (intros x; rewrite <- srun_app; now apply inverse_left).
  assert (LM : forall x, srun (mcx2ao k pat) x = srun (sinv_list R) (MX2 x)).
  { intros x. unfold MX2. rewrite <- (mcx2_sem k Hk pat), Hs. now rewrite Ri. }
  assert (LMi : forall y, srun (sinv_list (mcx2ao k pat)) y = MX2 (srun R y)).
  { intros y. set (z := MX2 (srun R y)).
    assert (E : srun (mcx2ao k pat) z = y) by (unfold z; now rewrite LM, MX2_MX2, Ri).
    rewrite <- E. rewrite <- srun_app. now apply inverse_right. }
  rewrite LMi, LM. f_equal. rewrite srun_appf_comm.
  - now rewrite Rr.
  - intros g Hg. now apply Hc.
  - intros g Hg b v. reflexivity.
Qed.

Variable M : nat -> mat2.
Variable U : mat2.
(* the operator on the target as a function of the two half-register predicates (first applied gate rightmost) *)
Definition Wf (q1 q2 : bool) : mat2 :=
  mmul (M 0) (mmul (M 2) (mmul (Xpow q2) (mmul (M 1) (mmul (M 3) (mmul (Xpow q1)
  (mmul (M 5) (mmul (Xpow q2) (mmul (M 4) (mmul (Xpow q1) (mmul (M 5) (mmul (Xpow q2) (mmul (M 4)
  (mmul (M 3) (mmul (M 2) (mmul (Xpow q2) (mmul (M 1) (M 0))))))))))))))))).
Hypothesis W11 : Wf true true = U.
Hypothesis W10 : Wf true false = I2.
Hypothesis W01 : Wf false true = I2.
Hypothesis W00 : Wf false false = I2.

Theorem eig_sem psi : arun M (eig k pat) psi = appf (fun b => if pmatch pat k b then U else I2) k psi.
Proof.
  unfold eig. rewrite !arun_app, !arun_AS.
  cbn [arun fold_left aapp].
  rewrite !(mcx1_sem k Hk), !(mcx2_sem k Hk).
  rewrite (appf_appf (fun _ => M 3) (fun _ => M 2)) by (intros b v; reflexivity).
  rewrite (appf_appf (fun _ => M 4)) by (intros b v; reflexivity). cbn beta.
  rewrite (middle_eig (mmul (M 4) (mmul (M 3) (M 2)))). unfold MX2, MX.
  repeat (rewrite appf_appf by (intros b v; cbn beta; rewrite ?(Q1_indep k Hk pat b v), ?(Q2_indep k Hk pat b v); reflexivity)).
  f_equal. apply functional_extensionality; intros b. rewrite <- (Q12 k Hk pat b).
  unfold Wf in *.
  destruct (Q1 k pat b), (Q2 k pat b); cbn [andb]; rewrite <- ?mmul_assoc.
  - exact W11.
  - exact W10.
  - exact W01.
  - exact W00.
Qed.
End Eig.
