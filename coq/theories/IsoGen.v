(* C03: the index helpers of the column-by-column isometry decomposition (translated from qclib/isometry.py). *)
From Coq Require Import ZArith Lia Bool.
From QV Require Import GenLib Gen_isometry_counts.
Open Scope Z_scope.

Lemma a_spec k i : 0 <= i -> _a k i = Z.shiftr k i.
Proof. intros H. unfold _a. now rewrite Z.shiftr_div_pow2. Qed.

Lemma b_spec k i : 0 <= i -> _b k i = k mod 2 ^ i.
Proof.
  intros H. unfold _b, _a. assert (P : 0 < 2 ^ i) by (apply Z.pow_pos_nonneg; lia).
  rewrite (Z.mod_eq k (2 ^ i)) by lia. ring.
Qed.

Lemma land_pow2 k i : 0 <= i -> Z.land k (2 ^ i) = if Z.testbit k i then 2 ^ i else 0.
Proof.
  intros H. apply Z.bits_inj'. intros m Hm. rewrite Z.land_spec, Z.pow2_bits_eqb by lia.
  destruct (Z.eqb_spec i m) as [->|Hne].
  - rewrite andb_true_r. destruct (Z.testbit k m). now rewrite Z.pow2_bits_true. now rewrite Z.bits_0.
  - rewrite andb_false_r. destruct (Z.testbit k i). now rewrite Z.pow2_bits_false. now rewrite Z.bits_0.
Qed.

Lemma k_s_spec k i : 0 <= i -> _k_s k i = Z.b2z (Z.testbit k i).
Proof.
  intros H. unfold _k_s. rewrite land_pow2 by lia. assert (P : 0 < 2 ^ i) by (apply Z.pow_pos_nonneg; lia).
  destruct (Z.testbit k i); simpl. apply Z.div_same. lia. apply Z.div_0_l. lia.
Qed.
