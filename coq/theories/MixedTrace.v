(* C14: the ensemble density matrix sum_i p_i |psi_i><psi_i| has the trace sum_i p_i <psi_i|psi_i> - so trace one for
   normalised states and probabilities summing to one - and is Hermitian when the p_i are fixed by conj (real).
   Any field with a ring morphism conj, any ensemble size, any data dimension. *)
From mathcomp Require Import all_ssreflect all_algebra.
From QV Require Import Mixed.
Set Implicit Arguments. Unset Strict Implicit. Unset Printing Implicit Defensive.
Import GRing.Theory.
Local Open Scope ring_scope.

Section Trace.
Variable (F : fieldType) (conj : {rmorphism F -> F}).
Variables (d k : nat).
Variable psi : 'I_k -> 'cV[F]_d.
Variable p : 'I_k -> F.

Lemma rho_ens_trace : \tr (rho_ens conj psi p) = \sum_i p i * (adj conj (psi i) *m psi i) 0 0.
Proof.
  rewrite /rho_ens raddf_sum /=. apply: eq_bigr => i _.
  by rewrite mxtraceZ mxtrace_mulC trace_mx11.
Qed.

Theorem rho_ens_trace_one :
  (forall i, adj conj (psi i) *m psi i = 1%:M) -> \sum_i p i = 1 -> \tr (rho_ens conj psi p) = 1.
Proof.
  move=> Hn Hp. rewrite rho_ens_trace -Hp. apply: eq_bigr => i _.
  by rewrite Hn mxE eqxx mulr1.
Qed.

Theorem rho_ens_hermitian :
  (forall x, conj (conj x) = x) -> (forall i, conj (p i) = p i) ->
  adj conj (rho_ens conj psi p) = rho_ens conj psi p.
Proof.
  move=> Hinv Hp. apply/matrixP => a b. rewrite /rho_ens !mxE summxE rmorph_sum summxE.
  apply: eq_bigr => i _. rewrite !mxE !big_ord1 !mxE rmorphM rmorphM Hp Hinv.
  by rewrite [conj _ * _]mulrC.
Qed.
End Trace.

(* positivity in algebraic form: the quadratic form of the ensemble matrix is a p-weighted sum of conj(z) z terms *)
Section Quad.
Variable (F : fieldType) (conj : {rmorphism F -> F}).
Variables (d k : nat).
Variable psi : 'I_k -> 'cV[F]_d.
Variable p : 'I_k -> F.

Lemma adj_mul m n q (A : 'M[F]_(m, n)) (B : 'M[F]_(n, q)) : adj conj (A *m B) = adj conj B *m adj conj A.
Proof.
  apply/matrixP => i j. rewrite !mxE rmorph_sum. apply: eq_bigr => l _.
  by rewrite !mxE rmorphM mulrC.
Qed.

(* the quadratic form of the ensemble matrix: <x|rho|x> = sum_i p_i conj(<psi_i|x>) <psi_i|x> *)
Theorem rho_ens_quadratic_form (x : 'cV[F]_d) :
  (forall y, conj (conj y) = y) ->
  (adj conj x *m rho_ens conj psi p *m x) 0 0
  = \sum_i p i * (conj ((adj conj (psi i) *m x) 0 0) * (adj conj (psi i) *m x) 0 0).
Proof.
  move=> Hinv. rewrite /rho_ens mulmx_sumr mulmx_suml summxE. apply: eq_bigr => i _.
  rewrite -scalemxAr -scalemxAl mxE. congr (_ * _).
  rewrite mulmxA -(mulmxA (adj conj x *m psi i)) mxE big_ord1. congr (_ * _).
  rewrite !mxE rmorph_sum. apply: eq_bigr => l _.
  by rewrite !mxE rmorphM Hinv mulrC.
Qed.
End Quad.

(* the purification handed to the inner initializer is a unit vector: its squared norm tr(Psi Psi^dagger) is one *)
Section PurificationNorm.
Variable (F : fieldType) (conj : {rmorphism F -> F}).
Variables (d k : nat).
Variable psi : 'I_k -> 'cV[F]_d.
Variable s p : 'I_k -> F.
Theorem purification_normalised :
  (forall i, s i * conj (s i) = p i) -> (forall i, adj conj (psi i) *m psi i = 1%:M) -> \sum_i p i = 1 ->
  \tr (Psi psi s *m adj conj (Psi psi s)) = 1.
Proof. move=> Hs Hn Hp. rewrite (@partial_trace_purification F conj d k psi s p Hs). exact: rho_ens_trace_one. Qed.
End PurificationNorm.
