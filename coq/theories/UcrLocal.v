From Coq Require Import Reals Lra List Bool Arith Lia NArith FunctionalExtensionality.
From Coquelicot Require Import Complex.
From QV Require Import Sem Mat2.
Import ListNotations.
Open Scope R_scope.

Definition gmat (g : gate) (b : asg) : mat2 :=
  match g with
  | GRot r th _ => Rm r th
  | GEnt e c _ => if get b c then Em e else I2
  end.
Fixpoint cmat (c : list gate) (b : asg) : mat2 :=
  match c with [] => I2 | g :: c' => mmul (cmat c' b) (gmat g b) end.
Lemma cmat_app c1 c2 b : cmat (c1 ++ c2) b = mmul (cmat c2 b) (cmat c1 b).
Proof. induction c1; simpl. now rewrite mmul_I2_r. now rewrite IHc1, mmul_assoc. Qed.
Definition entm (e : ent) (k : nat) (b : asg) : mat2 :=
  match k with O => I2 | S _ => if get b k then Em e else I2 end.

Section Words.
Variables (r : rot) (e : ent).
Hypothesis Hre : e = EntCX \/ r = RotY.
Lemma EmRm_a x M : mmul (Em e) (mmul (Rm r x) M) = mmul (Rm r (- x)) (mmul (Em e) M).
Proof. now rewrite !mmul_assoc, Em_Rm. Qed.
Lemma EmEm_a M : mmul (Em e) (mmul (Em e) M) = M.
Proof. now rewrite mmul_assoc, Em_Em, mmul_I2_l. Qed.
Lemma RmRm_a x y M : mmul (Rm r x) (mmul (Rm r y) M) = mmul (Rm r (x + y)) M.
Proof. now rewrite mmul_assoc, Rm_add. Qed.
End Words.

Ltac norm_words Hre :=
  rewrite ?mmul_I2_l, ?mmul_I2_r; rewrite <- ?mmul_assoc;
  repeat first [ rewrite EmEm_a | rewrite Em_Em | rewrite (EmRm_a _ _ Hre) | rewrite (Em_Rm _ _ _ Hre)
               | rewrite RmRm_a | rewrite Rm_add | rewrite mmul_I2_l | rewrite mmul_I2_r ].

Lemma ucr_AB r e (Hre : e = EntCX \/ r = RotY) k : forall a b,
  mmul (entm e k b) (cmat (ucr_nl r e k a) b) = Rm r (a (cidx k b)) /\
  mmul (cmat (rev (ucr_nl r e k a)) b) (entm e k b) = Rm r (a (cidx k b)).
Proof.
  induction k as [|k IH]; intros a b.
  - simpl. destruct (Req_EM_T (a O) 0) as [E|E]; simpl.
    + rewrite E, Rm_0, !mmul_I2_l. auto.
    + rewrite !mmul_I2_l, ?mmul_I2_r. auto.
  - cbn [ucr_nl]. rewrite !rev_app_distr, rev_involutive. cbn [rev app].
    rewrite <- !app_assoc. cbn [app].
    rewrite !cmat_app. cbn [cmat gmat]. cbn [cidx].
    set (a1 := fun j => (a j + a (j + 2^k)%nat) / 2).
    set (a2 := fun j => (a j - a (j + 2^k)%nat) / 2).
    destruct (IH a1 b) as [A1 B1]. destruct (IH a2 b) as [A2 B2].
    set (E := entm e k b) in *.
    assert (HE : E = I2 \/ E = Em e).
    { unfold E, entm. destruct k; auto. destruct (get b (S k)); auto. }
    assert (EE : mmul E E = I2).
    { destruct HE as [->| ->]. apply mmul_I2_l. apply Em_Em. }
    assert (F1 : cmat (ucr_nl r e k a1) b = mmul E (Rm r (a1 (cidx k b)))).
    { rewrite <- A1, mmul_assoc, EE, mmul_I2_l. reflexivity. }
    assert (F2' : cmat (rev (ucr_nl r e k a2)) b = mmul (Rm r (a2 (cidx k b))) E).
    { rewrite <- B2, <- mmul_assoc, EE, mmul_I2_r. reflexivity. }
    assert (F2 : cmat (ucr_nl r e k a2) b = mmul E (Rm r (a2 (cidx k b)))).
    { rewrite <- A2, mmul_assoc, EE, mmul_I2_l. reflexivity. }
    assert (F1' : cmat (rev (ucr_nl r e k a1)) b = mmul (Rm r (a1 (cidx k b))) E).
    { rewrite <- B1, <- mmul_assoc, EE, mmul_I2_r. reflexivity. }
    rewrite F1, F2', F2, F1'. clear F1 F2 F1' F2' A1 A2 B1 B2 EE.
    unfold entm. fold E.
    set (j := cidx k b).
    assert (Hsum : a1 j + a2 j = a j) by (unfold a1, a2; field).
    assert (Hdif : a1 j - a2 j = a (j + 2^k)%nat) by (unfold a1, a2; field).
    destruct (get b (S k)); [rewrite <- Hdif | rewrite Nat.add_0_r, <- Hsum];
    destruct HE as [-> | ->]; split; norm_words Hre; f_equal; ring.
Qed.
Print Assumptions ucr_AB.
