(* Property C02: quantum Shannon decomposition - the demultiplexing identity, over any field.
   With V V^-1 = 1, D D^-1 = 1, U1 U2^-1 = V D^2 V^-1 and W = D V^-1 U2 (the premises are checked numerically on every
   _compute_gates call, including the degenerate-spectrum repair):   U1 (+) U2 = (V (+) V) (D (+) D^-1) (W (+) W). *)
From mathcomp Require Import all_ssreflect all_algebra.
From QV Require Import Demux.
Set Implicit Arguments. Unset Strict Implicit. Unset Printing Implicit Defensive.
Import GRing.Theory.
Local Open Scope ring_scope.

Theorem C02_demux : forall (F : fieldType) (m : nat) (U1 U2 V D Dinv Vinv U2inv W : 'M[F]_m),
  V *m Vinv = 1%:M -> D *m Dinv = 1%:M -> Dinv *m D = 1%:M -> U2inv *m U2 = 1%:M ->
  U1 *m U2inv = V *m (D *m D) *m Vinv -> W = D *m Vinv *m U2 ->
  bdiag U1 U2 = bdiag V V *m bdiag D Dinv *m bdiag W W.
Proof. move=> F m U1 U2 V D Dinv Vinv U2inv W. exact: demux. Qed.
Print Assumptions C02_demux.

Theorem C02_bdiag_mul : forall (F : fieldType) (m : nat) (A B C D : 'M[F]_m),
  bdiag A B *m bdiag C D = bdiag (A *m C) (B *m D).
Proof. move=> F m A B C D. exact: bdiag_mul. Qed.
Print Assumptions C02_bdiag_mul.

(* one QSD level with optimisation A.1: cosine-sine factorisation, the multiplexed RY built with CZ (last CZ omitted = Y,
   property C13) and the sign absorption into the right factor, both block pairs demultiplexed: the emitted blocks multiply to U *)
Theorem C02_qsd_step : forall (F : fieldType) (m : nat) (U CS Y : 'M[F]_(m + m)) (u0 u1 v0 v1 Z : 'M[F]_m)
  (Vl Dl Dlinv Wl Vr Dr Drinv Wr : 'M[F]_m),
  U = bdiag u0 u1 *m CS *m bdiag v0 v1 ->
  CS = bdiag 1%:M Z *m Y ->
  bdiag u0 (u1 *m Z) = bdiag Vr Vr *m bdiag Dr Drinv *m bdiag Wr Wr ->
  bdiag v0 v1 = bdiag Vl Vl *m bdiag Dl Dlinv *m bdiag Wl Wl ->
  (bdiag Vr Vr *m bdiag Dr Drinv *m bdiag Wr Wr) *m Y *m (bdiag Vl Vl *m bdiag Dl Dlinv *m bdiag Wl Wl) = U.
Proof. move=> F m U CS Y u0 u1 v0 v1 Z Vl Dl Dlinv Wl Vr Dr Drinv Wr. exact: qsd_step. Qed.
Print Assumptions C02_qsd_step.
