(* Property C02: quantum Shannon decomposition - the demultiplexing identity, over any field.
   With V V^-1 = 1, D D^-1 = 1, U1 U2^-1 = V D^2 V^-1 and W = D V^-1 U2 (the premises are checked numerically on every
   _compute_gates call, including the degenerate-spectrum repair):   U1 (+) U2 = (V (+) V) (D (+) D^-1) (W (+) W). *)
From mathcomp Require Import all_ssreflect all_algebra.
From QV Require Import Demux Givens.
Set Implicit Arguments. Unset Strict Implicit. Unset Printing Implicit Defensive.
Import GRing.Theory.
Local Open Scope ring_scope.

Theorem C02_demux : forall (F : fieldType) (m : nat) (U1 U2 V D Dinv Vinv U2inv W : 'M[F]_m),
  V *m Vinv = 1%:M -> D *m Dinv = 1%:M -> Dinv *m D = 1%:M -> U2inv *m U2 = 1%:M ->
  U1 *m U2inv = V *m (D *m D) *m Vinv -> W = D *m Vinv *m U2 ->
  bdiag U1 U2 = bdiag V V *m bdiag D Dinv *m bdiag W W.
Proof. move=> F m U1 U2 V D Dinv Vinv U2inv W. exact: demux. Qed.
Print Assumptions C02_demux.

Theorem C02_bdiag_mul : forall (F : fieldType) (m : nat) (A B C D : 'M[F]_m),
  bdiag A B *m bdiag C D = bdiag (A *m C) (B *m D).
Proof. move=> F m A B C D. exact: bdiag_mul. Qed.
Print Assumptions C02_bdiag_mul.

(* one QSD level with optimisation A.1: cosine-sine factorisation, the multiplexed RY built with CZ (last CZ omitted = Y,
   property C13) and the sign absorption into the right factor, both block pairs demultiplexed: the emitted blocks multiply to U *)
Theorem C02_qsd_step : forall (F : fieldType) (m : nat) (U CS Y : 'M[F]_(m + m)) (u0 u1 v0 v1 Z : 'M[F]_m)
  (Vl Dl Dlinv Wl Vr Dr Drinv Wr : 'M[F]_m),
  U = bdiag u0 u1 *m CS *m bdiag v0 v1 ->
  CS = bdiag 1%:M Z *m Y ->
  bdiag u0 (u1 *m Z) = bdiag Vr Vr *m bdiag Dr Drinv *m bdiag Wr Wr ->
  bdiag v0 v1 = bdiag Vl Vl *m bdiag Dl Dlinv *m bdiag Wl Wl ->
  (bdiag Vr Vr *m bdiag Dr Drinv *m bdiag Wr Wr) *m Y *m (bdiag Vl Vl *m bdiag Dl Dlinv *m bdiag Wl Wl) = U.
Proof. move=> F m U CS Y u0 u1 v0 v1 Z Vl Dl Dlinv Wl Vr Dr Drinv Wr. exact: qsd_step. Qed.
Print Assumptions C02_qsd_step.

(* QR scheme, the Givens sequence: eliminating with the factors R_1 .. R_k in turn and applying the recorded inverses in reverse
   order after the remainder gives the matrix back, for every ring and dimension, provided each recorded inverse is a left
   inverse of its factor (checked on every run) *)
Theorem C02_qr_telescoping : forall (R : ringType) (N : nat) (ps : seq ('M[R]_N * 'M[R]_N)),
  all (fun p => p.2 *m p.1 == 1%:M) ps -> forall U : 'M[R]_N, rebuild ps (eliminate U ps) = U.
Proof. move=> R N ps. exact: telescoping. Qed.
Print Assumptions C02_qr_telescoping.

(* the 2x2 core of a factor: rows (conj a, conj b), (b, -a) of the normalised pair send (nrm a, nrm b) to (nrm, 0) *)
Theorem C02_qr_givens_pair : forall (F : fieldType) (conj : {rmorphism F -> F}) (a b nrm : F),
  a * conj a + b * conj b = 1 ->
  conj a * (nrm * a) + conj b * (nrm * b) = nrm /\ b * (nrm * a) + (- a) * (nrm * b) = 0.
Proof. move=> F conj a b nrm H. exact: givens_pair. Qed.
Print Assumptions C02_qr_givens_pair.
