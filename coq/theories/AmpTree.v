From Coq Require Import Reals Lra List Bool Arith Lia NArith FunctionalExtensionality Psatz.
From Coquelicot Require Import Complex.
From QV Require Import Sem Mat2 Toff2 Chain UcrPlaced TopDownWalk.
Open Scope R_scope.

Lemma cis_add x y : (cis x * cis y = cis (x + y))%C.
Proof. unfold cis. rewrite cos_plus, sin_plus. apply Ceq; simpl; ring. Qed.

(* state tree (state_decomposition) and angle tree (create_angles_tree) as relations on tables *)
Section Angles.
Variables mag arg : nat -> nat -> R.      (* level -> index -> magnitude / phase of the state-tree node *)
Hypothesis mag_nonneg : forall l j, 0 <= mag l j.
Hypothesis mag_rel : forall l j, mag l j * mag l j = mag (S l) (2*j) * mag (S l) (2*j) + mag (S l) (2*j+1) * mag (S l) (2*j+1).
Hypothesis arg_rel : forall l j, arg l j = (arg (S l) (2*j) + arg (S l) (2*j+1)) / 2.

Definition ay (l j : nat) : R :=
  if Req_EM_T (mag l j) 0 then 2 * asin 0 else 2 * asin (mag (S l) (2*j+1) / mag l j).
Definition az (l j : nat) : R := 2 * (arg (S l) (2*j+1) - arg l j).

Lemma ratio_bounds l j : mag l j <> 0 -> 0 <= mag (S l) (2*j+1) / mag l j <= 1.
Proof.
  intros H. pose proof (mag_nonneg l j). pose proof (mag_nonneg (S l) (2*j+1)). pose proof (mag_nonneg (S l) (2*j)).
  pose proof (mag_rel l j).
  assert (0 < mag l j) by lra.
  split. apply Rmult_le_pos; auto. left; now apply Rinv_0_lt_compat.
  apply Rmult_le_reg_r with (mag l j); auto. unfold Rdiv. rewrite Rmult_assoc, Rinv_l, Rmult_1_r, Rmult_1_l by lra.
  nra.
Qed.

Lemma sin_half_ay l j : sin (ay l j / 2) * mag l j = mag (S l) (2*j+1).
Proof.
  unfold ay. pose proof (mag_rel l j). pose proof (mag_nonneg (S l) (2*j+1)). pose proof (mag_nonneg (S l) (2*j)).
  destruct (Req_EM_T (mag l j) 0) as [E|E].
  - replace (2 * asin 0 / 2) with (asin 0) by field. rewrite sin_asin by lra. rewrite E in *. nra.
  - replace (2 * asin (mag (S l) (2*j+1) / mag l j) / 2) with (asin (mag (S l) (2*j+1) / mag l j)) by field.
    pose proof (ratio_bounds l j E). rewrite sin_asin by lra. field. auto.
Qed.
Lemma cos_half_ay l j : cos (ay l j / 2) * mag l j = mag (S l) (2*j).
Proof.
  unfold ay. pose proof (mag_rel l j). pose proof (mag_nonneg (S l) (2*j+1)). pose proof (mag_nonneg (S l) (2*j)).
  pose proof (mag_nonneg l j).
  destruct (Req_EM_T (mag l j) 0) as [E|E].
  - rewrite E in *. nra.
  - replace (2 * asin (mag (S l) (2*j+1) / mag l j) / 2) with (asin (mag (S l) (2*j+1) / mag l j)) by field.
    pose proof (ratio_bounds l j E). rewrite cos_asin by lra.
    set (r := mag (S l) (2*j+1) / mag l j) in *.
    assert (Hm : 0 < mag l j) by lra.
    assert (Hr : r * mag l j = mag (S l) (2*j+1)) by (unfold r; field; auto).
    assert (Hr1 : 0 <= 1 - r²) by (unfold Rsqr; nra).
    set (s := sqrt (1 - r²)).
    assert (Hs : 0 <= s) by apply sqrt_pos.
    assert (Hss : s * s = 1 - r * r) by (unfold s; rewrite sqrt_sqrt; auto).
    assert (Sq : (s * mag l j) * (s * mag l j) = mag (S l) (2*j) * mag (S l) (2*j)) by nra.
    apply Rsqr_inj; [nra | lra | exact Sq].
Qed.

Theorem amp_tree l : forall j, (j < 2 ^ l)%nat ->
  (amp ay az l j * mag 0 0 = mag l j * cis (arg l j - arg 0 0))%C.
Proof.
  induction l as [|l IH]; intros j Hj.
  - simpl in Hj. assert (j = 0)%nat by lia. subst. cbn [amp].
    replace (arg 0%nat 0%nat - arg 0%nat 0%nat) with 0 by ring.
    unfold cis. rewrite cos_0, sin_0. apply Ceq; simpl; ring.
  - cbn [amp]. set (p := (j / 2)%nat).
    assert (Hp : (p < 2 ^ l)%nat).
    { unfold p. apply Nat.div_lt_upper_bound; simpl in Hj; lia. }
    assert (Hj2 : j = (2 * p + (if Nat.odd j then 1 else 0))%nat).
    { unfold p. rewrite <- Nat.div2_div. pose proof (Nat.div2_odd j) as H. 
      destruct (Nat.odd j); simpl in H; lia. }
    specialize (IH p Hp). clearbody p.
    destruct (Nat.odd j) eqn:Eo.
    + (* right child *)
      assert (Ej : j = (2 * p + 1)%nat) by lia. clear Hj2 Eo Hj. subst j.
      transitivity ((amp ay az l p * mag 0 0) * (RtoC (sin (ay l p / 2)) * cis (az l p / 2)))%C. { ring. }
      rewrite IH.
      transitivity (RtoC (sin (ay l p / 2) * mag l p) * (cis (arg l p - arg 0 0) * cis (az l p / 2)))%C.
      { rewrite RtoC_mult. ring. }
      rewrite sin_half_ay, cis_add. f_equal. f_equal. unfold az. field.
    + (* left child *)
      assert (Ej : j = (2 * p)%nat) by lia. clear Hj2 Eo Hj. subst j.
      transitivity ((amp ay az l p * mag 0 0) * (RtoC (cos (ay l p / 2)) * cis (- (az l p / 2))))%C. { ring. }
      rewrite IH.
      transitivity (RtoC (cos (ay l p / 2) * mag l p) * (cis (arg l p - arg 0 0) * cis (- (az l p / 2))))%C.
      { rewrite RtoC_mult. ring. }
      rewrite cos_half_ay, cis_add. f_equal. f_equal. unfold az. rewrite (arg_rel l p). field.
Qed.
End Angles.
Print Assumptions amp_tree.
