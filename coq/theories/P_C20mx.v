(* Property C20 (part 2): Lagrange's identity behind the Meyer-Wallach formula, over any field with an
   involutive ring morphism `conj` (so in particular over the complex numbers):
   sum_{i,j} |u_i v_j - u_j v_i|^2 = 2 (|u|^2 |v|^2 - |<u,v>|^2).
   With psi = |0>_k u + |1>_k v this is 4 * sum_{i<j}|...|^2 = 2 (1 - Tr rho_k^2) for unit vectors. *)
From mathcomp Require Import all_ssreflect all_fingroup all_algebra.
From QV Require Import Lagrange MeyerWallach MwInvariance.
Set Implicit Arguments. Unset Strict Implicit. Unset Printing Implicit Defensive.
Import GRing.Theory Num.Theory.
Local Open Scope ring_scope.

Theorem C20_lagrange : forall (F : fieldType) (conj : {rmorphism F -> F}) (n : nat) (u v : 'I_n -> F),
  \sum_i \sum_j nsq conj (u i * v j - u j * v i)
  = A conj u * B conj v + A conj u * B conj v - (S conj u v * Sc conj u v + S conj u v * Sc conj u v).
Proof. exact: lagrange_full. Qed.
Print Assumptions C20_lagrange.

(* the per-qubit quantity the code computes (sum over i < j only): 2 D = 2 (A B - S Sc) *)
Theorem C20_mw_per_qubit : forall (F : fieldType) (conj : {rmorphism F -> F}) (n : nat) (u v : 'I_n -> F),
  D conj u v + D conj u v
  = A conj u * B conj v + A conj u * B conj v - (S conj u v * Sc conj u v + S conj u v * Sc conj u v).
Proof. move=> F conj n u v. exact: mw_per_qubit. Qed.
Print Assumptions C20_mw_per_qubit.

(* purity form: with A + B = 1 (unit vector), 1 - Tr rho^2 = 2 (A B - S Sc) where Tr rho^2 = A^2 + B^2 + 2 S Sc; together:
   4 D = 2 (1 - Tr rho_k^2), so (4/n) sum_k D_k = 2 (1 - (1/n) sum_k Tr rho_k^2) *)
Theorem C20_purity_form : forall (F : fieldType) (a b s sc : F), a + b = 1 ->
  1 - (a * a + b * b + (s * sc + s * sc)) = (a * b + a * b) - (s * sc + s * sc).
Proof. move=> F a b s sc. exact: purity_form. Qed.
Print Assumptions C20_purity_form.

(* ---------- the remaining clauses, on the per-qubit quantity D(u, v) (u, v = halves of the state with qubit k = 0, 1);
   the measure is (4/n) sum_k D_k ---------- *)
(* zero on product states: for a product state both halves are multiples of one vector *)
Theorem C20_mw_zero_on_product : forall (F : fieldType) (conj : {rmorphism F -> F}) (n : nat) (u v w : 'I_n -> F) (a b : F),
  (forall i, u i = a * w i) -> (forall i, v i = b * w i) -> D conj u v = 0.
Proof. move=> F conj n u v w a b. exact: D_product. Qed.
Print Assumptions C20_mw_zero_on_product.

(* a one-qubit gate on qubit k itself mixes the halves; D is multiplied by |det|^2 (= 1 for a unitary) *)
Theorem C20_mw_unitary_same_qubit : forall (F : fieldType) (conj : {rmorphism F -> F}) (n : nat) (u v : 'I_n -> F) (a b c d : F),
  D conj (fun i => a * u i + b * v i) (fun i => c * u i + d * v i) = nsq conj (a * d - b * c) * D conj u v.
Proof. move=> F conj n u v a b c d. exact: D_mix. Qed.
Print Assumptions C20_mw_unitary_same_qubit.

(* a one-qubit gate on another qubit (or any isometry of the remaining register) acts alike on both halves: 2 D unchanged *)
Theorem C20_mw_unitary_other_qubit : forall (F : fieldType) (conj : {rmorphism F -> F}) (n m : nat) (W : 'I_m -> 'I_n -> F),
  (forall j l : 'I_n, \sum_(i : 'I_m) W i j * conj (W i l) = (j == l)%:R) ->
  forall u v : 'I_n -> F,
  D conj (img W u) (img W v) + D conj (img W u) (img W v) = D conj u v + D conj u v.
Proof. move=> F conj n m W H u v. exact: D_img. Qed.
Print Assumptions C20_mw_unitary_other_qubit.

(* relabelling the remaining qubits permutes the index set *)
Theorem C20_mw_relabel : forall (F : fieldType) (conj : {rmorphism F -> F}) (n : nat) (s : 'S_n) (u v : 'I_n -> F),
  D conj (fun i => u (s i)) (fun i => v (s i)) + D conj (fun i => u (s i)) (fun i => v (s i)) = D conj u v + D conj u v.
Proof. move=> F conj n s u v. exact: D_perm. Qed.
Print Assumptions C20_mw_relabel.

(* range, over the complex numbers (any numClosedFieldType): each 4 D_k lies in [0, 1] for a unit vector, hence so does their mean *)
Theorem C20_mw_range : forall (C : numClosedFieldType) (n : nat) (u v : 'I_n -> C),
  (0 <= D (@conjC C) u v)%R /\ (A (@conjC C) u + A (@conjC C) v = 1 -> (D (@conjC C) u v *+ 4 <= 1)%R).
Proof. move=> C n u v. split. exact: D_ge0. exact: D_le_quarter. Qed.
Print Assumptions C20_mw_range.

(* zero only when the qubit is unentangled: if the per-qubit quantity vanishes the two halves are proportional (u_i v_j = u_j v_i
   for all i, j; u is a multiple of v whenever v is not the zero vector), i.e. the state is a product across the cut {k} | rest *)
Theorem C20_mw_zero_only_if_proportional : forall (C : numClosedFieldType) (n : nat) (u v : 'I_n -> C),
  D (@conjC C) u v = 0 -> forall i j : 'I_n, u i * v j = u j * v i.
Proof. move=> C n u v. exact: D_eq0_cross. Qed.
Print Assumptions C20_mw_zero_only_if_proportional.

Theorem C20_mw_zero_multiple : forall (C : numClosedFieldType) (n : nat) (u v : 'I_n -> C) (j : 'I_n),
  D (@conjC C) u v = 0 -> v j != 0 -> forall i, u i = (u j / v j) * v i.
Proof. move=> C n u v j. exact: D_eq0_proportional. Qed.
Print Assumptions C20_mw_zero_multiple.
