(* Property C20 (part 2): Lagrange's identity behind the Meyer-Wallach formula, over any field with an
   involutive ring morphism `conj` (so in particular over the complex numbers):
   sum_{i,j} |u_i v_j - u_j v_i|^2 = 2 (|u|^2 |v|^2 - |<u,v>|^2).
   With psi = |0>_k u + |1>_k v this is 4 * sum_{i<j}|...|^2 = 2 (1 - Tr rho_k^2) for unit vectors. *)
From mathcomp Require Import all_ssreflect all_algebra.
From QV Require Import Lagrange MeyerWallach.
Set Implicit Arguments. Unset Strict Implicit. Unset Printing Implicit Defensive.
Import GRing.Theory.
Local Open Scope ring_scope.

Theorem C20_lagrange : forall (F : fieldType) (conj : {rmorphism F -> F}) (n : nat) (u v : 'I_n -> F),
  \sum_i \sum_j nsq conj (u i * v j - u j * v i)
  = A conj u * B conj v + A conj u * B conj v - (S conj u v * Sc conj u v + S conj u v * Sc conj u v).
Proof. exact: lagrange_full. Qed.
Print Assumptions C20_lagrange.

(* the per-qubit quantity the code computes (sum over i < j only): 2 D = 2 (A B - S Sc) *)
Theorem C20_mw_per_qubit : forall (F : fieldType) (conj : {rmorphism F -> F}) (n : nat) (u v : 'I_n -> F),
  D conj u v + D conj u v
  = A conj u * B conj v + A conj u * B conj v - (S conj u v * Sc conj u v + S conj u v * Sc conj u v).
Proof. move=> F conj n u v. exact: mw_per_qubit. Qed.
Print Assumptions C20_mw_per_qubit.

(* purity form: with A + B = 1 (unit vector), 1 - Tr rho^2 = 2 (A B - S Sc) where Tr rho^2 = A^2 + B^2 + 2 S Sc; together:
   4 D = 2 (1 - Tr rho_k^2), so (4/n) sum_k D_k = 2 (1 - (1/n) sum_k Tr rho_k^2) *)
Theorem C20_purity_form : forall (F : fieldType) (a b s sc : F), a + b = 1 ->
  1 - (a * a + b * b + (s * sc + s * sc)) = (a * b + a * b) - (s * sc + s * sc).
Proof. move=> F a b s sc. exact: purity_form. Qed.
Print Assumptions C20_purity_form.
