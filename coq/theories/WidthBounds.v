(* C11: the declared width of the bidirectional initializer lies between the two extremes it interpolates:
   n qubits (split = n: pure top-down, no ancilla) and 2^n - 1 qubits (the divide-and-conquer tree), and it does
   not grow when the split level is raised.  bdsp_width is REGENERATED FROM THE SOURCE (Gen_width). *)
From Coq Require Import ZArith Lia.
From QV Require Import GenLib Gen_width.
Open Scope Z_scope.

Lemma pow2_ge_succ k : 0 <= k -> k + 1 <= 2 ^ k.
Proof.
  intros Hk. pattern k. apply natlike_ind; [reflexivity | | exact Hk].
  intros x Hx IH. rewrite Z.pow_succ_r by exact Hx. lia.
Qed.

Theorem bdsp_width_bounds n s : 1 <= s <= n -> n <= bdsp_width n s <= 2 ^ n - 1.
Proof.
  intros H. unfold bdsp_width.
  assert (A : n - s + 1 <= 2 ^ (n - s)) by (apply pow2_ge_succ; lia).
  assert (B : s + 1 <= 2 ^ s) by (apply pow2_ge_succ; lia).
  assert (P : 0 < 2 ^ (n - s)) by (apply Z.pow_pos_nonneg; lia).
  assert (E : 2 ^ n = 2 ^ s * 2 ^ (n - s)) by (rewrite <- Z.pow_add_r by lia; f_equal; lia).
  split; [nia | rewrite E; nia].
Qed.

Theorem bdsp_width_step n s : 1 <= s < n -> bdsp_width n (s + 1) <= bdsp_width n s.
Proof.
  intros H. unfold bdsp_width.
  replace (n - s) with (Z.succ (n - (s + 1))) by lia. rewrite Z.pow_succ_r by lia.
  assert (P : 0 < 2 ^ (n - (s + 1))) by (apply Z.pow_pos_nonneg; lia). nia.
Qed.
