(* Model of qclib.gates.ucr.ucr, polymorphic in the angle type.
   - ucr_g          : the generator, same recursion as the Python code (angle transform (a+b)/2, (a-b)/2,
                      entangler, REVERSED second half, leaf skipped when the scalar test says so)
   - instance Q     : executable (vm_compute) - this is what the correspondence check runs against
                      flatten(qclib.gates.ucr.ucr(...)) for dyadic angles
   - instance R     : what the theorems are about; ucr_g_val ties the two: mapping the interpretation
                      Q2R over the Q-instance's output gives the R-instance's output. *)
From Coq Require Import Reals Lra List Bool Arith Lia NArith FunctionalExtensionality QArith Qabs Qreals.
From Coquelicot Require Import Complex.
From QV Require Import Sem Mat2 UcrLocal Toff2 Chain UcrSpec.
Import ListNotations.

Inductive pgate (A : Type) := PRot (r : rot) (theta : A) (q : nat) | PEnt (e : ent) (c t : nat).
Arguments PRot {A}. Arguments PEnt {A}.
Record aops (A : Type) := { aadd : A -> A -> A; asub : A -> A -> A; ahalf : A -> A; askip : A -> bool }.
Arguments aadd {A}. Arguments asub {A}. Arguments ahalf {A}. Arguments askip {A}.

Section Generic.
Context {A : Type} (o : aops A).
Fixpoint ucr_nl_g (r : rot) (e : ent) (k : nat) (a : nat -> A) : list (pgate A) :=
  match k with
  | O => if askip o (a O) then [] else [PRot r (a O) O]
  | S k' =>
     ucr_nl_g r e k' (fun j => ahalf o (aadd o (a j) (a (j + 2^k')%nat)))
     ++ [PEnt e (S k') O]
     ++ rev (ucr_nl_g r e k' (fun j => ahalf o (asub o (a j) (a (j + 2^k')%nat))))
  end.
(* the one-qubit case returns before last_control is read *)
Definition ucr_g r e k (a : nat -> A) (last : bool) : list (pgate A) :=
  ucr_nl_g r e k a ++ match k with O => [] | S _ => if last then [PEnt e k O] else [] end.
End Generic.

Definition valgate {A} (val : A -> R) (g : pgate A) : gate :=
  match g with PRot r th q => GRot r (val th) q | PEnt e c t => GEnt e c t end.

Open Scope R_scope.

(* ---------- the real-number model with an arbitrary leaf-skip test ---------- *)
Section Skip.
Variable skip : R -> bool.
Definition clip (x : R) : R := if skip x then 0 else x.

Fixpoint ucr_nl_s (r : rot) (e : ent) (k : nat) (a : nat -> R) : list gate :=
  match k with
  | O => if skip (a O) then [] else [GRot r (a O) O]
  | S k' =>
     ucr_nl_s r e k' (fun j => (a j + a (j + 2^k')%nat) / 2)
     ++ [GEnt e (S k') O]
     ++ rev (ucr_nl_s r e k' (fun j => (a j - a (j + 2^k')%nat) / 2))
  end.
Definition ucr_s r e k a (last : bool) : list gate :=
  ucr_nl_s r e k a ++ match k with O => [] | S _ => if last then [GEnt e k O] else [] end.

(* the angles the emitted circuit really implements: leaves that were skipped count as 0 *)
Fixpoint eff (k : nat) (a : nat -> R) (j : nat) : R :=
  match k with
  | O => clip (a O)
  | S k' =>
     let a1 := fun j => (a j + a (j + 2^k')%nat) / 2 in
     let a2 := fun j => (a j - a (j + 2^k')%nat) / 2 in
     if (j <? 2^k')%nat then eff k' a1 j + eff k' a2 j
     else eff k' a1 (j - 2^k')%nat - eff k' a2 (j - 2^k')%nat
  end.

Lemma cidx_lt k b : (cidx k b < 2^k)%nat.
Proof.
  induction k; cbn [cidx]. simpl; lia.
  change (2^(S k))%nat with (2 * 2^k)%nat. destruct (get b (S k)); lia.
Qed.

Lemma ucr_AB_s r e (Hre : e = EntCX \/ r = RotY) k : forall a b,
  mmul (entm e k b) (cmat (ucr_nl_s r e k a) b) = Rm r (eff k a (cidx k b)) /\
  mmul (cmat (rev (ucr_nl_s r e k a)) b) (entm e k b) = Rm r (eff k a (cidx k b)).
Proof.
  induction k as [|k IH]; intros a b.
  - cbn [ucr_nl_s eff cidx]. unfold clip. destruct (skip (a O)); simpl.
    + rewrite Rm_0, !mmul_I2_l. auto.
    + rewrite !mmul_I2_l, ?mmul_I2_r. auto.
  - cbn [ucr_nl_s]. rewrite !rev_app_distr, rev_involutive. cbn [rev app].
    rewrite <- !app_assoc. cbn [app].
    rewrite !cmat_app. cbn [cmat gmat]. cbn [cidx].
    set (a1 := fun j => (a j + a (j + 2^k)%nat) / 2).
    set (a2 := fun j => (a j - a (j + 2^k)%nat) / 2).
    destruct (IH a1 b) as [A1 B1]. destruct (IH a2 b) as [A2 B2].
    set (E := entm e k b) in *.
    assert (HE : E = I2 \/ E = Em e).
    { unfold E, entm. destruct k; auto. destruct (get b (S k)); auto. }
    assert (EE : mmul E E = I2).
    { destruct HE as [->| ->]. apply mmul_I2_l. apply Em_Em. }
    assert (F1 : cmat (ucr_nl_s r e k a1) b = mmul E (Rm r (eff k a1 (cidx k b)))).
    { rewrite <- A1, mmul_assoc, EE, mmul_I2_l. reflexivity. }
    assert (F2' : cmat (rev (ucr_nl_s r e k a2)) b = mmul (Rm r (eff k a2 (cidx k b))) E).
    { rewrite <- B2, <- mmul_assoc, EE, mmul_I2_r. reflexivity. }
    assert (F2 : cmat (ucr_nl_s r e k a2) b = mmul E (Rm r (eff k a2 (cidx k b)))).
    { rewrite <- A2, mmul_assoc, EE, mmul_I2_l. reflexivity. }
    assert (F1' : cmat (rev (ucr_nl_s r e k a1)) b = mmul (Rm r (eff k a1 (cidx k b))) E).
    { rewrite <- B1, <- mmul_assoc, EE, mmul_I2_r. reflexivity. }
    rewrite F1, F2', F2, F1'. clear F1 F2 F1' F2' A1 A2 B1 B2 EE.
    unfold entm. fold E.
    set (j := cidx k b).
    assert (Hlt : (j < 2^k)%nat) by apply cidx_lt.
    assert (Hsum : eff (S k) a j = eff k a1 j + eff k a2 j).
    { cbn [eff]. fold a1 a2. destruct (Nat.ltb_spec j (2^k)); [reflexivity|lia]. }
    assert (Hdif : eff (S k) a (j + 2^k)%nat = eff k a1 j - eff k a2 j).
    { cbn [eff]. fold a1 a2. destruct (Nat.ltb_spec (j + 2^k) (2^k)); [lia|].
      replace (j + 2^k - 2^k)%nat with j by lia. reflexivity. }
    destruct (get b (S k)); [rewrite Hdif | rewrite Nat.add_0_r, Hsum];
    destruct HE as [-> | ->]; split; norm_words Hre; f_equal; ring.
Qed.

Lemma ucr_nl_s_wf r e k : forall a, Forall gwf (ucr_nl_s r e k a).
Proof.
  induction k; intros a; simpl.
  - destruct (skip (a O)); constructor; simpl; auto.
  - apply Forall_app; split; [apply IHk|]. constructor; [simpl; auto|].
    apply Forall_rev. apply IHk.
Qed.

Theorem ucr_s_spec r e k a : (e = EntCX \/ r = RotY) ->
  forall psi, run (ucr_s r e k a true) psi = mux r k (eff k a) psi.
Proof.
  intros Hre psi.
  assert (W : Forall gwf (ucr_s r e k a true)).
  { unfold ucr_s. apply Forall_app; split; [apply ucr_nl_s_wf|]. destruct k; constructor; simpl; auto. }
  rewrite run_cmat by auto. apply functional_extensionality; intros b. unfold appf, mux.
  f_equal. unfold ucr_s. rewrite cmat_app. destruct (ucr_AB_s r e Hre k a b) as [A _].
  destruct k; simpl in *.
  - now rewrite mmul_I2_l in *.
  - rewrite mmul_I2_l. exact A.
Qed.
Theorem ucr_s_nolast_spec r e k a : (e = EntCX \/ r = RotY) ->
  forall psi, run (ucr_s r e k a false ++ match k with O => [] | S _ => [GEnt e k O] end) psi
              = mux r k (eff k a) psi.
Proof.
  intros Hre psi. replace (ucr_s r e k a false ++ _) with (ucr_s r e k a true).
  now apply ucr_s_spec. unfold ucr_s. destruct k; now rewrite ?app_nil_r.
Qed.

(* the implemented angles are within 2^k * eps of the requested ones *)
Lemma eff_close eps : 0 <= eps -> (forall x, skip x = true -> Rabs x <= eps) ->
  forall k a j, (j < 2^k)%nat -> Rabs (eff k a j - a j) <= 2^k * eps.
Proof.
  intros He Hs. induction k as [|k IH]; intros a j Hj.
  - simpl in Hj. assert (j = O) by lia. subst j. cbn [eff]. unfold clip.
    destruct (skip (a O)) eqn:E.
    + replace (0 - a O) with (- a O) by ring. rewrite Rabs_Ropp. simpl. rewrite Rmult_1_l. now apply Hs.
    + replace (a O - a O) with 0 by ring. rewrite Rabs_R0. simpl. lra.
  - cbn [eff]. set (a1 := fun j => (a j + a (j + 2^k)%nat) / 2). set (a2 := fun j => (a j - a (j + 2^k)%nat) / 2).
    change (2^(S k)) with (2 * 2^k). change (2^(S k))%nat with (2 * 2^k)%nat in Hj.
    destruct (Nat.ltb_spec j (2^k)) as [L|L].
    + replace (eff k a1 j + eff k a2 j - a j) with ((eff k a1 j - a1 j) + (eff k a2 j - a2 j))
        by (unfold a1, a2; field).
      eapply Rle_trans. apply Rabs_triang.
      pose proof (IH a1 j L). pose proof (IH a2 j L). lra.
    + set (j' := (j - 2^k)%nat). assert (L' : (j' < 2^k)%nat) by (unfold j'; lia).
      replace (eff k a1 j' - eff k a2 j' - a j) with ((eff k a1 j' - a1 j') + - (eff k a2 j' - a2 j')).
      2:{ unfold a1, a2. replace (j' + 2^k)%nat with j by (unfold j'; lia). field. }
      eapply Rle_trans. apply Rabs_triang. rewrite Rabs_Ropp.
      pose proof (IH a1 j' L'). pose proof (IH a2 j' L'). lra.
Qed.
Lemma eff_exact : (forall x, skip x = true -> x = 0) ->
  forall k a j, (j < 2^k)%nat -> eff k a j = a j.
Proof.
  intros Hs k a j Hj.
  assert (H : Rabs (eff k a j - a j) <= 2^k * 0).
  { apply eff_close; auto. lra. intros x Hx. rewrite (Hs x Hx), Rabs_R0. lra. }
  rewrite Rmult_0_r in H. pose proof (Rabs_pos (eff k a j - a j)).
  assert (E : Rabs (eff k a j - a j) = 0) by lra.
  destruct (Req_dec (eff k a j - a j) 0) as [Z|Z]. lra. apply Rabs_no_R0 in Z. contradiction.
Qed.
End Skip.

(* ---------- generic model -> real model ---------- *)
Section Link.
Context {A : Type} (o : aops A) (val : A -> R) (skipR : R -> bool).
Hypothesis Hadd : forall x y, val (ahalf o (aadd o x y)) = (val x + val y) / 2.
Hypothesis Hsub : forall x y, val (ahalf o (asub o x y)) = (val x - val y) / 2.
Hypothesis Hskip : forall x, askip o x = skipR (val x).

Lemma ucr_nl_g_val r e k : forall a,
  map (valgate val) (ucr_nl_g o r e k a) = ucr_nl_s skipR r e k (fun j => val (a j)).
Proof.
  induction k as [|k IH]; intros a; cbn [ucr_nl_g ucr_nl_s].
  - rewrite Hskip. destruct (skipR (val (a O))); reflexivity.
  - rewrite !map_app, map_rev, !IH. cbn [map valgate].
    f_equal; [|f_equal; f_equal]; f_equal; apply functional_extensionality; intros j; auto.
Qed.
Lemma ucr_g_val r e k a last :
  map (valgate val) (ucr_g o r e k a last) = ucr_s skipR r e k (fun j => val (a j)) last.
Proof.
  unfold ucr_g, ucr_s. rewrite map_app, ucr_nl_g_val. f_equal. destruct k; auto. destruct last; auto.
Qed.
End Link.

(* ---------- the executable instance: exact rationals, skip iff |x| <= 10^-8 (ucr.py line 49) ---------- *)
Definition eps_q : Q := 1 # 100000000.
Definition qops : aops Q :=
  {| aadd := Qplus; asub := Qminus; ahalf := fun x => Qred (x / 2);
     askip := fun x => Qle_bool (Qabs x) eps_q |}.
Definition skip_eps (x : R) : bool := if Rle_dec (Rabs x) (Q2R eps_q) then true else false.

Lemma Q2R_half x : Q2R (Qred (x / 2)) = Q2R x / 2.
Proof.
  rewrite (Qeq_eqR _ _ (Qred_correct (x / 2))). unfold Qdiv. rewrite Q2R_mult, Q2R_inv.
  - unfold Rdiv. f_equal. f_equal. unfold Q2R; simpl. lra.
  - intro H. discriminate H.
Qed.
Lemma Q2R_abs x : Q2R (Qabs x) = Rabs (Q2R x).
Proof.
  apply Qabs_case; intros H.
  - apply Qle_Rle in H. replace (Q2R 0) with 0 in H by (unfold Q2R; simpl; lra).
    now rewrite Rabs_pos_eq.
  - apply Qle_Rle in H. replace (Q2R 0) with 0 in H by (unfold Q2R; simpl; lra).
    rewrite Q2R_opp. destruct (Req_dec (Q2R x) 0) as [Z|Z].
    + rewrite Z, Rabs_R0. lra.
    + rewrite Rabs_left; lra.
Qed.
Lemma qskip_ok x : askip qops x = skip_eps (Q2R x).
Proof.
  cbn [askip qops]. unfold skip_eps. rewrite <- Q2R_abs.
  destruct (Rle_dec (Q2R (Qabs x)) (Q2R eps_q)) as [H|H].
  - apply Qle_bool_iff. now apply Rle_Qle.
  - destruct (Qle_bool (Qabs x) eps_q) eqn:E; auto. apply Qle_bool_iff in E. apply Qle_Rle in E. contradiction.
Qed.

Theorem ucr_q_val r e k (a : nat -> Q) last :
  map (valgate Q2R) (ucr_g qops r e k a last) = ucr_s skip_eps r e k (fun j => Q2R (a j)) last.
Proof.
  apply ucr_g_val.
  - intros x y. cbn [ahalf aadd qops]. now rewrite Q2R_half, Q2R_plus.
  - intros x y. cbn [ahalf asub qops]. now rewrite Q2R_half, Q2R_minus.
  - apply qskip_ok.
Qed.

Lemma skip_eps_small x : skip_eps x = true -> Rabs x <= Q2R eps_q.
Proof. unfold skip_eps. destruct (Rle_dec (Rabs x) (Q2R eps_q)); auto. discriminate. Qed.

(* what the executable model emits denotes the multiplexer of angles within 2^k * 10^-8 of the input *)
Theorem ucr_q_spec r e k (a : nat -> Q) : (e = EntCX \/ r = RotY) ->
  exists a' : nat -> R,
    (forall psi, run (map (valgate Q2R) (ucr_g qops r e k a true)) psi = mux r k a' psi) /\
    (forall psi, run (map (valgate Q2R) (ucr_g qops r e k a false) ++ match k with O => [] | S _ => [GEnt e k O] end) psi
                 = mux r k a' psi) /\
    (forall j, (j < 2^k)%nat -> Rabs (a' j - Q2R (a j)) <= 2^k * Q2R eps_q).
Proof.
  intros Hre. exists (eff skip_eps k (fun j => Q2R (a j))). repeat split.
  - intros psi. rewrite ucr_q_val. now apply ucr_s_spec.
  - intros psi. rewrite ucr_q_val. now apply ucr_s_nolast_spec.
  - intros j Hj. apply eff_close; auto.
    + unfold Q2R, eps_q; simpl. lra.
    + apply skip_eps_small.
Qed.

(* executable entry point used by the correspondence check *)
Definition run_q (r : rot) (e : ent) (k : nat) (l : list Q) (last : bool) : list (pgate Q) :=
  ucr_g qops r e k (fun j => nth j l 0%Q) last.
