(* C13: the restriction to (RY,CX), (RY,CZ), (RZ,CX) is necessary: with RZ rotations and CZ entanglers the recursion
   does NOT give the multiplexer (CZ commutes with RZ instead of negating its angle). *)
From Coq Require Import Reals Lra List Bool Arith Lia NArith.
From Coquelicot Require Import Complex.
From QV Require Import Sem Mat2 UcrLocal.
Import ListNotations.
Open Scope R_scope.

Definition a_ref (j : nat) : R := match j with O => 0 | _ => PI end.
Definition b_ref : asg := upd 0%N 1 true.

Lemma ucr_nl_ref : ucr_nl RotZ EntCZ 1 a_ref = [GRot RotZ (PI / 2) 0; GEnt EntCZ 1 0; GRot RotZ (- (PI / 2)) 0].
Proof.
  cbn [ucr_nl]. simpl (2 ^ 0)%nat. cbn [a_ref Nat.add].
  replace ((0 + PI) / 2) with (PI / 2) by field. replace ((0 - PI) / 2) with (- (PI / 2)) by field.
  pose proof PI_RGT_0.
  destruct (Req_EM_T (PI / 2) 0); [lra|]. destruct (Req_EM_T (- (PI / 2)) 0); [lra|]. reflexivity.
Qed.

Theorem ucr_rz_cz_refuted :
  mmul (entm EntCZ 1 b_ref) (cmat (ucr_nl RotZ EntCZ 1 a_ref) b_ref) <> Rm RotZ (a_ref (cidx 1 b_ref)).
Proof.
  rewrite ucr_nl_ref. unfold b_ref. cbn [cmat gmat entm cidx]. rewrite !get_upd_same. simpl (2 ^ 0)%nat. cbn [Nat.add a_ref].
  intro H. apply (f_equal m00) in H. revert H.
  unfold Rm, Em, RZm, Zm, mmul, I2. cbn [m00 m01 m10 m11].
  replace (- (PI / 2) / 2) with (- (PI / 4)) by field. replace (PI / 2 / 2) with (PI / 4) by field.
  rewrite cos_neg, sin_neg, cos_PI2, sin_PI2, cos_PI4, sin_PI4.
  intro H. apply (f_equal fst) in H. simpl in H.
  assert (S : 1 / sqrt 2 * (1 / sqrt 2) = 1 / 2).
  { field_simplify. rewrite pow2_sqrt by lra. lra. apply sqrt2_neq_0. }
  nra.
Qed.
