(* Re-ordering a gate list: two arrangements of the same gates, each sorted for its own key, denote the same operator when every
   pair of gates that does not commute is ordered the same way by both keys (trace equivalence, specialised to sorted lists). *)
From Coq Require Import List Arith Lia Permutation Sorted.
Import ListNotations.

Section Resort.
Variables G S : Type.
Variable gap : G -> S -> S.
Definition grun (l : list G) (s : S) : S := fold_left (fun s g => gap g s) l s.
Lemma grun_app l1 l2 s : grun (l1 ++ l2) s = grun l2 (grun l1 s).
Proof. unfold grun. now rewrite fold_left_app. Qed.
Lemma grun_cons g l s : grun (g :: l) s = grun l (gap g s).
Proof. reflexivity. Qed.

Variable comm : G -> G -> Prop.
Hypothesis comm_ok : forall g h s, comm g h -> gap g (gap h s) = gap h (gap g s).

Lemma move_front g P : (forall h, In h P -> comm g h) -> forall Q s, grun (P ++ g :: Q) s = grun (g :: P ++ Q) s.
Proof.
  induction P as [|h P IH]; intros H Q s. reflexivity.
  rewrite <- app_comm_cons, !grun_cons. rewrite IH by (intros; apply H; now right).
  rewrite !grun_cons. rewrite <- app_comm_cons, grun_cons. f_equal. apply comm_ok. apply H. now left.
Qed.

Variables k1 k2 : G -> nat.
Definition le1 (g h : G) : Prop := k1 g <= k1 h.
Definition le2 (g h : G) : Prop := k2 g <= k2 h.

Lemma sorted_remove (le : G -> G -> Prop) P g Q : StronglySorted le (P ++ g :: Q) ->
  StronglySorted le (P ++ Q) /\ (forall h, In h P -> le h g).
Proof.
  induction P as [|x P IH]; intros H.
  - simpl in *. inversion H; subst. split; auto. intros h [].
  - simpl in H. inversion H as [|? ? Hs Hf]; subst. destruct (IH Hs) as [H1 H2]. split.
    + simpl. constructor; auto. rewrite Forall_forall in *. intros y Hy. apply Hf.
      apply in_app_or in Hy as [Hy|Hy]; apply in_or_app; [now left | right; now right].
    + intros h [<-|Hh]; auto. rewrite Forall_forall in Hf. apply Hf. apply in_or_app. right. now left.
Qed.

Theorem resort : forall L L', Permutation L L' -> StronglySorted le1 L -> StronglySorted le2 L' ->
  (forall g h, In g L -> In h L -> ~ comm g h -> k1 g <= k1 h -> k2 g < k2 h) ->
  (forall g h, In g L -> In h L -> comm g h \/ ~ comm g h) ->
  forall s, grun L s = grun L' s.
Proof.
  induction L as [|g L IH]; intros L' HP H1 H2 HC HD s.
  - apply Permutation_nil in HP. now subst.
  - assert (Ig : In g L') by (apply (Permutation_in _ HP); now left).
    apply in_split in Ig as [P [Q ->]].
    apply Permutation_cons_app_inv in HP.
    inversion H1 as [|? ? Hs Hf]; subst. rewrite Forall_forall in Hf.
    destruct (sorted_remove le2 P g Q H2) as [H2' HPg].
    rewrite move_front.
    + rewrite !grun_cons. apply IH; auto.
      * intros x y Hx Hy. apply HC; now right.
      * intros x y Hx Hy. apply HD; now right.
    + intros h Hh.
      assert (Ih : In h L) by (apply (Permutation_in _ (Permutation_sym HP)); apply in_or_app; now left).
      destruct (HD g h (or_introl eq_refl) (or_intror Ih)) as [C|NC]; auto. exfalso.
      pose proof (HC g h (or_introl eq_refl) (or_intror Ih) NC (Hf h Ih)) as Lt.
      pose proof (HPg h Hh) as Le. unfold le2 in Le. lia.
Qed.
End Resort.

(* stable insertion sort by a nat key *)
Section Isort.
Variable G : Type.
Variable k : G -> nat.
Fixpoint insert (g : G) (l : list G) : list G :=
  match l with [] => [g] | h :: l' => if k g <=? k h then g :: l else h :: insert g l' end.
Fixpoint isort (l : list G) : list G := match l with [] => [] | g :: l' => insert g (isort l') end.
Lemma insert_perm g l : Permutation (insert g l) (g :: l).
Proof.
  induction l as [|h l IH]; simpl; auto. destruct (k g <=? k h); auto.
  apply perm_trans with (h :: g :: l); [now constructor | apply perm_swap].
Qed.
Lemma isort_perm l : Permutation (isort l) l.
Proof. induction l as [|g l IH]; simpl; auto. apply perm_trans with (g :: isort l). apply insert_perm. now constructor. Qed.
Lemma insert_sorted g l : StronglySorted (fun a b => k a <= k b) l -> StronglySorted (fun a b => k a <= k b) (insert g l).
Proof.
  induction l as [|h l IH]; intros H; simpl.
  - constructor; constructor.
  - inversion H as [|? ? Hs Hf]; subst. destruct (Nat.leb_spec (k g) (k h)).
    + constructor; auto. constructor; auto. rewrite Forall_forall in *. intros x Hx. specialize (Hf x Hx). lia.
    + constructor; auto. rewrite Forall_forall in *. intros x Hx.
      apply (Permutation_in _ (insert_perm g l)) in Hx as [<-|Hx]; auto. lia.
Qed.
Lemma isort_sorted l : StronglySorted (fun a b => k a <= k b) (isort l).
Proof. induction l as [|g l IH]; simpl. constructor. now apply insert_sorted. Qed.
End Isort.

(* a concatenation of buckets is sorted when the buckets come in key order *)
Lemma sorted_flat_map {A B} (f : A -> list B) (kk : A -> nat) (k : B -> nat) (keys : list A) :
  (forall a x, In a keys -> In x (f a) -> k x = kk a) -> StronglySorted (fun a a' => kk a <= kk a') keys ->
  StronglySorted (fun x y => k x <= k y) (flat_map f keys).
Proof.
  induction keys as [|a keys IH]; intros Hk Hs; simpl. constructor.
  inversion Hs as [|? ? Hs' Hf]; subst. rewrite Forall_forall in Hf.
  assert (IH' : StronglySorted (fun x y => k x <= k y) (flat_map f keys)).
  { apply IH; auto. intros a' x Ha Hx. apply Hk; auto. now right. }
  assert (Hall : forall x y, In x (f a) -> In y (flat_map f keys) -> k x <= k y).
  { intros x y Hx Hy. apply in_flat_map in Hy as [a' [Ha' Hy]].
    rewrite (Hk a x (or_introl eq_refl) Hx), (Hk a' y (or_intror Ha') Hy). now apply Hf. }
  assert (Hsame : forall x y, In x (f a) -> In y (f a) -> k x <= k y).
  { intros x y Hx Hy. rewrite (Hk a x (or_introl eq_refl) Hx), (Hk a y (or_introl eq_refl) Hy). lia. }
  clear Hk. induction (f a) as [|x l IHl]; simpl; auto.
  constructor.
  - apply IHl; intros; [apply Hall | apply Hsame]; auto; now right.
  - rewrite Forall_forall. intros y Hy. apply in_app_or in Hy as [Hy|Hy].
    + apply Hsame; [now left | now right].
    + apply Hall; auto. now left.
Qed.
