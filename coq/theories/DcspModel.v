(* C11: executable (rational-angle) model of tree_walk.bottom_up on an angle tree with qubits, as compared with the flattened
   definition of DcspInitialize on every run, its link to the real-valued model of Dcsp.v, and the path weights. *)
From Coq Require Import Reals Lra List Bool Arith Lia QArith Qreals.
From QV Require Import Sem Dcsp DcspMarg SumQ.
Import ListNotations.
Open Scope nat_scope.

Inductive qtree := QLeaf | QNode (q : nat) (ay az : Q) (l r : qtree).
Inductive qgate := QRY (th : Q) (q : nat) | QRZ (th : Q) (q : nat) | QCSWAP (c a b : nat).

Fixpoint qchain (t : qtree) : list nat := match t with QLeaf => [] | QNode q _ _ l _ => q :: qchain l end.
Fixpoint qqubits (t : qtree) : list nat := match t with QLeaf => [] | QNode q _ _ l r => q :: qqubits l ++ qqubits r end.
Fixpoint qbalanced (d : nat) (t : qtree) : bool :=
  match d, t with
  | O, QLeaf => true
  | S d', QNode _ _ _ l r => qbalanced d' l && qbalanced d' r
  | _, _ => false
  end.
Definition qz (x : Q) : bool := Qeq_bool x 0.
Fixpoint bottom_up_q (t : qtree) : list qgate :=
  match t with
  | QLeaf => []
  | QNode q ay az l r =>
      (if qz ay then [] else [QRY ay q]) ++ (if qz az then [] else [QRZ az q])
      ++ bottom_up_q l ++ bottom_up_q r
      ++ (if qz ay then [] else map (fun p => QCSWAP q (fst p) (snd p)) (combine (qchain l) (qchain r)))
  end.

(* executable well-formedness premises of the theorem *)
Fixpoint nodupb (l : list nat) : bool :=
  match l with [] => true | a :: r => negb (existsb (Nat.eqb a) r) && nodupb r end.
Lemma nodupb_sound l : nodupb l = true -> NoDup l.
Proof.
  induction l as [|a r IH]; intros H. constructor.
  simpl in H. apply andb_prop in H as [H1 H2]. constructor; auto.
  intro I. apply negb_true_iff in H1. assert (E : existsb (Nat.eqb a) r = true).
  { apply existsb_exists. exists a. split; auto. apply Nat.eqb_refl. }
  congruence.
Qed.

(* link to the real-valued model *)
Fixpoint treeR (t : qtree) : atree :=
  match t with QLeaf => ALeaf | QNode q ay az l r => ANode q (Q2R ay) (Q2R az) (treeR l) (treeR r) end.
Definition gateR (g : qgate) : dgate :=
  match g with QRY th q => DRY (Q2R th) q | QRZ th q => DRZ (Q2R th) q | QCSWAP c a b => DCSWAP c a b end.

Lemma qz_rz0 x : rz0 (Q2R x) = qz x.
Proof.
  unfold rz0, qz. destruct (Req_EM_T (Q2R x) 0) as [E|E]; destruct (Qeq_bool x 0) eqn:B; auto.
  - exfalso. apply Qeq_bool_neq in B. apply B. apply eqR_Qeq. rewrite E. unfold Q2R. simpl. lra.
  - exfalso. apply E. apply Qeq_bool_eq in B. rewrite (Qeq_eqR _ _ B). unfold Q2R. simpl. lra.
Qed.
Lemma chain_treeR t : chain (treeR t) = qchain t.
Proof. induction t as [|q ay az l IHl r IHr]; simpl; auto. now rewrite IHl. Qed.
Lemma qubits_treeR t : qubits (treeR t) = qqubits t.
Proof. induction t as [|q ay az l IHl r IHr]; simpl; auto. now rewrite IHl, IHr. Qed.
Lemma balanced_treeR t : forall d, qbalanced d t = true -> balanced d (treeR t).
Proof.
  induction t as [|q ay az l IHl r IHr]; intros d H; destruct d; simpl in *; try discriminate; auto.
  apply andb_prop in H as [H1 H2]. split; auto.
Qed.
Lemma bottom_up_link t : map gateR (bottom_up_q t) = bottom_up (treeR t).
Proof.
  induction t as [|q ay az l IHl r IHr]. reflexivity.
  cbn [bottom_up_q bottom_up treeR]. rewrite !map_app, IHl, IHr, !qz_rz0.
  unfold cswaps, pairs. rewrite !chain_treeR.
  destruct (qz ay); destruct (qz az); cbn [map]; rewrite ?map_map; reflexivity.
Qed.

(* ---------- path weights and sub-vector norms ---------- *)
Open Scope R_scope.
Fixpoint pathw (t : atree) (k : list bool) : R :=
  match t, k with
  | ANode _ ay az l r, v :: k' => if v then w1 ay az * pathw r k' else w0 ay az * pathw l k'
  | _, _ => 1
  end.
Lemma prob_pathw t : forall ch b, prob t ch b = pathw t (map (get b) ch).
Proof.
  induction t as [|q ay az l IHl r IHr]; intros ch b. reflexivity.
  destruct ch as [|c ch]. reflexivity. cbn [prob map pathw]. now rewrite IHl, IHr.
Qed.

(* M p = squared norm of the sub-vector below the path prefix p.  If every node splits M p into its two children by its
   weights (checked numerically on the logged trees on every run), the weight of a full path k is M k / M [] *)
Fixpoint splits (t : atree) (M : list bool -> R) (p : list bool) : Prop :=
  match t with
  | ALeaf => True
  | ANode _ ay az l r =>
      w0 ay az * M p = M (p ++ [false]) /\ w1 ay az * M p = M (p ++ [true])
      /\ splits l M (p ++ [false]) /\ splits r M (p ++ [true])
  end.
Lemma pathw_splits t : forall d M p k, balanced d t -> length k = d -> splits t M p -> pathw t k * M p = M (p ++ k).
Proof.
  induction t as [|q ay az l IHl r IHr]; intros d M p k Hd Hk Hs.
  - destruct d; [|destruct Hd]. destruct k; [|discriminate]. simpl. rewrite app_nil_r. ring.
  - destruct d as [|d]; [destruct Hd|]. destruct Hd as [Bl Br]. destruct k as [|v k]; [discriminate|].
    simpl in Hk. destruct Hs as [S0 [S1 [Sl Sr]]]. cbn [pathw]. destruct v.
    + rewrite Rmult_assoc, (Rmult_comm (pathw r k)), <- Rmult_assoc, S1.
      rewrite Rmult_comm, (IHr d M (p ++ [true]) k Br) by (auto; lia). now rewrite <- app_assoc.
    + rewrite Rmult_assoc, (Rmult_comm (pathw l k)), <- Rmult_assoc, S0.
      rewrite Rmult_comm, (IHl d M (p ++ [false]) k Bl) by (auto; lia). now rewrite <- app_assoc.
Qed.

(* ---------- the statement used by the check ---------- *)
Theorem dcsp_model_marginal (t : qtree) (d : nat) : qbalanced d t = true -> nodupb (qqubits t) = true ->
  forall b, (forall p, ~ In p (qqubits t) -> get b p = false) ->
  sumq (rest (treeR t)) (fun x => Cn2 (drun (map gateR (bottom_up_q t)) TopDownWalk.ket0 x)) b
  = pathw (treeR t) (map (get b) (qchain t)).
Proof.
  intros Hb Hn b Hz. rewrite bottom_up_link.
  rewrite (dcsp_marginal (treeR t) d).
  - rewrite prob_pathw, chain_treeR. reflexivity.
  - now apply balanced_treeR.
  - rewrite qubits_treeR. now apply nodupb_sound.
  - intros p Hp. apply Hz. now rewrite <- qubits_treeR.
Qed.
