(* C11: executable (rational-angle) model of the circuits of DcspInitialize / BdspInitialize on an angle tree with qubits:
   the sub-circuits of the sub-registers below the split (tree_walk.top_down; none for the divide-and-conquer initializer)
   followed by tree_walk.bottom_up.  Compared with the flattened definitions on every run.  Link to the real-valued model of
   Dcsp.v, executable premises, and the path weights. *)
From Coq Require Import Reals Lra List Bool Arith Lia QArith Qreals.
From Coquelicot Require Import Complex.
From QV Require Import Sem Dcsp DcspMarg SumQ.
Import ListNotations.
Open Scope nat_scope.

Inductive qgate := QRY (th : Q) (q : nat) | QRZ (th : Q) (q : nat) | QCSWAP (c a b : nat) | QEnt (e : ent) (c t : nat).
Inductive qtree := QLeaf | QNode (q : nat) (ay az : Q) (l r : qtree) | QSub (qs : list nat) (c : list qgate).

Fixpoint qchain (t : qtree) : list nat := match t with QLeaf => [] | QNode q _ _ l _ => q :: qchain l | QSub qs _ => qs end.
Fixpoint qqubits (t : qtree) : list nat :=
  match t with QLeaf => [] | QNode q _ _ l r => q :: qqubits l ++ qqubits r | QSub qs _ => qs end.
Fixpoint qbalanced (d : nat) (t : qtree) {struct t} : bool :=
  match t with
  | QLeaf => Nat.eqb d 0
  | QNode _ _ _ l r => match d with O => false | S d' => qbalanced d' l && qbalanced d' r end
  | QSub qs _ => Nat.eqb (length qs) d
  end.
Definition qz (x : Q) : bool := Qeq_bool x 0.
Fixpoint bottom_up_q (t : qtree) : list qgate :=
  match t with
  | QNode q ay az l r =>
      (if qz ay then [] else [QRY ay q]) ++ (if qz az then [] else [QRZ az q])
      ++ bottom_up_q l ++ bottom_up_q r
      ++ (if qz ay then [] else map (fun p => QCSWAP q (fst p) (snd p)) (combine (qchain l) (qchain r)))
  | _ => []
  end.
Fixpoint subs_q (t : qtree) : list qgate :=
  match t with QLeaf => [] | QNode _ _ _ l r => subs_q l ++ subs_q r | QSub _ c => c end.
Definition bdsp_gates_q (t : qtree) : list qgate := subs_q t ++ bottom_up_q t.

(* executable well-formedness premises of the theorem *)
Fixpoint nodupb (l : list nat) : bool :=
  match l with [] => true | a :: r => negb (existsb (Nat.eqb a) r) && nodupb r end.
Lemma nodupb_sound l : nodupb l = true -> NoDup l.
Proof.
  induction l as [|a r IH]; intros H. constructor.
  simpl in H. apply andb_prop in H as [H1 H2]. constructor; auto.
  intro I. apply negb_true_iff in H1. assert (E : existsb (Nat.eqb a) r = true).
  { apply existsb_exists. exists a. split; auto. apply Nat.eqb_refl. }
  congruence.
Qed.
Definition qgq (g : qgate) : list nat :=
  match g with QRY _ q | QRZ _ q => [q] | QCSWAP c a b => [c; a; b] | QEnt _ c t => [c; t] end.
Definition memb (p : nat) (qs : list nat) : bool := existsb (Nat.eqb p) qs.
Fixpoint localb (t : qtree) : bool :=
  match t with
  | QLeaf => true
  | QNode _ _ _ l r => localb l && localb r
  | QSub qs c => forallb (fun g => forallb (fun p => memb p qs) (qgq g)) c
  end.

(* link to the real-valued model *)
Definition gateR (g : qgate) : dgate :=
  match g with
  | QRY th q => DRY (Q2R th) q | QRZ th q => DRZ (Q2R th) q | QCSWAP c a b => DCSWAP c a b | QEnt e c t => DEnt e c t
  end.
Fixpoint treeR (t : qtree) : atree :=
  match t with
  | QLeaf => ALeaf
  | QNode q ay az l r => ANode q (Q2R ay) (Q2R az) (treeR l) (treeR r)
  | QSub qs c => ASub qs (map gateR c)
  end.

Lemma qz_rz0 x : rz0 (Q2R x) = qz x.
Proof.
  unfold rz0, qz. destruct (Req_EM_T (Q2R x) 0) as [E|E]; destruct (Qeq_bool x 0) eqn:B; auto.
  - exfalso. apply Qeq_bool_neq in B. apply B. apply eqR_Qeq. rewrite E. unfold Q2R. simpl. lra.
  - exfalso. apply E. apply Qeq_bool_eq in B. rewrite (Qeq_eqR _ _ B). unfold Q2R. simpl. lra.
Qed.
Lemma chain_treeR t : chain (treeR t) = qchain t.
Proof. induction t as [|q ay az l IHl r IHr|qs c]; simpl; auto. now rewrite IHl. Qed.
Lemma qubits_treeR t : qubits (treeR t) = qqubits t.
Proof. induction t as [|q ay az l IHl r IHr|qs c]; simpl; auto. now rewrite IHl, IHr. Qed.
Lemma balanced_treeR t : forall d, qbalanced d t = true -> balanced d (treeR t).
Proof.
  induction t as [|q ay az l IHl r IHr|qs c]; intros d H; simpl in *.
  - now apply Nat.eqb_eq in H.
  - destruct d; [discriminate|]. apply andb_prop in H as [H1 H2]. split; auto.
  - now apply Nat.eqb_eq in H.
Qed.
Lemma gq_gateR g : gq (gateR g) = qgq g.
Proof. now destruct g. Qed.
Lemma wfsub_treeR t : localb t = true -> wfsub (treeR t).
Proof.
  induction t as [|q ay az l IHl r IHr|qs c]; intros H; simpl in *; auto.
  - apply andb_prop in H as [H1 H2]. split; auto.
  - apply Forall_forall. intros g Hg. apply in_map_iff in Hg as [g' [<- Hg']].
    rewrite forallb_forall in H. specialize (H g' Hg'). rewrite forallb_forall in H.
    intros p Hp. rewrite gq_gateR in Hp. specialize (H p Hp). unfold memb in H.
    apply existsb_exists in H as [x [Hx E]]. apply Nat.eqb_eq in E. now subst.
Qed.
Lemma bottom_up_link t : map gateR (bottom_up_q t) = bottom_up (treeR t).
Proof.
  induction t as [|q ay az l IHl r IHr|qs c]; try reflexivity.
  cbn [bottom_up_q bottom_up treeR]. rewrite !map_app, IHl, IHr, !qz_rz0.
  unfold cswaps, pairs. rewrite !chain_treeR.
  destruct (qz ay); destruct (qz az); cbn [map]; rewrite ?map_map; reflexivity.
Qed.
Lemma subs_link t : map gateR (subs_q t) = subs (treeR t).
Proof. induction t as [|q ay az l IHl r IHr|qs c]; simpl; auto. now rewrite map_app, IHl, IHr. Qed.
Lemma bdsp_link t : map gateR (bdsp_gates_q t) = bdsp_gates (treeR t).
Proof. unfold bdsp_gates_q, bdsp_gates. now rewrite map_app, subs_link, bottom_up_link. Qed.

(* ---------- path weights and sub-vector norms ---------- *)
Open Scope R_scope.
Fixpoint pathw (t : atree) (k : list bool) : R :=
  match t with
  | ALeaf => 1
  | ANode _ ay az l r => match k with v :: k' => if v then w1 ay az * pathw r k' else w0 ay az * pathw l k' | [] => 1 end
  | ASub qs c => Cn2 (F (ASub qs c) (place qs k))
  end.
Lemma prob_pathw t : forall ch b, prob t ch b = pathw t (map (get b) ch).
Proof.
  induction t as [|q ay az l IHl r IHr|qs c]; intros ch b; try reflexivity.
  destruct ch as [|c ch]. reflexivity. cbn [prob map pathw]. now rewrite IHl, IHr.
Qed.

(* M p = squared norm of the sub-vector below the path prefix p.  If every node splits M p into its two children by its
   weights, and every sub-register state has squared amplitudes M (p ++ k) / M p (both checked numerically on the tree of
   every run), the weight of a full path k is M k / M [] *)
Fixpoint splits (t : atree) (M : list bool -> R) (p : list bool) : Prop :=
  match t with
  | ALeaf => True
  | ANode _ ay az l r =>
      w0 ay az * M p = M (p ++ [false]) /\ w1 ay az * M p = M (p ++ [true])
      /\ splits l M (p ++ [false]) /\ splits r M (p ++ [true])
  | ASub qs c => forall k, length k = length qs -> Cn2 (F (ASub qs c) (place qs k)) * M p = M (p ++ k)
  end.
Lemma pathw_splits t : forall d M p k, balanced d t -> length k = d -> splits t M p -> pathw t k * M p = M (p ++ k).
Proof.
  induction t as [|q ay az l IHl r IHr|qs c]; intros d M p k Hd Hk Hs.
  - simpl in Hd. subst. destruct k; [|discriminate]. simpl. rewrite app_nil_r. ring.
  - destruct d as [|d]; [destruct Hd|]. destruct Hd as [Bl Br]. destruct k as [|v k]; [discriminate|].
    simpl in Hk. destruct Hs as [S0 [S1 [Sl Sr]]]. cbn [pathw]. destruct v.
    + rewrite Rmult_assoc, (Rmult_comm (pathw r k)), <- Rmult_assoc, S1.
      rewrite Rmult_comm, (IHr d M (p ++ [true]) k Br) by (auto; lia). now rewrite <- app_assoc.
    + rewrite Rmult_assoc, (Rmult_comm (pathw l k)), <- Rmult_assoc, S0.
      rewrite Rmult_comm, (IHl d M (p ++ [false]) k Bl) by (auto; lia). now rewrite <- app_assoc.
  - simpl in Hd. cbn [pathw]. apply Hs. congruence.
Qed.

(* ---------- the statement used by the check ---------- *)
Theorem bdsp_model_marginal (t : qtree) (d : nat) :
  qbalanced d t = true -> nodupb (qqubits t) = true -> localb t = true -> normed (treeR t) ->
  forall b, (forall p, ~ In p (qqubits t) -> get b p = false) ->
  sumq (rest (treeR t)) (fun x => Cn2 (drun (map gateR (bdsp_gates_q t)) TopDownWalk.ket0 x)) b
  = pathw (treeR t) (map (get b) (qchain t)).
Proof.
  intros Hb Hn Hl Hm b Hz. rewrite bdsp_link.
  rewrite (bdsp_marginal (treeR t) d).
  - rewrite prob_pathw, chain_treeR. reflexivity.
  - now apply balanced_treeR.
  - now apply wfsub_treeR.
  - exact Hm.
  - rewrite qubits_treeR. now apply nodupb_sound.
  - intros p Hp. apply Hz. now rewrite <- qubits_treeR.
Qed.

(* without sub-registers (divide-and-conquer initializer) no normalisation premise is left *)
Fixpoint nosub (t : qtree) : bool :=
  match t with QLeaf => true | QNode _ _ _ l r => nosub l && nosub r | QSub _ _ => false end.
Lemma nosub_normed t : nosub t = true -> normed (treeR t).
Proof.
  induction t as [|q ay az l IHl r IHr|qs c]; intros H; simpl in *; auto; try discriminate.
  apply andb_prop in H as [H1 H2]. split; auto.
Qed.
Lemma nosub_local t : nosub t = true -> localb t = true.
Proof.
  induction t as [|q ay az l IHl r IHr|qs c]; intros H; simpl in *; auto; try discriminate.
  apply andb_prop in H as [H1 H2]. now rewrite IHl, IHr.
Qed.
Theorem dcsp_model_marginal (t : qtree) (d : nat) : qbalanced d t = true -> nodupb (qqubits t) = true -> nosub t = true ->
  forall b, (forall p, ~ In p (qqubits t) -> get b p = false) ->
  sumq (rest (treeR t)) (fun x => Cn2 (drun (map gateR (bdsp_gates_q t)) TopDownWalk.ket0 x)) b
  = pathw (treeR t) (map (get b) (qchain t)).
Proof.
  intros Hb Hn Hs. apply (bdsp_model_marginal t d); auto. now apply nosub_local. now apply nosub_normed.
Qed.
