From Coq Require Import Reals Lra Lia ZArith QArith Qabs Qminmax Psatz Qreals List Bool.
Import ListNotations.
(* math.isclose(a, b, rel_tol, abs_tol) as a predicate over Q (mathematical spec) *)
Definition qisclose (a b rel abs_ : Q) : bool :=
  Qle_bool (Qabs (a - b)) (Qmax (rel * Qmax (Qabs a) (Qabs b)) abs_).
(* power-of-two length test of Initialize._get_num_qubits, over N *)
Definition len_ok (len : N) : bool :=
  (1 <? len)%N && (N.pow 2 (N.log2 len) =? len)%N.
Lemma len_ok_spec len : len_ok len = true -> exists n, (1 <= n)%N /\ len = (2 ^ n)%N.
Proof.
  unfold len_ok. intros H. apply andb_prop in H as [H1 H2].
  apply N.ltb_lt in H1. apply N.eqb_eq in H2.
  exists (N.log2 len). split; [|now symmetry].
  destruct (N.log2 len) eqn:E; [|lia]. simpl in H2. lia.
Qed.

Open Scope R_scope.
(* after the repair: rel_tol = 0, abs_tol = 1e-10 *)
Lemma accept_norm_fixed (s : R) : 0 <= s -> Rabs (s - 1) <= 1 / 10 ^ 10 -> Rabs (sqrt s - 1) <= 1 / 10 ^ 10.
Proof.
  intros Hs H.
  assert (Hq : 0 <= sqrt s) by apply sqrt_pos.
  assert (E : (sqrt s - 1) * (sqrt s + 1) = s - 1).
  { replace ((sqrt s - 1) * (sqrt s + 1)) with (sqrt s * sqrt s - 1) by ring. now rewrite sqrt_sqrt. }
  assert (Hge : 1 <= sqrt s + 1) by lra.
  assert (Rabs (sqrt s - 1) <= Rabs (s - 1)).
  { rewrite <- E, Rabs_mult. rewrite (Rabs_pos_eq (sqrt s + 1)) by lra.
    rewrite <- (Rmult_1_r (Rabs (sqrt s - 1))) at 1.
    apply Rmult_le_compat_l; [apply Rabs_pos | lra]. }
  lra.
Qed.
(* current source: rel_tol = 1e-9 accepts s = 1 + 6e-10, whose norm is off by more than 1e-10 *)
Example accept_norm_refuted :
  qisclose (1 + (6 # 10000000000))%Q 1%Q (1 # 1000000000)%Q (1 # 10000000000)%Q = true.
Proof. vm_compute. reflexivity. Qed.
Lemma refuted_is_off : let s := 1 + 6 / 10 ^ 10 in Rabs (sqrt s - 1) > 1 / 10 ^ 10.
Proof.
  intros s. assert (Hs : 0 <= s) by (unfold s; lra).
  assert (H1 : 1 + 2 / 10^10 < sqrt s).
  { apply Rsqr_incrst_0; try lra; [|apply sqrt_pos].
    rewrite Rsqr_sqrt by auto. unfold Rsqr, s. lra. }
  rewrite Rabs_pos_eq by lra. lra.
Qed.

Close Scope R_scope.
Open Scope Q_scope.
(* shape test "log2(x) is a non-negative integer" *)
Definition pow2_ok (x : N) : bool := (0 <? x)%N && (N.pow 2 (N.log2 x) =? x)%N.
Lemma pow2_ok_spec x : pow2_ok x = true -> x = (2 ^ N.log2 x)%N.
Proof. unfold pow2_ok. intros H. apply andb_prop in H as [_ H]. apply N.eqb_eq in H. now symmetry. Qed.
Definition qsum (l : list Q) : Q := fold_right Qplus 0 l.

Lemma qisclose_sound a b rel abs_ :
  qisclose a b rel abs_ = true -> Qabs (a - b) <= Qmax (rel * Qmax (Qabs a) (Qabs b)) abs_.
Proof. unfold qisclose. intros H. now apply Qle_bool_iff. Qed.

(* with rel_tol = 0 the test is a plain absolute bound *)
Lemma qisclose_abs_bound s rel abs_ B :
  rel == 0 -> 0 <= abs_ -> abs_ <= B -> qisclose s 1 rel abs_ = true -> Qabs (s - 1) <= B.
Proof.
  intros Hr Ha HB H. apply qisclose_sound in H.
  eapply Qle_trans; [exact H|]. apply Q.max_lub; [|exact HB].
  rewrite Hr. rewrite Qmult_0_l. eapply Qle_trans; eauto.
Qed.

Lemma Q2R_Qabs x : Q2R (Qabs x) = Rabs (Q2R x).
Proof.
  apply Qabs_case; intros H.
  - apply Qle_Rle in H. replace (Q2R 0) with 0%R in H by (unfold Q2R; simpl; lra).
    now rewrite Rabs_pos_eq.
  - apply Qle_Rle in H. replace (Q2R 0) with 0%R in H by (unfold Q2R; simpl; lra).
    rewrite Q2R_opp. destruct (Req_dec (Q2R x) 0) as [Z|Z].
    + rewrite Z, Rabs_R0. lra.
    + rewrite Rabs_left; lra.
Qed.
