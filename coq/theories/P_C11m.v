(* Property C11 (part 2): the measurement statistics of the divide-and-conquer initializer.
   C11_dcsp_marginal: for every balanced angle tree with pairwise distinct qubits - whatever the angles - the gate list of
   DcspModel.bottom_up_q (ry, rz per node, controlled swaps of the left and right output chains; compared with
   DcspInitialize's definition on every run), run from |0..0>, gives on the output chain (root qubit first) the distribution
   pathw: summed over ALL ancilla qubits, the squared modulus at output bits k is the product along the path k of
   cos^2(ay/2) (bit 0) / sin^2(ay/2) (bit 1)  (C11_weights).  C11_path_weight: if every node's weights split the squared
   norm M p of its sub-vector into the two halves (checked numerically on the tree of every run), that product is
   M k / M [] = |a_k|^2 for a unit vector.
   C11_bdsp_marginal: the same for the bidirectional initializer with 1 <= s < n, where the leaves of the tree are the
   sub-registers below the split, each prepared by its own sub-circuit (any circuit touching only its register - executable
   premise localb; the sub-circuits of the run are taken from the definition itself): the output distribution is the product
   of the node weights times the squared amplitude of the sub-register state.  Premise `normed` (every sub-register state has
   norm one) and, in C11_path_weight, that the squared amplitudes of the sub-register states are M (p ++ k) / M p, are
   checked numerically on every run; that the top-down sub-circuits prepare those states is C01's subject.
   s = n is the top-down circuit (C01's theorems, gate-list correspondence in this check). *)
From Coq Require Import Reals List Bool Arith QArith.
From Coquelicot Require Import Complex.
From QV Require Import Sem SumQ Dcsp DcspMarg DcspModel TopDownWalk.
Import ListNotations.
Open Scope R_scope.

Theorem C11_dcsp_marginal : forall (t : qtree) (d : nat), qbalanced d t = true -> nodupb (qqubits t) = true -> nosub t = true ->
  forall b, (forall p, ~ In p (qqubits t) -> get b p = false) ->
  sumq (rest (treeR t)) (fun x => Cn2 (drun (map gateR (bdsp_gates_q t)) ket0 x)) b
  = pathw (treeR t) (map (get b) (qchain t)).
Proof. exact dcsp_model_marginal. Qed.
Print Assumptions C11_dcsp_marginal.

Theorem C11_bdsp_marginal : forall (t : qtree) (d : nat),
  qbalanced d t = true -> nodupb (qqubits t) = true -> localb t = true -> normed (treeR t) ->
  forall b, (forall p, ~ In p (qqubits t) -> get b p = false) ->
  sumq (rest (treeR t)) (fun x => Cn2 (drun (map gateR (bdsp_gates_q t)) ket0 x)) b
  = pathw (treeR t) (map (get b) (qchain t)).
Proof. exact bdsp_model_marginal. Qed.
Print Assumptions C11_bdsp_marginal.

Theorem C11_weights : forall ay az, w0 ay az = cos (ay / 2) * cos (ay / 2) /\ w1 ay az = sin (ay / 2) * sin (ay / 2).
Proof. intros ay az. split. apply w0_cos. apply w1_sin. Qed.
Print Assumptions C11_weights.

Theorem C11_path_weight : forall (t : atree) (d : nat) (M : list bool -> R) (k : list bool),
  balanced d t -> length k = d -> splits t M [] -> pathw t k * M [] = M k.
Proof. intros t d M k Hb Hk Hs. exact (pathw_splits t d M [] k Hb Hk Hs). Qed.
Print Assumptions C11_path_weight.

(* the state has norm one on the tree's qubits (so the distribution above is normalised) *)
Theorem C11_norm : forall (t : atree) (d : nat), balanced d t -> wfsub t -> normed t -> NoDup (qubits t) -> forall b, nrm t b = 1.
Proof. intros t d Hb W Nm Hn b. exact (proj1 (marginal t d Hb W Nm Hn b)). Qed.
Print Assumptions C11_norm.
