From Coq Require Import Reals Lra List Bool Arith Lia NArith.
From Coquelicot Require Import Complex.
Import ListNotations.
Open Scope R_scope.

(* assignments = basis indices, little endian *)
Definition asg := N.
Definition get (b : asg) (q : nat) : bool := N.testbit b (N.of_nat q).
Definition upd (b : asg) (q : nat) (v : bool) : asg :=
  if v then N.setbit b (N.of_nat q) else N.clearbit b (N.of_nat q).

Lemma get_upd_same b q v : get (upd b q v) q = v.
Proof. unfold get, upd. destruct v. apply N.setbit_eq. apply N.clearbit_eq. Qed.
Lemma get_upd_other b q v x : x <> q -> get (upd b q v) x = get b x.
Proof. unfold get, upd. intros H. assert (N.of_nat q <> N.of_nat x) by lia.
 destruct v. now apply N.setbit_neq. now apply N.clearbit_neq. Qed.
Lemma asg_ext b b' : (forall q, get b q = get b' q) -> b = b'.
Proof. intros H. apply N.bits_inj. intros n. specialize (H (N.to_nat n)). unfold get in H.
  now rewrite N2Nat.id in H. Qed.
Lemma upd_upd b q v w : upd (upd b q v) q w = upd b q w.
Proof. apply asg_ext. intros x. destruct (Nat.eq_dec x q) as [->|H].
  now rewrite !get_upd_same. now rewrite !get_upd_other. Qed.
Lemma upd_get b q : upd b q (get b q) = b.
Proof. apply asg_ext. intros x. destruct (Nat.eq_dec x q) as [->|H].
  now rewrite get_upd_same. now rewrite get_upd_other. Qed.
Lemma upd_comm b q v r w : q <> r -> upd (upd b q v) r w = upd (upd b r w) q v.
Proof. intros Hn. apply asg_ext. intros x.
  destruct (Nat.eq_dec x q) as [Hq|Hq]; destruct (Nat.eq_dec x r) as [Hr|Hr]; subst; try congruence;
  repeat first [rewrite get_upd_same | rewrite get_upd_other by auto]; auto. Qed.
Global Opaque get upd.

Definition state := asg -> C.
Record mat2 := M2 { m00 : C; m01 : C; m10 : C; m11 : C }.
Definition mget (m : mat2) (r c : bool) : C :=
  match r, c with
  | false, false => m00 m | false, true => m01 m
  | true, false => m10 m | true, true => m11 m end.
Definition app1 (m : mat2) (t : nat) (psi : state) : state :=
  fun b => (mget m (get b t) false * psi (upd b t false) + mget m (get b t) true * psi (upd b t true))%C.

Definition RYm (th : R) : mat2 := M2 (cos (th/2)) (- sin (th/2))%R (sin (th/2)) (cos (th/2)).
Definition RZm (th : R) : mat2 := M2 (cos (th/2), - sin (th/2))%R 0 0 (cos (th/2), sin (th/2)).
Definition Xm : mat2 := M2 0 1 1 0.
Definition Zm : mat2 := M2 1 0 0 (-1)%R.

Inductive rot := RotY | RotZ.
Inductive ent := EntCX | EntCZ.
Definition Rm (r : rot) := match r with RotY => RYm | RotZ => RZm end.
Definition Em (e : ent) := match e with EntCX => Xm | EntCZ => Zm end.

Inductive gate := GRot (r:rot) (theta: R) (q: nat) | GEnt (e: ent) (c t : nat).
Definition gapp (g : gate) (psi : state) : state :=
  match g with
  | GRot r th q => app1 (Rm r th) q psi
  | GEnt e c t => fun b => if get b c then app1 (Em e) t psi b else psi b
  end.
Definition run (c : list gate) (psi : state) : state := fold_left (fun s g => gapp g s) c psi.

Fixpoint ucr_nl (r : rot) (e : ent) (k : nat) (a : nat -> R) : list gate :=
  match k with
  | O => if Req_EM_T (a O) 0 then [] else [GRot r (a O) O]
  | S k' =>
     ucr_nl r e k' (fun j => (a j + a (j + 2^k')%nat) / 2)
     ++ [GEnt e (S k') O]
     ++ rev (ucr_nl r e k' (fun j => (a j - a (j + 2^k')%nat) / 2))
  end.

Fixpoint cidx (k : nat) (b : asg) : nat :=
  match k with O => O | S k' => (cidx k' b + if get b (S k') then 2^k' else 0)%nat end.

Definition mux (r : rot) (k : nat) (a : nat -> R) (psi : state) : state :=
  fun b => app1 (Rm r (a (cidx k b))) O psi b.
Definition entk (e : ent) (k : nat) (psi : state) : state :=
  match k with O => psi | S _ => gapp (GEnt e k O) psi end.
