(* Property C16: invalid inputs are rejected.  The acceptance predicates are REGENERATED FROM THE SOURCE on every run
   (Gen_validate: the tolerances are read from the isclose calls in /repo); the bounds below are the property's and are
   written here, never taken from the source. *)
From Coq Require Import Reals Lra ZArith NArith QArith Qabs Qminmax Qreals List Bool.
From QV Require Import GenLib ValidateLib Gen_validate.
Import ListNotations.
Open Scope Q_scope.

(* accepted length is 2^n with n >= 1 *)
Theorem C16_accept_len : forall len s, init_accept len s = true -> exists n, (1 <= n)%N /\ len = (2 ^ n)%N.
Proof. intros len s H. unfold init_accept in H. apply andb_prop in H as [H _]. now apply len_ok_spec. Qed.
Print Assumptions C16_accept_len.

(* accepted vectors have |sum of squares - 1| <= 10^-10 (the property's bound) *)
Theorem C16_accept_sumsq : forall len s, init_accept len s = true -> Qabs (s - 1) <= 1 # 10000000000.
Proof.
  intros len s H. unfold init_accept in H. apply andb_prop in H as [_ H].
  apply (qisclose_abs_bound s init_rel_tol init_abs_tol); auto.
  - apply Qeq_bool_iff. vm_compute. reflexivity.
  - apply Qle_bool_iff. vm_compute. reflexivity.
  - apply Qle_bool_iff. vm_compute. reflexivity.
Qed.
Print Assumptions C16_accept_sumsq.

(* hence their norm is within 10^-10 of one *)
Theorem C16_accept_norm : forall len s, (0 <= Q2R s)%R -> init_accept len s = true ->
  (Rabs (sqrt (Q2R s) - 1) <= 1 / 10 ^ 10)%R.
Proof.
  intros len s Hs H. apply accept_norm_fixed; auto.
  apply C16_accept_sumsq in H. apply Qle_Rle in H. rewrite Q2R_Qabs, Q2R_minus in H.
  replace (Q2R 1) with 1%R in H by (unfold Q2R; simpl; lra).
  replace (Q2R (1 # 10000000000)) with (1 / 10 ^ 10)%R in H by (unfold Q2R; simpl; lra). exact H.
Qed.
Print Assumptions C16_accept_norm.

(* the all-zero vector (s = 0) and any s off by more than 10^-10 are rejected *)
Theorem C16_reject_off : forall len s, ~ (Qabs (s - 1) <= 1 # 10000000000) -> init_accept len s = false.
Proof.
  intros len s H. destruct (init_accept len s) eqn:E; auto. exfalso. apply H. eapply C16_accept_sumsq; eauto.
Qed.
Print Assumptions C16_reject_off.

(* isometry shapes: rows = 2^a, cols = 2^b, b <= a *)
Theorem C16_iso_shape : forall rows cols, iso_shape_accept rows cols = true ->
  exists a b, rows = (2 ^ a)%N /\ cols = (2 ^ b)%N /\ (b <= a)%N.
Proof.
  intros rows cols H. unfold iso_shape_accept in H.
  apply andb_prop in H as [H H3]. apply andb_prop in H as [H1 H2].
  exists (N.log2 rows), (N.log2 cols). repeat split.
  - now apply pow2_ok_spec. - now apply pow2_ok_spec. - now apply N.leb_le.
Qed.
Print Assumptions C16_iso_shape.

Theorem C16_u2_shape : forall r c, u2_shape_accept r c = true -> r = 2%N /\ c = 2%N.
Proof. intros r c H. unfold u2_shape_accept in H. apply andb_prop in H as [A B]. split; now apply N.eqb_eq. Qed.
Print Assumptions C16_u2_shape.

(* mixed-state probabilities (also used by C14): accepted => every p_i in [0,1] and |sum - 1| <= 1e-9 * max(|sum|,1) *)
Theorem C16_probs_accept : forall p, probs_accept p = true ->
  (forall x, In x p -> 0 <= x /\ x <= 1) /\ Qabs (qsum p - 1) <= (1 # 1000000000) * Qmax (Qabs (qsum p)) 1.
Proof.
  intros p H. unfold probs_accept in H. apply andb_prop in H as [H H3]. apply andb_prop in H as [H1 H2].
  split.
  - intros x Hx. rewrite forallb_forall in H1, H2. split; apply Qle_bool_iff; auto.
  - apply qisclose_sound in H3.
    assert (E1 : mixed_rel_tol == 1 # 1000000000) by (apply Qeq_bool_iff; vm_compute; reflexivity).
    assert (E2 : mixed_abs_tol <= mixed_rel_tol * Qmax (Qabs (qsum p)) (Qabs 1)).
    { assert (Z : mixed_abs_tol <= 0) by (apply Qle_bool_iff; vm_compute; reflexivity).
      eapply Qle_trans; [exact Z|]. rewrite E1. apply Qmult_le_0_compat. discriminate.
      eapply Qle_trans; [|apply Q.le_max_r]. discriminate. }
    rewrite Q.max_l in H3 by exact E2. rewrite E1 in H3. exact H3.
Qed.
Print Assumptions C16_probs_accept.

(* non-vacuity / sanity of the generated predicate on concrete values *)
Example ex_accept : init_accept 8 (1 + (1 # 100000000000)) = true /\ init_accept 8 (1 + (6 # 10000000000)) = false
                    /\ init_accept 6 1 = false /\ init_accept 1 1 = false /\ init_accept 0 1 = false /\ init_accept 4 0 = false.
Proof. vm_compute. repeat split. Qed.
