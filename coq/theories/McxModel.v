(* Executable model of qclib.gates.mcx (McxVchainDirty, LinearMcx) and qclib.gates.toffoli, gate by gate,
   and the theorems that tie its general branch to the V-chain results of Chain/Vchain/RelPhase.

   Symbolic gates (no real numbers, so the model runs under vm_compute):
     SX q            x
     SU neg t        u(-pi/4,0,0) if neg else u(+pi/4,0,0)      (= RY(-/+ pi/4))
     SCX c t         cx
     SMCX cs t       Qiskit's ccx / c3x / c4x / mcx (ideal multi-controlled X; NOT decomposed by qclib)
   Layout of McxVchainDirty(k, nt): controls 0..k-1, ancillas k..k+na-1 (na = k-2 if k > 2), targets after. *)
From Coq Require Import Reals Lra List Bool Arith Lia NArith FunctionalExtensionality.
From Coquelicot Require Import Complex.
From QV Require Import Sem Mat2 Toff2 Chain Vchain RelPhase.
Import ListNotations.

Open Scope nat_scope.
Inductive sgate := SX (q : nat) | SU (neg : bool) (t : nat) | SCX (c t : nat) | SMCX (cs : list nat) (t : nat).
Inductive cancel := CNone | CLeft | CRight.

(* toffoli.py: Toffoli(cancel) on [c0, c1, t] *)
Definition toffoli (cn : cancel) (c0 c1 t : nat) : list sgate :=
  (match cn with CLeft => [] | _ => [SU true t; SCX c0 t; SU true t] end)
  ++ [SCX c1 t]
  ++ (match cn with CRight => [] | _ => [SU false t; SCX c0 t; SU false t] end).

(* mcx.py toffoli_multi_target(num_targets, side) placed on [c1; c2; targets...] *)
Definition fan_l (ts : list nat) : list sgate :=       (* cx(size-i-2, size-i-1), i = 0..nt-2 *)
  map (fun i => SCX (nth (length ts - 2 - i) ts 0) (nth (length ts - 1 - i) ts 0)) (seq 0 (length ts - 1)).
Definition fan_r (ts : list nat) : list sgate :=       (* cx(i+2, i+3) *)
  map (fun i => SCX (nth i ts 0) (nth (S i) ts 0)) (seq 0 (length ts - 1)).
Inductive side := SideL | SideR | SideBoth.
Definition toffoli_mt (sd : side) (c1 c2 : nat) (ts : list nat) : list sgate :=
  match sd with
  | SideL => fan_l ts ++ [SMCX [c1; c2] (nth 0 ts 0)]
  | SideR => [SMCX [c1; c2] (nth 0 ts 0)] ++ fan_r ts
  | SideBoth => fan_l ts ++ [SMCX [c1; c2] (nth 0 ts 0)] ++ fan_r ts
  end.

(* Qiskit's circuit.mcx with a single control appends a plain cx *)
Definition smcx (cs : list nat) (t : nat) : sgate := match cs with [c] => SCX c t | _ => SMCX cs t end.

(* gates/util.py apply_ctrl_state: pat is indexed by control (pat_i = ctrl_state[::-1][i] == '1') *)
Definition xs (pat : list bool) (k : nat) : list sgate :=
  flat_map (fun i => if nth i pat true then [] else [SX i]) (seq 0 k).

Section General.
(* general branch, k = j + 3 controls *)
Variable j : nat.
Let k := j + 3.
Let na := j + 1.
Definition cq0 (i : nat) := i.
Definition aq0 (i : nat) := k + i.
Definition TRs : list sgate := flat_map (fun i => toffoli CRight (cq0 (j + 2 - i)) (aq0 (j - i)) (aq0 (j + 1 - i))) (seq 1 j).
Definition TLs : list sgate := flat_map (fun i => toffoli CLeft (cq0 (2 + i)) (aq0 i) (aq0 (S i))) (seq 0 j).
Definition chain_gates : list sgate := TRs ++ toffoli CNone (cq0 0) (cq0 1) (aq0 0) ++ TLs.
Definition targets (nt : nat) : list nat := map (fun m => k + na + m) (seq 0 nt).

Definition first_gate (nt : nat) (rel : bool) (second_round : bool) : list sgate :=
  if rel then toffoli (if second_round then CLeft else CRight) (cq0 (k - 1)) (aq0 (na - 1)) (k + na)
  else toffoli_mt (if second_round then SideR else SideL) (cq0 (k - 1)) (aq0 (na - 1)) (targets nt).
Definition general (nt : nat) (rel action_only : bool) : list sgate :=
  first_gate nt rel false ++ chain_gates
  ++ (if action_only then toffoli_mt SideR (cq0 (k - 1)) (aq0 (na - 1)) (targets nt)
      else first_gate nt rel true ++ chain_gates).
End General.

Definition vchain (k nt : nat) (pat : list bool) (rel action_only : bool) : list sgate :=
  xs pat k ++
  (match k with
   | 0 => []
   | 1 => map (fun m => smcx [0] (1 + m)) (seq 0 nt)
   | 2 => toffoli_mt SideBoth 0 1 (map (fun m => 2 + m) (seq 0 nt))
   | S (S (S j)) =>
       if negb rel && (j =? 0) && (nt <? 2) then map (fun m => SMCX [0; 1; 2] (4 + m)) (seq 0 nt)
       else general j nt rel action_only
   end) ++ xs pat k.

(* placing a sub-circuit on a list of qubits *)
Definition relabel (l : list nat) (g : sgate) : sgate :=
  let f q := nth q l 0 in
  match g with SX q => SX (f q) | SU n t => SU n (f t) | SCX c t => SCX (f c) (f t) | SMCX cs t => SMCX (map f cs) (f t) end.

Definition slice (a b : nat) : list nat := seq a (b - a).      (* controls[a:b] for controls = 0..k-1 *)

(* LinearMcx(k): controls 0..k-1, target k, ancilla k+1 *)
Definition linear_mcx (k : nat) (pat : list bool) (action_only : bool) : list sgate :=
  let nq := k + 2 in let t := k in let anc := k + 1 in
  xs pat k ++
  (if nq <? 5 then [smcx (seq 0 k) t]
   else if nq =? 5 then [SMCX (seq 0 k) t]
   else if nq =? 6 then [SMCX (seq 0 k) t]
   else if nq =? 7 then [SMCX [0; 1; 2] anc; SMCX [3; 4; anc] t; SMCX [0; 1; 2] anc; SMCX [3; 4; anc] t]
   else
     let k2 := (nq + 1) / 2 in          (* int(ceil(nq / 2)) *)
     let k1 := k - k2 + 1 in
     let l1 := slice 0 k1 ++ slice k1 (k1 + k1 - 2) ++ [anc] in
     let l2 := slice k1 k ++ [anc] ++ slice (k1 + 2 - k2) k1 ++ [t] in
     map (relabel l1) (vchain k1 1 [] true false)
     ++ map (relabel l2) (vchain k2 1 [] false false)
     ++ map (relabel l1) (vchain k1 1 [] true false)
     ++ map (relabel l2) (vchain k2 1 [] false action_only))
  ++ xs pat k.

(* ------------------------------------------------------------------------------------------------ *)
(* semantics and the tie to Chain / Vchain                                                          *)
Open Scope R_scope.
Definition allq (cs : list nat) (b : asg) : bool := forallb (fun c => get b c) cs.
Definition sapp (g : sgate) (psi : state) : state :=
  match g with
  | SX q => appf (fun _ => Xm) q psi
  | SU neg t => appf (fun _ => RYm (if neg then - th else th)) t psi
  | SCX c t => appf (fun b => Xpow (get b c)) t psi
  | SMCX cs t => appf (fun b => Xpow (allq cs b)) t psi
  end.
Definition srun (c : list sgate) (psi : state) : state := fold_left (fun s g => sapp g s) c psi.
Lemma srun_cons g l psi : srun (g :: l) psi = srun l (sapp g psi).
Proof. reflexivity. Qed.
Lemma srun_app c1 c2 psi : srun (c1 ++ c2) psi = srun c2 (srun c1 psi).
Proof. unfold srun. now rewrite fold_left_app. Qed.

Definition s2t (g : sgate) : list tgate :=
  match g with SU neg t => [TRy (if neg then - th else th) t] | SCX c t => [TCx c t] | _ => [] end.
Definition tlike (g : sgate) : Prop := match g with SU _ _ | SCX _ _ => True | _ => False end.
Lemma srun_trun c psi : Forall tlike c -> srun c psi = trun (flat_map s2t c) psi.
Proof.
  intros H. revert psi. induction H as [|g c Hg Hc IH]; intros psi. reflexivity.
  cbn [flat_map]. rewrite trun_app. change (srun (g :: c) psi) with (srun c (sapp g psi)). rewrite IH.
  f_equal. destruct g; simpl in Hg; try contradiction; reflexivity.
Qed.

Lemma toffoli_tlike cn c0 c1 t : Forall tlike (toffoli cn c0 c1 t).
Proof. destruct cn; unfold toffoli; repeat constructor. Qed.
Lemma toffoli_R c0 c1 t : flat_map s2t (toffoli CRight c0 c1 t) = T_R c0 c1 t.
Proof. reflexivity. Qed.
Lemma toffoli_L c0 c1 t : flat_map s2t (toffoli CLeft c0 c1 t) = T_L c0 c1 t.
Proof. reflexivity. Qed.
Lemma toffoli_N c0 c1 t : flat_map s2t (toffoli CNone c0 c1 t) = T_full c0 c1 t.
Proof. reflexivity. Qed.

(* chain does not depend on the placement beyond the indices it uses *)
Lemma chain_ext cq aq cq' aq' j :
  (forall i, (i <= S j)%nat -> cq i = cq' i) -> (forall i, (i <= j)%nat -> aq i = aq' i) ->
  chain cq aq j = chain cq' aq' j.
Proof.
  induction j as [|j IH]; intros Hc Ha; cbn [chain].
  - now rewrite (Hc 0%nat), (Hc 1%nat), (Ha 0%nat) by lia.
  - rewrite IH; [ | intros; apply Hc; lia | intros; apply Ha; lia].
    now rewrite (Hc (S (S j))), (Ha j), (Ha (S j)) by lia.
Qed.

Section Tie.
Variable j : nat.
Let k := (j + 3)%nat.
Let aqk (i : nat) := (k + i)%nat.

Lemma flat_map_seq_shift {A} (f : nat -> list A) a n :
  flat_map f (seq (S a) n) = flat_map (fun i => f (S i)) (seq a n).
Proof. rewrite <- seq_shift, flat_map_concat_map, map_map, <- flat_map_concat_map. reflexivity. Qed.

Lemma TRs_tlike : forall m, Forall tlike (TRs m).
Proof. intros m. unfold TRs. induction (seq 1 m) as [|a l IHl]; cbn [flat_map]. constructor. apply Forall_app; split; auto. apply toffoli_tlike. Qed.
Lemma TLs_tlike : forall m, Forall tlike (TLs m).
Proof. intros m. unfold TLs. induction (seq 0 m) as [|a l IHl]; cbn [flat_map]. constructor. apply Forall_app; split; auto. apply toffoli_tlike. Qed.
Lemma chain_gates_tlike m : Forall tlike (chain_gates m).
Proof. unfold chain_gates. apply Forall_app; split; [apply TRs_tlike|]. apply Forall_app; split; [apply toffoli_tlike|apply TLs_tlike]. Qed.
End Tie.

(* the chain part of the model, for k = m + 3 controls, is `chain` on the placement cq i = i, aq i = m+3+i *)
Lemma chain_gates_chain : forall m n, (m <= n)%nat ->
  flat_map s2t (flat_map (fun i => toffoli CRight (cq0 (m + 2 - i)) (aq0 n (m - i)) (aq0 n (m + 1 - i))) (seq 1 m)
                ++ toffoli CNone (cq0 0) (cq0 1) (aq0 n 0)
                ++ flat_map (fun i => toffoli CLeft (cq0 (2 + i)) (aq0 n i) (aq0 n (S i))) (seq 0 m))
  = chain cq0 (aq0 n) m.
Proof.
  induction m as [|m IH]; intros n Hn.
  - cbn [seq flat_map app]. rewrite app_nil_r. reflexivity.
  - set (fR' := fun i => toffoli CRight (cq0 (S m + 2 - i)) (aq0 n (S m - i)) (aq0 n (S m + 1 - i))).
    set (fR := fun i => toffoli CRight (cq0 (m + 2 - i)) (aq0 n (m - i)) (aq0 n (m + 1 - i))).
    set (fL := fun i => toffoli CLeft (cq0 (2 + i)) (aq0 n i) (aq0 n (S i))).
    assert (HR : flat_map fR' (seq 1 (S m))
                 = toffoli CRight (cq0 (S (S m))) (aq0 n m) (aq0 n (S m)) ++ flat_map fR (seq 1 m)).
    { cbn [seq flat_map]. f_equal.
      - unfold fR'. replace (S m + 2 - 1)%nat with (S (S m)) by lia. replace (S m - 1)%nat with m by lia.
        replace (S m + 1 - 1)%nat with (S m) by lia. reflexivity.
      - rewrite flat_map_seq_shift. apply flat_map_ext. intros i. unfold fR', fR.
        replace (S m + 2 - S i)%nat with (m + 2 - i)%nat by lia.
        replace (S m - S i)%nat with (m - i)%nat by lia. replace (S m + 1 - S i)%nat with (m + 1 - i)%nat by lia.
        reflexivity. }
    assert (HL : flat_map fL (seq 0 (S m))
                 = flat_map fL (seq 0 m) ++ toffoli CLeft (cq0 (S (S m))) (aq0 n m) (aq0 n (S m))).
    { rewrite seq_S, flat_map_app. cbn [flat_map]. rewrite app_nil_r. reflexivity. }
    rewrite HR, HL. cbn [chain]. rewrite <- (IH n) by lia. fold fR fL.
    rewrite !flat_map_app, toffoli_R, toffoli_L. rewrite <- !app_assoc. reflexivity.
Qed.

Lemma chain_gates_sem j psi : srun (chain_gates j) psi = trun (chain cq0 (aq0 j) j) psi.
Proof.
  rewrite srun_trun by apply chain_gates_tlike. f_equal.
  unfold chain_gates, TRs, TLs. apply chain_gates_chain. lia.
Qed.

(* ---------- exact mode, one target, all-ones pattern: McxVchainDirty(k) for k = j+3 >= 4 (and the same
   gate list for k = 3 when the c3x shortcut is not taken) is the exact multi-controlled X ---------- *)
Section Exact.
Variable j : nat.
Let k := (j + 3)%nat.
Let tq := (k + (j + 1))%nat.
(* a placement that satisfies the global distinctness hypotheses and agrees with cq0/aq0 where used *)
Let cq1 (i : nat) := if (i <? k)%nat then i else (4 * k + 2 * i)%nat.
Let aq1 (i : nat) := if (i <=? j)%nat then (k + i)%nat else (4 * k + 2 * i + 1)%nat.

Lemma cq1_aq1 : forall i i', cq1 i <> aq1 i'.
Proof. intros i i'. unfold cq1, aq1. destruct (Nat.ltb_spec i k), (Nat.leb_spec i' j); lia. Qed.
Lemma aq1_inj : forall i i', aq1 i = aq1 i' -> i = i'.
Proof. intros i i'. unfold aq1. destruct (Nat.leb_spec i j), (Nat.leb_spec i' j); lia. Qed.
Lemma tq_cq1 : forall i, tq <> cq1 i.
Proof. intros i. unfold cq1, tq. destruct (Nat.ltb_spec i k); lia. Qed.
Lemma tq_aq1 : forall i, tq <> aq1 i.
Proof. intros i. unfold aq1, tq. destruct (Nat.leb_spec i j); lia. Qed.

Lemma chain_01 : chain cq0 (aq0 j) j = chain cq1 aq1 j.
Proof.
  apply chain_ext.
  - intros i Hi. unfold cq0, cq1. destruct (Nat.ltb_spec i k); auto; lia.
  - intros i Hi. unfold aq0, aq1. destruct (Nat.leb_spec i j); auto; lia.
Qed.

Lemma smcx2_ccx c1 c2 t psi : sapp (SMCX [c1; c2] t) psi = ccx c1 c2 t psi.
Proof.
  unfold sapp, ccx. f_equal. apply functional_extensionality; intros b. unfold allq. simpl. now rewrite andb_true_r.
Qed.

Lemma general_exact_round psi :
  srun (general j 1 false false) psi = round cq1 aq1 tq j (round cq1 aq1 tq j psi).
Proof.
  unfold general, first_gate. cbn [negb]. unfold toffoli_mt, targets, fan_l, fan_r. cbn [seq map length Nat.sub app nth].
  rewrite srun_cons, srun_app, srun_cons. unfold round.
  rewrite !chain_gates_sem, chain_01, !smcx2_ccx.
  assert (E1 : cq0 (j + 3 - 1) = cq1 (S (S j))).
  { unfold cq0, cq1. destruct (Nat.ltb_spec (S (S j)) k); lia. }
  assert (E2 : aq0 j (j + 1 - 1) = aq1 j).
  { unfold aq0, aq1. destruct (Nat.leb_spec j j); lia. }
  assert (E3 : (j + 3 + (j + 1) + 0)%nat = tq) by (unfold tq, k; lia).
  rewrite E1, E2, E3. reflexivity.
Qed.

(* all j+3 controls set *)
Definition all_controls (b : asg) : bool := forallb (fun c => get b c) (seq 0 k).

Lemma allc_cq1 : forall m, (m < k)%nat -> forall b, allc cq1 m b = forallb (fun c => get b c) (seq 0 (S m)).
Proof.
  induction m as [|m IH]; intros Hm b.
  - simpl. unfold cq1. destruct (Nat.ltb_spec 0 k); try lia. now rewrite andb_true_r.
  - cbn [allc]. rewrite IH by lia. rewrite (seq_S (S m)), forallb_app. simpl.
    unfold cq1. destruct (Nat.ltb_spec (S m) k); try lia. now rewrite andb_true_r.
Qed.

Theorem vchain_general_exact psi b :
  srun (general j 1 false false) psi b = psi (if all_controls b then flipq tq b else b).
Proof.
  rewrite general_exact_round.
  rewrite (two_rounds cq1 aq1 tq cq1_aq1 aq1_inj tq_cq1 tq_aq1).
  unfold isX. rewrite (allc_cq1 (S j)) by (unfold k; lia).
  unfold all_controls. replace k with (S (S (S j))) by (unfold k; lia).
  rewrite (seq_S (S (S j)) 0), forallb_app.
  unfold cq1. destruct (Nat.ltb_spec (S (S j)) k); try (unfold k in *; lia).
  cbn [forallb Nat.add]. now rewrite andb_true_r.
Qed.
End Exact.

(* ---------- relative-phase mode, one target: the permutation times a +-1 diagonal ---------- *)
Section Rel.
Variable j : nat.
Let k := (j + 3)%nat.
Let tq := (k + (j + 1))%nat.
Let cq2 (i : nat) := if (i <? k)%nat then i else (4 * k + 2 * i)%nat.
Let aq2 (i : nat) := if (i <=? S j)%nat then (k + i)%nat else (4 * k + 2 * i + 1)%nat.

Lemma cq2_aq2 : forall i i', cq2 i <> aq2 i'.
Proof. intros i i'. unfold cq2, aq2. destruct (Nat.ltb_spec i k), (Nat.leb_spec i' (S j)); lia. Qed.
Lemma aq2_inj : forall i i', aq2 i = aq2 i' -> i = i'.
Proof. intros i i'. unfold aq2. destruct (Nat.leb_spec i (S j)), (Nat.leb_spec i' (S j)); lia. Qed.

Lemma general_rel_chain psi :
  srun (general j 1 true false) psi = trun (chain cq2 aq2 j) (trun (chain cq2 aq2 (S j)) psi).
Proof.
  unfold general, first_gate.
  rewrite !srun_app, !chain_gates_sem.
  rewrite !srun_trun by apply toffoli_tlike. rewrite toffoli_R, toffoli_L.
  assert (C : chain cq0 (aq0 j) j = chain cq2 aq2 j).
  { apply chain_ext.
    - intros i Hi. unfold cq0, cq2. destruct (Nat.ltb_spec i k); auto; lia.
    - intros i Hi. unfold aq0, aq2. destruct (Nat.leb_spec i (S j)); auto; lia. }
  rewrite C. cbn [chain]. rewrite !trun_app.
  assert (E1 : cq0 (j + 3 - 1) = cq2 (S (S j))).
  { unfold cq0, cq2. destruct (Nat.ltb_spec (S (S j)) k); lia. }
  assert (E2 : aq0 j (j + 1 - 1) = aq2 j).
  { unfold aq0, aq2. destruct (Nat.leb_spec j (S j)); lia. }
  assert (E3 : (j + 3 + (j + 1))%nat = aq2 (S j)).
  { unfold aq2. destruct (Nat.leb_spec (S j) (S j)); lia. }
  rewrite E1, E2, E3. reflexivity.
Qed.

Theorem vchain_general_relphase psi b :
  srun (general j 1 true false) psi b =
  ((if isZ cq2 (S j) b then sgn (get b tq) else 1) * psi (if all_controls j b then flipq tq b else b))%C.
Proof.
  rewrite general_rel_chain, (relphase_spec cq2 aq2 cq2_aq2 aq2_inj).
  assert (T : aq2 (S j) = tq). { unfold aq2, tq. destruct (Nat.leb_spec (S j) (S j)); lia. }
  rewrite T. f_equal. f_equal.
  unfold isX. 
  assert (A : forall m, (m < k)%nat -> forall b, allc cq2 m b = forallb (fun c => get b c) (seq 0 (S m))).
  { induction m as [|m IH]; intros Hm b0.
    - simpl. unfold cq2. destruct (Nat.ltb_spec 0 k); try lia. now rewrite andb_true_r.
    - cbn [allc]. rewrite IH by lia. rewrite (seq_S (S m)), forallb_app. simpl.
      unfold cq2. destruct (Nat.ltb_spec (S m) k); try lia. now rewrite andb_true_r. }
  rewrite (A (S (S j))) by (unfold k; lia). unfold all_controls.
  replace (j + 3)%nat with (S (S (S j))) by lia. reflexivity.
Qed.
End Rel.
