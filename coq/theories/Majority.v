From Coq Require Import List Bool Arith Lia.
From QV Require Import GenLib.
Import ListNotations.

(* ---------- k-sublists (binomials: GenLib.binom) ---------- *)
Fixpoint combs {A} (k : nat) (l : list A) : list (list A) :=
  match k, l with
  | O, _ => [[]]
  | S _, [] => []
  | S k', x :: l' => map (cons x) (combs k' l') ++ combs k l'
  end.

Section Count.
Variable set : nat -> bool.          (* which control qubits are 1 in the basis input *)
Definition allset (s : list nat) := forallb set s.
Definition weight (l : list nat) := length (filter set l).
Definition fires (k : nat) (l : list nat) := length (filter allset (combs k l)).

Lemma filter_map_cons x (L : list (list nat)) :
  filter allset (map (cons x) L) = if set x then map (cons x) (filter allset L) else [].
Proof.
  induction L as [|s L IH]; simpl. now destruct (set x).
  unfold allset at 1. simpl. fold (allset s). rewrite IH.
  destruct (set x); simpl; auto. destruct (allset s); auto.
Qed.

Lemma binom_0 n : binom n 0 = 1. Proof. now destruct n. Qed.
Lemma combs_0 (l : list nat) : combs 0 l = [[]]. Proof. now destruct l. Qed.
Lemma fires_binom : forall l k, fires k l = binom (weight l) k.
Proof.
  unfold fires, weight. induction l as [|x l IH]; intros k.
  - destruct k; reflexivity.
  - destruct k as [|k].
    + rewrite combs_0, binom_0. reflexivity.
    + cbn [combs]. rewrite filter_app, app_length, filter_map_cons, (IH (S k)).
      cbn [filter]. destruct (set x); cbn [length binom].
      * now rewrite map_length, IH.
      * reflexivity.
Qed.
End Count.

(* ---------- the triangular degree rule ---------- *)
Definition parity_at (K : list nat) (w : nat) : bool :=
  Nat.odd (fold_right (fun k acc => binom w k + acc) 0 K).
(* process weights 0..n in increasing order *)
Fixpoint tri (nmin : nat) (ws : list nat) (K : list nat) : list nat :=
  match ws with
  | [] => K
  | w :: ws' => if Bool.eqb (parity_at K w) (nmin <=? w) then tri nmin ws' K else tri nmin ws' (K ++ [w])
  end.
Definition degrees (n : nat) : list nat := tri ((n + 1) / 2) (seq 0 (S n)) [].

Lemma parity_app K w k : parity_at (K ++ [k]) w = xorb (parity_at K w) (Nat.odd (binom w k)).
Proof.
  unfold parity_at. induction K as [|a K IH]; simpl.
  - rewrite Nat.add_0_r. now destruct (Nat.odd (binom w k)).
  - rewrite !Nat.odd_add, IH. now destruct (Nat.odd (binom w a)), (Nat.odd (fold_right _ 0 K)), (Nat.odd (binom w k)).
Qed.

Lemma tri_spec nmin : forall len start K,
  (forall w, w < start -> parity_at K w = (nmin <=? w)) ->
  forall w, w < start + len -> parity_at (tri nmin (seq start len) K) w = (nmin <=? w).
Proof.
  induction len as [|len IH]; intros start K HK w Hw; simpl.
  - apply HK; lia.
  - destruct (Bool.eqb (parity_at K start) (nmin <=? start)) eqn:E.
    + apply (IH (S start)); try lia. intros w' Hw'.
      destruct (Nat.eq_dec w' start) as [->|]; [now apply eqb_prop | apply HK; lia].
    + apply (IH (S start)); try lia. intros w' Hw'. rewrite parity_app.
      destruct (Nat.eq_dec w' start) as [->|Hne].
      * rewrite binom_nn. simpl. apply eqb_false_iff in E.
        destruct (parity_at K start), (nmin <=? start); simpl; congruence.
      * rewrite binom_gt by lia. simpl. rewrite xorb_false_r. apply HK; lia.
Qed.

Theorem degrees_majority n w : w <= n -> parity_at (degrees n) w = ((n + 1) / 2 <=? w).
Proof. intros H. unfold degrees. apply (tri_spec _ (S n) 0 []); [intros; lia | lia]. Qed.

(* threshold (n+1)/2 <= w  is  "at least half":  n <= 2w *)
Lemma half_iff n w : ((n + 1) / 2 <=? w) = (n <=? 2 * w).
Proof.
  destruct (Nat.leb_spec ((n+1)/2) w), (Nat.leb_spec n (2*w)); auto; exfalso;
  pose proof (Nat.div_mod (n+1) 2 ltac:(lia)); pose proof (Nat.mod_upper_bound (n+1) 2 ltac:(lia)); lia.
Qed.
Print Assumptions degrees_majority.
(* the current qclib list at n = 19 is wrong at weight 12 *)
Example current_refuted : parity_at [10; 16] 12 = false /\ (19 <=? 2 * 12) = true.
Proof. vm_compute. auto. Qed.
