(* C18: semantics of the FnPoints gate alphabet and a sound "sparse simulation": a state given as a finite list of
   (amplitude, basis state) entries is pushed through classical gates by permuting the basis states and through a
   controlled one-qubit gate by splitting entries.  [sim_sound] ties the list computation to the operator semantics. *)
From Coq Require Import Reals Lra List Bool Arith Lia NArith ZArith FunctionalExtensionality.
From Coquelicot Require Import Complex.
From QV Require Import Sem Mat2 Toff2 Chain Vchain Cvoqram FnPointsModel.
Import ListNotations.
Open Scope nat_scope.

Definition cis (x : R) : C := (cos x, sin x).

Section FSem.
Variable Nv : R.          (* N', the number of output values, as a real *)

(* qiskit's U(theta, phi, lambda) with theta = -2 acos sqrt(p/(p+1)), lambda = -2 pi s / N', phi = -lambda *)
Definition ftheta (p : nat) : R := (- 2 * acos (sqrt (INR p / (INR p + 1))))%R.
Definition fphi (s : Z) : R := (2 * PI * IZR s / Nv)%R.
Definition Umat (p : nat) (s : Z) : mat2 :=
  M2 (RtoC (cos (ftheta p / 2)))
     (- cis (- fphi s) * RtoC (sin (ftheta p / 2)))%C
     (cis (fphi s) * RtoC (sin (ftheta p / 2)))%C
     (cis (fphi s + - fphi s) * RtoC (cos (ftheta p / 2)))%C.

Definition fapp (g : fgate) (psi : state) : state :=
  match g with
  | FX q => app1 Xm q psi
  | FCX c t => appf (fun b => Xpow (get b c)) t psi
  | FCCX a b t => appf (fun x => Xpow (get x a && get x b)) t psi
  | FCU p s c t => fun b => if get b c then app1 (Umat p s) t psi b else psi b
  end.
Definition frun (c : list fgate) (psi : state) : state := fold_left (fun s g => fapp g s) c psi.
Lemma frun_app c1 c2 psi : frun (c1 ++ c2) psi = frun c2 (frun c1 psi).
Proof. unfold frun. now rewrite fold_left_app. Qed.

Definition fperm (g : fgate) (b : asg) : asg :=
  match g with
  | FX q => flipq q b
  | FCX c t => if get b c then flipq t b else b
  | FCCX a b' t => if get b a && get b b' then flipq t b else b
  | FCU _ _ _ _ => b
  end.
Definition wfg (g : fgate) : Prop :=
  match g with
  | FX _ => True | FCX c t => c <> t | FCCX a b t => a <> t /\ b <> t | FCU _ _ c t => c <> t
  end.

Lemma fperm_invol g b : wfg g -> fperm g (fperm g b) = b.
Proof.
  destruct g as [q|c t|a b' t|p s c t]; simpl; intros W.
  - apply flipq_flipq.
  - destruct (get b c) eqn:E; [|now rewrite E]. rewrite flq_other, E by auto. apply flipq_flipq.
  - destruct W as [Wa Wb]. destruct (get b a && get b b') eqn:E; [|now rewrite E].
    rewrite !flq_other, E by auto. apply flipq_flipq.
  - reflexivity.
Qed.

Lemma fapp_perm g psi : (match g with FCU _ _ _ _ => False | _ => True end) ->
  fapp g psi = fun b => psi (fperm g b).
Proof.
  destruct g as [q|c t|a b' t|p s c t]; simpl; intros H; try tauto; apply functional_extensionality; intros b.
  - apply app1_X.
  - unfold appf. destruct (get b c); simpl. apply app1_X. apply app1_I2.
  - unfold appf. destruct (get b a && get b b'); simpl. apply app1_X. apply app1_I2.
Qed.

(* ---------- finite superpositions of basis states ---------- *)
Definition entry := (C * asg)%type.
Fixpoint den (l : list entry) : state :=
  fun b => match l with [] => RtoC 0 | e :: r => (fst e * delta b (snd e) + den r b)%C end.
Lemma den_app l1 l2 b : den (l1 ++ l2) b = (den l1 b + den l2 b)%C.
Proof. induction l1 as [|e l1 IH]; simpl. ring. rewrite IH. ring. Qed.

Lemma delta_perm (pi : asg -> asg) : (forall b, pi (pi b) = b) -> forall b B, delta (pi b) B = delta b (pi B).
Proof.
  intros Hp b B. unfold delta.
  destruct (N.eqb_spec (pi b) B) as [E|E]; destruct (N.eqb_spec b (pi B)) as [F|F]; auto.
  - exfalso. apply F. now rewrite <- E, Hp.
  - exfalso. apply E. now rewrite F, Hp.
Qed.
Lemma den_perm (pi : asg -> asg) l : (forall b, pi (pi b) = b) ->
  (fun b => den l (pi b)) = den (map (fun e => (fst e, pi (snd e))) l).
Proof.
  intros Hp. apply functional_extensionality; intros b. induction l as [|e l IH]; simpl; auto.
  rewrite IH, (delta_perm pi Hp). reflexivity.
Qed.

Definition split (U : mat2) (c t : nat) (e : entry) : list entry :=
  if get (snd e) c
  then [ ((mget U false (get (snd e) t) * fst e)%C, upd (snd e) t false);
         ((mget U true (get (snd e) t) * fst e)%C, upd (snd e) t true) ]
  else [e].

Lemma delta_upd_l b t v B : delta (upd b t v) B = if Bool.eqb (get B t) v then delta b (upd B t (get b t)) else RtoC 0.
Proof.
  unfold delta.
  destruct (Bool.eqb (get B t) v) eqn:Ev.
  - apply eqb_prop in Ev.
    destruct (N.eqb_spec (upd b t v) B) as [E|E]; destruct (N.eqb_spec b (upd B t (get b t))) as [F|F]; auto.
    + exfalso. apply F. rewrite <- E, upd_upd. symmetry. apply upd_get.
    + exfalso. apply E. rewrite F, upd_upd, <- Ev. apply upd_get.
  - destruct (N.eqb_spec (upd b t v) B) as [E|E]; auto.
    exfalso. rewrite <- E, get_upd_same in Ev. now rewrite eqb_reflx in Ev.
Qed.

Lemma delta_get_neq b B q : get b q <> get B q -> delta b B = RtoC 0.
Proof. intros H. unfold delta. destruct (N.eqb_spec b B) as [->|E]; auto. congruence. Qed.

Lemma cu_single (U : mat2) c t a B b : c <> t ->
  (if get b c then app1 U t (fun x => (a * delta x B)%C) b else (a * delta b B)%C)
  = den (split U c t (a, B)) b.
Proof.
  intros Hct. unfold split. cbn [fst snd].
  destruct (get B c) eqn:EB.
  - cbn [den fst snd].
    destruct (get b c) eqn:Eb.
    + unfold app1. rewrite !delta_upd_l.
      destruct (get B t) eqn:Et; destruct (get b t) eqn:Ebt; cbn [Bool.eqb mget];
        try rewrite (delta_get_neq b (upd B t false) t) by (rewrite get_upd_same; congruence);
        try rewrite (delta_get_neq b (upd B t true) t) by (rewrite get_upd_same; congruence); ring.
    + rewrite (delta_get_neq b B c) by congruence.
      rewrite (delta_get_neq b (upd B t false) c) by (rewrite get_upd_other by auto; congruence).
      rewrite (delta_get_neq b (upd B t true) c) by (rewrite get_upd_other by auto; congruence). ring.
  - cbn [den fst snd].
    destruct (get b c) eqn:Eb.
    + rewrite (delta_get_neq b B c) by congruence.
      unfold app1.
      rewrite (delta_get_neq (upd b t false) B c) by (rewrite get_upd_other by auto; congruence).
      rewrite (delta_get_neq (upd b t true) B c) by (rewrite get_upd_other by auto; congruence). ring.
    + ring.
Qed.

Lemma app1_lin U t (f g : state) b : app1 U t (fun x => (f x + g x)%C) b = (app1 U t f b + app1 U t g b)%C.
Proof. unfold app1. ring. Qed.

Lemma den_cu (U : mat2) c t l : c <> t ->
  (fun b => if get b c then app1 U t (den l) b else den l b) = den (flat_map (split U c t) l).
Proof.
  intros Hct. apply functional_extensionality; intros b. induction l as [|[a B] l IH].
  - simpl. unfold app1. simpl. destruct (get b c); ring.
  - cbn [flat_map]. rewrite den_app, <- IH, <- (cu_single U c t a B b Hct).
    change (den ((a, B) :: l)) with (fun x => (a * delta x B + den l x)%C).
    destruct (get b c); [|reflexivity]. apply app1_lin.
Qed.

Definition sim1 (g : fgate) (l : list entry) : list entry :=
  match g with
  | FCU p s c t => flat_map (split (Umat p s) c t) l
  | _ => map (fun e => (fst e, fperm g (snd e))) l
  end.
Definition sim (gates : list fgate) (l : list entry) : list entry := fold_left (fun l g => sim1 g l) gates l.
Lemma sim_app c1 c2 l : sim (c1 ++ c2) l = sim c2 (sim c1 l).
Proof. unfold sim. now rewrite fold_left_app. Qed.

Lemma sim1_sound g l : wfg g -> fapp g (den l) = den (sim1 g l).
Proof.
  intros W. destruct g as [q|c t|a b' t|p s c t].
  - rewrite fapp_perm by exact I. apply (den_perm (fperm (FX q))). intros b. now apply fperm_invol.
  - rewrite fapp_perm by exact I. apply (den_perm (fperm (FCX c t))). intros b. now apply fperm_invol.
  - rewrite fapp_perm by exact I. apply (den_perm (fperm (FCCX a b' t))). intros b. now apply fperm_invol.
  - simpl. now apply den_cu.
Qed.

Theorem sim_sound gates : Forall wfg gates -> forall l, frun gates (den l) = den (sim gates l).
Proof.
  induction gates as [|g gs IH]; intros W l. reflexivity.
  inversion W; subst. cbn [frun sim fold_left]. rewrite sim1_sound by auto. now apply IH.
Qed.

(* classical gate lists act entrywise *)
Definition cls (gates : list fgate) (B : asg) : asg := fold_left (fun B g => fperm g B) gates B.
Definition classical (g : fgate) : bool := match g with FCU _ _ _ _ => false | _ => true end.
Lemma cls_app c1 c2 B : cls (c1 ++ c2) B = cls c2 (cls c1 B).
Proof. unfold cls. now rewrite fold_left_app. Qed.
Lemma sim_classical gates : forallb classical gates = true ->
  forall l, sim gates l = map (fun e => (fst e, cls gates (snd e))) l.
Proof.
  induction gates as [|g gs IH]; intros H l.
  - simpl. induction l as [|[a B] l IHl]; simpl; auto. now rewrite <- IHl.
  - simpl in H. apply andb_prop in H as [Hg Hgs]. cbn [sim fold_left].
    change (fold_left (fun l g => sim1 g l) gs (sim1 g l)) with (sim gs (sim1 g l)).
    rewrite IH by auto.
    destruct g; try discriminate; simpl; rewrite map_map; reflexivity.
Qed.
End FSem.
