From Coq Require Import Reals Lra List Bool Arith Lia NArith FunctionalExtensionality.
From Coquelicot Require Import Complex.
From QV Require Import Sem.
Import ListNotations.
Open Scope R_scope.

Definition mmul (a b : mat2) : mat2 :=
  M2 (m00 a * m00 b + m01 a * m10 b)%C (m00 a * m01 b + m01 a * m11 b)%C
     (m10 a * m00 b + m11 a * m10 b)%C (m10 a * m01 b + m11 a * m11 b)%C.
Definition I2 : mat2 := M2 1 0 0 1.
Lemma mat2_eq a b : m00 a = m00 b -> m01 a = m01 b -> m10 a = m10 b -> m11 a = m11 b -> a = b.
Proof. destruct a, b; simpl; intros; subst; reflexivity. Qed.
Lemma Ceq (x y : C) : fst x = fst y -> snd x = snd y -> x = y.
Proof. destruct x, y; simpl; intros; subst; reflexivity. Qed.
Ltac crush_m2 := apply mat2_eq; simpl; apply Ceq; simpl; ring.
Lemma mmul_I2_l a : mmul I2 a = a. Proof. apply mat2_eq; simpl; ring. Qed.
Lemma mmul_I2_r a : mmul a I2 = a. Proof. apply mat2_eq; simpl; ring. Qed.
Lemma mmul_assoc a b c : mmul a (mmul b c) = mmul (mmul a b) c.
Proof. apply mat2_eq; simpl; ring. Qed.

(* the four relations *)
Lemma Rm_add r x y : mmul (Rm r x) (Rm r y) = Rm r (x + y).
Proof.
  destruct r; unfold Rm, RYm, RZm; replace ((x+y)/2) with (x/2 + y/2) by field;
  rewrite cos_plus, sin_plus; crush_m2.
Qed.
Lemma Em_Em e : mmul (Em e) (Em e) = I2.
Proof. destruct e; unfold Em, Xm, Zm, I2; crush_m2. Qed.
Lemma Em_Rm r e x : (e = EntCX \/ r = RotY) -> mmul (Em e) (Rm r x) = mmul (Rm r (- x)) (Em e).
Proof.
  intros H; destruct e, r; try (destruct H; discriminate); unfold Rm, Em, RYm, RZm, Xm, Zm;
  replace (- x / 2) with (- (x/2)) by field; rewrite cos_neg, sin_neg; crush_m2.
Qed.
Lemma Rm_0 r : Rm r 0 = I2.
Proof. destruct r; unfold Rm, RYm, RZm, I2; replace (0/2) with 0 by field; rewrite cos_0, sin_0; crush_m2. Qed.
