(* Property C20 (geometric measure, the clause "lies in [0,1]"): whatever unit product state the optimiser returns, the value
   1 - |<product|state>|^2 that the library reports lies in [0, 1] (Cauchy-Schwarz), for every dimension.  The harness checks on
   every evaluated input that the reported measure is that expression of the returned, normalised product state. *)
From Coq Require Import Reals Lra.
From Coquelicot Require Import Complex.
From QV Require Import TopK Bessel.
Open Scope R_scope.

Theorem C20_geometric_range : forall (d : nat) (x y : nat -> C), nrm2 d x = 1 -> nrm2 d y = 1 ->
  0 <= 1 - Cn2 (inner d x y) <= 1.
Proof.
  intros d x y Hx Hy. pose proof (cauchy_schwarz d x y) as H. rewrite Hx, Hy in H.
  pose proof (Cn2_pos (inner d x y)). split; lra.
Qed.
Print Assumptions C20_geometric_range.

(* the bound 0 is attained: when the optimiser returns the state itself (a product state is its own closest product state),
   the reported value is exactly 0 *)
Theorem C20_geometric_zero_at_state : forall (d : nat) (x : nat -> C), nrm2 d x = 1 -> 1 - Cn2 (inner d x x) = 0.
Proof. intros d x Hx. rewrite inner_self, Hx, Cn2_RtoC. lra. Qed.
Print Assumptions C20_geometric_zero_at_state.
