From Coq Require Import Reals Lra List Bool Arith Lia NArith FunctionalExtensionality.
From Coquelicot Require Import Complex.
From QV Require Import Sem Mat2 UcrLocal Toff2 Chain.
Import ListNotations.
Open Scope R_scope.

(* every gate targets qubit 0, controls are not 0 *)
Definition gwf (g : gate) : Prop :=
  match g with GRot _ _ q => q = O | GEnt _ c t => t = O /\ c <> O end.
Lemma gapp_appf g psi : gwf g -> gapp g psi = appf (gmat g) O psi.
Proof.
  destruct g; simpl; intros H.
  - subst. reflexivity.
  - destruct H as [-> Hc]. apply functional_extensionality; intros b. unfold appf.
    cbn [gmat]. destruct (get b c); auto. symmetry; apply app1_I2.
Qed.
Lemma gmat_indep g : gwf g -> indep O (gmat g).
Proof.
  destruct g; simpl; intros H b v; cbn [gmat]; auto. destruct H as [_ Hc]. now rewrite get_upd_other.
Qed.
Lemma cmat_indep c : Forall gwf c -> indep O (cmat c).
Proof.
  induction 1; intros b v; simpl; auto. rewrite IHForall, gmat_indep; auto.
Qed.
Lemma appf_I2 t psi : appf (fun _ => I2) t psi = psi.
Proof. apply functional_extensionality; intros b. apply app1_I2. Qed.

Lemma run_cmat c : Forall gwf c -> forall psi, run c psi = appf (cmat c) O psi.
Proof.
  induction 1 as [|g c Hg Hc IH]; intros psi; simpl.
  - now rewrite appf_I2.
  - unfold run in *. simpl. rewrite IH, gapp_appf by auto.
    rewrite appf_appf by (apply gmat_indep; auto). reflexivity.
Qed.

Lemma ucr_nl_wf r e k : forall a, Forall gwf (ucr_nl r e k a).
Proof.
  induction k; intros a; simpl.
  - destruct (Req_EM_T (a O) 0); constructor; simpl; auto.
  - apply Forall_app; split; [apply IHk|]. constructor; [simpl; auto|].
    apply Forall_rev. apply IHk.
Qed.

Definition mux (r : rot) (k : nat) (a : nat -> R) (psi : state) : state :=
  fun b => app1 (Rm r (a (cidx k b))) O psi b.
Definition ucr (r : rot) (e : ent) (k : nat) (a : nat -> R) (last : bool) : list gate :=
  ucr_nl r e k a ++ match k with O => [] | S _ => if last then [GEnt e k O] else [] end.

Theorem ucr_spec r e k a : (e = EntCX \/ r = RotY) ->
  forall psi, run (ucr r e k a true) psi = mux r k a psi.
Proof.
  intros Hre psi.
  assert (W : Forall gwf (ucr r e k a true)).
  { unfold ucr. apply Forall_app; split; [apply ucr_nl_wf|]. destruct k; constructor; simpl; auto. }
  rewrite run_cmat by auto. apply functional_extensionality; intros b. unfold appf, mux.
  f_equal. unfold ucr. rewrite cmat_app. destruct (ucr_AB r e Hre k a b) as [A _].
  destruct k; simpl in *.
  - now rewrite mmul_I2_l in *.
  - rewrite mmul_I2_l. exact A.
Qed.
Theorem ucr_nolast_spec r e k a : (e = EntCX \/ r = RotY) ->
  forall psi, run (ucr r e k a false ++ match k with O => [] | S _ => [GEnt e k O] end) psi = mux r k a psi.
Proof.
  intros Hre psi. replace (ucr r e k a false ++ _) with (ucr r e k a true).
  now apply ucr_spec. unfold ucr. destruct k; now rewrite ?app_nil_r.
Qed.
Print Assumptions ucr_spec.
