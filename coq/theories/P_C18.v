(* Property C18: function-points preparation.  PARTIAL: the amplitude bookkeeping of the S matrix is a theorem (every
   stored point receives modulus 1/sqrt(m) whatever the order); the circuit structure is tied by gate-list correspondence
   (FnPointsModel.fn_gates) for every dictionary; the full-state claim is evaluated. *)
From Coq Require Import Reals Lra.
From QV Require Import FnPointsModel.
Open Scope R_scope.

Theorem C18_theta : forall p, 0 <= p ->
  cos (2 * acos (sqrt (p / (p + 1))) / 2) = sqrt (p / (p + 1)) /\ sin (2 * acos (sqrt (p / (p + 1))) / 2) = sqrt (1 / (p + 1)).
Proof. exact fn_theta. Qed.
Print Assumptions C18_theta.

Theorem C18_split : forall p m, 0 <= p -> 0 < m ->
  sqrt (p / (p + 1)) * sqrt ((p + 1) / m) = sqrt (p / m) /\ sqrt (1 / (p + 1)) * sqrt ((p + 1) / m) = sqrt (1 / m).
Proof. exact fn_split. Qed.
Print Assumptions C18_split.
