(* Property C18: function-points preparation.  C18_fn_state is the full statement on the gate list of the model
   (FnPointsModel.fn_gates, tied to FnPointsInitialize by gate-list correspondence for every dictionary): for every n >= 2,
   every non-empty list of pairwise distinct n-bit inputs in any order, every output assignment and every N', the circuit
   run from |0..0> has amplitude -(1/sqrt m) (cos + i sin)(2 pi s / N') on the basis state whose x register holds the input
   and whose work qubits (g, c0, c1) are 0, and amplitude 0 on every other basis state.  C18_target_bits says which basis
   state that is.  C18_theta / C18_split are the amplitude bookkeeping of the S matrix used by the proof. *)
From Coq Require Import Reals Lra List ZArith.
From Coquelicot Require Import Complex.
From QV Require Import Sem TopDownWalk FnPointsModel FnSem FnBits FnLoop FnUniform.
Import ListNotations.
Open Scope R_scope.

Theorem C18_theta : forall p, 0 <= p ->
  cos (2 * acos (sqrt (p / (p + 1))) / 2) = sqrt (p / (p + 1)) /\ sin (2 * acos (sqrt (p / (p + 1))) / 2) = sqrt (1 / (p + 1)).
Proof. exact fn_theta. Qed.
Print Assumptions C18_theta.

Theorem C18_split : forall p m, 0 <= p -> 0 < m ->
  sqrt (p / (p + 1)) * sqrt ((p + 1) / m) = sqrt (p / m) /\ sqrt (1 / (p + 1)) * sqrt ((p + 1) / m) = sqrt (1 / m).
Proof. exact fn_split. Qed.
Print Assumptions C18_split.

Theorem C18_fn_state : forall (n : nat) (Nv : R) (ps : list (list bool * Z)), (2 <= n)%nat -> ps <> [] ->
  pw (fun z z' => eqx n z z' = false) (map fst ps) ->
  forall b, frun Nv (fn_gates n ps) ket0 b
  = den (map (fun p => ((- RtoC (sqrt (1 / INR (length ps))) * cis (fphi Nv (snd p)))%C, E n (fst p) false false)) ps) b.
Proof. exact fn_state. Qed.
Print Assumptions C18_fn_state.

(* uniform magnitude: each of the m coefficients in C18_fn_state has squared modulus 1/m, whatever the output value and N' *)
Theorem C18_uniform_magnitude : forall (m : nat) (Nv : R) (s : Z), (0 < m)%nat ->
  (Cmod (- RtoC (sqrt (1 / INR m)) * cis (fphi Nv s))%C)² = 1 / INR m.
Proof. exact fn_coeff_uniform. Qed.
Print Assumptions C18_uniform_magnitude.

Theorem C18_target_bits : forall (n : nat) (z : list bool) (q : nat), (2 <= n)%nat ->
  get (E n z false false) q = if (q <? n)%nat then bit z (n - 1 - q) else false.
Proof. exact E_bits. Qed.
Print Assumptions C18_target_bits.

Theorem ex_C18_hypotheses : pw (fun z z' => eqx 2 z z' = false) (map fst [([false; true], 1%Z); ([true; true], 0%Z); ([false; false], 3%Z)]).
Proof. exact ex_pw. Qed.
Print Assumptions ex_C18_hypotheses.
