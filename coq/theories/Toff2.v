From Coq Require Import Reals Lra List Bool Arith Lia NArith FunctionalExtensionality.
From Coquelicot Require Import Complex.
From QV Require Import Sem Mat2.
Import ListNotations.
Open Scope R_scope.

Definition mZ : mat2 := M2 (-1)%R 0 0 1.     (* -Z *)
Definition Xpow (q : bool) : mat2 := if q then Xm else I2.
Definition th := PI / 4.
Definition Amat (c : bool) : mat2 := mmul (RYm (- th)) (mmul (Xpow c) (RYm (- th))).
Definition Ainv (c : bool) : mat2 := mmul (RYm th) (mmul (Xpow c) (RYm th)).

Lemma RY_add x y : mmul (RYm x) (RYm y) = RYm (x + y). Proof. exact (Rm_add RotY x y). Qed.
Lemma X_RY x : mmul Xm (RYm x) = mmul (RYm (- x)) Xm.
Proof. apply (Em_Rm RotY EntCX x). now left. Qed.
Lemma XX : mmul Xm Xm = I2. Proof. exact (Em_Em EntCX). Qed.
Lemma RY_0 : RYm 0 = I2. Proof. exact (Rm_0 RotY). Qed.

Lemma Amat_true : Amat true = Xm.
Proof.
  unfold Amat, Xpow. rewrite X_RY, mmul_assoc, RY_add.
  replace (- th + - - th) with 0 by ring. now rewrite RY_0, mmul_I2_l.
Qed.
Lemma Ainv_true : Ainv true = Xm.
Proof.
  unfold Ainv, Xpow. rewrite X_RY, mmul_assoc, RY_add.
  replace (th + - th) with 0 by ring. now rewrite RY_0, mmul_I2_l.
Qed.
Lemma Amat_false : Amat false = RYm (- (PI/2)).
Proof. unfold Amat, Xpow. rewrite mmul_I2_l, RY_add. f_equal. unfold th. field. Qed.
Lemma Ainv_false : Ainv false = RYm (PI/2).
Proof. unfold Ainv, Xpow. rewrite mmul_I2_l, RY_add. f_equal. unfold th. field. Qed.

Lemma RY_PI : RYm (- PI) = M2 0 1 (-1)%R 0.
Proof.
  unfold RYm. replace (- PI / 2) with (- (PI/2)) by field.
  rewrite cos_neg, sin_neg, cos_PI2, sin_PI2. apply mat2_eq; simpl; apply Ceq; simpl; ring.
Qed.

Lemma AinvXA (c q : bool) :
  mmul (Ainv c) (mmul (Xpow q) (Amat c)) = if q then (if c then Xm else mZ) else I2.
Proof.
  destruct q, c; unfold Xpow at 1.
  - rewrite Amat_true, Ainv_true, XX. apply mmul_I2_r.
  - rewrite Amat_false, Ainv_false, X_RY, mmul_assoc, RY_add.
    replace (PI/2 + - - (PI/2)) with PI by field.
    (* RY(PI) X *) unfold RYm. replace (PI/2) with (PI/2) by reflexivity.
    rewrite cos_PI2, sin_PI2. unfold mZ, Xm. apply mat2_eq; simpl; apply Ceq; simpl; ring.
  - rewrite mmul_I2_l, Amat_true, Ainv_true. apply XX.
  - rewrite mmul_I2_l, Amat_false, Ainv_false, RY_add.
    replace (PI/2 + - (PI/2)) with 0 by field. apply RY_0.
Qed.
