(* C15 on the rotation/entangler IR (Sem.gate) used by the multiplexer and top-down models: inverse in both orders and
   the spectator law. *)
From Coq Require Import Reals Lra List Bool Arith Lia NArith FunctionalExtensionality.
From Coquelicot Require Import Complex.
From QV Require Import Sem Mat2 UcrLocal UcrSpec Toff2 Chain IrProps.
Import ListNotations.
Open Scope R_scope.

Definition gwf2 (g : gate) : Prop := match g with GRot _ _ _ => True | GEnt _ c t => c <> t end.
Definition ginv (g : gate) : gate := match g with GRot r x q => GRot r (- x) q | GEnt e c t => GEnt e c t end.
Definition ginv_list (c : list gate) : list gate := rev (map ginv c).
Definition gqubits (g : gate) : list nat := match g with GRot _ _ q => [q] | GEnt _ c t => [c; t] end.

Lemma gapp_rot r x q psi : gapp (GRot r x q) psi = appf (fun _ => Rm r x) q psi.
Proof. reflexivity. Qed.
Lemma gapp_ent e c t psi : gapp (GEnt e c t) psi = appf (fun b => if get b c then Em e else I2) t psi.
Proof.
  apply functional_extensionality; intros b. cbn [gapp]. unfold appf. destruct (get b c); auto.
  symmetry. apply app1_I2.
Qed.

Lemma gapp_inv g psi : gwf2 g -> gapp (ginv g) (gapp g psi) = psi.
Proof.
  destruct g as [r x q|e c t]; cbn [ginv gwf2]; intros W.
  - rewrite !gapp_rot, appf_appf by (intros b v; reflexivity).
    rewrite Rm_add. replace (- x + x) with 0 by ring. rewrite Rm_0. apply UcrSpec.appf_I2.
  - rewrite !gapp_ent, appf_appf by (intros b v; now rewrite get_upd_other by auto).
    replace (fun b => mmul (if get b c then Em e else I2) (if get b c then Em e else I2)) with (fun _ : asg => I2).
    apply UcrSpec.appf_I2. apply functional_extensionality; intros b.
    destruct (get b c). now rewrite Em_Em. now rewrite mmul_I2_l.
Qed.
Lemma ginv_invol g : ginv (ginv g) = g.
Proof. destruct g; cbn [ginv]; auto. now rewrite Ropp_involutive. Qed.
Lemma gwf2_ginv g : gwf2 g -> gwf2 (ginv g).
Proof. destruct g; auto. Qed.

Theorem ginverse_right c : Forall gwf2 c -> forall psi, run (c ++ ginv_list c) psi = psi.
Proof.
  induction 1 as [|g c Hg Hc IH]; intros psi. reflexivity.
  unfold ginv_list. cbn [map rev]. rewrite <- app_comm_cons.
  change (run (g :: ?l) psi) with (run l (gapp g psi)).
  unfold run. rewrite app_assoc, fold_left_app. fold (run (c ++ rev (map ginv c)) (gapp g psi)).
  fold (ginv_list c). rewrite IH. simpl. now apply gapp_inv.
Qed.
Theorem ginverse_left c : Forall gwf2 c -> forall psi, run (ginv_list c ++ c) psi = psi.
Proof.
  intros H psi.
  assert (E : c = ginv_list (ginv_list c)).
  { unfold ginv_list. rewrite map_rev, rev_involutive, map_map. rewrite <- (map_id c) at 1.
    apply map_ext. intros g. now rewrite ginv_invol. }
  rewrite E at 2. apply ginverse_right. unfold ginv_list. apply Forall_rev.
  apply Forall_forall. intros g Hg. apply in_map_iff in Hg as [g' [<- Hin]]. apply gwf2_ginv.
  rewrite Forall_forall in H. auto.
Qed.

Lemma gapp_setq g q v psi : ~ In q (gqubits g) -> gapp g (setq q v psi) = setq q v (gapp g psi).
Proof.
  destruct g as [r x t|e c t]; cbn [gqubits]; intros H.
  - rewrite !gapp_rot. apply appf_setq.
    + intro E; apply H; left; auto.
    + intros b w; reflexivity.
  - rewrite !gapp_ent. apply appf_setq.
    + intro E; apply H; right; left; auto.
    + intros b w. rewrite get_upd_other; auto. intro E; apply H; left; auto.
Qed.
Theorem gspectator c q v : (forall g, In g c -> ~ In q (gqubits g)) ->
  forall psi, run c (setq q v psi) = setq q v (run c psi).
Proof.
  induction c as [|g c IH]; intros H psi. reflexivity.
  change (run (g :: c) ?f) with (run c (gapp g f)).
  rewrite gapp_setq by (apply H; now left). apply IH. intros g' Hg. apply H. now right.
Qed.
