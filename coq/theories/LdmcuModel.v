(* C04, Ldmcu: the gate list in the order the code emits it (pairs sorted by control + target, stably) denotes the same
   operator as the grouped form of LdmcuCore.v; hence the multi-controlled U. *)
From Coq Require Import Reals Lra List Bool Arith Lia NArith ZArith FunctionalExtensionality Permutation Sorted.
From Coquelicot Require Import Complex.
From QV Require Import Sem Mat2 Toff2 Chain Vchain Cvoqram McxMulti Resort LdmcuCore.
Import ListNotations.
Open Scope nat_scope.

(* [(c, t) for t in range(n) for c in range(start, t)] with the weight z c on each pair *)
Definition grp (start : nat) (z : nat -> Z) (t : nat) : list lg := map (fun c => LG c t (z c)) (seq start (t - start)).
Definition gpairs (n start : nat) (z : nat -> Z) : list lg := flat_map (grp start z) (seq 0 n).
Definition kdesc (n : nat) (g : lg) : nat := 2 * n - (gc g + gt g).
Definition kasc (g : lg) : nat := gc g + gt g.
Definition sweep_desc (n : nat) (z : nat -> Z) : list lg := isort lg (kdesc n) (gpairs n 0 z).
Definition sweep_asc (n : nat) (z : nat -> Z) : list lg := isort lg kasc (gpairs n 1 z).
Definition nwt (c : nat) : Z := (- wt c)%Z.
(* Ldmcu with T controls 0..T-1 and target T, all controls positive *)
Definition ldmcu_core (T : nat) : list lg :=
  sweep_desc (T + 1) wt ++ sweep_asc (T + 1) nwt ++ sweep_desc T wt' ++ sweep_asc T nwt.

Lemma in_gpairs n start z g : In g (gpairs n start z) -> start <= gc g /\ gc g < gt g /\ gt g < n.
Proof.
  unfold gpairs, grp. intros H. apply in_flat_map in H as [t [Ht Hg]]. apply in_seq in Ht.
  apply in_map_iff in Hg as [c [<- Hc]]. apply in_seq in Hc. simpl. lia.
Qed.

Lemma rev_seq_sorted N n : StronglySorted (fun a a' => N - a <= N - a') (rev (seq 0 n)).
Proof.
  induction n as [|n IH]. constructor.
  rewrite seq_S, rev_app_distr. simpl. constructor; auto.
  rewrite Forall_forall. intros a Ha. apply in_rev in Ha. apply in_seq in Ha. lia.
Qed.
Lemma seq_sorted a n : StronglySorted (fun x y => x <= y) (seq a n).
Proof.
  revert a. induction n as [|n IH]; intros a. constructor. simpl. constructor; auto.
  rewrite Forall_forall. intros x Hx. apply in_seq in Hx. lia.
Qed.

Section Sem.
Variable E : nat -> Z -> mat2.
Hypothesis E_add : forall t a b, E t (a + b)%Z = mmul (E t a) (E t b).
Hypothesis E_0 : forall t, E t 0%Z = I2.

Definition wfg (g : lg) : Prop := gc g <> gt g.
Definition comm (g h : lg) : Prop := wfg g /\ wfg h /\ gt g <> gc h /\ gt h <> gc g.
Lemma comm_dec g h : comm g h \/ ~ comm g h.
Proof.
  unfold comm, wfg.
  destruct (Nat.eq_dec (gc g) (gt g)), (Nat.eq_dec (gc h) (gt h)), (Nat.eq_dec (gt g) (gc h)), (Nat.eq_dec (gt h) (gc g));
    try (right; intros [? [? [? ?]]]; congruence). left. auto.
Qed.
Lemma comm_ok g h s : comm g h -> lapp E g (lapp E h s) = lapp E h (lapp E g s).
Proof.
  intros [Wg [Wh [H1 H2]]]. unfold wfg in *.
  destruct (Nat.eq_dec (gt g) (gt h)) as [Et|Et].
  - rewrite !(lapp_WG E E_0). rewrite Et. rewrite !(WG_WG E E_add).
    + apply WG_ext. intros b. ring.
    + intros b v. unfold wbit. rewrite get_upd_other by congruence. reflexivity.
    + intros b v. unfold wbit. rewrite get_upd_other by congruence. reflexivity.
  - unfold lapp. apply appf_comm; auto.
    + intros b v. unfold lf. now rewrite get_upd_other by auto.
    + intros b v. unfold lf. now rewrite get_upd_other by auto.
Qed.

Lemma lrun_grun l s : lrun E l s = grun lg state (lapp E) l s.
Proof. reflexivity. Qed.

(* sweep in descending order of control + target = groups in descending order of target *)
Lemma sweep_desc_sem n z s : lrun E (sweep_desc n z) s = lrun E (flat_map (grp 0 z) (rev (seq 0 n))) s.
Proof.
  rewrite !lrun_grun.
  apply (resort lg state (lapp E) comm comm_ok (kdesc n) (fun g => n - gt g)).
  - unfold sweep_desc. eapply perm_trans. apply isort_perm. unfold gpairs.
    apply Permutation_flat_map. apply Permutation_rev.
  - apply isort_sorted.
  - apply (sorted_flat_map (grp 0 z) (fun a => n - a) (fun g => n - gt g)).
    + intros a x _ Hx. unfold grp in Hx. apply in_map_iff in Hx as [c [<- _]]. reflexivity.
    + apply rev_seq_sorted.
  - intros g h Hg Hh NC K1.
    apply (Permutation_in _ (isort_perm lg (kdesc n) _)) in Hg, Hh.
    apply in_gpairs in Hg, Hh. unfold kdesc in K1.
    assert (D : gt g = gc h \/ gt h = gc g).
    { destruct (Nat.eq_dec (gt g) (gc h)); auto. destruct (Nat.eq_dec (gt h) (gc g)); auto.
      exfalso. apply NC. unfold comm, wfg. lia. }
    lia.
  - intros; apply comm_dec.
Qed.
Lemma sweep_asc_sem n z s : lrun E (sweep_asc n z) s = lrun E (flat_map (grp 1 z) (seq 0 n)) s.
Proof.
  rewrite !lrun_grun.
  apply (resort lg state (lapp E) comm comm_ok kasc (fun g => gt g)).
  - unfold sweep_asc. apply isort_perm.
  - apply isort_sorted.
  - apply (sorted_flat_map (grp 1 z) (fun a => a) (fun g => gt g)).
    + intros a x _ Hx. unfold grp in Hx. apply in_map_iff in Hx as [c [<- _]]. reflexivity.
    + apply seq_sorted.
  - intros g h Hg Hh NC K1.
    apply (Permutation_in _ (isort_perm lg kasc _)) in Hg, Hh.
    apply in_gpairs in Hg, Hh. unfold kasc in K1.
    assert (D : gt g = gc h \/ gt h = gc g).
    { destruct (Nat.eq_dec (gt g) (gc h)); auto. destruct (Nat.eq_dec (gt h) (gc g)); auto.
      exfalso. apply NC. unfold comm, wfg. lia. }
    lia.
  - intros; apply comm_dec.
Qed.

(* the nested form of LdmcuCore is the concatenation of the groups *)
Lemma grp_A t : grp 0 wt t = A t.
Proof. unfold grp, A. now rewrite Nat.sub_0_r. Qed.
Lemma grp_A' t : grp 0 wt' t = A' t.
Proof. unfold grp, A'. now rewrite Nat.sub_0_r. Qed.
Lemma grp_B t : grp 1 nwt t = B t.
Proof. reflexivity. Qed.
Lemma Sl_flat m : Sl m = flat_map A (rev (seq 1 m)) ++ flat_map B (seq 1 m).
Proof.
  induction m as [|m IH]. reflexivity.
  cbn [Sl]. rewrite IH. rewrite (seq_S m 1), rev_app_distr, !flat_map_app. cbn [rev app flat_map Nat.add].
  rewrite !app_nil_r, <- !app_assoc. reflexivity.
Qed.
Lemma Sl'_flat m : Sl' m = flat_map A' (rev (seq 1 m)) ++ flat_map B (seq 1 m).
Proof.
  induction m as [|m IH]. reflexivity.
  cbn [Sl']. rewrite IH. rewrite (seq_S m 1), rev_app_distr, !flat_map_app. cbn [rev app flat_map Nat.add].
  rewrite !app_nil_r, <- !app_assoc. reflexivity.
Qed.
Lemma desc_groups (G : nat -> list lg) m : G 0 = [] -> flat_map G (rev (seq 0 (S m))) = flat_map G (rev (seq 1 m)).
Proof. intros H. cbn [seq]. cbn [rev]. rewrite flat_map_app. simpl. rewrite H. now rewrite !app_nil_r. Qed.
Lemma asc_groups (G : nat -> list lg) m : G 0 = [] -> flat_map G (seq 0 (S m)) = flat_map G (seq 1 m).
Proof. intros H. cbn [seq flat_map]. now rewrite H. Qed.

Variable T : nat.
Hypothesis HT : 1 <= T.
Hypothesis E_full : forall j, 1 <= j -> j < T -> E j (2 ^ Z.of_nat (j - 1))%Z = NX.

Theorem ldmcu_core_sem psi :
  lrun E (ldmcu_core T) psi = appf (fun b => if ones T b then E T (2 ^ Z.of_nat (T - 1))%Z else I2) T psi.
Proof.
  rewrite <- (grouped_sem E E_add E_0 T E_full psi HT).
  unfold ldmcu_core. rewrite !lrun_app. rewrite sweep_desc_sem, sweep_asc_sem, sweep_desc_sem, sweep_asc_sem.
  rewrite <- !lrun_app. f_equal.
  rewrite Sl_flat, Sl'_flat. replace (T + 1) with (S T) by lia.
  destruct T as [|m]. lia. replace (S m - 1) with m by lia.
  rewrite (desc_groups (grp 0 wt)), (asc_groups (grp 1 nwt)), (desc_groups (grp 0 wt')), (asc_groups (grp 1 nwt)) by reflexivity.
  rewrite <- !app_assoc.
  rewrite (flat_map_ext (grp 0 wt) A grp_A), (flat_map_ext (grp 0 wt') A' grp_A').
  rewrite !(flat_map_ext (grp 1 nwt) B grp_B). reflexivity.
Qed.
End Sem.
