(* C03, column-by-column scheme: the one-qubit gate of isometry._unitary (Lemma 2 of Iten et al.) built from a pair of amplitudes
   (c1, c2) = nrm (p1, p2), |p1|^2 + |p2|^2 = 1.  basis = 0: rows (conj p1, conj p2), (-p2, p1); basis = 1: the rows swapped.
   The gate is unitary and maps the pair to (nrm, 0) resp. (0, nrm): this is the zeroing step of every multiplexer entry of a
   column sweep.  Any field with an involutive ring morphism conj. *)
From mathcomp Require Import all_ssreflect all_algebra.
From mathcomp Require Import ring.
Set Implicit Arguments. Unset Strict Implicit. Unset Printing Implicit Defensive.
Import GRing.Theory.
Local Open Scope ring_scope.

Section Pair.
Variable (F : fieldType) (conj : {rmorphism F -> F}).
Hypothesis conjK : forall x, conj (conj x) = x.
Variables p1 p2 nrm : F.
Hypothesis unit_pair : p1 * conj p1 + p2 * conj p2 = 1.

(* entries u r c of the gate for basis = 0 *)
Definition u00 := conj p1.  Definition u01 := conj p2.
Definition u10 := - p2.     Definition u11 := p1.

Lemma pair_to_first : u00 * (nrm * p1) + u01 * (nrm * p2) = nrm /\ u10 * (nrm * p1) + u11 * (nrm * p2) = 0.
Proof.
  rewrite /u00 /u01 /u10 /u11. split; last by ring.
  have -> : conj p1 * (nrm * p1) + conj p2 * (nrm * p2) = nrm * (p1 * conj p1 + p2 * conj p2) by ring.
  by rewrite unit_pair mulr1.
Qed.

(* U U^dagger = 1 (rows orthonormal) and U^dagger U = 1 (columns orthonormal) *)
Lemma pair_unitary_rows :
  [/\ u00 * conj u00 + u01 * conj u01 = 1, u00 * conj u10 + u01 * conj u11 = 0,
      u10 * conj u00 + u11 * conj u01 = 0 & u10 * conj u10 + u11 * conj u11 = 1].
Proof.
  rewrite /u00 /u01 /u10 /u11 !rmorphN /= !conjK. split; [ | by ring | by ring | ].
  - by rewrite mulrC [conj p2 * _]mulrC unit_pair.
  - have -> : - p2 * - conj p2 + p1 * conj p1 = p1 * conj p1 + p2 * conj p2 by ring. exact: unit_pair.
Qed.
Lemma pair_unitary_cols :
  [/\ conj u00 * u00 + conj u10 * u10 = 1, conj u00 * u01 + conj u10 * u11 = 0,
      conj u01 * u00 + conj u11 * u10 = 0 & conj u01 * u01 + conj u11 * u11 = 1].
Proof.
  rewrite /u00 /u01 /u10 /u11 !rmorphN /= !conjK. split; [ | by ring | by ring | ].
  - have -> : p1 * conj p1 + - conj p2 * - p2 = p1 * conj p1 + p2 * conj p2 by ring. exact: unit_pair.
  - have -> : p2 * conj p2 + conj p1 * p1 = p1 * conj p1 + p2 * conj p2 by ring. exact: unit_pair.
Qed.
End Pair.
