(* C18: every coefficient of the function-points state has squared modulus 1/m (uniform magnitude, phase-encoded). *)
From Coq Require Import Reals Lra List ZArith.
From Coquelicot Require Import Complex.
From QV Require Import Sem TopDownWalk FnPointsModel FnSem FnBits FnLoop.
Open Scope R_scope.
Lemma fn_coeff_uniform (m : nat) (Nv : R) (s : Z) : (0 < m)%nat ->
  (Cmod (- RtoC (sqrt (1 / INR m)) * cis (fphi Nv s))%C)² = 1 / INR m.
Proof.
  intros Hm. assert (0 < INR m) by (apply lt_0_INR; exact Hm).
  assert (P : 0 <= 1 / INR m) by (apply Rlt_le, Rdiv_lt_0_compat; lra).
  rewrite Cmod_mult, Cmod_opp, Cmod_R, Rsqr_mult.
  assert (E1 : (Rabs (sqrt (1 / INR m)))² = 1 / INR m).
  { rewrite <- Rsqr_abs. now apply Rsqr_sqrt. }
  assert (E2 : (Cmod (cis (fphi Nv s)))² = 1).
  { unfold Cmod, FnSem.cis. rewrite Rsqr_sqrt; simpl.
    - pose proof (sin2_cos2 (fphi Nv s)) as T. unfold Rsqr in T. lra.
    - nra. }
  rewrite E1, E2. lra.
Qed.
